(* Spec/SendRef.v — independent reference decoder for transmitted frames
   (Ethernet II / ARP RFC 826 / IPv4 RFC 791 / IPv6 RFC 8200 / ICMP RFC 792,
   4443 / UDP RFC 768 / NDP RFC 4861) and the well-formedness predicates of
   property C07, written from the RFCs and the property text, not from the
   library's encoders.  Everything is executable (bool). *)
From PV Require Export Base.Prelude Spec.OnesComplement.
Open Scope N_scope.

Definition w16 (l : bytes) (o : nat) : N := be16 (nth o l 0) (nth (S o) l 0).
Definition w32 (l : bytes) (o : nat) : N := be32 (nth o l 0) (nth (o + 1) l 0) (nth (o + 2) l 0) (nth (o + 3) l 0).

(* N -> nat by iteration (small values: header lengths) *)
Definition natN (n : N) : nat := N.iter n S O.

Fixpoint beq (a b : bytes) : bool :=
  match a, b with
  | [], [] => true
  | x :: a', y :: b' => (x =? y) && beq a' b'
  | _, _ => false
  end.

Definition lenb (l : bytes) (n : nat) : bool := Nat.eqb (List.length l) n.

(* ---------------------------------------------------------------- *)
(* decoded layers *)

Inductive l4 :=
| L4Icmp (typ code : N) (rest : bytes)            (* rest = bytes after type, code, checksum *)
| L4Udp (sport dport cks : N) (payload : bytes)
| L4Raw (payload : bytes).

Inductive l3 :=
| L3Arp (op : N) (sha spa tha tpa : bytes)
| L3Ip4 (tos ident flagsfrag ttl proto : N) (src dst : bytes) (p : l4)
| L3Ip6 (tcflow nh hop : N) (src dst : bytes) (p : l4).

Record frame := mkFrame { f_dst : bytes; f_src : bytes; f_type : N; f_l3 : l3 }.

(* ICMP (v4 and v6): 4-byte header present *)
Definition dec_icmp (m : bytes) : option l4 :=
  if Nat.ltb (List.length m) 4 then None else Some (L4Icmp (nth 0 m 0) (nth 1 m 0) (skipn 4 m)).

(* UDP: 8-byte header, Length field = header + data = everything that is left *)
Definition dec_udp (m : bytes) : option l4 :=
  if Nat.ltb (List.length m) 8 then None
  else if w16 m 4 =? N.of_nat (List.length m)
  then Some (L4Udp (w16 m 0) (w16 m 2) (w16 m 6) (skipn 8 m)) else None.

(* ARP for IPv4 over Ethernet: exactly 28 bytes, htype 1, ptype 0x0800, hlen 6, plen 4 *)
Definition dec_arp (m : bytes) : option l3 :=
  if lenb m 28 && (w16 m 0 =? 1) && (w16 m 2 =? 2048) && (nth 4 m 0 =? 6) && (nth 5 m 0 =? 4)
  then Some (L3Arp (w16 m 6) (sub m 8 6) (sub m 14 4) (sub m 18 6) (sub m 24 4)) else None.

(* IPv4: version 4, IHL >= 5 and inside the packet, Total Length = everything that is left *)
Definition dec_ip4 (m : bytes) : option l3 :=
  if Nat.ltb (List.length m) 20 then None else
  let ver := nth 0 m 0 / 16 in
  let ihl := natN (nth 0 m 0 mod 16) in
  if (ver =? 4) && Nat.leb 5 ihl && Nat.leb (Nat.mul ihl 4) (List.length m) && (w16 m 2 =? N.of_nat (List.length m)) then
    let proto := nth 9 m 0 in
    let pl := skipn (Nat.mul ihl 4) m in
    let p := if proto =? 1 then dec_icmp pl else if proto =? 17 then dec_udp pl else Some (L4Raw pl) in
    match p with
    | Some p => Some (L3Ip4 (nth 1 m 0) (w16 m 4) (w16 m 6) (nth 8 m 0) proto (sub m 12 4) (sub m 16 4) p)
    | None => None
    end
  else None.

(* IPv6: version 6, Payload Length = everything after the 40-byte header; no extension headers expected *)
Definition dec_ip6 (m : bytes) : option l3 :=
  if Nat.ltb (List.length m) 40 then None else
  if (nth 0 m 0 / 16 =? 6) && (w16 m 4 =? N.of_nat (List.length m - 40)) then
    let nh := nth 6 m 0 in
    let pl := skipn 40 m in
    let p := if nh =? 58 then dec_icmp pl else if nh =? 17 then dec_udp pl else Some (L4Raw pl) in
    match p with
    | Some p => Some (L3Ip6 (w32 m 0 mod 268435456) nh (nth 7 m 0) (sub m 8 16) (sub m 24 16) p)
    | None => None
    end
  else None.

Definition ref_decode (fr : bytes) : option frame :=
  if Nat.ltb (List.length fr) 14 then None else
  let et := w16 fr 12 in
  let pl := skipn 14 fr in
  let l3 := if et =? 2054 then dec_arp pl else if et =? 2048 then dec_ip4 pl
            else if et =? 34525 then dec_ip6 pl else None in
  match l3 with
  | Some x => Some (mkFrame (sub fr 0 6) (sub fr 6 6) et x)
  | None => None
  end.

(* ---------------------------------------------------------------- *)
(* checksums (RFC 1071 verification: the one's-complement sum over the covered bytes is 0xffff) *)

(* IPv4 header checksum (the header is IHL words long) *)
Definition ip4_hdr_cks_ok (fr : bytes) : bool :=
  let m := skipn 14 fr in verifiesb (firstn (Nat.mul (natN (nth 0 m 0 mod 16)) 4) m).

(* ICMPv4 checksum covers the whole ICMP message *)
Definition icmp4_cks_ok (fr : bytes) : bool :=
  let m := skipn 14 fr in verifiesb (skipn (Nat.mul (natN (nth 0 m 0 mod 16)) 4) m).

(* RFC 8200 8.1 pseudo header: src, dst, 32-bit upper-layer length, 3 zero bytes, next header *)
Definition pseudo6 (m : bytes) (nh : N) : bytes :=
  let n := N.of_nat (List.length m - 40) in
  sub m 8 32 ++ [(n / 16777216) mod 256; (n / 65536) mod 256; (n / 256) mod 256; n mod 256; 0; 0; 0; nh].

Definition icmp6_cks_ok (fr : bytes) : bool :=
  let m := skipn 14 fr in verifiesb (pseudo6 m 58 ++ skipn 40 m).

(* UDP over IPv6: checksum mandatory (RFC 8200 8.1): non-zero and verifies *)
Definition udp6_cks_ok (fr : bytes) : bool :=
  let m := skipn 14 fr in negb (w16 m 46 =? 0) && verifiesb (pseudo6 m 17 ++ skipn 40 m).

(* ---------------------------------------------------------------- *)
(* address classes *)

Definition ip6_is_multicast (a : bytes) : bool := nth 0 a 0 =? 255.
(* RFC 2464 section 7: 33:33 followed by the last four octets of the IPv6 destination *)
Definition mac_of_mcast6 (a : bytes) : bytes := [51; 51] ++ sub a 12 4.
Definition mcast6_mac_ok (dmac dip : bytes) : bool :=
  if ip6_is_multicast dip then beq dmac (mac_of_mcast6 dip) else true.
(* RFC 1112 6.4: 01:00:5e + low 23 bits of the IPv4 group *)
Definition ip4_is_multicast (a : bytes) : bool := nth 0 a 0 / 16 =? 14.
Definition mac_of_mcast4 (a : bytes) : bytes := [1; 0; 94; nth 1 a 0 mod 128; nth 2 a 0; nth 3 a 0].
Definition mcast4_mac_ok (dmac dip : bytes) : bool :=
  if ip4_is_multicast dip then beq dmac (mac_of_mcast4 dip) else true.
(* link-local scope: fe80::/10 unicast, ffx2:: multicast *)
Definition ip6_is_linklocal (a : bytes) : bool :=
  ((nth 0 a 0 =? 254) && (nth 1 a 0 / 64 =? 2)) || ((nth 0 a 0 =? 255) && (nth 1 a 0 mod 16 =? 2)).

(* no fragmentation: MF = 0, offset = 0 (DF and the reserved bit are free) *)
Definition unfragmented (ff : N) : bool := (ff mod 8192 =? 0) && ((ff / 8192) mod 2 =? 0).

(* ---------------------------------------------------------------- *)
(* NDP options (RFC 4861 4.6): type, length in units of 8 octets (0 is invalid), value *)
Fixpoint dec_ndp_opts (fuel : nat) (m : bytes) : option (list (N * bytes)) :=
  match m with
  | [] => Some []
  | _ =>
    match fuel with
    | O => None
    | S f =>
      let n := Nat.mul (natN (nth 1 m 0)) 8 in
      if Nat.ltb (List.length m) 2 || Nat.eqb n 0 || Nat.ltb (List.length m) n then None else
      match dec_ndp_opts f (skipn n m) with
      | Some r => Some ((nth 0 m 0, sub m 2 (n - 2)%nat) :: r)
      | None => None
      end
    end
  end.
Definition ndp_opts (m : bytes) : option (list (N * bytes)) := dec_ndp_opts (S (List.length m)) m.

(* ---------------------------------------------------------------- *)
(* well-formedness per send path: what the caller asked for, decoded back *)

(* ARP request/reply: op, the four addresses, Ethernet destination as requested *)
Definition wf_arp (hostmac dst : bytes) (op : N) (sha spa tha tpa : bytes) (fr : bytes) : bool :=
  match ref_decode fr with
  | Some (mkFrame d s et (L3Arp o a b c e)) =>
      (et =? 2054) && beq d dst && beq s hostmac && (o =? op) && beq a sha && beq b spa && beq c tha && beq e tpa
  | _ => false
  end.

(* ICMPv4 echo request *)
Definition wf_echo4 (hostmac dmac sip dip : bytes) (id seq : N) (fr : bytes) : bool :=
  match ref_decode fr with
  | Some (mkFrame d s et (L3Ip4 _ _ ff ttl proto a b (L4Icmp typ code rest))) =>
      (et =? 2048) && (proto =? 1) && (typ =? 8) && (code =? 0)
      && beq d dmac && beq s hostmac && beq a sip && beq b dip && unfragmented ff && negb (ttl =? 0)
      && Nat.leb 4 (List.length rest) && (w16 rest 0 =? id) && (w16 rest 2 =? seq)
      && ip4_hdr_cks_ok fr && icmp4_cks_ok fr
  | _ => false
  end.

(* ICMPv6 echo request *)
Definition wf_echo6 (hostmac dmac sip dip : bytes) (id seq : N) (fr : bytes) : bool :=
  match ref_decode fr with
  | Some (mkFrame d s et (L3Ip6 _ nh hop a b (L4Icmp typ code rest))) =>
      (et =? 34525) && (nh =? 58) && (typ =? 128) && (code =? 0)
      && beq d dmac && beq s hostmac && beq a sip && beq b dip && negb (hop =? 0)
      && Nat.leb 4 (List.length rest) && (w16 rest 0 =? id) && (w16 rest 2 =? seq)
      && icmp6_cks_ok fr
  | _ => false
  end.

(* the options of an NS: none, or one Source Link-Layer Address (type 1) carrying the host MAC *)
Definition ns_opts_ok (slla_type : N) (hostmac : bytes) (o : option (list (N * bytes))) : bool :=
  match o with
  | Some [] => true
  | Some [(t, v)] => (t =? slla_type) && beq v hostmac
  | _ => false
  end.
(* the options of an NA sent to overwrite a neighbour cache: one Target Link-Layer Address (type 2) *)
Definition na_opts_ok (tmac : bytes) (o : option (list (N * bytes))) : bool :=
  match o with
  | Some [(t, v)] => (t =? 2) && beq v tmac
  | _ => false
  end.
(* RFC 4861: every NDP message is sent with hop limit 255; the property text asks for it on link-local traffic *)
Definition ndp_hop_ok (dip : bytes) (hop : N) : bool :=
  if ip6_is_linklocal dip then hop =? 255 else negb (hop =? 0).

(* RFC 4861 (4.1-4.5, 6.1.x, 7.1.x): every Neighbor Discovery message has hop limit 255 *)
Definition nd_hop_ok (hop : N) : bool := hop =? 255.

(* Neighbor Solicitation (RFC 4861 4.3): type 135 code 0, 4 reserved bytes, target, options *)
Definition wf_ns_gen (slla_type : N) (hostmac dmac sip dip target : bytes) (fr : bytes) : bool :=
  match ref_decode fr with
  | Some (mkFrame d s et (L3Ip6 _ nh hop a b (L4Icmp typ code rest))) =>
      (et =? 34525) && (nh =? 58) && (typ =? 135) && (code =? 0)
      && beq d dmac && beq s hostmac && beq a sip && beq b dip
      && Nat.leb 20 (List.length rest) && beq (sub rest 4 16) target
      && nd_hop_ok hop
      && ns_opts_ok slla_type hostmac (ndp_opts (skipn 20 rest))
      && icmp6_cks_ok fr
  | _ => false
  end.

(* RFC 4861 4.6.1: Source Link-Layer Address is option type 1 *)
Definition wf_ns := wf_ns_gen 1.

(* Neighbor Advertisement (RFC 4861 4.4): type 136 code 0, R S O flags, target, options *)
Definition wf_na (hostmac dmac sip dip : bytes) (flags : N) (tip tmac : bytes) (fr : bytes) : bool :=
  match ref_decode fr with
  | Some (mkFrame d s et (L3Ip6 _ nh hop a b (L4Icmp typ code rest))) =>
      (et =? 34525) && (nh =? 58) && (typ =? 136) && (code =? 0)
      && beq d dmac && beq s hostmac && beq a sip && beq b dip
      && Nat.leb 20 (List.length rest) && (nth 0 rest 0 =? flags) && beq (sub rest 4 16) tip
      && nd_hop_ok hop
      && na_opts_ok tmac (ndp_opts (skipn 20 rest))
      && icmp6_cks_ok fr
  | _ => false
  end.
