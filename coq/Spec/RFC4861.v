(* Spec/RFC4861.v — independent reference decoder of a Router Advertisement
   (RFC 4861 4.2, 4.6; RFC 4191 2.2/2.3; RFC 8106 5.1/5.2), written from the
   RFCs' packet diagrams, not from the library's code: the option area is first
   split into (type, length, body) triples, each triple is then decoded on its
   own by pattern matching on the body bytes, and the advertisement is the
   header fields plus the LIST of decoded options in packet order.

   Malformed input.  The RFCs say what a well-formed option looks like; the
   decoder answers [None] when the option area cannot be split (truncated
   option, or an option of length zero: RFC 4861 4.6 "nodes MUST silently
   discard") or when an option of a type it knows violates its own format
   (wrong fixed length, prefix length above 128, even RDNSS length, DNSSL with
   no or unterminated names, reserved route preference).  Theorems about exact
   learning quantify over advertisements with [ra_decode p = Some d]. *)
From PV Require Export Base.Prelude.
Open Scope N_scope.

Inductive ndopt :=
| OSlla (mac : bytes)
| OTlla (mac : bytes)
| OMtu (mtu : N)
| OPrefix (pl : N) (onlink auto : bool) (valid pref : N) (prefix : bytes)
| ORoute (pl prf life : N) (prefix : bytes)
| ORdnss (life : N) (servers : list bytes)
| ODnssl (life : N) (names : list bytes)
| OOther (t : N).

(* ---- splitting the option area ---- *)
Fixpoint split_tlv (fuel : nat) (b : bytes) : option (list (N * N * bytes)) :=
  match fuel with
  | O => match b with [] => Some [] | _ => None end
  | S f =>
    match b with
    | [] => Some []
    | [_] => None
    | t :: l :: rest =>
      if l =? 0 then None else
      let n := (N.to_nat l * 8 - 2)%nat in
      if (List.length rest <? n)%nat then None else
      match split_tlv f (skipn n rest) with
      | Some r => Some ((t, l, firstn n rest) :: r)
      | None => None
      end
    end
  end.

(* ---- numbers ---- *)
Definition w32 (a b c d : N) : N := a * 16777216 + b * 65536 + c * 256 + d.
Definition bit (x : N) (k : N) : bool := N.testbit x k.

(* keep the k leading bits of an octet *)
Definition keep_bits (x k : N) : N :=
  if 8 <=? k then x else (x / 2 ^ (8 - k)) * 2 ^ (8 - k).
(* the first pl bits of an address, the rest zero; i = bit offset of the head octet *)
Fixpoint lead_bits (a : bytes) (i pl : N) : bytes :=
  match a with
  | [] => []
  | x :: r => keep_bits x (pl - i) :: lead_bits r (i + 8) pl
  end.
Definition pad16 (a : bytes) : bytes := firstn 16 (a ++ repeat 0 16).

Fixpoint chunks16 (b : bytes) (n : nat) : list bytes :=
  match n with
  | O => []
  | S n' => firstn 16 b :: chunks16 (skipn 16 b) n'
  end.

(* ---- DNS search list (RFC 8106 5.2 / RFC 1035 3.1) ---- *)
Definition label_ok (l : bytes) : bool :=
  forallb (fun c => (c <? 128) && negb (c =? 46) && negb (c =? 32)) l.
(* one domain name: labels up to the zero octet; returns dotted name and the rest *)
Fixpoint dn_name (fuel : nat) (b : bytes) (acc : bytes) (first : bool) : option (bytes * bytes) :=
  match fuel with
  | O => None
  | S f =>
    match b with
    | [] => None
    | 0 :: r => if first then None else Some (acc, r)
    | n :: r =>
      let lab := firstn (N.to_nat n) r in
      if (List.length r <=? N.to_nat n)%nat then None         (* label and its terminator must fit *)
      else if negb (label_ok lab) then None
      else dn_name f (skipn (N.to_nat n) r) (if first then lab else acc ++ 46 :: lab) false
    end
  end.
(* names until the padding (an empty name) or the end of the option *)
Fixpoint dn_names (fuel : nat) (b : bytes) : option (list bytes) :=
  match fuel with
  | O => None
  | S f =>
    match b with
    | [] => Some []
    | 0 :: _ => Some []
    | _ =>
      match dn_name (S (List.length b)) b [] true with
      | Some (nm, r) => match dn_names f r with Some l => Some (nm :: l) | None => None end
      | None => None
      end
    end
  end.

(* ---- one option ---- *)
Definition decode_opt (t l : N) (body : bytes) : option ndopt :=
  if t =? 1 then (if l =? 1 then Some (OSlla body) else None)
  else if t =? 2 then (if l =? 1 then Some (OTlla body) else None)
  else if t =? 5 then
    match body with
    | [_; _; a; b; c; d] => Some (OMtu (w32 a b c d))
    | _ => None
    end
  else if t =? 3 then
    match body with
    | pl :: fl :: v0 :: v1 :: v2 :: v3 :: p0 :: p1 :: p2 :: p3 :: _ :: _ :: _ :: _ :: addr =>
      if (l =? 4) && (pl <=? 128) then
        Some (OPrefix pl (bit fl 7) (bit fl 6) (w32 v0 v1 v2 v3) (w32 p0 p1 p2 p3) (lead_bits addr 0 pl))
      else None
    | _ => None
    end
  else if t =? 24 then
    match body with
    | pl :: fl :: t0 :: t1 :: t2 :: t3 :: pfx =>
      let prf := (fl / 8) mod 4 in
      if (l <=? 3) && (pl <=? 128) && ((pl <=? 64) || (l =? 3)) && ((pl =? 0) || (2 <=? l))
         && negb (prf =? 2)
      then Some (ORoute pl prf (w32 t0 t1 t2 t3) (lead_bits (pad16 pfx) 0 pl))
      else None
    | _ => None
    end
  else if t =? 25 then
    match body with
    | _ :: _ :: t0 :: t1 :: t2 :: t3 :: addrs =>
      if (3 <=? l) && N.odd l then Some (ORdnss (w32 t0 t1 t2 t3) (chunks16 addrs (N.to_nat ((l - 1) / 2))))
      else None
    | _ => None
    end
  else if t =? 31 then
    match body with
    | _ :: _ :: t0 :: t1 :: t2 :: t3 :: names =>
      match dn_names (S (List.length names)) names with
      | Some (n :: ns) => Some (ODnssl (w32 t0 t1 t2 t3) (n :: ns))
      | _ => None
      end
    | _ => None
    end
  else Some (OOther t).

Fixpoint decode_all (l : list (N * N * bytes)) : option (list ndopt) :=
  match l with
  | [] => Some []
  | (t, n, body) :: r =>
    match decode_opt t n body, decode_all r with
    | Some o, Some os => Some (o :: os)
    | _, _ => None
    end
  end.

(* ---- the advertisement ---- *)
Record ra_info := mkRA {
  ra_hop : N; ra_managed : bool; ra_other : bool; ra_prf : N;
  ra_life : N; ra_reach : N; ra_retrans : N;
  ra_opts : list ndopt
}.

(* p = the ICMPv6 message: type, code, checksum(2), hop limit, flags, lifetime(2),
   reachable(4), retrans(4), options *)
Definition ra_decode (p : bytes) : option ra_info :=
  match p with
  | _ :: _ :: _ :: _ :: hop :: fl :: l0 :: l1 :: r0 :: r1 :: r2 :: r3 :: s0 :: s1 :: s2 :: s3 :: optb =>
    match split_tlv (List.length optb) optb with
    | Some tl =>
      match decode_all tl with
      | Some os => Some (mkRA hop (bit fl 7) (bit fl 6) ((fl / 8) mod 4) (l0 * 256 + l1)
                              (w32 r0 r1 r2 r3) (w32 s0 s1 s2 s3) os)
      | None => None
      end
    | None => None
    end
  | _ => None
  end.

(* ---- projections: what a router table entry must record ---- *)
Fixpoint sllas (l : list ndopt) : list bytes :=
  match l with [] => [] | OSlla m :: r => m :: sllas r | _ :: r => sllas r end.
Fixpoint mtus (l : list ndopt) : list N :=
  match l with [] => [] | OMtu m :: r => m :: mtus r | _ :: r => mtus r end.
Fixpoint prefixes (l : list ndopt) : list ndopt :=
  match l with [] => [] | (OPrefix _ _ _ _ _ _ as o) :: r => o :: prefixes r | _ :: r => prefixes r end.
Fixpoint routes (l : list ndopt) : list ndopt :=
  match l with [] => [] | (ORoute _ _ _ _ as o) :: r => o :: routes r | _ :: r => routes r end.
Fixpoint rdnsses (l : list ndopt) : list ndopt :=
  match l with [] => [] | (ORdnss _ _ as o) :: r => o :: rdnsses r | _ :: r => rdnsses r end.
Fixpoint dnssls (l : list ndopt) : list ndopt :=
  match l with [] => [] | (ODnssl _ _ as o) :: r => o :: dnssls r | _ :: r => dnssls r end.

(* ---- malformed options ----
   What a receiver does with an option of a known type that violates its own format is only partly
   fixed by the RFCs (RFC 4191 2.3: a route option with the reserved preference MUST be ignored).
   The reading taken here, option by option:
     * a source/target link-layer address option whose length is not 1 (Ethernet) and a prefix
       information option whose length is not 4 or whose prefix length exceeds 128 make the whole
       advertisement unusable: it is rejected, nothing is learned;
     * any other malformed known option (MTU of length <> 1, inconsistent or reserved-preference
       route option, RDNSS of length < 3 or even, DNSSL without a well-formed name list) is skipped
       as if it were of an unknown type and leaves no trace. *)
Definition opt_reject (t l : N) (body : bytes) : bool :=
  (((t =? 1) || (t =? 2)) && negb (l =? 1)) ||
  ((t =? 3) && (negb (l =? 4) || (128 <? nth 0 body 0))).

Fixpoint decode_lenient (l : list (N * N * bytes)) : option (list ndopt) :=
  match l with
  | [] => Some []
  | (t, n, body) :: r =>
    if opt_reject t n body then None else
    match decode_lenient r with
    | None => None
    | Some os => Some (match decode_opt t n body with Some o => o :: os | None => os end)
    end
  end.

(* None: too short, option area cannot be split (truncated or zero-length option), or rejected *)
Definition ra_decode_lenient (p : bytes) : option ra_info :=
  match p with
  | _ :: _ :: _ :: _ :: hop :: fl :: l0 :: l1 :: r0 :: r1 :: r2 :: r3 :: s0 :: s1 :: s2 :: s3 :: optb =>
    match split_tlv (List.length optb) optb with
    | Some tl =>
      match decode_lenient tl with
      | Some os => Some (mkRA hop (bit fl 7) (bit fl 6) ((fl / 8) mod 4) (l0 * 256 + l1)
                              (w32 r0 r1 r2 r3) (w32 s0 s1 s2 s3) os)
      | None => None
      end
    | None => None
    end
  | _ => None
  end.
