(* Spec/HostTracking.v — C04: the reference model of host tracking, written from
   the property text (not from the code).

   Abstract state: a finite map  IP -> (MAC, online, last seen), as a function.
   Readings where the text is silent (library convention, DESIGN 4.3):
   * ARP: the address is bound to the ARP *sender hardware address* (the text only
     says when a host is created, not under which MAC);
   * "DHCP updates": DHCPv4Update(mac, ip) with a valid, specified ip counts as
     seeing mac on ip;
   * "a new IPv4 address": an address that is not already this MAC's online
     address (first sight, return from offline, or re-binding from another MAC);
   * ageing uses the state before the purge: a host that goes offline in one
     purge can only be removed by a later one ("an offline host silent for ...");
   * NewSession registers our own address (never ageing: last seen one year
     ahead) and the router's address, both online;
   * IPv4-mapped IPv6 addresses are classified by their embedded IPv4 address
     (net/netip convention); "global unicast" is every address that is not
     unspecified, loopback, multicast or link-local (RFC 4291 2.4). *)
From PV Require Import Base.Prelude Model.Tables.
Open Scope N_scope.

Record aent : Set := { a_mac : mac; a_online : bool; a_last : Z }.
Definition amap := ip -> option aent.

Definition a_offline (e : aent) : aent := {| a_mac := a_mac e; a_online := false; a_last := a_last e |}.

(* ---------- address classes, by ranges ---------- *)
Definition in_range (lo hi a : N) : bool := (lo <=? a) && (a <? hi).

Definition v4_linklocal (a : N) : bool := in_range 2851995648 2852061184 a.   (* 169.254.0.0/16 *)
Definition v4_loopback (a : N) : bool := in_range 2130706432 2147483648 a.    (* 127.0.0.0/8 *)
Definition v4_multicast (a : N) : bool := in_range 3758096384 4026531840 a.   (* 224.0.0.0/4 *)

Definition mapped_base : N := 281470681743360.                                (* ::ffff:0.0.0.0 *)
Definition v6_mapped (a : N) : bool := in_range mapped_base (mapped_base + 4294967296) a.

Definition v6_linklocal (a : N) : bool :=
  if v6_mapped a then v4_linklocal (a - mapped_base)
  else in_range (65152 * 2 ^ 112) (65216 * 2 ^ 112) a.                        (* fe80::/10 *)
Definition v6_multicast (a : N) : bool :=
  if v6_mapped a then v4_multicast (a - mapped_base)
  else in_range (65280 * 2 ^ 112) (2 ^ 128) a.                                (* ff00::/8 *)
Definition v6_loopback (a : N) : bool :=
  if v6_mapped a then v4_loopback (a - mapped_base) else a =? 1.
Definition v6_global (a : N) : bool :=
  negb (a =? 0) && negb (v6_loopback a) && negb (v6_multicast a) && negb (v6_linklocal a) &&
  negb (v6_mapped a && ((a - mapped_base =? 0) || (a - mapped_base =? 4294967295))).


(* ---------- the creation rule as a TABLE of address classes ----------
   Every IPv6 source falls into exactly one row (ranges [lo, hi) in increasing order); the verdict of a row says from which
   unicast MACs other than our own a frame with such a source creates a host. *)
Inductive verdict : Set :=
| Never            (* no host *)
| Always           (* from every such MAC, the router's included *)
| NotFromRouter.   (* from every such MAC except the router's: "non-router global unicast" *)

Definition verdict_holds (v : verdict) (from_router : bool) : bool :=
  match v with Never => false | Always => true | NotFromRouter => negb from_router end.

(* the IPv4 classes inside ::ffff:0:0/96 (net/netip classifies an IPv4-mapped address by its IPv4 address) *)
Definition class4m_table : list (N * N * verdict) :=
  [ (0, 1, Never);                                 (* ::ffff:0.0.0.0                                  *)
    (1, 2130706432, NotFromRouter);                (* 0.0.0.1 .. 126.255.255.255                       *)
    (2130706432, 2147483648, Never);               (* 127.0.0.0/8 loopback                             *)
    (2147483648, 2851995648, NotFromRouter);       (* 128.0.0.0 .. 169.253.255.255                     *)
    (2851995648, 2852061184, Always);              (* 169.254.0.0/16 link-local                        *)
    (2852061184, 3758096384, NotFromRouter);       (* 169.255.0.0 .. 223.255.255.255 (RFC 1918 blocks, public) *)
    (3758096384, 4026531840, Never);               (* 224.0.0.0/4 multicast                            *)
    (4026531840, 4294967295, NotFromRouter);       (* 240.0.0.0/4 except the limited broadcast         *)
    (4294967295, 4294967296, Never) ].             (* 255.255.255.255                                  *)

Definition class6_table : list (N * N * verdict) :=
  [ (0, 1, Never);                                              (* ::  unspecified                         *)
    (1, 2, Never);                                              (* ::1 loopback                            *)
    (2, mapped_base, NotFromRouter);                            (* ::2 .. : IPv4-compatible and the rest of ::/80 *)
    (* ::ffff:0:0/96 is classified by [class4m_table] *)
    (mapped_base + 4294967296, 65152 * 2 ^ 112, NotFromRouter); (* everything up to fe80:: : NAT64 64:ff9b::/96, discard 100::/64,
                                                                   global unicast 2000::/3 (Teredo 2001::/32, documentation
                                                                   2001:db8::/32, 6to4 2002::/16), unassigned, UNIQUE LOCAL
                                                                   fc00::/8 and fd00::/8, fe00::/9 *)
    (65152 * 2 ^ 112, 65216 * 2 ^ 112, Always);                 (* fe80::/10 link-local                    *)
    (65216 * 2 ^ 112, 65280 * 2 ^ 112, NotFromRouter);          (* fec0::/10 site-local                    *)
    (65280 * 2 ^ 112, 2 ^ 128, Never) ].                        (* ff00::/8 multicast, every scope, solicited-node *)

Fixpoint lookup_class (t : list (N * N * verdict)) (a : N) : option verdict :=
  match t with
  | [] => None
  | (lo, hi, v) :: r => if in_range lo hi a then Some v else lookup_class r a
  end.

Definition verdict6 (a : N) : option verdict :=
  if v6_mapped a then lookup_class class4m_table (a - mapped_base) else lookup_class class6_table a.

(* same network number as the home LAN base/bits *)
Definition in_home_lan (c : cfg) (a : N) : bool :=
  a / 2 ^ (32 - lan_bits c) =? lan_base c / 2 ^ (32 - lan_bits c).

(* first byte of the MAC even *)
Definition unicast_mac (m : mac) : bool := N.even (m / 2 ^ 40).

(* "a host is created exactly when a frame with a unicast source MAC other than our own carries an
   IPv4 source (or ARP sender) inside the home LAN or an IPv6 link-local or non-router global
   unicast source" *)
Definition ref_event (c : cfg) (f : fsum) : option (mac * ip) :=
  if unicast_mac (f_src f) && negb (f_src f =? own_mac c) then
    match f_class f, f_ip f with
    | FIP4, IP4 a => if in_home_lan c a then Some (f_src f, IP4 a) else None
    | FARP, IP4 a => if in_home_lan c a then Some (f_arpmac f, IP4 a) else None
    | FIP6, IP6 a => if v6_linklocal a || (v6_global a && negb (f_src f =? rt_mac c))
                     then Some (f_src f, IP6 a) else None
    | _, _ => None
    end
  else None.

(* ---------- the rules ---------- *)

(* seeing MAC m on address k at time now *)
Definition sight (m : mac) (k : ip) (now : Z) (a : amap) : amap :=
  let current := match a k with Some e => (a_mac e =? m) && a_online e | None => false end in
  fun k' =>
    if ip_eqb k' k then Some {| a_mac := m; a_online := true; a_last := now |}   (* created / re-bound / online once seen *)
    else match a k' with
         | Some e =>
             (* a new IPv4 address of m: m's other IPv4 addresses go offline *)
             if negb current && is4 k && is4 k' && (a_mac e =? m) then Some (a_offline e) else Some e
         | None => None
         end.

(* a purge at time now *)
Definition age (c : cfg) (now : Z) (a : amap) : amap :=
  fun k =>
    match a k with
    | Some e =>
        if a_online e
        then if (a_last e + offline_dl c <? now)%Z then Some (a_offline e) else Some e
        else if (a_last e + purge_dl c <? now)%Z then None else Some e
    | None => None
    end.

Definition ref_step (c : cfg) (a : amap) (o : op) : amap :=
  match o with
  | Rx f now => match ref_event c f with Some (m, k) => sight m k now a | None => a end
  | DHCPv4Update m k _ now => if is_valid k && negb (is_unspecified k) then sight m k now a else a
  | Purge now _ => age c now a
  | _ => a
  end.

Definition a_put (k : ip) (e : aent) (a : amap) : amap := fun k' => if ip_eqb k' k then Some e else a k'.

Definition ref_init (c : cfg) (now : Z) : amap :=
  a_put (rt_ip4 c) {| a_mac := rt_mac c; a_online := true; a_last := now |}
    (a_put (own_ip4 c) {| a_mac := own_mac c; a_online := true; a_last := (now + year)%Z |} (fun _ => None)).

Fixpoint ref_run (c : cfg) (a : amap) (ops : list op) : amap :=
  match ops with
  | [] => a
  | o :: r => ref_run c (ref_step c a o) r
  end.

(* ---------- abstraction of the model state ---------- *)
Definition aof (h : host) : aent := {| a_mac := h_mac h; a_online := h_online h; a_last := h_last h |}.
Definition abs (s : state) : amap := fun k => option_map aof (hlookup k (hosts s)).
