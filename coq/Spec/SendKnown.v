(* Spec/SendKnown.v — decidable classifiers of the recorded defect classes of C07
   (known_findings.txt).  The classes that needed a dedicated shape predicate (purge ARP probe, RS, RA,
   NS option type) were repaired in /repo; the remaining classes are expressed in Extract/D07.v by the
   well-formedness predicates themselves with the defective parameter (e.g. broadcast MAC) substituted. *)
From PV Require Export Spec.SendRef Spec.SendRefUdp.
Open Scope N_scope.
