(* Spec/SendKnown.v — decidable classifiers of the recorded defect classes of C07
   (known_findings.txt).  Each says: the frame is ill-formed in exactly the
   recorded way, i.e. it becomes well-formed once that one defect is undone. *)
From PV Require Export Spec.SendRef.
Open Scope N_scope.

(* finding arpreq-hlen-plen-in-ether-header (session.go:372): hlen/plen are written to b[4], b[5]
   (Ethernet destination bytes 4 and 5) instead of arp[4], arp[5] (frame offsets 18, 19). *)
Definition repair_arpreq (dst fr : bytes) : bytes :=
  set_nth 4 (nth 4 dst 0) (set_nth 5 (nth 5 dst 0) (set_nth 18 6 (set_nth 19 4 fr))).
Definition known_arpreq_hdr (hostmac dst : bytes) (op : N) (sha spa tha tpa fr : bytes) : bool :=
  negb (wf_arp hostmac dst op sha spa tha tpa fr)
  && (nth 4 fr 0 =? 6) && (nth 5 fr 0 =? 4)
  && wf_arp hostmac dst op sha spa tha tpa (repair_arpreq dst fr).

(* ---------------------------------------------------------------- *)
From PV Require Export Spec.SendRefUdp.

(* finding rs-without-icmp6-header (layer_icmp6_ndp.go:166/274, session.go:44): RouterSolicitation.marshal
   returns the 4 reserved bytes + options without the ICMPv6 type/code/checksum header, and the all-routers
   address constant is ff02::1 with MAC 33:33:00:00:00:02.  The frame therefore is an ICMPv6 message of type 0
   code 0 (checksum valid, because the bytes it overwrites were zero) to ff02::1 whose body is the SLLA option. *)
Definition known_rs_noheader (all_routers_ip : bytes) (hostmac hostlla fr : bytes) : bool :=
  match ref_decode fr with
  | Some (mkFrame d s et (L3Ip6 _ nh hop a b (L4Icmp typ code rest))) =>
      (et =? 34525) && (nh =? 58) && (typ =? 0) && (code =? 0)
      && beq s hostmac && beq a hostlla && beq b all_routers_ip
      && beq d [51;51;0;0;0;2] && (hop =? 255)
      && ns_opts_ok 1 hostmac (ndp_opts rest) && lenb rest 8
      && icmp6_cks_ok fr
  | _ => false
  end.

(* finding ra-without-icmp6-header (layer_icmp6_ndp.go:64/221): RouterAdvertisement.marshal returns the 12-byte
   body + options without the ICMPv6 header: type byte = cur hop limit 64, code = flags 0, the checksum is
   written over the router lifetime; reachable/retrans and the requested options follow. *)
Definition known_ra_noheader (hostmac hostlla : bytes) (mtu : N) (prefixes : list (N * bytes))
                             (rdnss : option (N * list bytes)) (dmac dip fr : bytes) : bool :=
  match ref_decode fr with
  | Some (mkFrame d s et (L3Ip6 _ nh hop a b (L4Icmp typ code rest))) =>
      (et =? 34525) && (nh =? 58) && (typ =? 64) && (code =? 0)
      && beq d dmac && beq s hostmac && beq a hostlla && beq b dip
      && Nat.leb 8 (List.length rest) && (w32 rest 0 =? 0) && (w32 rest 4 =? 0)
      && match ndp_opts (skipn 8 rest) with
         | Some o => beq_opts o (ra_want_opts hostmac mtu prefixes rdnss)
         | None => false
         end
  | _ => false
  end.
