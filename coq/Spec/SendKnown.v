(* Spec/SendKnown.v — decidable classifiers of the recorded defect classes of C07
   (known_findings.txt).  Each says: the frame is ill-formed in exactly the
   recorded way, i.e. it becomes well-formed once that one defect is undone. *)
From PV Require Export Spec.SendRef.
Open Scope N_scope.

(* finding arpreq-hlen-plen-in-ether-header (session.go:372): hlen/plen are written to b[4], b[5]
   (Ethernet destination bytes 4 and 5) instead of arp[4], arp[5] (frame offsets 18, 19). *)
Definition repair_arpreq (dst fr : bytes) : bytes :=
  set_nth 4 (nth 4 dst 0) (set_nth 5 (nth 5 dst 0) (set_nth 18 6 (set_nth 19 4 fr))).
Definition known_arpreq_hdr (hostmac dst : bytes) (op : N) (sha spa tha tpa fr : bytes) : bool :=
  negb (wf_arp hostmac dst op sha spa tha tpa fr)
  && (nth 4 fr 0 =? 6) && (nth 5 fr 0 =? 4)
  && wf_arp hostmac dst op sha spa tha tpa (repair_arpreq dst fr).

(* finding ns-option-type-2 (layer_icmp.go:383): the link-layer option of a Neighbor Solicitation is
   written with type 2 (Target LLA) instead of 1 (Source LLA); everything else is well-formed. *)
Definition known_ns_opt_type (hostmac dmac sip dip target fr : bytes) : bool :=
  negb (wf_ns hostmac dmac sip dip target fr) && wf_ns_gen 2 hostmac dmac sip dip target fr.
