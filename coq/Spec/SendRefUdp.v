(* Spec/SendRefUdp.v — reference decoders for the payloads carried by the UDP and NDP router
   send paths (DHCPv4 RFC 2131/2132, DNS question RFC 1035 4.1, RS/RA RFC 4861 4.1/4.2 + options
   RFC 4861 4.6, RFC 8106) and the well-formedness predicates of those paths.  Independent of the
   library's encoders; executable. *)
From PV Require Export Spec.SendRef.
Open Scope N_scope.

(* ---------------------------------------------------------------- *)
(* UDP over IPv4: checksum 0 means "not computed" (RFC 768); otherwise it must verify with the pseudo header *)
Definition pseudo4 (m : bytes) : bytes :=
  let n := N.of_nat (List.length m - 20) in
  sub m 12 8 ++ [0; 17; (n / 256) mod 256; n mod 256].
Definition udp4_cks_ok (fr : bytes) : bool :=
  let m := skipn 14 fr in (w16 m 26 =? 0) || verifiesb (pseudo4 m ++ skipn 20 m).

Definition is_bcast4 (a : bytes) : bool := beq a [255;255;255;255].
(* destination MAC the sender must derive for an IPv4 destination it chose itself *)
Definition dst4_mac_ok (dmac dip : bytes) : bool :=
  if ip4_is_multicast dip then beq dmac (mac_of_mcast4 dip)
  else if is_bcast4 dip then beq dmac [255;255;255;255;255;255] else true.

(* UDP/IPv4 datagram from the host: addresses, ports, payload; [own_dst]: the library chose the
   destination itself, so the MAC must match the IP destination class *)
Definition wf_udp4 (hostmac dmac sip dip : bytes) (sp dp : N) (payload_ok : bytes -> bool) (own_dst : bool)
                   (fr : bytes) : bool :=
  match ref_decode fr with
  | Some (mkFrame d s et (L3Ip4 _ _ ff ttl proto a b (L4Udp p1 p2 _ pl))) =>
      (et =? 2048) && (proto =? 17) && beq d dmac && beq s hostmac && beq a sip && beq b dip
      && unfragmented ff && negb (ttl =? 0) && (p1 =? sp) && (p2 =? dp) && payload_ok pl
      && ip4_hdr_cks_ok fr && udp4_cks_ok fr && (if own_dst then dst4_mac_ok d b else true)
  | _ => false
  end.

(* UDP/IPv6 datagram from the host: checksum mandatory *)
Definition wf_udp6 (hostmac dmac sip dip : bytes) (sp dp : N) (payload_ok : bytes -> bool) (fr : bytes) : bool :=
  match ref_decode fr with
  | Some (mkFrame d s et (L3Ip6 _ nh hop a b (L4Udp p1 p2 _ pl))) =>
      (et =? 34525) && (nh =? 17) && beq d dmac && beq s hostmac && beq a sip && beq b dip
      && negb (hop =? 0) && (p1 =? sp) && (p2 =? dp) && payload_ok pl && udp6_cks_ok fr
  | _ => false
  end.
(* the same with the checksum requirement dropped: the recorded defect class udp6-checksum-zero *)
Definition wf_udp6_nocks (hostmac dmac sip dip : bytes) (sp dp : N) (payload_ok : bytes -> bool) (fr : bytes) : bool :=
  match ref_decode fr with
  | Some (mkFrame d s et (L3Ip6 _ nh hop a b (L4Udp p1 p2 ck pl))) =>
      (et =? 34525) && (nh =? 17) && beq d dmac && beq s hostmac && beq a sip && beq b dip
      && negb (hop =? 0) && (p1 =? sp) && (p2 =? dp) && payload_ok pl && (ck =? 0)
  | _ => false
  end.

(* ---------------------------------------------------------------- *)
(* DHCPv4 (RFC 2131 section 2): fixed 236-byte header, magic cookie, options until End (255); Pad (0) skipped *)
Fixpoint dhcp_opts (fuel : nat) (m : bytes) : option (list (N * bytes)) :=
  match fuel with
  | O => None
  | S f =>
    match m with
    | [] => None                                  (* no End option *)
    | c :: r =>
      if c =? 255 then (if forallb (fun x => x =? 0) r then Some [] else None)   (* only padding after End *)
      else if c =? 0 then dhcp_opts f r
      else match r with
           | [] => None
           | l :: v => if Nat.ltb (List.length v) (natN l) then None else
                       match dhcp_opts f (skipn (natN l) v) with
                       | Some t => Some ((c, firstn (natN l) v) :: t)
                       | None => None
                       end
           end
    end
  end.

Record dhcp := mkDhcp {
  d_op : N; d_htype : N; d_hlen : N; d_hops : N; d_xid : bytes; d_secs : N; d_flags : N;
  d_ciaddr : bytes; d_yiaddr : bytes; d_siaddr : bytes; d_giaddr : bytes; d_chaddr : bytes;
  d_legacy : bytes;          (* sname + file, 192 bytes *)
  d_opts : list (N * bytes) }.

Definition dec_dhcp (m : bytes) : option dhcp :=
  if Nat.ltb (List.length m) 240 then None else
  if negb (beq (sub m 236 4) [99; 130; 83; 99]) then None else
  match dhcp_opts (S (List.length m)) (skipn 240 m) with
  | None => None
  | Some o => Some (mkDhcp (nth 0 m 0) (nth 1 m 0) (nth 2 m 0) (nth 3 m 0) (sub m 4 4) (w16 m 8) (w16 m 10)
                          (sub m 12 4) (sub m 16 4) (sub m 20 4) (sub m 24 4) (sub m 28 16) (sub m 44 192) o)
  end.

Fixpoint opt_in (o : N * bytes) (l : list (N * bytes)) : bool :=
  match l with
  | [] => false
  | (c, v) :: r => ((c =? fst o) && beq v (snd o)) || opt_in o r
  end.
Definition same_opts (want got : list (N * bytes)) : bool :=
  Nat.eqb (List.length want) (List.length got) && forallb (fun o => opt_in o got) want.
Definition all_zero (l : bytes) : bool := forallb (fun x => x =? 0) l.

(* a client message (DISCOVER / DECLINE / RELEASE) as requested: BOOTREQUEST, Ethernet, the given
   chaddr, xid (when requested), ciaddr (0.0.0.0 when not requested), nothing else set, exactly the
   requested options, at least the BOOTP minimum of 300 bytes *)
Definition wf_dhcp_client (chaddr ciaddr : bytes) (xid : option bytes) (opts : list (N * bytes)) (pl : bytes) : bool :=
  match dec_dhcp pl with
  | Some d =>
      (d_op d =? 1) && (d_htype d =? 1) && (d_hlen d =? 6) && (d_hops d =? 0)
      && (match xid with Some x => beq (d_xid d) x | None => true end)
      && (d_flags d =? 0)
      && beq (d_ciaddr d) ciaddr && all_zero (d_yiaddr d) && all_zero (d_siaddr d) && all_zero (d_giaddr d)
      && beq (d_chaddr d) (chaddr ++ repeat 0 10) && all_zero (d_legacy d)
      && same_opts opts (d_opts d) && Nat.leb 300 (List.length pl)
  | None => false
  end.

(* a server reply as far as C07 is concerned (its contents are C12's): BOOTREPLY, cookie, options
   parse up to End, exactly one message type option of length 1 *)
Definition wf_dhcp_reply (pl : bytes) : bool :=
  match dec_dhcp pl with
  | Some d => (d_op d =? 2) && (d_htype d =? 1) && (d_hlen d =? 6)
              && Nat.eqb (List.length (filter (fun o => fst o =? 53) (d_opts d))) 1
              && forallb (fun o => negb (fst o =? 53) || Nat.eqb (List.length (snd o)) 1) (d_opts d)
  | None => false
  end.

(* ---------------------------------------------------------------- *)
(* DNS query with one question (RFC 1035 4.1): header, QNAME as length-prefixed labels, QTYPE, QCLASS *)
Fixpoint dns_labels (fuel : nat) (m : bytes) : option (list bytes * bytes) :=
  match fuel with
  | O => None
  | S f =>
    match m with
    | [] => None
    | l :: r =>
      if l =? 0 then Some ([], r)
      else if 63 <? l then None       (* no compression pointers in a query *)
      else if Nat.ltb (List.length r) (natN l) then None
      else match dns_labels f (skipn (natN l) r) with
           | Some (ls, rest) => Some (firstn (natN l) r :: ls, rest)
           | None => None
           end
    end
  end.

Fixpoint beq_labels (a b : list bytes) : bool :=
  match a, b with
  | [], [] => true
  | x :: a', y :: b' => beq x y && beq_labels a' b'
  | _, _ => false
  end.

(* one-question query: id (when fixed by the caller), QR = 0, opcode 0, QDCOUNT 1, the other counts 0 *)
Definition wf_dns_query (id : option N) (labels : list bytes) (qtype qclass : N) (pl : bytes) : bool :=
  Nat.leb 12 (List.length pl)
  && (match id with Some i => w16 pl 0 =? i | None => true end)
  && (w16 pl 2 / 2048 =? 0) && (w16 pl 4 =? 1) && (w16 pl 6 =? 0) && (w16 pl 8 =? 0) && (w16 pl 10 =? 0)
  && match dns_labels (S (List.length pl)) (skipn 12 pl) with
     | Some (ls, rest) => beq_labels ls labels && lenb rest 4 && (w16 rest 0 =? qtype) && (w16 rest 2 =? qclass)
     | None => false
     end.

(* split a textual name "a.b.c." into its labels *)
Fixpoint split_dots (s cur : bytes) : list bytes :=
  match s with
  | [] => match cur with [] => [] | _ => [rev cur] end
  | x :: r => if x =? 46 then rev cur :: split_dots r [] else split_dots r (x :: cur)
  end.

(* the labels of a textual query name: the root "." has none *)
Definition query_labels (name : bytes) : list bytes :=
  if match name with [x] => x =? 46 | _ => false end then [] else split_dots name [].

(* NetBIOS first-level encoding (RFC 1001 14.1): 16 characters padded with spaces, each byte as two
   letters 'A'+nibble: the single label of the query name *)
Definition nb_pad (name : bytes) : bytes := firstn 16 (name ++ repeat 32 16).
Definition nb_label (name : bytes) : bytes :=
  concat (map (fun ch => [65 + ch / 16; 65 + ch mod 16]) (nb_pad name)).

(* SSDP M-SEARCH (UPnP DA 1.1 section 1.3.2): request line "M-SEARCH * HTTP/1.1" CRLF first *)
Definition msearch_line : bytes := [77;45;83;69;65;82;67;72;32;42;32;72;84;84;80;47;49;46;49;13;10].
Definition wf_msearch (pl : bytes) : bool := beq (firstn 21 pl) msearch_line.

(* ---------------------------------------------------------------- *)
(* Router Solicitation (RFC 4861 4.1): type 133, code 0, 4 reserved bytes, options; sent by the host to the
   all-routers group ff02::2 (MAC 33:33:00:00:00:02) with hop limit 255; SLLA option = host MAC *)
Definition all_routers6 : bytes := [255;2;0;0;0;0;0;0;0;0;0;0;0;0;0;2].
Definition wf_rs (hostmac hostlla : bytes) (fr : bytes) : bool :=
  match ref_decode fr with
  | Some (mkFrame d s et (L3Ip6 _ nh hop a b (L4Icmp typ code rest))) =>
      (et =? 34525) && (nh =? 58) && (typ =? 133) && (code =? 0)
      && beq s hostmac && beq a hostlla && beq b all_routers6 && mcast6_mac_ok d b && (hop =? 255)
      && Nat.leb 4 (List.length rest)
      && ns_opts_ok 1 hostmac (ndp_opts (skipn 4 rest))
      && icmp6_cks_ok fr
  | _ => false
  end.

(* Router Advertisement (RFC 4861 4.2): type 134, code 0, cur hop limit, flags, router lifetime, reachable,
   retrans, options.  The options requested: RDNSS (RFC 8106 5.1) when given, one Prefix Information per
   prefix (L and A set), DNSSL, MTU, SLLA = host MAC — compared as (type, value) lists. *)
Definition n32 (v : N) : bytes := [(v / 16777216) mod 256; (v / 65536) mod 256; (v / 256) mod 256; v mod 256].
Definition ra_want_opts (hostmac : bytes) (mtu : N) (prefixes : list (N * bytes)) (rdnss : option (N * list bytes))
  : list (N * bytes) :=
  (match rdnss with Some (lt, srv) => [(25, [0;0] ++ n32 lt ++ concat srv)] | None => [] end)
  ++ map (fun p => (3, [fst p; 192] ++ n32 7200 ++ n32 1800 ++ [0;0;0;0] ++ snd p)) prefixes
  ++ [(31, [0;0] ++ n32 1200 ++ [3;108;97;110;0] ++ [0;0;0]); (5, [0;0] ++ n32 mtu); (1, hostmac)].
Fixpoint beq_opts (a b : list (N * bytes)) : bool :=
  match a, b with
  | [], [] => true
  | (c, v) :: a', (c', v') :: b' => (c =? c') && beq v v' && beq_opts a' b'
  | _, _ => false
  end.
Definition wf_ra (hostmac hostlla : bytes) (mtu : N) (prefixes : list (N * bytes)) (rdnss : option (N * list bytes))
                 (dmac dip : bytes) (fr : bytes) : bool :=
  match ref_decode fr with
  | Some (mkFrame d s et (L3Ip6 _ nh hop a b (L4Icmp typ code rest))) =>
      (et =? 34525) && (nh =? 58) && (typ =? 134) && (code =? 0)
      && beq d dmac && beq s hostmac && beq a hostlla && beq b dip && nd_hop_ok hop
      && Nat.leb 12 (List.length rest)
      && (nth 0 rest 0 =? 64) && (w16 rest 2 =? 1800) && (w32 rest 4 =? 0) && (w32 rest 8 =? 0)
      && match ndp_opts (skipn 12 rest) with
         | Some o => beq_opts o (ra_want_opts hostmac mtu prefixes rdnss)
         | None => false
         end
      && icmp6_cks_ok fr
  | _ => false
  end.

(* ---------------------------------------------------------------- *)
(* any ICMPv6 message from the host: type, code, body predicate, addresses, hop limit rule, checksum *)
(* hop limit of an ICMPv6 message: 255 for Neighbor Discovery types 133..137, otherwise the link-local rule *)
Definition icmp6_hop_ok (typ : N) (dip : bytes) (hop : N) : bool :=
  if (133 <=? typ) && (typ <=? 137) then hop =? 255 else ndp_hop_ok dip hop.

Definition wf_icmp6 (hostmac dmac sip dip : bytes) (typ code : N) (body_ok : bytes -> bool) (fr : bytes) : bool :=
  match ref_decode fr with
  | Some (mkFrame d s et (L3Ip6 _ nh hop a b (L4Icmp t c rest))) =>
      (et =? 34525) && (nh =? 58) && (t =? typ) && (c =? code)
      && beq d dmac && beq s hostmac && beq a sip && beq b dip && icmp6_hop_ok t b hop
      && body_ok rest && icmp6_cks_ok fr
  | _ => false
  end.
