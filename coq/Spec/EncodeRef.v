(* Spec/EncodeRef.v — reference decoders for C03, written from the RFCs
   (Ethernet II / IEEE 802.3, RFC 791, RFC 768, RFC 8200, RFC 826, RFC 792 /
   4443 echo, RFC 4861 NS/NA, RFC 1035 query) independently of the library:
   they consume a plain byte string front to back by pattern matching and
   take/drop, know nothing of Go slices, and check what the RFC makes
   checkable (version, header length, length fields against the bytes
   present, IPv4 header checksum).  [None] = not a well-formed message. *)
From PV Require Export Base.Prelude Spec.OnesComplement.
Open Scope N_scope.

Definition w16 (hi lo : byte) : N := 256 * hi + lo.
Definition take (n : nat) (l : bytes) : bytes := firstn n l.
Definition drop (n : nat) (l : bytes) : bytes := skipn n l.

(* ---------------- Ethernet II ---------------- *)
Record r_ether := { re_dst : bytes; re_src : bytes; re_type : N; re_payload : bytes }.

Definition ref_ether (f : bytes) : option r_ether :=
  if Nat.ltb (length f) 14 then None else
  match drop 12 f with
  | t1 :: t0 :: pl =>
      Some {| re_dst := take 6 f; re_src := take 6 (drop 6 f); re_type := w16 t1 t0; re_payload := pl |}
  | _ => None
  end.

(* ---------------- IPv4, RFC 791 ---------------- *)
Record r_ip4 := {
  r4_tos : N; r4_totlen : N; r4_id : N; r4_flags : N; r4_frag : N; r4_ttl : N; r4_proto : N;
  r4_src : bytes; r4_dst : bytes; r4_options : bytes; r4_payload : bytes }.

Definition ref_ip4 (f : bytes) : option r_ip4 :=
  match f with
  | vi :: tos :: l1 :: l0 :: i1 :: i0 :: f1 :: f0 :: ttl :: pr :: _c1 :: _c0 :: rest =>
      let hl := (4 * N.to_nat (vi mod 16))%nat in
      let tl := N.to_nat (w16 l1 l0) in
      if (vi / 16 =? 4) && Nat.leb 20 hl && Nat.leb hl tl && Nat.leb tl (length f)
         && verifiesb (take hl f)
      then Some {| r4_tos := tos; r4_totlen := w16 l1 l0; r4_id := w16 i1 i0;
                   r4_flags := f1 / 32; r4_frag := w16 (f1 mod 32) f0;
                   r4_ttl := ttl; r4_proto := pr;
                   r4_src := take 4 rest; r4_dst := take 4 (drop 4 rest);
                   r4_options := take (hl - 20) (drop 20 f);
                   r4_payload := take (tl - hl) (drop hl f) |}
      else None
  | _ => None
  end.

(* ---------------- UDP, RFC 768 ---------------- *)
Record r_udp := { ru_sport : N; ru_dport : N; ru_len : N; ru_cksum : N; ru_payload : bytes }.

Definition ref_udp (f : bytes) : option r_udp :=
  match f with
  | s1 :: s0 :: d1 :: d0 :: l1 :: l0 :: c1 :: c0 :: rest =>
      let ln := N.to_nat (w16 l1 l0) in
      if Nat.leb 8 ln && Nat.leb ln (length f)
      then Some {| ru_sport := w16 s1 s0; ru_dport := w16 d1 d0; ru_len := w16 l1 l0;
                   ru_cksum := w16 c1 c0; ru_payload := take (ln - 8) rest |}
      else None
  | _ => None
  end.

(* ---------------- IPv6, RFC 8200 ---------------- *)
Record r_ip6 := { r6_class : N; r6_flow : N; r6_plen : N; r6_next : N; r6_hop : N;
                  r6_src : bytes; r6_dst : bytes; r6_payload : bytes }.

Definition ref_ip6 (f : bytes) : option r_ip6 :=
  match f with
  | b0 :: b1 :: b2 :: b3 :: l1 :: l0 :: nh :: hop :: rest =>
      let pl := N.to_nat (w16 l1 l0) in
      if (b0 / 16 =? 6) && Nat.leb (32 + pl) (length rest)
      then Some {| r6_class := (b0 mod 16) * 16 + b1 / 16;
                   r6_flow := ((b1 mod 16) * 256 + b2) * 256 + b3;
                   r6_plen := w16 l1 l0; r6_next := nh; r6_hop := hop;
                   r6_src := take 16 rest; r6_dst := take 16 (drop 16 rest);
                   r6_payload := take pl (drop 32 rest) |}
      else None
  | _ => None
  end.

(* ---------------- ARP, RFC 826 (Ethernet / IPv4) ---------------- *)
Record r_arp := { ra_op : N; ra_sha : bytes; ra_spa : bytes; ra_tha : bytes; ra_tpa : bytes }.

Definition ref_arp (f : bytes) : option r_arp :=
  match f with
  | h1 :: h0 :: p1 :: p0 :: hl :: pl :: o1 :: o0 :: rest =>
      if (w16 h1 h0 =? 1) && (w16 p1 p0 =? 2048) && (hl =? 6) && (pl =? 4) && Nat.leb 20 (length rest)
      then Some {| ra_op := w16 o1 o0; ra_sha := take 6 rest; ra_spa := take 4 (drop 6 rest);
                   ra_tha := take 6 (drop 10 rest); ra_tpa := take 4 (drop 16 rest) |}
      else None
  | _ => None
  end.

(* ---------------- ICMP echo, RFC 792 / RFC 4443 ---------------- *)
Record r_echo := { rc_type : N; rc_code : N; rc_cksum : N; rc_id : N; rc_seq : N; rc_data : bytes }.

Definition ref_echo (f : bytes) : option r_echo :=
  match f with
  | t :: c :: k1 :: k0 :: i1 :: i0 :: s1 :: s0 :: data =>
      Some {| rc_type := t; rc_code := c; rc_cksum := w16 k1 k0; rc_id := w16 i1 i0;
              rc_seq := w16 s1 s0; rc_data := data |}
  | _ => None
  end.

(* ---------------- NDP NS / NA, RFC 4861 4.3, 4.4, 4.6.1 ---------------- *)
(* options: type, length in units of 8 octets (0 is invalid), body *)
Fixpoint ref_nd_options (fuel : nat) (o : bytes) : option (list (N * bytes)) :=
  match fuel with
  | O => None
  | S k =>
    match o with
    | [] => Some []
    | t :: l :: body =>
        let n := (8 * N.to_nat l)%nat in
        if Nat.eqb n 0 || Nat.ltb (length o) n then None
        else match ref_nd_options k (drop n o) with
             | Some r => Some ((t, take (n - 2) body) :: r)
             | None => None
             end
    | _ => None
    end
  end.

Fixpoint find_opt (t : N) (l : list (N * bytes)) : option bytes :=
  match l with
  | [] => None
  | (t', v) :: r => if t' =? t then Some v else find_opt t r
  end.

Record r_nd := { rn_type : N; rn_code : N; rn_flags : N; rn_target : bytes;
                 rn_options : list (N * bytes) }.

(* common layout of NS (type 135) and NA (type 136): 4 bytes ICMPv6 header,
   4 bytes flags/reserved, 16 bytes target, options *)
Definition ref_nd (f : bytes) : option r_nd :=
  match f with
  | t :: c :: _k1 :: _k0 :: fl :: _r1 :: _r2 :: _r3 :: rest =>
      if Nat.ltb (length rest) 16 then None else
      match ref_nd_options (S (length rest)) (drop 16 rest) with
      | Some os => Some {| rn_type := t; rn_code := c; rn_flags := fl; rn_target := take 16 rest;
                           rn_options := os |}
      | None => None
      end
  | _ => None
  end.

(* source link-layer address = option 1, target link-layer address = option 2;
   for Ethernet the body is the 6-byte MAC *)
Definition ref_ns_slla (m : r_nd) : option bytes := find_opt 1 (rn_options m).
Definition ref_na_tlla (m : r_nd) : option bytes := find_opt 2 (rn_options m).

(* ---------------- DNS query, RFC 1035 4.1 ---------------- *)
(* a name without compression: labels of 1..63 octets terminated by the root label *)
Fixpoint ref_labels (fuel : nat) (l : bytes) : option (list bytes * bytes) :=
  match fuel with
  | O => None
  | S k =>
    match l with
    | [] => None
    | 0 :: r => Some ([], r)
    | n :: r =>
        let n' := N.to_nat n in
        if (63 <? n) || Nat.ltb (length r) n' then None
        else match ref_labels k (drop n' r) with
             | Some (ls, rest) => Some (take n' r :: ls, rest)
             | None => None
             end
    end
  end.

Record r_dnsq := { rq_id : N; rq_flags : N; rq_qd : N; rq_an : N; rq_ns : N; rq_ar : N;
                   rq_labels : list bytes; rq_type : N; rq_class : N; rq_trailing : bytes }.

Definition ref_dns_query (f : bytes) : option r_dnsq :=
  match f with
  | i1 :: i0 :: f1 :: f0 :: q1 :: q0 :: a1 :: a0 :: n1 :: n0 :: r1 :: r0 :: body =>
      match ref_labels (S (length body)) body with
      | Some (ls, t1 :: t0 :: c1 :: c0 :: trailing) =>
          Some {| rq_id := w16 i1 i0; rq_flags := w16 f1 f0; rq_qd := w16 q1 q0; rq_an := w16 a1 a0;
                  rq_ns := w16 n1 n0; rq_ar := w16 r1 r0; rq_labels := ls;
                  rq_type := w16 t1 t0; rq_class := w16 c1 c0; rq_trailing := trailing |}
      | _ => None
      end
  | _ => None
  end.

(* wire form of a list of labels *)
Fixpoint wire_of_labels (ls : list bytes) : bytes :=
  match ls with
  | [] => [0]
  | l :: r => N.of_nat (length l) :: l ++ wire_of_labels r
  end.
Definition label_ok (l : bytes) : Prop := (1 <= length l <= 63)%nat.
Definition label_okb (l : bytes) : bool := Nat.leb 1 (length l) && Nat.leb (length l) 63.
