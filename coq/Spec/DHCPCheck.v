(* Spec/DHCPCheck.v — executable per-history evaluation of the C11/C12 step
   predicates on the model's trace, and the decidable classes of recorded
   findings (column 3 of the dispatch output). *)
From PV Require Import Base.Text Model.DHCP Model.DHCPShow Spec.DHCP.
Open Scope string_scope.
Open Scope N_scope.

Record tstep := mkT { t_pre : dstate; t_ch : ip -> nat; t_op : op; t_reply : option reply; t_post : dstate }.

Fixpoint trace (c : cfg) (s : dstate) (h : list ((ip -> nat) * op)) : list tstep :=
  match h with
  | [] => []
  | (ch, o) :: r => let '(s1, rp) := step c ch s o in mkT s ch o rp s1 :: trace c s1 r
  end.

Definition op_msg (o : op) : option dmsg :=
  match o with
  | ODiscover _ m | ORequest _ m | ODecline m | ORelease m => Some m
  | _ => None
  end.
(* the clock value the handler read during the op *)
Definition op_now (o : op) : Z := match o with ODiscover n _ | ORequest n _ => n | _ => 0%Z end.
Definition is_request (o : op) : bool := match o with ORequest _ _ => true | _ => false end.

(* names of the C11 demands a step fails *)
Definition c11_fails (c : cfg) (t : tstep) : list string :=
  match op_msg (t_op t), t_reply t with
  | Some m, Some r =>
      if is_lease_reply r then
        let b := client_net c (t_pre t) m in
        let se := sess_at c (t_pre t) m in
        let x := r_yi r in
        (if acked_to_other (tbl (t_post t)) (getcid m) x then ["acked-elsewhere"] else [])
        ++ (if res_own c x then ["own"] else [])
        ++ (if res_router c x then ["router"] else [])
        ++ (if res_network c b x then ["network"] else [])
        ++ (if res_broadcast c b x then ["broadcast"] else [])
        ++ (if res_outside c b x then ["outside"] else [])
        ++ (if res_tracked_other se (m_chaddr m) x then ["tracked-other-mac"] else [])
      else []
  | _, _ => []
  end
  ++ (if uniqb (tbl (t_pre t)) && negb (uniqb (tbl (t_post t))) then ["uniq"] else []).

(* ---------------------------------------------------------------- *)
(* Recorded finding classes (known_findings.txt): per failing step, the classes that explain it
   (key, demands the class is known to fail).  A failing step outside every class, or failing a
   demand its classes do not list, is reported as a new violation.
   C11: none left (the five classes of the unchanged code were repaired, see FIXLOG.md). *)

Definition c11_class (c : cfg) (t : tstep) : list (string * list string) := [].

Definition mem_str (x : string) (l : list string) : bool := existsb (String.eqb x) l.

(* key of a failing step: every failed demand must be listed by one of the step's classes;
   the key is the first class that lists one of them *)
Definition step_key (cls : tstep -> list (string * list string)) (fails : list string) (t : tstep) : option string :=
  let cl := cls t in
  if forallb (fun f => existsb (fun ka => mem_str f (snd ka)) cl) fails then
    option_map fst (find (fun ka => existsb (fun f => mem_str f (snd ka)) fails) cl)
  else None.

(* key of a history: the class of its first failing step if every failing step is explained, else "-" *)
Fixpoint hist_key (cls : tstep -> list (string * list string)) (fs : list (tstep * list string)) (first : option string) : string :=
  match fs with
  | [] => match first with Some k => k | None => "-" end
  | (t, []) :: r => hist_key cls r first
  | (t, f) :: r =>
      match step_key cls f t with
      | Some k => hist_key cls r (match first with Some k0 => Some k0 | None => Some k end)
      | None => "-"
      end
  end.

Definition c12_fails (c : cfg) (t : tstep) : list string :=
  match op_msg (t_op t) with
  | Some m =>
      (match t_reply t with
       | Some r =>
           if is_lease_reply r then
             let b := client_net c (t_pre t) m in
             (if want_contains c b (r_yi r) then [] else ["yi-outside"])
             ++ (if obeqb (opt 3 r) (ipb (want_router c b)) then [] else ["router"])
             ++ (if obeqb (opt 6 r) (ipb (want_dns c b)) then [] else ["dns"])
             ++ (if obeqb (opt 1 r) (ipb (pmask (want_bits c b))) then [] else ["mask"])
             ++ (if obeqb (opt 54 r) (ipb (c_hostip c)) then [] else ["server-id"])
             ++ (if obeqb (opt 51 r) (ipb 14400) then [] else ["lease-time"])
             ++ (if r_xid r =? m_xid m then [] else ["xid"])
             ++ (if r_chaddr r =? m_chaddr m then [] else ["chaddr"])
             ++ (if c12_mask_first r then [] else ["mask-after-router"])
             ++ (if c12_ack_matches (t_pre t) m r then [] else ["ack-mismatch"])
           else []
       | None => []
       end)
      ++ (if is_request (t_op t) && negb (c12_no_ack_when c (t_pre t) m (op_now (t_op t)) (t_reply t)) then ["ack-unhonourable"] else [])
  | None => []
  end.

Fixpoint number_fails (i : nat) (fs : list (list string)) : list string :=
  match fs with
  | [] => []
  | f :: r => List.app (map (fun x => dec_of_nat i ++ ":" ++ x) f) (number_fails (S i) r)
  end.

Definition show_fails (fs : list (list string)) : string := join " " (number_fails 0 fs).

Definition all_nil (fs : list (list string)) : bool :=
  forallb (fun f => match f with [] => true | _ => false end) fs.

(* ---------------------------------------------------------------- *)
(* Recorded finding classes of C12: none left (c12-prl-router-before-mask repaired by 94e2701,
   c12-expired-lease-acked by 8b460ec). *)
Definition c12_class (c : cfg) (t : tstep) : list (string * list string) := [].
