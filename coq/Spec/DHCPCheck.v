(* Spec/DHCPCheck.v — executable per-history evaluation of the C11/C12 step
   predicates on the model's trace, and the decidable classes of recorded
   findings (column 3 of the dispatch output). *)
From PV Require Import Base.Text Model.DHCP Model.DHCPShow Spec.DHCP.
Open Scope string_scope.
Open Scope N_scope.

Record tstep := mkT { t_pre : dstate; t_op : op; t_reply : option reply; t_post : dstate }.

Fixpoint trace (c : cfg) (s : dstate) (h : list ((ip -> nat) * op)) : list tstep :=
  match h with
  | [] => []
  | (ch, o) :: r => let '(s1, rp) := step c ch s o in mkT s o rp s1 :: trace c s1 r
  end.

Definition op_msg (o : op) : option dmsg :=
  match o with
  | ODiscover _ m | ORequest _ m | ODecline m | ORelease m => Some m
  | _ => None
  end.
Definition is_request (o : op) : bool := match o with ORequest _ _ => true | _ => false end.

(* names of the C11 demands a step fails *)
Definition c11_fails (c : cfg) (t : tstep) : list string :=
  match op_msg (t_op t), t_reply t with
  | Some m, Some r =>
      if is_lease_reply r then
        let b := client_net c (t_pre t) m in
        let se := sess_at c (t_pre t) m in
        let x := r_yi r in
        (if acked_to_other (tbl (t_post t)) (getcid m) x then ["acked-elsewhere"] else [])
        ++ (if res_own c x then ["own"] else [])
        ++ (if res_router c x then ["router"] else [])
        ++ (if res_network c b x then ["network"] else [])
        ++ (if res_broadcast c b x then ["broadcast"] else [])
        ++ (if res_outside c b x then ["outside"] else [])
        ++ (if res_tracked_other se (m_chaddr m) x then ["tracked-other-mac"] else [])
      else []
  | _, _ => []
  end
  ++ (if uniqb (tbl (t_post t)) then [] else ["uniq"]).

Definition c12_fails (c : cfg) (t : tstep) : list string :=
  match op_msg (t_op t) with
  | Some m =>
      (match t_reply t with
       | Some r =>
           (if c12_subnet c (t_pre t) m r then [] else ["subnet-config"])
           ++ (if c12_mask_first r then [] else ["mask-after-router"])
           ++ (if c12_ack_matches (t_pre t) m r then [] else ["ack-mismatch"])
       | None => []
       end)
      ++ (if is_request (t_op t) && negb (c12_no_ack_when c (t_pre t) m (t_reply t)) then ["ack-unhonourable"] else [])
  | None => []
  end.

Fixpoint number_fails (i : nat) (fs : list (list string)) : list string :=
  match fs with
  | [] => []
  | f :: r => map (fun x => dec_of_nat i ++ ":" ++ x) f ++ number_fails (S i) r
  end.

Definition show_fails (fs : list (list string)) : string := join " " (number_fails 0 fs).
