(* Spec/DHCPCheck.v — executable per-history evaluation of the C11/C12 step
   predicates on the model's trace, and the decidable classes of recorded
   findings (column 3 of the dispatch output). *)
From PV Require Import Base.Text Model.DHCP Model.DHCPShow Spec.DHCP.
Open Scope string_scope.
Open Scope N_scope.

Record tstep := mkT { t_pre : dstate; t_ch : ip -> nat; t_op : op; t_reply : option reply; t_post : dstate }.

Fixpoint trace (c : cfg) (s : dstate) (h : list ((ip -> nat) * op)) : list tstep :=
  match h with
  | [] => []
  | (ch, o) :: r => let '(s1, rp) := step c ch s o in mkT s ch o rp s1 :: trace c s1 r
  end.

Definition op_msg (o : op) : option dmsg :=
  match o with
  | ODiscover _ m | ORequest _ m | ODecline m | ORelease m => Some m
  | _ => None
  end.
Definition is_request (o : op) : bool := match o with ORequest _ _ => true | _ => false end.

(* names of the C11 demands a step fails *)
Definition c11_fails (c : cfg) (t : tstep) : list string :=
  match op_msg (t_op t), t_reply t with
  | Some m, Some r =>
      if is_lease_reply r then
        let b := client_net c (t_pre t) m in
        let se := sess_at c (t_pre t) m in
        let x := r_yi r in
        (if acked_to_other (tbl (t_post t)) (getcid m) x then ["acked-elsewhere"] else [])
        ++ (if res_own c x then ["own"] else [])
        ++ (if res_router c x then ["router"] else [])
        ++ (if res_network c b x then ["network"] else [])
        ++ (if res_broadcast c b x then ["broadcast"] else [])
        ++ (if res_outside c b x then ["outside"] else [])
        ++ (if res_tracked_other se (m_chaddr m) x then ["tracked-other-mac"] else [])
      else []
  | _, _ => []
  end
  ++ (if uniqb (tbl (t_pre t)) && negb (uniqb (tbl (t_post t))) then ["uniq"] else []).

(* ---------------------------------------------------------------- *)
(* Recorded finding classes of C11 (known_findings.txt): the code path that produced the reply,
   with the demands that path is known not to check.  A failing step outside every class, or
   failing a demand its class does not list, is reported as a new violation. *)

(* the lease as the handler sees it after Session.Parse and findOrCreate *)
Definition seen (c : cfg) (t : tstep) (m : dmsg) : dstate * lease :=
  findOrCreate c (parse_effect c (t_pre t) m) (getcid m) (m_chaddr m).

Inductive path := PRetained | PRequested | PSelectOffer | PSelectFree | PCurrent.

(* the code path that produced an OFFER / ACK, when it is one of the unvalidated ones *)
Definition reply_path (c : cfg) (t : tstep) : option path :=
  match t_op t, t_reply t with
  | ODiscover now m, Some r =>
      if is_offer r then
        let '(s1, l) := seen c t m in
        let l1 := discover_reset now l m in
        match l_offer l1 with
        | Some _ => Some PRetained      (* an earlier offer / the current lease is offered again without any check *)
        | None =>
            match phase1 (t_ch t) (put s1 l1) l1 (m_req m) with
            | Some _ => Some PRequested (* allocIPOffer takes the requested address: only Allocated leases and FindIP are consulted *)
            | None => None              (* pool scan *)
            end
        end
      else None
  | ORequest now m, Some r =>
      if is_ack r then
        let '(_, l) := seen c t m in
        match l_state l with
        | SDiscover => Some PSelectOffer  (* SELECT confirms the pending offer; other leases and the session are not consulted *)
        | SFree => Some PSelectFree       (* SELECT with our server id on a lease in state Free (unknown / expired / re-created) *)
        | SAllocated => Some PCurrent     (* renew / rebind / reboot / repeated select of the current lease *)
        end
      else None
  | _, _ => None
  end.

Definition c11_class (c : cfg) (t : tstep) : list (string * list string) :=
  match reply_path c t with
  | Some PRetained => [("c11-discover-retained-offer-unchecked",
                        ["acked-elsewhere"; "tracked-other-mac"; "network"; "broadcast"; "outside"])]
  | Some PRequested => [("c11-discover-requested-ip-unchecked", ["network"; "broadcast"; "outside"])]
  | Some PSelectOffer => [("c11-select-pending-offer-unchecked",
                           ["acked-elsewhere"; "uniq"; "tracked-other-mac"; "network"; "broadcast"; "outside"])]
  | Some PSelectFree => [("c11-select-free-lease-acked",
                          ["acked-elsewhere"; "uniq"; "tracked-other-mac"; "network"; "broadcast"; "outside"])]
  | Some PCurrent => [("c11-ack-current-lease-unchecked",
                       ["acked-elsewhere"; "uniq"; "tracked-other-mac"; "network"; "broadcast"; "outside"])]
  | None => []
  end.

Definition mem_str (x : string) (l : list string) : bool := existsb (String.eqb x) l.

(* key of a failing step: every failed demand must be listed by one of the step's classes;
   the key is the first class that lists one of them *)
Definition step_key (cls : tstep -> list (string * list string)) (fails : list string) (t : tstep) : option string :=
  let cl := cls t in
  if forallb (fun f => existsb (fun ka => mem_str f (snd ka)) cl) fails then
    option_map fst (find (fun ka => existsb (fun f => mem_str f (snd ka)) fails) cl)
  else None.

(* key of a history: the class of its first failing step if every failing step is explained, else "-" *)
Fixpoint hist_key (cls : tstep -> list (string * list string)) (fs : list (tstep * list string)) (first : option string) : string :=
  match fs with
  | [] => match first with Some k => k | None => "-" end
  | (t, []) :: r => hist_key cls r first
  | (t, f) :: r =>
      match step_key cls f t with
      | Some k => hist_key cls r (match first with Some k0 => Some k0 | None => Some k end)
      | None => "-"
      end
  end.

Definition c12_fails (c : cfg) (t : tstep) : list string :=
  match op_msg (t_op t) with
  | Some m =>
      (match t_reply t with
       | Some r =>
           if is_lease_reply r then
             let b := client_net c (t_pre t) m in
             (if n_contains c b (r_yi r) then [] else ["yi-outside"])
             ++ (if obeqb (opt 3 r) (ipb (want_router c b)) then [] else ["router"])
             ++ (if obeqb (opt 6 r) (ipb (want_dns c b)) then [] else ["dns"])
             ++ (if obeqb (opt 1 r) (ipb (pmask (n_bits c b))) then [] else ["mask"])
             ++ (if obeqb (opt 54 r) (ipb (c_hostip c)) then [] else ["server-id"])
             ++ (if obeqb (opt 51 r) (ipb 14400) then [] else ["lease-time"])
             ++ (if r_xid r =? m_xid m then [] else ["xid"])
             ++ (if r_chaddr r =? m_chaddr m then [] else ["chaddr"])
             ++ (if c12_mask_first r then [] else ["mask-after-router"])
             ++ (if c12_ack_matches (t_pre t) m r then [] else ["ack-mismatch"])
           else []
       | None => []
       end)
      ++ (if is_request (t_op t) && negb (c12_no_ack_when c (t_pre t) m (t_reply t)) then ["ack-unhonourable"] else [])
  | None => []
  end.

Fixpoint number_fails (i : nat) (fs : list (list string)) : list string :=
  match fs with
  | [] => []
  | f :: r => List.app (map (fun x => dec_of_nat i ++ ":" ++ x) f) (number_fails (S i) r)
  end.

Definition show_fails (fs : list (list string)) : string := join " " (number_fails 0 fs).

Definition all_nil (fs : list (list string)) : bool :=
  forallb (fun f => match f with [] => true | _ => false end) fs.

(* ---------------------------------------------------------------- *)
(* Recorded finding classes of C12 *)
Fixpoint before (a b : N) (l : list N) : bool :=   (* a occurs, and before any b *)
  match l with
  | [] => false
  | x :: r => if x =? a then true else if x =? b then false else before a b r
  end.

Definition c12_class (c : cfg) (t : tstep) : list (string * list string) :=
  (match reply_path c t with
   | Some PRetained => [("c12-discover-retained-offer-unchecked", ["yi-outside"])]
   | Some PRequested => [("c12-discover-requested-ip-unchecked", ["yi-outside"])]
   | Some PSelectOffer => [("c12-select-pending-offer-unchecked", ["yi-outside"; "ack-unhonourable"])]
   | Some PSelectFree => [("c12-select-free-lease-acked", ["yi-outside"; "ack-mismatch"; "ack-unhonourable"])]
   | Some PCurrent => [("c12-ack-current-lease-unchecked", ["yi-outside"; "ack-mismatch"; "ack-unhonourable"])]
   | None => []
   end)
  ++ (* netfilter prefix = home LAN (the configuration of dhcp4_spoofer.New): findOrCreate compares the LANs
        only, so a lease keeps the subnet (router, DNS) it was created with across capture / release *)
  (match op_msg (t_op t), t_reply t with
   | Some m, Some r =>
       if is_lease_reply r && lan_same c false true
          && negb (Bool.eqb (l_net2 (snd (seen c t m))) (client_net c (t_pre t) m))
       then [("c12-same-lan-subnet-kept-across-capture", ["router"; "dns"])] else []
   | _, _ => []
   end)
  ++ (* AppendOptions emits the client's parameter request list first: router before mask when it says so *)
  (match op_msg (t_op t) with
   | Some m => if before 3 1 (m_prl m) then [("c12-prl-router-before-mask", ["mask-after-router"])] else []
   | None => []
   end).
