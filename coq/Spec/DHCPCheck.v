(* Spec/DHCPCheck.v — executable per-history evaluation of the C11/C12 step
   predicates on the model's trace, and the decidable classes of recorded
   findings (column 3 of the dispatch output). *)
From PV Require Import Base.Text Model.DHCP Model.DHCPShow Spec.DHCP.
Open Scope string_scope.
Open Scope N_scope.

Record tstep := mkT { t_pre : dstate; t_ch : ip -> nat; t_op : op; t_reply : option reply; t_post : dstate }.

Fixpoint trace (c : cfg) (s : dstate) (h : list ((ip -> nat) * op)) : list tstep :=
  match h with
  | [] => []
  | (ch, o) :: r => let '(s1, rp) := step c ch s o in mkT s ch o rp s1 :: trace c s1 r
  end.

Definition op_msg (o : op) : option dmsg :=
  match o with
  | ODiscover _ m | ORequest _ m | ODecline m | ORelease m => Some m
  | _ => None
  end.
(* the clock value the handler read during the op *)
Definition op_now (o : op) : Z := match o with ODiscover n _ | ORequest n _ => n | _ => 0%Z end.
Definition is_request (o : op) : bool := match o with ORequest _ _ => true | _ => false end.

(* the lease time an ACK grants (option 51 of the reply, seconds) *)
Definition granted_secs (r : reply) : Z :=
  match opt 51 r with Some b => Z.of_N (N_of_bytes b) | None => 0%Z end.

(* what the server PROMISED (the ACK's lease time) against what it RECORDS (the lease's expiry): after an
   ACK the binding of that client id is recorded at least until now + granted time *)
Definition record_covers_grant (t : tstep) : bool :=
  match op_msg (t_op t), t_reply t with
  | Some m, Some r =>
      if is_ack r then
        match tget (getcid m) (tbl (t_post t)) with
        | Some l => lstate_eqb (l_state l) SAllocated && (op_now (t_op t) + granted_secs r <=? l_exp l)%Z
        | None => false
        end
      else true
  | _, _ => true
  end.

(* ---------------------------------------------------------------- *)
(* "Still acknowledged" judged by the GRANTED time: a ghost record of the ACKs the clients hold.
   A grant (client id, address, until) starts with an ACK (until = clock value of the ACK + granted
   lease time) and ends at [until] or with the client's next message (which either renews it by a new
   ACK or gives the address up: DISCOVER, DECLINE, RELEASE, a REQUEST that is not ACKed).  The test hook
   that rewrites a lease's expiry moves a still running grant with it.  Time is the largest clock value seen so far
   (handlers' now, MinuteTicker's now). *)
Record grant := mkG { g_cid : cid; g_ip : ip; g_until : Z }.

Definition op_clock (o : op) : option Z :=
  match o with ODiscover n _ | ORequest n _ | OTick n => Some n | _ => None end.

Definition running_other (clock : Z) (gs : list grant) (k : cid) (x : ip) : bool :=
  existsb (fun g => negb (g_cid g =? k) && (g_ip g =? x) && (clock <? g_until g)%Z) gs.

Definition ghost_step (clock : Z) (gs : list grant) (t : tstep) : Z * list grant * list string :=
  let clock' := match op_clock (t_op t) with Some n => Z.max clock n | None => clock end in
  match t_op t with
  | OSetExp k te => (clock', map (fun g => if (g_cid g =? k) && (clock' <? g_until g)%Z then mkG k (g_ip g) te else g) gs, [])
  | _ =>
      match op_msg (t_op t) with
      | Some m =>
          let k := getcid m in
          let gs1 := filter (fun g => negb (g_cid g =? k)) gs in
          match t_reply t with
          | Some r =>
              (clock',
               (if is_ack r then mkG k (r_yi r) (op_now (t_op t) + granted_secs r) :: gs1 else gs1),
               (* no OFFER/ACK of an address another client still holds an unexpired ACK for *)
               (if is_lease_reply r && running_other clock' gs1 k (r_yi r) then ["granted-elsewhere"] else []))
          | None => (clock', gs1, [])
          end
      | None => (clock', gs, [])
      end
  end.

Fixpoint ghost_fails (clock : Z) (gs : list grant) (tr : list tstep) : list (list string) :=
  match tr with
  | [] => []
  | t :: r => let '(clock', gs', f) := ghost_step clock gs t in f :: ghost_fails clock' gs' r
  end.

(* the grants a restarted handler inherits: the acknowledged leases it restored *)
Definition grants_of (t : list lease) : list grant :=
  flat_map (fun l => match l_state l, l_ip l with
                     | SAllocated, Some x => [mkG (l_cid l) x (l_exp l)]
                     | _, _ => []
                     end) t.

Fixpoint zip_fails (a b : list (list string)) : list (list string) :=
  match a, b with
  | x :: r, y :: q => List.app x y :: zip_fails r q
  | _, _ => a
  end.

(* names of the C11 demands a step fails *)
Definition c11_fails (c : cfg) (t : tstep) : list string :=
  match op_msg (t_op t), t_reply t with
  | Some m, Some r =>
      if is_lease_reply r then
        let b := client_net c (t_pre t) m in
        let se := sess_at c (t_pre t) m in
        let x := r_yi r in
        (if acked_to_other (tbl (t_post t)) (getcid m) x then ["acked-elsewhere"] else [])
        ++ (if res_own c x then ["own"] else [])
        ++ (if res_router c x then ["router"] else [])
        ++ (if res_network c b x then ["network"] else [])
        ++ (if res_broadcast c b x then ["broadcast"] else [])
        ++ (if res_outside c b x then ["outside"] else [])
        ++ (if res_tracked_other se (m_chaddr m) x then ["tracked-other-mac"] else [])
      else []
  | _, _ => []
  end
  ++ (if uniqb (tbl (t_pre t)) && negb (uniqb (tbl (t_post t))) then ["uniq"] else [])
  ++ (if record_covers_grant t then [] else ["record-short"]).

(* ---------------------------------------------------------------- *)
(* Recorded finding classes (known_findings.txt): per failing step, the classes that explain it
   (key, demands the class is known to fail).  A failing step outside every class, or failing a
   demand its classes do not list, is reported as a new violation.
   C11: none left (the five classes of the unchanged code were repaired, see FIXLOG.md). *)

Definition c11_class (c : cfg) (t : tstep) : list (string * list string) := [].

Definition mem_str (x : string) (l : list string) : bool := existsb (String.eqb x) l.

(* key of a failing step: every failed demand must be listed by one of the step's classes;
   the key is the first class that lists one of them *)
Definition step_key (cls : tstep -> list (string * list string)) (fails : list string) (t : tstep) : option string :=
  let cl := cls t in
  if forallb (fun f => existsb (fun ka => mem_str f (snd ka)) cl) fails then
    option_map fst (find (fun ka => existsb (fun f => mem_str f (snd ka)) fails) cl)
  else None.

(* key of a history: the class of its first failing step if every failing step is explained, else "-" *)
Fixpoint hist_key (cls : tstep -> list (string * list string)) (fs : list (tstep * list string)) (first : option string) : string :=
  match fs with
  | [] => match first with Some k => k | None => "-" end
  | (t, []) :: r => hist_key cls r first
  | (t, f) :: r =>
      match step_key cls f t with
      | Some k => hist_key cls r (match first with Some k0 => Some k0 | None => Some k end)
      | None => "-"
      end
  end.

Definition c12_fails (c : cfg) (t : tstep) : list string :=
  match op_msg (t_op t) with
  | Some m =>
      (match t_reply t with
       | Some r =>
           if is_lease_reply r then
             let b := client_net c (t_pre t) m in
             (if want_contains c b (r_yi r) then [] else ["yi-outside"])
             ++ (if obeqb (opt 3 r) (ipb (want_router c b)) then [] else ["router"])
             ++ (if obeqb (opt 6 r) (ipb (want_dns c b)) then [] else ["dns"])
             ++ (if obeqb (opt 1 r) (ipb (pmask (want_bits c b))) then [] else ["mask"])
             ++ (if obeqb (opt 54 r) (ipb (c_hostip c)) then [] else ["server-id"])
             ++ (if obeqb (opt 51 r) (ipb 14400) then [] else ["lease-time"])
             ++ (if r_xid r =? m_xid m then [] else ["xid"])
             ++ (if r_chaddr r =? m_chaddr m then [] else ["chaddr"])
             ++ (if c12_mask_first r then [] else ["mask-after-router"])
             ++ (if c12_ack_matches (t_pre t) m r then [] else ["ack-mismatch"])
           else []
       | None => []
       end)
      ++ (if is_request (t_op t) && negb (c12_no_ack_when c (t_pre t) m (op_now (t_op t)) (t_reply t)) then ["ack-unhonourable"] else [])
  | None => []
  end.

Fixpoint number_fails (i : nat) (fs : list (list string)) : list string :=
  match fs with
  | [] => []
  | f :: r => List.app (map (fun x => dec_of_nat i ++ ":" ++ x) f) (number_fails (S i) r)
  end.

Definition show_fails (fs : list (list string)) : string := join " " (number_fails 0 fs).

Definition all_nil (fs : list (list string)) : bool :=
  forallb (fun f => match f with [] => true | _ => false end) fs.

(* ---------------------------------------------------------------- *)
(* Recorded finding classes of C12: none left (c12-prl-router-before-mask repaired by 94e2701,
   c12-expired-lease-acked by 8b460ec). *)
Definition c12_class (c : cfg) (t : tstep) : list (string * list string) := [].

(* ---------------------------------------------------------------- *)
(* the observation: per step the reply summary — an ACK followed by ",rec<seconds>": how long from now
   the server's record of the binding lasts, rounded to the minute — then the lease table *)
Definition round60 (d : Z) : Z := (((d + 30) / 60) * 60)%Z.
Definition show_hdr (h : bootp_hdr) : string :=
  ";h=" ++ hexw 1 (h_op h) ++ hexw 1 (h_htype h) ++ hexw 1 (h_hlen h) ++ hexw 1 (h_hops h) ++ "," ++ hexw 2 (h_secs h)
  ++ "," ++ hexw 2 (h_flags h) ++ "," ++ hexw 4 (h_ciaddr h) ++ "," ++ hexw 4 (h_siaddr h) ++ "," ++ hexw 4 (h_giaddr h)
  ++ "," ++ show_bool (h_zeroed h) ++ "," ++ hexw 4 (h_cookie h).
Definition show_step_body (t : tstep) : string :=
  match t_reply t, op_msg (t_op t) with
  | Some r, Some m =>
      if is_ack r then
        show_reply (Some r) ++ ",rec" ++
        match tget (getcid m) (tbl (t_post t)) with
        | Some l => dec_of_Z (round60 (l_exp l - op_now (t_op t)))
        | None => "-"
        end
      else show_reply (Some r)
  | rp, _ => show_reply rp
  end.
Definition show_step (t : tstep) : string :=
  match t_reply t, op_msg (t_op t) with
  | Some r, Some m => show_step_body t ++ show_hdr (reply_header (r_type r) m)
  | _, _ => show_step_body t
  end.
(* the table part starts with the operating mode in force (Handler.Mode()) *)
Definition show_trace (c : cfg) (tr : list tstep) (s : dstate) : string :=
  join " " (map show_step tr) ++ " | m" ++ dec_of_N (c_mode c) ++ ";" ++ show_table (tbl s).

(* ---------------------------------------------------------------- *)
(* Constants of the Go source the model hard-codes, by the source's identifier: compared on every run with
   the values the harness reads from the source with go/ast (case kind "src NAME"). *)
Definition src_table : list (string * N) :=
  [("DHCP4OptionSubnetMask", 1); ("DHCP4OptionRouter", 3); ("DHCP4OptionDomainNameServer", 6);
   ("DHCP4OptionHostName", 12); ("DHCP4OptionPerformRouterDiscovery", 31); ("DHCP4OptionStaticRoute", 33);
   ("DHCP4OptionRequestedIPAddress", 50); ("DHCP4OptionIPAddressLeaseTime", 51); ("DHCP4OptionDHCPMessageType", 53);
   ("DHCP4OptionServerIdentifier", 54); ("DHCP4OptionParameterRequestList", 55); ("DHCP4OptionClientIdentifier", 61);
   ("DHCP4OptionClasslessRouteFormat", 121); ("DHCP4End", 255); ("DHCP4Pad", 0);
   ("DHCP4Discover", 1); ("DHCP4Offer", 2); ("DHCP4Request", 3); ("DHCP4Decline", 4); ("DHCP4ACK", 5);
   ("DHCP4NAK", 6); ("DHCP4Release", 7); ("DHCP4BootRequest", 1); ("DHCP4BootReply", 2);
   ("DHCP4ServerPort", 67); ("DHCP4ClientPort", 68);
   ("StateFree", 0); ("StateDiscover", 1); ("StateAllocated", 2);
   ("ModePrimaryServer", 1); ("ModeSecondaryServer", 2); ("ModeSecondaryServerNice", 3);
   ("lease_duration_seconds", 14400); ("DNSv4CloudFlareFamily1", 16843011)].
Definition src_const (name : string) : option N :=
  option_map snd (find (fun p => String.eqb (fst p) name) src_table).
Definition src_get (name : string) : N := match src_const name with Some v => v | None => 0 end.

(* spec column, independent of the model's normalisation: option 6 of every OFFER/ACK to a non-captured
   client is the configured DNS server of the RAW configuration, the router when none is configured *)
Definition c12_dns_fails (r : rawcfg) (c : cfg) (t : tstep) : list string :=
  match op_msg (t_op t), t_reply t with
  | Some m, Some rp =>
      if is_lease_reply rp && negb (client_net c (t_pre t) m) && negb (obeqb (opt 6 rp) (ipb (spec_dns r)))
      then ["dns-default"] else []
  | _, _ => []
  end.
