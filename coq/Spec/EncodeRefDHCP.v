(* Spec/EncodeRefDHCP.v — reference decoder of a BOOTP/DHCP message, from
   RFC 2131 section 2 (fixed format, magic cookie) and RFC 2132 section 2
   (option encoding: Pad, End, code/length/value), independent of the library. *)
From PV Require Export Base.Prelude Spec.EncodeRef.
Open Scope N_scope.

(* options in wire order; [None] when an option is truncated or End is missing *)
Fixpoint ref_dhcp_opts (fuel : nat) (o : bytes) : option (list (N * bytes)) :=
  match fuel with
  | O => None
  | S k =>
    match o with
    | [] => None
    | c :: r =>
        if c =? 255 then Some []
        else if c =? 0 then ref_dhcp_opts k r
        else match r with
             | [] => None
             | l :: body =>
                 let n := N.to_nat l in
                 if Nat.ltb (length body) n then None
                 else match ref_dhcp_opts k (drop n body) with
                      | Some rest => Some ((c, take n body) :: rest)
                      | None => None
                      end
             end
    end
  end.

(* what follows the End option must be padding *)
Fixpoint after_end (fuel : nat) (o : bytes) : option bytes :=
  match fuel with
  | O => None
  | S k =>
    match o with
    | [] => None
    | c :: r =>
        if c =? 255 then Some r
        else if c =? 0 then after_end k r
        else match r with
             | [] => None
             | l :: body => after_end k (drop (N.to_nat l) body)
             end
    end
  end.

Record r_dhcp := {
  rd_op : N; rd_htype : N; rd_hlen : N; rd_hops : N; rd_xid : bytes; rd_secs : N; rd_flags : N;
  rd_ciaddr : bytes; rd_yiaddr : bytes; rd_siaddr : bytes; rd_giaddr : bytes;
  rd_chaddr : bytes; rd_sname : bytes; rd_file : bytes; rd_options : list (N * bytes); rd_pad : bytes }.

Definition ref_dhcp (f : bytes) : option r_dhcp :=
  match f with
  | op :: ht :: hl :: hops :: r1 =>
      let xid := take 4 r1 in
      match drop 4 r1 with
      | s1 :: s0 :: f1 :: f0 :: r2 =>
          if Nat.ltb (length r2) (16 + 16 + 64 + 128 + 4) then None else
          let body := drop 224 r2 in
          match take 4 body with
          | [99; 130; 83; 99] =>
              let o := drop 4 body in
              match ref_dhcp_opts (S (length o)) o, after_end (S (length o)) o with
              | Some os, Some pad =>
                  Some {| rd_op := op; rd_htype := ht; rd_hlen := hl; rd_hops := hops; rd_xid := xid;
                          rd_secs := w16 s1 s0; rd_flags := w16 f1 f0;
                          rd_ciaddr := take 4 r2; rd_yiaddr := take 4 (drop 4 r2);
                          rd_siaddr := take 4 (drop 8 r2); rd_giaddr := take 4 (drop 12 r2);
                          rd_chaddr := take 16 (drop 16 r2); rd_sname := take 64 (drop 32 r2);
                          rd_file := take 128 (drop 96 r2); rd_options := os; rd_pad := pad |}
              | _, _ => None
              end
          | _ => None
          end
      | _ => None
      end
  | _ => None
  end.

(* position of the first option with a given code *)
Fixpoint opt_index (k : N) (l : list (N * bytes)) (i : nat) : option nat :=
  match l with
  | [] => None
  | (k', _) :: r => if k' =? k then Some i else opt_index k r (S i)
  end.
(* RFC 2132 3.3: "If both the subnet mask and the router option are specified in a DHCP
   reply, the subnet mask option MUST be first." *)
Definition mask_before_router (l : list (N * bytes)) : bool :=
  match opt_index 1 l 0, opt_index 3 l 0 with
  | Some i, Some j => Nat.ltb i j
  | _, _ => true
  end.
