(* Spec/OnesComplement.v — RFC 1071 Internet checksum, stated arithmetically
   and independently of the library's algorithm. *)
From PV Require Export Base.Prelude.
Open Scope N_scope.

(* sum of the big-endian 16-bit words of b, an odd tail padded with a zero byte *)
Fixpoint be_sum (b : bytes) : N :=
  match b with
  | hi :: lo :: r => be16 hi lo + be_sum r
  | [x] => be16 x 0
  | [] => 0
  end.

(* value of a natural number in one's-complement 16-bit arithmetic with
   end-around carry: 0 stays 0, any other multiple of 65535 is 0xffff *)
Definition oc_fold (x : N) : N := if x =? 0 then 0 else (x - 1) mod 65535 + 1.

(* one's complement addition of two 16-bit values *)
Definition oc_add (x y : N) : N := oc_fold (x + y).

(* the checksum: complement of the one's-complement sum *)
Definition rfc1071 (b : bytes) : N := 65535 - oc_fold (be_sum b).

(* a message verifies iff its one's-complement sum (checksum field included) is 0xffff *)
Definition verifies (b : bytes) : Prop := oc_fold (be_sum b) = 65535.
Definition verifiesb (b : bytes) : bool := oc_fold (be_sum b) =? 65535.

(* byte swap of a 16-bit value: the library keeps checksums little-endian in
   a uint16 and stores the low byte first, i.e. network order on the wire *)
Definition swap16 (x : N) : N := (x mod 256) * 256 + x / 256.
