(* Model/DNSConsts.v — the numeric constants of layer_dns.go / nbns.go / mdns.go that the DNS models
   hard-code, by name.  The harness extracts the same constants from the Go source with go/ast
   (case kind `consts`): a source edit that changes one of them is reported even if no generated
   message happens to exercise it.  Where the model has a named definition it is used here; the
   literals inside the model functions are pinned by the boundary Examples of Properties/C17.v
   (254/255 pointers, 256/257 octets, reserved bits, 4/16-byte addresses, 18-byte node entries,
   300 s cache). *)
From PV Require Import Base.Prelude Model.DNS Model.DNSRecords Model.DNSNbns Model.DNSMdns.
From Coq Require Import String.
Open Scope string_scope.
Open Scope N_scope.

Definition dns_consts : list (string * N) :=
  [ ("maxRecursionLevel", N.of_nat maxRecursionLevel);   (* const maxRecursionLevel = 255 *)
    ("name.window", 255);            (* index2-offset > 255 *)
    ("name.topmask", 192);           (* switch data[index] & 0xc0 *)
    ("name.case.pointer", 192);      (* case 0xc0 *)
    ("name.case.reserved40", 64);    (* case 0x40 *)
    ("name.case.reserved80", 128);   (* case 0x80 *)
    ("name.ptrmask", 16383);         (* & 0x3fff *)
    ("header.min", 12);              (* DNS.IsValid: len(p) >= 12 *)
    ("question.count", 1);           (* p.QDCount() != 1 *)
    ("question.min", 5);             (* index+5 > len(p) *)
    ("question.tail", 4);            (* endq+4 > len(p) *)
    ("rr.header", 10);               (* endq+10 > len(p) *)
    ("rr.type.A", 1); ("rr.type.AAAA", 28); ("rr.type.CNAME", 5); ("rr.type.MX", 15); ("rr.type.PTR", 12);
    ("rr.len.A", 4); ("rr.len.AAAA", 16);
    ("processdns.index", 12);        (* index := 12 *)
    ("processdns.buffer", 64);       (* make([]byte, 0, 64) *)
    ("nbns.entry", 18);              (* len(b) < n*18, index := 18 * i *)
    ("nbns.name", 16);               (* b[index:index+16] *)
    ("nbns.groupflag", 32768);       (* flags & 0x8000 *)
    ("nbns.encoded.min", 34);        (* len(buf) < 32+1+1 *)
    ("nbns.encoded.label", 32);      (* buf[0] != 0x20 *)
    ("mdns.cache.minutes", Z.to_N (MDNS_CACHE_SECONDS / 60)) ].   (* time.Minute * 5 *)

Fixpoint const_lookup (k : string) (l : list (string * N)) : option N :=
  match l with
  | [] => None
  | (n, v) :: r => if String.eqb n k then Some v else const_lookup k r
  end.
