(* Model/DNSNbns.v — parseNodeNameArray / processNBNSNodeStatusResponse and the
   name ProcessNBNS extracts from a NODE STATUS answer (handlers/dns_naming/nbns.go:172-280). *)
From PV Require Export Base.Prelude Base.Slice.
Open Scope N_scope.
Open Scope res_scope.

(* bytes.TrimRight(b, cutset) for a one-byte cutset *)
Fixpoint trim_right_rev (c : byte) (r : bytes) : bytes :=
  match r with
  | x :: r' => if x =? c then trim_right_rev c r' else r
  | [] => []
  end.
Definition trim_right (c : byte) (b : bytes) : bytes := rev (trim_right_rev c (rev b)).

(* the loop: for i := 0; i < n; i++ { index := 18*i; flags := Uint16(b[index+16:index+18]); ... b[index:index+16] ... } *)
Fixpoint nna_loop (b : slice) (todo : nat) (i : nat) (names : list bytes) : res (list bytes) :=
  match todo with
  | O => Ok names
  | S t =>
      let index := (18 * i)%nat in
      flags <- be16_at b (index + 16) ;;
      if N.land flags 32768 =? 0 then
        first <- sl b index (index + 16) ;;
        let nn := trim_right 32 (trim_right 0 (view first)) in
        nna_loop b t (S i) (names ++ [nn])
      else nna_loop b t (S i) names
  end.

Definition parseNodeNameArray (b : slice) : res (list bytes) :=
  if Nat.ltb (len b) 1 then Err EFrameLen
  else
    n0 <- idx b 0 ;;
    let n := N.to_nat n0 in
    b1 <- slfrom b 1 ;;
    if Nat.ltb (len b1) (n * 18) then Err EFrameLen
    else nna_loop b1 n 0 [].

Definition processNBNSNodeStatusResponse (b : slice) : res (list bytes) :=
  if Nat.ltb (len b) 3 then Err EOther else parseNodeNameArray b.

(* ProcessNBNS on a response whose single answer is a NODE STATUS record with RDATA b
   (r.Data of dnsmessage: len = cap): the name it returns, None when it keeps name.Name empty *)
Definition nbns_answer_name (b : slice) : res (option bytes) :=
  match processNBNSNodeStatusResponse b with
  | Ok (x :: _) => Ok (Some x)
  | Ok [] => Ok None
  | Err _ => Ok None
  | Panic => Panic
  | Fuel => Fuel
  end.
