(* Model/DNSNbns.v — parseNodeNameArray / processNBNSNodeStatusResponse and the
   name ProcessNBNS extracts from a NODE STATUS answer (handlers/dns_naming/nbns.go:172-280). *)
From PV Require Export Base.Prelude Base.Slice.
Open Scope N_scope.
Open Scope res_scope.

(* bytes.TrimRight(b, cutset) for a one-byte cutset *)
Fixpoint trim_right_rev (c : byte) (r : bytes) : bytes :=
  match r with
  | x :: r' => if x =? c then trim_right_rev c r' else r
  | [] => []
  end.
Definition trim_right (c : byte) (b : bytes) : bytes := rev (trim_right_rev c (rev b)).

(* the loop: for i := 0; i < n; i++ { index := 18*i; flags := Uint16(b[index+16:index+18]); ... b[index:index+16] ... } *)
Fixpoint nna_loop (b : slice) (todo : nat) (i : nat) (names : list bytes) : res (list bytes) :=
  match todo with
  | O => Ok names
  | S t =>
      let index := (18 * i)%nat in
      flags <- be16_at b (index + 16) ;;
      if N.land flags 32768 =? 0 then
        first <- sl b index (index + 16) ;;
        let nn := trim_right 32 (trim_right 0 (view first)) in
        nna_loop b t (S i) (names ++ [nn])
      else nna_loop b t (S i) names
  end.

Definition parseNodeNameArray (b : slice) : res (list bytes) :=
  if Nat.ltb (len b) 1 then Err EFrameLen
  else
    n0 <- idx b 0 ;;
    let n := N.to_nat n0 in
    b1 <- slfrom b 1 ;;
    if Nat.ltb (len b1) (n * 18) then Err EFrameLen
    else nna_loop b1 n 0 [].

Definition processNBNSNodeStatusResponse (b : slice) : res (list bytes) :=
  if Nat.ltb (len b) 3 then Err EOther else parseNodeNameArray b.

(* ProcessNBNS on a response whose single answer is a NODE STATUS record with RDATA b
   (r.Data of dnsmessage: len = cap): the name it returns, None when it keeps name.Name empty *)
Definition nbns_answer_name (b : slice) : res (option bytes) :=
  match processNBNSNodeStatusResponse b with
  | Ok (x :: _) => Ok (Some x)
  | Ok [] => Ok None
  | Err _ => Ok None
  | Panic => Panic
  | Fuel => Fuel
  end.

(* ------------------------------------------------------------------ *)
(* encodeNBNSName / decodeNBNSName (nbns.go:48-118): RFC 1001 first-level encoding *)

(* byte subtraction b - 'A' on uint8 *)
Definition u8sub (a b : N) : N := (a + 256 - b) mod 256.

(* ((buf[i] - 'A') << 4) | (buf[i+1] - 'A') on uint8 *)
Definition nb_char (a b : N) : N := N.lor (u8 (N.shiftl (u8sub a 65) 4)) (u8sub b 65).

(* for i := 0; i < 32; i = i + 2 { raw[i/2] = ... } *)
Fixpoint nb_chars (buf : slice) (i : nat) (todo : nat) (acc : bytes) : res bytes :=
  match todo with
  | O => Ok acc
  | S t =>
      a <- idx buf i ;;
      b <- idx buf (i + 1) ;;
      nb_chars buf (i + 2) t (acc ++ [nb_char a b])
  end.

Definition decodeNBNSName (buf : slice) : res (nat * bytes) :=
  if Nat.ltb (len buf) 34 then Err EOther
  else
    last <- idx buf (len buf - 1) ;;
    if negb (last =? 0) then Err EParseFrame
    else
      b0 <- idx buf 0 ;;
      if negb (b0 =? 32) then Err EParseFrame
      else
        buf1 <- slfrom buf 1 ;;
        name <- nb_chars buf1 0 16 [] ;;
        Ok (len buf1, trim_right 32 name).

(* name longer than 16: name[:15]; shorter: padded with spaces; 0x20, two letters per byte, 0x00 *)
Definition encodeNBNSName (name : bytes) : bytes :=
  let n1 := if Nat.ltb 16 (length name) then firstn 15 name else name in
  let n2 := if Nat.ltb (length n1) 16 then n1 ++ repeat 32 (16 - length n1) else n1 in
  32 :: flat_map (fun c => [65 + N.shiftr c 4; 65 + N.land c 15]) n2 ++ [0].
