(* Model/LocksCensus.v — whole-package censuses of the five packages, as found and classified; compared on every
   run with what harness/cmd/c09/census.go derives from the source (kinds balance / blockcensus / pkgvars).
   * balance: every return path of every function releases the locks and pooled buffers it acquired, no
     unlock / Put of something not held: NO exception.
   * blocking operations (connection / file writes, blocking sends, receives and selects, time.Sleep, http, calls
     of function values) with a lock held, also through calls inside the five packages.  As found: the DHCP
     server answers and saves its lease file while it holds its own handler lock (dhcp4.go ProcessPacket ->
     handle* -> SendDiscoverPacket / saveConfig).  Every other blocking operation holds no lock — in particular
     none holds the session lock, a row lock or the global ping table lock.
   * package-level variables written after initialisation, with the lock held at the write and their guard. *)
From PV Require Import Base.Prelude Base.Text Model.LocksStatic.
Open Scope string_scope.

Definition balance_exceptions : list string := [].

Definition blocking_under_lock : list string := ["Dhcp:W>connwrite"; "Dhcp:W>file"].

(* (variable @ lock held at its writes, guard / why it is safe in the supported pattern) *)
Definition pkgvars_written : list (string * string) :=
  [("dhcp4_spoofer.fakeMAC@-",      "written by attackDHCPServer, called under the dhcp4 handler lock (packet loop)");
   ("dhcp4_spoofer.nextAttack@-",   "same");
   ("dns_naming.sequence@-",        "SSDP search sequence counter, caller's goroutine");
   ("dns_naming.ssdpIPv4Addr@-",    "set once by SendSSDPSearch before use");
   ("icmp_spoofer.repeat@-",        "RA counter: packet loop only (field_guard GPkt)");
   ("packet.icmpTable@Ping:W",      "ping waiter table under its own mutex");
   ("packet.stpCount@-",            "802.3 STP log throttle: packet loop only");
   ("packet.stpNextLog@-",          "same")].

(* runtime-settable switches: the package-level loggers (atomic level: Disable / EnableInfo / EnableDebug / SetLevel
   at any time; the @toggle mixes flip the exported ones while the pattern runs) and exported boolean variables
   (dns_naming.Debug is a plain bool: the caller must set it before the handlers run) *)
Definition switches_known : list string :=
  ["packet.Logger:logger"; "arp_spoofer.Logger:logger"; "icmp_spoofer.Logger6:logger"; "icmp_spoofer.Logger4:logger";
   "dhcp4_spoofer.Logger:logger"; "dns_naming.Logger:logger"; "dns_naming.LoggerMDNS:logger";
   "dns_naming.ssdpLogger:logger"; "dns_naming.Debug:bool"].
Definition census_switches : string := show_set switches_known.

Definition census_balance : string := show_set balance_exceptions.
Definition census_blocking : string := show_set blocking_under_lock.
Definition census_pkgvars : string := show_set (map fst pkgvars_written).
