(* Model/Lease.v — lease-file persistence of the DHCPv4 server
   (handlers/dhcp4_spoofer/subnet_lease.go: newSubnet, loadByteArray, saveConfig;
   dhcp4.go: Config.New, configChanged), at the level of the parsed YAML document.
   Mirrors the Go code statement by statement (as repaired by the three fix commits of DESIGN 11 #23:
   nil-subnet guard, IPv4-only LAN, temp file + rename, checksum line), remaining defects included.
   Executable; no proofs here. *)
From PV Require Import Base.Prelude Model.LeaseBase.
Open Scope N_scope.

(* ---------------------------------------------------------------- *)
(* SubnetConfig (ID is only used for logging and is not modelled) *)
Record subnetcfg : Type := {
  s_lan : prefix;      (* LAN *)
  s_gw : addr;         (* DefaultGW *)
  s_dhcp : addr;       (* DHCPServer *)
  s_dns : addr;        (* DNSServer *)
  s_first : addr;      (* FirstIP *)
  s_dur : Z;           (* Duration, nanoseconds *)
  s_stage : N          (* Stage: packet.HuntStage (byte); StageNormal = 1, StageRedirected = 3 *)
}.

(* dhcpSubnet: the validated configuration + broadcast address (options are derived, nextIP starts as the zero Addr) *)
Record subnet : Type := { n_cfg : subnetcfg; n_bcast : addr }.

Definition four_hours : Z := (4 * 3600 * 1000000000)%Z.

(* newSubnet (subnet_lease.go:41), after the repair that rejects non-IPv4 prefixes *)
Definition newSubnet (c : subnetcfg) : res subnet :=
  if negb (pvalid (s_lan c)) || negb (is4 (paddr (s_lan c))) then Err EOther   (* !LAN.IsValid() || !LAN.Addr().Is4() *)
  else match s_lan c with
  | P (A4 n) b =>
      let base := mask4 b n in
      let lan := P (A4 base) b in                                     (* config.LAN.Masked() *)
      let bcast := A4 (base + 2 ^ (32 - b) - 1) in                    (* a4[i] | ^mask[i] *)
      let first :=
        if negb (is4 (s_first c)) || is_unspec (s_first c) || negb (contains lan (s_first c))
        then anext (A4 base) else s_first c in
      let dur := if (s_dur c =? 0)%Z then four_hours else s_dur c in
      if negb ((s_stage c =? 1) || (s_stage c =? 3)) then Err EOther  (* invalid subnet stage *)
      else if negb (contains (s_lan c) (s_gw c)) then Err EOther      (* DefaultGW not in subnet *)
      else if negb (contains (s_lan c) first) then Err EOther         (* FirstIP not in subnet *)
      else if is_unspec (s_dns c) then Err EOther                     (* invalid DNSServer *)
      else Ok {| n_cfg := {| s_lan := lan; s_gw := s_gw c; s_dhcp := s_dhcp c; s_dns := s_dns c;
                              s_first := first; s_dur := dur; s_stage := s_stage c |};
                 n_bcast := bcast |}
  | _ => Err EOther   (* not reached: the guard above *)
  end.

(* ---------------------------------------------------------------- *)
(* Lease: the fields the property constrains (+ expiry, needed for renewals) *)
Record lease_rec : Type := {
  r_cid : bytes;       (* ClientID *)
  r_state : Z;         (* State (Go int): 0 free, 1 discover, 2 allocated *)
  r_mac : bytes;       (* Addr.MAC *)
  r_ip : addr;         (* Addr.IP *)
  r_expiry : Z         (* DHCPExpiry, unix nanoseconds *)
}.

(* in-memory lease: record + which subnet the unexported pointer refers to (1 = net1, 2 = net2) *)
Record lease : Type := { l_rec : lease_rec; l_sub : N }.

Definition table := list lease.   (* Go: map[string]*Lease keyed by string(ClientID) *)

Definition l_cid (l : lease) := r_cid (l_rec l).
Definition allocated (l : lease) : bool := (r_state (l_rec l) =? 2)%Z.

(* tt[string(v.ClientID)] = &l : replace the entry with that key, or add one *)
Fixpoint tinsert (l : lease) (t : table) : table :=
  match t with
  | [] => [l]
  | x :: r => if bytes_eqb (l_cid x) (l_cid l) then l :: r else x :: tinsert l r
  end.

(* the unmarshalled document *)
Record doc : Type := { d_net1 : option subnetcfg; d_net2 : option subnetcfg; d_leases : list lease_rec }.

(* the session as far as loadByteArray looks at it: IsCaptured(mac) *)
Definition sess := bytes -> bool.

(* loop of loadByteArray (subnet_lease.go:209-239); both subnets are present (guard before the loop) *)
Fixpoint load_loop (captured : sess) (s1 s2 : subnet) (rs : list lease_rec) (tt : table) : table :=
  match rs with
  | [] => tt
  | v :: rest =>
      if negb (r_state v =? 2)%Z then load_loop captured s1 s2 rest tt           (* invalid state: continue *)
      else if negb (avalid (r_ip v)) || negb (contains (s_lan (n_cfg s1)) (r_ip v))
      then load_loop captured s1 s2 rest tt                                      (* invalid LAN *)
      else match r_cid v with
      | [] => load_loop captured s1 s2 rest tt                                   (* invalid clientID *)
      | _ =>
          (* net2 only for a usable host address of net2: inside, not its network or broadcast address (/repo d15f9fe) *)
          let sub := if captured (r_mac v)
                     then (if contains (s_lan (n_cfg s2)) (r_ip v)
                              && negb (addr_eqb (r_ip v) (paddr (s_lan (n_cfg s2))))
                              && negb (addr_eqb (r_ip v) (n_bcast s2)) then 2 else 1)
                     else 1 in
          load_loop captured s1 s2 rest (tinsert {| l_rec := v; l_sub := sub |} tt)
      end
  end.

Definition opt_subnet (o : option subnetcfg) : res (option subnet) :=
  match o with
  | None => Ok None
  | Some c => (s <- newSubnet c ;; Ok (Some s))%res
  end.

(* loadByteArray after a successful yaml.Unmarshal *)
Definition load (captured : sess) (d : doc) : res (subnet * subnet * table) :=
  (n1 <- opt_subnet (d_net1 d) ;;
   n2 <- opt_subnet (d_net2 d) ;;
   match n1, n2 with
   | Some s1, Some s2 => Ok (s1, s2, load_loop captured s1 s2 (d_leases d) [])
   | _, _ => Err EOther                                   (* missing subnet configuration (repair of #23) *)
   end)%res.

(* saveConfig: the Allocated leases in map iteration order; [ord] is that order
   (a permutation of the table, universally quantified in the theorems). *)
Definition save_leases (ord : table) : list lease_rec :=
  map l_rec (filter allocated ord).
Definition save (n1 n2 : subnet) (ord : table) : doc :=
  {| d_net1 := Some (n_cfg n1); d_net2 := Some (n_cfg n2); d_leases := save_leases ord |}.

(* ---------------------------------------------------------------- *)
(* Config.New (dhcp4.go:81) *)
Record cfg : Type := {
  c_home : prefix;       (* session.NICInfo.HomeLAN4 *)
  c_host : addr;         (* session.NICInfo.HostAddr4.IP *)
  c_router : addr;       (* session.NICInfo.RouterAddr4.IP *)
  c_netfilter : prefix;  (* config.NetfilterIP *)
  c_dns : addr           (* config.DNSServer *)
}.

(* the integrity line of the file (repair 4 of #23): saveConfig writes a first line "checksum: <sha256 of the
   rest>"; loadByteArray rejects the text when that line is present and does not match; texts that do not
   start with "checksum: " (older files) are not checked.  The hash itself is not modelled: the verdict is an
   input, computed by the harness with an independent implementation of the same rule. *)
Inductive sumstate : Type := SumAbsent | SumOk | SumBad.

(* what loadConfig gets from the file system, the integrity check and yaml.Unmarshal *)
Inductive input : Type :=
| NoFile                 (* fname == "" : all results nil, no error *)
| ReadErr                (* ReadFile error (missing file) or yaml.Unmarshal error *)
| Doc (st : sumstate) (d : doc).   (* integrity verdict on the text + what yaml.Unmarshal returned *)

Record dstate : Type := { d_n1 : subnet; d_n2 : subnet; d_table : table }.

Definition configChanged (config current : subnetcfg) : bool :=
  negb (prefix_eqb (pmasked (s_lan config)) (s_lan current))      (* network address and prefix length (e01fd08) *)
  || negb (addr_eqb (s_gw config) (s_gw current))
  || negb (addr_eqb (s_dns config) (s_dns current))
  || negb (addr_eqb (s_dhcp config) (s_dhcp current))
  || (negb (s_dur config =? 0)%Z && negb (s_dur config =? s_dur current)%Z)
  || (is4 (s_first config) && negb (addr_eqb (s_first config) (s_first current))).

Definition cloudflare_family1 : addr := A4 16843011. (* 1.1.1.3 *)

Definition homeSubnet (c : cfg) : subnetcfg :=
  {| s_lan := c_home c; s_gw := c_router c; s_dhcp := c_host c;
     s_dns := if avalid (c_dns c) then c_dns c else c_router c;
     s_first := AInv; s_dur := 0%Z; s_stage := 1 |}.
Definition netfilterSubnet (c : cfg) : subnetcfg :=
  {| s_lan := pmasked (c_netfilter c); s_gw := paddr (c_netfilter c); s_dhcp := c_host c;
     s_dns := cloudflare_family1; s_first := AInv; s_dur := 0%Z; s_stage := 3 |}.

Definition reset (c : cfg) : res dstate :=
  (n1 <- newSubnet (homeSubnet c) ;;
   n2 <- newSubnet (netfilterSubnet c) ;;
   Ok {| d_n1 := n1; d_n2 := n2; d_table := [] |})%res.

Definition loadConfig (captured : sess) (i : input) : res (option subnet * option subnet * option table) :=
  match i with
  | NoFile => Ok (None, None, None)
  | ReadErr => Err EOther
  | Doc SumBad _ => Err EOther                           (* lease file checksum mismatch *)
  | Doc _ d => ('(n1, n2, t) <- load captured d ;; Ok (Some n1, Some n2, Some t))%res
  end.

Definition new (c : cfg) (captured : sess) (i : input) : res dstate :=
  if negb (pvalid (c_netfilter c)) then Err EInvalidIP
  else if negb (contains (c_home c) (paddr (c_netfilter c))) || (pbits (c_netfilter c) <? pbits (c_home c))
  then Err EInvalidIP                       (* netfilter subnet not inside the home LAN (prefix check: /repo 7a8efa9) *)
  else
    match loadConfig captured i with
    | Panic => Panic          (* not reached: C18_new_total *)
    | Fuel => Fuel
    | Ok (Some n1, Some n2, Some t) =>
        if configChanged (homeSubnet c) (n_cfg n1) || configChanged (netfilterSubnet c) (n_cfg n2)
        then reset c
        else Ok {| d_n1 := n1; d_n2 := n2; d_table := t |}
    | _ => reset c            (* err != nil || net1 == nil || net2 == nil || table == nil *)
    end.

(* ---------------------------------------------------------------- *)
(* observables *)
Definition binding : Type := (bytes * bytes * addr)%type.   (* client id, MAC, IP *)
Definition binding_of (l : lease) : binding := (r_cid (l_rec l), r_mac (l_rec l), r_ip (l_rec l)).
Definition bindings (t : table) : list binding := map binding_of t.
Definition acked_bindings (t : table) : list binding := map binding_of (filter allocated t).
