(* Model/Alias.v — C10: retained state never aliases the caller's packet buffer.

   Memory model.  A byte-string field retained by the session or by a handler
   is an [rv]: either [Owned b] (the Go code made a private copy: CopyMAC,
   CopyIP, CopyBytes, dupBytes, string(..), netip value conversion, append to
   a fresh slice) or [Ref buf off n] (the Go code stored a sub-slice of the
   receive buffer [buf]).  Receive buffers live in a [store] (buf_id ->
   contents) which the environment may overwrite between two library calls.
   Everything the library later reads or reports about a retained field goes
   through [deref store].

   Every retention point of the anchored code is one constructor of [rpoint];
   [copies] is the transcription of what the Go code does at that point.
   The step functions model only the data flow packet bytes -> retained
   fields -> later outputs (table dumps, notifications, replies).  Where a
   field sits inside a variable-format message (DHCP/NDP options, DNS names)
   the operation carries locators (offset, length) computed by the harness'
   independent frame writer; protocol decisions that do not depend on retained
   byte strings (address allocation, ACK/NAK) enter as oracle fields. *)
From PV Require Import Base.Prelude Base.Text.
Open Scope N_scope.
Open Scope list_scope.

(* ---------------------------------------------------------------- *)
(* byte-string helpers *)

Fixpoint beqb (a b : bytes) : bool :=
  match a, b with
  | [], [] => true
  | x :: a', y :: b' => (x =? y) && beqb a' b'
  | _, _ => false
  end.

(* lexicographic order, a proper prefix sorts first *)
Fixpoint bleb (a b : bytes) : bool :=
  match a, b with
  | [], _ => true
  | _ :: _, [] => false
  | x :: a', y :: b' => if x <? y then true else if y <? x then false else bleb a' b'
  end.

Definition is_nil {A} (l : list A) : bool := match l with [] => true | _ => false end.

Fixpoint remove_first {A} (p : A -> bool) (l : list A) : list A :=
  match l with
  | [] => []
  | x :: r => if p x then r else x :: remove_first p r
  end.

Fixpoint insert_by {A} (le : A -> A -> bool) (x : A) (l : list A) : list A :=
  match l with
  | [] => [x]
  | y :: r => if le x y then x :: l else y :: insert_by le x r
  end.
Definition sort_by {A} (le : A -> A -> bool) (l : list A) : list A := fold_right (insert_by le) [] l.

(* does [l] end with [suf]; the part before it *)
Definition ends_with (suf l : bytes) : bool :=
  (List.length suf <=? List.length l)%nat && beqb (skipn (List.length l - List.length suf) l) suf.
Definition trim_suffix (suf l : bytes) : bytes :=
  if ends_with suf l then firstn (List.length l - List.length suf) l else l.

(* ---------------------------------------------------------------- *)
(* Receive buffers.  Contents = an explicit prefix followed by an infinite
   arithmetic pattern (byte i = fill + i*stp mod 256): this represents every
   finite buffer content (prefix = the content) and lets the harness' scribble
   patterns be evaluated lazily. *)

Record bufc := { b_pre : bytes; b_fill : N; b_stp : N }.

Definition bget (c : bufc) (i : nat) : byte :=
  match nth_error (b_pre c) i with
  | Some x => x
  | None => (b_fill c + N.of_nat i * b_stp c) mod 256
  end.
Definition bsub (c : bufc) (off n : nat) : bytes := map (bget c) (seq off n).

(* the receive call writes the frame at the start of the buffer *)
Definition bwrite (frame : bytes) (c : bufc) : bufc :=
  {| b_pre := frame ++ skipn (List.length frame) (b_pre c); b_fill := b_fill c; b_stp := b_stp c |}.

Definition zero_buf : bufc := {| b_pre := []; b_fill := 0; b_stp := 0 |}.

Definition store := list bufc.
Definition sget (s : store) (b : nat) : bufc := nth b s zero_buf.
Fixpoint sset (s : store) (b : nat) (c : bufc) : store :=
  match b, s with
  | O, [] => [c]
  | O, _ :: r => c :: r
  | S b', [] => zero_buf :: sset [] b' c
  | S b', x :: r => x :: sset r b' c
  end.

(* ---------------------------------------------------------------- *)
(* Retained values *)

Inductive rv : Type :=
| Owned (b : bytes)
| Ref (buf off n : nat).

Definition deref (s : store) (v : rv) : bytes :=
  match v with
  | Owned b => b
  | Ref buf off n => bsub (sget s buf) off n
  end.

(* where the bytes being retained come from: a slice of the frame being
   processed, a value that is itself already retained (e.g. lease.Addr.MAC
   handed to Session.DHCPv4Update), or a value the Go code computed into
   fresh memory (masked prefix, joined DNS labels, constant): the latter can
   never alias the packet *)
Inductive src : Type :=
| FrameSl (off n : nat)
| Held (v : rv)
| Fresh (b : bytes).

(* Retention points: every place of the anchored code that stores a byte
   string derived from a received packet into state that outlives the call. *)
Inductive rpoint : Set :=
(* session: hosttable.go, mactable.go, session.go *)
| RP_mactable_mac     (* mactable.go:110  MACEntry.MAC = CopyMAC(mac); Host.Addr.MAC shares it (hosttable.go:139);
                         reached from Parse, DHCPv4Update, SetDHCPv4IPOffer, Capture *)
| RP_host_ip          (* hosttable.go:139 Host.Addr.IP and the HostTable key: netip.Addr values
                         (IP4.Src/IP6.Src, layer_frame.go:255 AddrFrom4) *)
| RP_name_entry       (* NameEntry strings stored by Host.Update*Name / SetDHCPv4IPOffer: Go strings built by
                         string(...) in the handlers *)
(* handlers/dhcp4_spoofer *)
| RP_lease_key        (* lease.go:113 h.table[string(lease.ClientID)] *)
| RP_lease_cid        (* lease.go:105 CopyBytes(clientID) *)
| RP_lease_mac        (* lease.go:108 CopyMAC(mac) *)
| RP_lease_name       (* lease.go:111, request.go:236,244: string(options[HostName]) (discover.go:43, request.go:73) *)
| RP_lease_xid        (* discover.go:95 CopyBytes(p.XId()) *)
| RP_decline_cid      (* client.go:47 / request.go:183,203 dupBytes(clientID), used by the decline goroutine *)
| RP_decline_mac      (* client.go:48 dupMAC(chAddr) *)
| RP_decline_xid      (* client.go:51 dupBytes(xid) *)
(* handlers/icmp_spoofer + layer_icmp6_options.go *)
| RP_router_mac       (* icmp6radv.go:52 CopyMAC(mac) *)
| RP_router_key       (* icmp6radv.go:53 LANRouters[ip], Router.Addr.IP: netip value *)
| RP_ndp_lla          (* layer_icmp6_options.go:107 CopyMAC(b[2:]) (source / target link-layer address) *)
| RP_ndp_prefix       (* layer_icmp6_options.go:225 net.IP(addr.AsSlice()).Mask(mask) *)
| RP_ndp_route        (* layer_icmp6_options.go:345-348 copy into make(net.IP,16) + Mask (was CopyBytes(b[8:8+pl/8])) *)
| RP_ndp_rdnss        (* layer_icmp6_options.go:438 CopyIP(value[start:end]) *)
| RP_ndp_dnssl        (* layer_icmp6_options.go:506-560 RawOption copy + string(raw.Value[i:i+length]) *)
(* handlers/dns_naming + layer_dns.go *)
| RP_dns_name         (* dns.go:131,134 string(question.Name): DNSTable key and DNSEntry.Name *)
| RP_dns_rr_name      (* layer_dns.go:199,209,221 string(name); :246 string(ptr) *)
| RP_dns_cname        (* layer_dns.go:222 string(cname) *)
| RP_dns_ip           (* layer_dns.go:197,207,239 netip.AddrFromSlice: value *)
| RP_mdns_name        (* mdns.go:340 string(q.Name.Data[:n]); mdns.go:416,430 hdr.Name.String() *)
| RP_mdns_mac         (* mdns.go:417,431 CopyMAC(frame.SrcAddr.MAC) *)
| RP_mdns_model       (* mdns.go:473 parseTXT(r.TXT): dnsmessage copies TXT strings *)
| RP_mdns_cache_key   (* mdns.go:283-287 key := make([]byte, 8); copy(key, mac); string(key) *)
| RP_nbns_name        (* nbns.go:190 string(nn) of a copy made by dnsmessage.UnknownResource *)
.

(* Transcription of the Go code: does the retention point copy? *)
Definition copies (k : rpoint) : bool :=
  match k with
  | RP_mactable_mac => true
  | RP_host_ip => true
  | RP_name_entry => true
  | RP_lease_key => true
  | RP_lease_cid => true
  | RP_lease_mac => true
  | RP_lease_name => true
  | RP_lease_xid => true
  | RP_decline_cid => true
  | RP_decline_mac => true
  | RP_decline_xid => true
  | RP_router_mac => true
  | RP_router_key => true
  | RP_ndp_lla => true
  | RP_ndp_prefix => true
  | RP_ndp_route => true
  | RP_ndp_rdnss => true
  | RP_ndp_dnssl => true
  | RP_dns_name => true
  | RP_dns_rr_name => true
  | RP_dns_cname => true
  | RP_dns_ip => true
  | RP_mdns_name => true
  | RP_mdns_mac => true
  | RP_mdns_model => true
  | RP_mdns_cache_key => true
  | RP_nbns_name => true
  end.

(* the call context: the store at the time of the call, the buffer the frame
   sits in, and the frame bytes (what the Go code reads through its views) *)
Record ctx := { cx_s : store; cx_buf : nat; cx_frame : bytes }.
Definition rd (cx : ctx) (v : rv) : bytes := deref (cx_s cx) v.
Definition nocx (s : store) : ctx := {| cx_s := s; cx_buf := 0; cx_frame := [] |}.

Definition src_val (cx : ctx) (x : src) : bytes :=
  match x with
  | FrameSl off n => sub (cx_frame cx) off n
  | Held v => rd cx v
  | Fresh b => b
  end.

(* what ends up in the retained field *)
Definition retain (k : rpoint) (cx : ctx) (x : src) : rv :=
  if copies k then Owned (src_val cx x)
  else match x with
       | FrameSl off n => Ref (cx_buf cx) off n
       | Held v => v
       | Fresh b => Owned b
       end.

(* ---------------------------------------------------------------- *)
(* Field positions in an untagged Ethernet frame (offset, length).  The harness compares this table on every run
   with what the library's own getters return on a pattern frame (kind off). *)
Definition L_ETH_SRC : nat * nat := (6%nat, 6%nat).        (* Ether.Src() *)
Definition L_IP4_SRC : nat * nat := (26%nat, 4%nat).       (* 14 + IP4.Src() *)
Definition L_IP6_SRC : nat * nat := (22%nat, 16%nat).      (* 14 + IP6.Src() *)
Definition L_ARP_SHA : nat * nat := (22%nat, 6%nat).       (* 14 + arp[8:14] *)
Definition L_ARP_SPA : nat * nat := (28%nat, 4%nat).       (* 14 + arp[14:18] *)
Definition L_ARP_TPA : nat * nat := (38%nat, 4%nat).       (* 14 + ARP.DstIP() *)
Definition L_DHCP_XID : nat * nat := (46%nat, 4%nat).      (* 42 + DHCP4.XId() *)
Definition L_DHCP_CHADDR : nat * nat := (70%nat, 6%nat).   (* 42 + DHCP4.CHAddr() *)
Definition fsl (l : nat * nat) : src := FrameSl (fst l) (snd l).
Definition fsub (frame : bytes) (l : nat * nat) : bytes := sub frame (fst l) (snd l).

(* ---------------------------------------------------------------- *)
(* Session state (hosttable.go, mactable.go) *)

(* NameEntry (Type and Expire are not byte strings learned from packets) *)
Record nameent := { n_name : rv; n_model : rv; n_manuf : rv; n_os : rv }.
Definition nm_empty : nameent :=
  {| n_name := Owned []; n_model := Owned []; n_manuf := Owned []; n_os := Owned [] |}.
(* index of the five name slots: DHCP4Name, MDNSName, SSDPName, LLMNRName, NBNSName *)
Definition NM_DHCP := 0%nat. Definition NM_MDNS := 1%nat. Definition NM_SSDP := 2%nat.
Definition NM_LLMNR := 3%nat. Definition NM_NBNS := 4%nat.
Definition names0 : list nameent := [nm_empty; nm_empty; nm_empty; nm_empty; nm_empty].
Definition get_name (i : nat) (l : list nameent) : nameent := nth i l nm_empty.

Record macentry := {
  me_id : nat;             (* identity of the *MACEntry pointer *)
  me_mac : rv;             (* MACEntry.MAC *)
  me_hosts : list bytes;   (* MACEntry.HostList (host keys, in slice order) *)
  me_online : bool;
  me_router : bool;
  me_captured : bool;      (* MACEntry.Captured *)
  me_ip4 : bytes;          (* MACEntry.IP4 (netip value) *)
  me_offer : bytes;        (* MACEntry.IP4Offer (netip value; [] = invalid) *)
  me_names : list nameent
}.

Record host := {
  h_ip : rv;               (* Host.Addr.IP *)
  h_key : bytes;           (* key in HostTable.Table (netip.Addr value) *)
  h_me : nat;              (* Host.MACEntry *)
  h_mac : rv;              (* Host.Addr.MAC: the same slice as MACEntry.MAC *)
  h_online : bool;
  h_dirty : bool;
  h_names : list nameent
}.

(* handlers/dhcp4_spoofer lease table *)
Record lease := {
  l_key : rv;              (* map key string(clientID) *)
  l_kval : bytes;          (* its value at insertion (Go map keys are immutable strings) *)
  l_cid : rv; l_mac : rv; l_xid : rv; l_name : rv;
  l_ip : bytes;            (* Lease.Addr.IP (allocated by the server: oracle) *)
  l_sub : bool             (* Lease.subnet: false = net1 (home), true = net2 (captured hosts) *)
}.

(* handlers/icmp_spoofer router table *)
Record router := {
  r_key : bytes; r_ip : rv; r_mac : rv;
  r_slla : rv;             (* Options.SourceLLA.MAC *)
  r_prefixes : list rv;    (* Options.Prefixes[i].Prefix (also Router.Prefixes, Options.FirstPrefix) *)
  r_rdnss : list rv;       (* Options.RDNSS.Servers *)
  r_dnssl : list rv;       (* Options.DNSSearchList.DomainNames *)
  r_route : rv             (* Options.RouteInformation.Prefix *)
}.

(* handlers/dns_naming DNS table *)
Record dnsrec := { dr_key : bytes; dr_name : rv; dr_val : rv }.   (* key; RR Name; IP or CName *)
Record dnsent := {
  d_key : bytes; d_name : rv;
  d_a : list dnsrec; d_aaaa : list dnsrec; d_cname : list dnsrec; d_ptr : list dnsrec
}.
(* mDNS response cache: key, and the retained (name, mac, model) of each entry *)
Record mcache := { mc_key : rv; mc_kval : bytes; mc_ents : list (rv * rv * rv) }.

Record state := {
  st_hosts : list host;        (* HostTable.Table (a Go map: order irrelevant, dumps sort) *)
  st_macs : list macentry;     (* MACTable.Table (a Go slice: order kept) *)
  st_next : nat;               (* allocation counter for me_id *)
  st_leases : list lease;
  st_routers : list router;
  st_dns : list dnsent;
  st_mcache : list mcache
}.

Record cfg := {
  c_host_mac : bytes; c_host_ip : bytes;
  c_router_mac : bytes; c_router_ip : bytes;
  c_lan : bytes                (* first three bytes of the /24 home LAN *)
}.

Definition std_cfg : cfg :=
  {| c_host_mac := [0;85;85;85;85;85]; c_host_ip := [192;168;0;129];
     c_router_mac := [0;102;102;102;102;102]; c_router_ip := [192;168;0;11];
     c_lan := [192;168;0] |}.

Definition set_hosts (st : state) (x : list host) : state :=
  {| st_hosts := x; st_macs := st_macs st; st_next := st_next st; st_leases := st_leases st;
     st_routers := st_routers st; st_dns := st_dns st; st_mcache := st_mcache st |}.
Definition set_macs (st : state) (x : list macentry) : state :=
  {| st_hosts := st_hosts st; st_macs := x; st_next := st_next st; st_leases := st_leases st;
     st_routers := st_routers st; st_dns := st_dns st; st_mcache := st_mcache st |}.
Definition set_next (st : state) (x : nat) : state :=
  {| st_hosts := st_hosts st; st_macs := st_macs st; st_next := x; st_leases := st_leases st;
     st_routers := st_routers st; st_dns := st_dns st; st_mcache := st_mcache st |}.
Definition set_leases (st : state) (x : list lease) : state :=
  {| st_hosts := st_hosts st; st_macs := st_macs st; st_next := st_next st; st_leases := x;
     st_routers := st_routers st; st_dns := st_dns st; st_mcache := st_mcache st |}.
Definition set_routers (st : state) (x : list router) : state :=
  {| st_hosts := st_hosts st; st_macs := st_macs st; st_next := st_next st; st_leases := st_leases st;
     st_routers := x; st_dns := st_dns st; st_mcache := st_mcache st |}.
Definition set_dns (st : state) (x : list dnsent) : state :=
  {| st_hosts := st_hosts st; st_macs := st_macs st; st_next := st_next st; st_leases := st_leases st;
     st_routers := st_routers st; st_dns := x; st_mcache := st_mcache st |}.
Definition set_mcache (st : state) (x : list mcache) : state :=
  {| st_hosts := st_hosts st; st_macs := st_macs st; st_next := st_next st; st_leases := st_leases st;
     st_routers := st_routers st; st_dns := st_dns st; st_mcache := x |}.

Definition me_with_hosts (e : macentry) (x : list bytes) : macentry :=
  {| me_id := me_id e; me_mac := me_mac e; me_hosts := x; me_online := me_online e; me_router := me_router e; me_captured := me_captured e;
     me_ip4 := me_ip4 e; me_offer := me_offer e; me_names := me_names e |}.
Definition me_with_online (e : macentry) (x : bool) : macentry :=
  {| me_id := me_id e; me_mac := me_mac e; me_hosts := me_hosts e; me_online := x; me_router := me_router e; me_captured := me_captured e;
     me_ip4 := me_ip4 e; me_offer := me_offer e; me_names := me_names e |}.
Definition me_with_router (e : macentry) (x : bool) : macentry :=
  {| me_id := me_id e; me_mac := me_mac e; me_hosts := me_hosts e; me_online := me_online e; me_router := x; me_captured := me_captured e;
     me_ip4 := me_ip4 e; me_offer := me_offer e; me_names := me_names e |}.
Definition me_with_ip4 (e : macentry) (x : bytes) : macentry :=
  {| me_id := me_id e; me_mac := me_mac e; me_hosts := me_hosts e; me_online := me_online e; me_router := me_router e; me_captured := me_captured e;
     me_ip4 := x; me_offer := me_offer e; me_names := me_names e |}.
Definition me_with_offer (e : macentry) (x : bytes) : macentry :=
  {| me_id := me_id e; me_mac := me_mac e; me_hosts := me_hosts e; me_online := me_online e; me_router := me_router e; me_captured := me_captured e;
     me_ip4 := me_ip4 e; me_offer := x; me_names := me_names e |}.
Definition me_with_captured (e : macentry) (x : bool) : macentry :=
  {| me_id := me_id e; me_mac := me_mac e; me_hosts := me_hosts e; me_online := me_online e; me_router := me_router e; me_captured := x;
     me_ip4 := me_ip4 e; me_offer := me_offer e; me_names := me_names e |}.
Definition me_with_names (e : macentry) (x : list nameent) : macentry :=
  {| me_id := me_id e; me_mac := me_mac e; me_hosts := me_hosts e; me_online := me_online e; me_router := me_router e; me_captured := me_captured e;
     me_ip4 := me_ip4 e; me_offer := me_offer e; me_names := x |}.

Definition h_with_online (h : host) (x : bool) : host :=
  {| h_ip := h_ip h; h_key := h_key h; h_me := h_me h; h_mac := h_mac h; h_online := x; h_dirty := h_dirty h; h_names := h_names h |}.
Definition h_with_dirty (h : host) (x : bool) : host :=
  {| h_ip := h_ip h; h_key := h_key h; h_me := h_me h; h_mac := h_mac h; h_online := h_online h; h_dirty := x; h_names := h_names h |}.
Definition h_with_names (h : host) (x : list nameent) : host :=
  {| h_ip := h_ip h; h_key := h_key h; h_me := h_me h; h_mac := h_mac h; h_online := h_online h; h_dirty := h_dirty h; h_names := x |}.

Definition find_host (key : bytes) (hs : list host) : option host :=
  find (fun h => beqb (h_key h) key) hs.
(* MACTable.findMAC: bytes.Equal(v.MAC, mac) over the slice *)
Definition find_mac (cx : ctx) (mac : bytes) (ms : list macentry) : option macentry :=
  find (fun e => beqb (rd cx (me_mac e)) mac) ms.
Definition me_by_id (id : nat) (ms : list macentry) : option macentry :=
  find (fun e => Nat.eqb (me_id e) id) ms.

Definition upd_host (key : bytes) (f : host -> host) (st : state) : state :=
  set_hosts st (map (fun h => if beqb (h_key h) key then f h else h) (st_hosts st)).
Definition upd_me (id : nat) (f : macentry -> macentry) (st : state) : state :=
  set_macs st (map (fun e => if Nat.eqb (me_id e) id then f e else e) (st_macs st)).

(* MACTable.findOrCreate *)
Definition mac_find_or_create (cx : ctx) (x : src) (st : state) : state * macentry :=
  match find_mac cx (src_val cx x) (st_macs st) with
  | Some e => (st, e)
  | None =>
      let e := {| me_id := st_next st; me_mac := retain RP_mactable_mac cx x; me_hosts := [];
                  me_online := false; me_router := false; me_captured := false; me_ip4 := [0;0;0;0]; me_offer := []; me_names := names0 |} in
      (set_next (set_macs st (st_macs st ++ [e])) (S (st_next st)), e)
  end.

(* Session.deleteHost *)
Definition delete_host (cx : ctx) (key : bytes) (st : state) : state :=
  match find_host key (st_hosts st) with
  | None => st
  | Some h =>
      (* host.MACEntry.unlink(host) *)
      let macs1 := map (fun e => if Nat.eqb (me_id e) (h_me h)
                                 then me_with_hosts e (remove_first (fun k => beqb k key) (me_hosts e))
                                 else e) (st_macs st) in
      let hosts1 := remove_first (fun h' => beqb (h_key h') key) (st_hosts st) in
      let macs2 :=
        match me_by_id (h_me h) macs1 with
        | Some e =>
            if is_nil (me_hosts e)
            then (* MACTable.delete(host.MACEntry.MAC): first entry whose bytes are equal *)
                 remove_first (fun e' => beqb (rd cx (me_mac e')) (rd cx (me_mac e))) macs1
            else macs1
        | None => macs1
        end in
      set_macs (set_hosts st hosts1) macs2
  end.

(* the tail of findOrCreateHostWithLock: create the host (dirty, offline) and link it *)
Definition fresh_host (cx : ctx) (xmac xip : src) (st0 : state) : state :=
  let key := src_val cx xip in
  let '(st1, e) := mac_find_or_create cx xmac st0 in
  let h := {| h_ip := retain RP_host_ip cx xip; h_key := key; h_me := me_id e; h_mac := me_mac e;
              h_online := false; h_dirty := true; h_names := names0 |} in
  upd_me (me_id e) (fun e' => me_with_hosts e' (me_hosts e' ++ [key])) (set_hosts st1 (st_hosts st1 ++ [h])).

(* Session.findOrCreateHostWithLock(Addr{MAC, IP}) *)
Definition find_or_create_host (cx : ctx) (xmac xip : src) (st : state) : state :=
  let key := src_val cx xip in
  let mac := src_val cx xmac in
  match find_host key (st_hosts st) with
  | Some h =>
      match me_by_id (h_me h) (st_macs st) with
      | Some e => if beqb (rd cx (me_mac e)) mac then st
                  else fresh_host cx xmac xip (delete_host cx key st)
      | None => fresh_host cx xmac xip (delete_host cx key st)
      end
  | None => fresh_host cx xmac xip st
  end.

(* Session.onlineTransition *)
Definition online_transition (key : bytes) (st : state) : state :=
  match find_host key (st_hosts st) with
  | None => st
  | Some h =>
      if h_online h then st else
      let st1 := upd_me (h_me h) (fun e => me_with_online e true) st in
      let st2 := upd_host key (fun h' => h_with_dirty (h_with_online h' true) true) st1 in
      if Nat.eqb (List.length key) 4 then
        match me_by_id (h_me h) (st_macs st2) with
        | Some e =>
            if beqb key (me_ip4 e) then st2 else
            let st3 := upd_me (h_me h) (fun e' => me_with_ip4 e' key) st2 in
            (* every other online IPv4 host of this MAC goes offline and dirty *)
            set_hosts st3 (map (fun v => if Nat.eqb (h_me v) (h_me h) && Nat.eqb (List.length (h_key v)) 4
                                            && negb (beqb (h_key v) key) && h_online v
                                         then h_with_dirty (h_with_online v false) true else v) (st_hosts st3))
        | None => st2
        end
      else st2
  end.

(* NameEntry.Merge (Type/Expire not modelled) *)
Definition merge1 (cx : ctx) (old new : rv) : rv * bool :=
  let nv := rd cx new in
  if negb (is_nil nv) && negb (beqb (rd cx old) nv) then (new, true) else (old, false).
Definition merge (cx : ctx) (e n : nameent) : nameent * bool :=
  let '(a, ma) := merge1 cx (n_name e) (n_name n) in
  let '(b, mb) := merge1 cx (n_model e) (n_model n) in
  let '(c, mc) := merge1 cx (n_os e) (n_os n) in
  let '(d, md) := merge1 cx (n_manuf e) (n_manuf n) in
  ({| n_name := a; n_model := b; n_manuf := d; n_os := c |}, ma || mb || mc || md).

(* Host.Update<X>Name *)
Definition update_name (cx : ctx) (i : nat) (key : bytes) (n : nameent) (st : state) : state :=
  match find_host key (st_hosts st) with
  | None => st
  | Some h =>
      let '(hn, notify) := merge cx (get_name i (h_names h)) n in
      let st1 := upd_host key (fun h' => h_with_names h' (set_nth i hn (h_names h'))) st in
      if notify then
        let st2 := upd_host key (fun h' => h_with_dirty h' true) st1 in
        upd_me (h_me h) (fun e => me_with_names e (set_nth i (fst (merge cx (get_name i (me_names e)) hn)) (me_names e))) st2
      else st1
  end.

Definition ip_unspec_or_invalid (ip : bytes) : bool := is_nil ip || forallb (fun b => b =? 0) ip.

(* Session.DHCPv4Update(mac, ip, name) *)
Definition dhcpv4_update (cx : ctx) (xmac : src) (ip : bytes) (n : nameent) (st : state) : state :=
  if ip_unspec_or_invalid ip then st else
  let st1 := find_or_create_host cx xmac (Fresh ip) st in
  let st2 := update_name cx NM_DHCP ip n st1 in
  match find_host ip (st_hosts st2) with
  | Some h => online_transition ip (upd_me (h_me h) (fun e => me_with_offer e ip) st2)
  | None => st2
  end.

(* Session.SetDHCPv4IPOffer(mac, ip, name) *)
Definition set_dhcpv4_offer (cx : ctx) (xmac : src) (ip : bytes) (n : nameent) (st : state) : state :=
  let '(st1, e) := mac_find_or_create cx xmac st in
  upd_me (me_id e) (fun e' => me_with_names (me_with_offer e' ip) (set_nth NM_DHCP n (me_names e'))) st1.

(* Session.Capture(mac) / Release(mac) / IsCaptured(mac) *)
Definition capture (cx : ctx) (xmac : src) (st : state) : state :=
  let '(st1, e) := mac_find_or_create cx xmac st in
  if me_captured e || me_router e then st1 else upd_me (me_id e) (fun e' => me_with_captured e' true) st1.
Definition release (cx : ctx) (mac : bytes) (st : state) : state :=
  match find_mac cx mac (st_macs st) with
  | Some e => upd_me (me_id e) (fun e' => me_with_captured e' false) st
  | None => st
  end.
Definition is_captured (cx : ctx) (mac : bytes) (st : state) : bool :=
  match find_mac cx mac (st_macs st) with Some e => me_captured e | None => false end.

(* ---------------------------------------------------------------- *)
(* Output items of a call *)
Open Scope string_scope.

Definition hx (b : bytes) : string := hex_of_bytes b.
Definition show_nm (cx : ctx) (n : nameent) : string :=
  hx (rd cx (n_name n)) ++ "." ++ hx (rd cx (n_model n)) ++ "." ++ hx (rd cx (n_manuf n)) ++ "." ++ hx (rd cx (n_os n)).
Definition show_names (cx : ctx) (l : list nameent) : string := join "/" (map (show_nm cx) l).

(* toNotification: names of the MAC entry, except LLMNR which is the host's *)
Definition notification (cx : ctx) (h : host) (e : macentry) : string :=
  "N(" ++ hx (rd cx (h_ip h)) ++ "/" ++ hx (rd cx (h_mac h)) ++ "/" ++ show_bool (h_online h) ++ "/" ++ show_bool (me_router e)
  ++ "/" ++ show_names cx [get_name NM_DHCP (me_names e); get_name NM_MDNS (me_names e); get_name NM_SSDP (me_names e);
                            get_name NM_LLMNR (h_names h); get_name NM_NBNS (me_names e)] ++ ")".

Definition dummy_me : macentry :=
  {| me_id := 0; me_mac := Owned []; me_hosts := []; me_online := false; me_router := false; me_captured := false; me_ip4 := []; me_offer := []; me_names := names0 |}.
Definition me_of (h : host) (st : state) : macentry :=
  match me_by_id (h_me h) (st_macs st) with Some e => e | None => dummy_me end.

(* Session.makeOffline *)
Definition make_offline (cx : ctx) (key : bytes) (st : state) : state * list string :=
  match find_host key (st_hosts st) with
  | None => (st, [])
  | Some h0 =>
      let st1 := upd_host key (fun h => h_with_dirty (h_with_online h false) false) st in
      match find_host key (st_hosts st1) with
      | None => (st1, [])
      | Some h =>
          let n := notification cx h (me_of h st1) in
          let any_on := existsb (fun v => Nat.eqb (h_me v) (h_me h) && h_online v) (st_hosts st1) in
          (upd_me (h_me h) (fun e => me_with_online e any_on) st1, [n])
      end
  end.

(* Session.Notify / notify for a frame whose Host is [key]; [trans] = the frame carries the online-transition flag *)
Definition notify_host (cx : ctx) (key : bytes) (trans : bool) (st : state) : state * list string :=
  match find_host key (st_hosts st) with
  | None => (st, [])
  | Some h =>
      if negb (h_dirty h) then (st, []) else
      let offl :=
        if trans && Nat.eqb (List.length key) 4 then
          match me_by_id (h_me h) (st_macs st) with
          | Some e => filter (fun k => negb (beqb k key) &&    (* /repo 481199c: the frame's own host is notified below, once *)
                                       match find_host k (st_hosts st) with
                                       | Some v => negb (h_online v) && h_dirty v
                                       | None => false end) (me_hosts e)
          | None => []
          end
        else [] in
      let '(st1, outs) := fold_left (fun acc k => let '(s', o) := make_offline cx k (fst acc) in (s', snd acc ++ o)%list)
                                    offl (st, []) in
      match find_host key (st_hosts st1) with
      | None => (st1, outs)
      | Some h1 =>
          let n := notification cx h1 (me_of h1 st1) in
          (upd_host key (fun h' => h_with_dirty h' false) st1, (outs ++ [n])%list)
      end
  end.

Close Scope string_scope.

(* ---------------------------------------------------------------- *)
(* Session.Parse (layer_frame.go): host creation from ARP / IPv4 / IPv6.
   Only the classification needed for well-formed frames is modelled.
   Result: state, frame.Host (key), online-transition flag. *)

Definition be16_of (l : bytes) (off : nat) : N := nth off l 0 * 256 + nth (S off) l 0.
Definition in_lan (c : cfg) (ip : bytes) : bool := beqb (firstn 3 ip) (c_lan c) && Nat.eqb (List.length ip) 4.
Definition is_lla (ip : bytes) : bool := (nth 0 ip 0 =? 254) && (N.land (nth 1 ip 0) 192 =? 128).
Definition is_mcast6 (ip : bytes) : bool := nth 0 ip 0 =? 255.
Definition all_zero (ip : bytes) : bool := forallb (fun b => b =? 0) ip.
Definition is_loop6 (ip : bytes) : bool := all_zero (firstn 15 ip) && (nth 15 ip 0 =? 1).
(* netip.Addr.IsGlobalUnicast for a 16-byte address *)
Definition is_gua6 (ip : bytes) : bool :=
  negb (all_zero ip) && negb (is_loop6 ip) && negb (is_mcast6 ip) && negb (is_lla ip).

Definition parse_create (cx : ctx) (xmac xip : src) (st : state) : state * option bytes * bool :=
  let key := src_val cx xip in
  let st1 := find_or_create_host cx xmac xip st in
  match find_host key (st_hosts st1) with
  | Some h => if h_online h then (st1, Some key, false) else (online_transition key st1, Some key, true)
  | None => (st1, Some key, false)
  end.

Definition parse_hosts (c : cfg) (cx : ctx) (st : state) : state * option bytes * bool :=
  let frame := cx_frame cx in
  if (List.length frame <? 14)%nat then (st, None, false) else
  let smac := fsub frame L_ETH_SRC in
  if negb (N.land (nth 0 smac 0) 1 =? 0) then (st, None, false) else
  let et := be16_of frame 12 in
  if et =? 2048 then       (* IPv4 *)
    let sip := fsub frame L_IP4_SRC in
    if negb (beqb smac (c_host_mac c)) && in_lan c sip
    then parse_create cx (fsl L_ETH_SRC) (fsl L_IP4_SRC) st else (st, None, false)
  else if et =? 34525 then (* IPv6 *)
    let sip := fsub frame L_IP6_SRC in
    if negb (beqb smac (c_host_mac c)) &&
       (is_lla sip || (is_gua6 sip && negb (beqb smac (c_router_mac c))))
    then parse_create cx (fsl L_ETH_SRC) (fsl L_IP6_SRC) st else (st, None, false)
  else if et =? 2054 then  (* ARP: sender hardware / protocol address *)
    let sip := fsub frame L_ARP_SPA in
    if negb (beqb smac (c_host_mac c)) && in_lan c sip
    then parse_create cx (fsl L_ARP_SHA) (fsl L_ARP_SPA) st else (st, None, false)
  else (st, None, false).

(* NewSession: host and router entries, copied from NICInfo (not from a packet) *)
Definition init_state (c : cfg) : state :=
  let cx := nocx [] in
  let st0 := {| st_hosts := []; st_macs := []; st_next := 0; st_leases := []; st_routers := []; st_dns := []; st_mcache := [] |} in
  let st1 := find_or_create_host cx (Fresh (c_host_mac c)) (Fresh (c_host_ip c)) st0 in
  let st1 := upd_host (c_host_ip c) (fun h => h_with_online h true) st1 in
  let st1 := match find_host (c_host_ip c) (st_hosts st1) with
             | Some h => upd_me (h_me h) (fun e => me_with_online (me_with_ip4 e (c_host_ip c)) true) st1
             | None => st1 end in
  let st2 := find_or_create_host cx (Fresh (c_router_mac c)) (Fresh (c_router_ip c)) st1 in
  let st2 := upd_host (c_router_ip c) (fun h => h_with_online h true) st2 in
  match find_host (c_router_ip c) (st_hosts st2) with
  | Some h => upd_me (h_me h) (fun e => me_with_router (me_with_online (me_with_ip4 e (c_router_ip c)) true) true) st2
  | None => st2
  end.

(* ---------------------------------------------------------------- *)
(* Locators *)

Definition loc := (nat * nat)%type.            (* offset, length in the frame *)
Definition lval (cx : ctx) (l : loc) : bytes := sub (cx_frame cx) (fst l) (snd l).
(* a DNS name: its labels, joined with '.' by decodeName into a scratch buffer *)
Fixpoint join_labels (cx : ctx) (ls : list loc) : bytes :=
  match ls with
  | [] => []
  | [l] => lval cx l
  | l :: r => lval cx l ++ [46] ++ join_labels cx r
  end.

(* ---------------------------------------------------------------- *)
(* handlers/dhcp4_spoofer *)

Definition find_lease (key : bytes) (ls : list lease) : option lease :=
  find (fun l => beqb (l_kval l) key) ls.
Definition l_with (l : lease) (xid name : rv) (ip : bytes) : lease :=
  {| l_key := l_key l; l_kval := l_kval l; l_cid := l_cid l; l_mac := l_mac l; l_xid := xid; l_name := name; l_ip := ip; l_sub := l_sub l |}.
Definition upd_lease (key : bytes) (f : lease -> lease) (st : state) : state :=
  set_leases st (map (fun l => if beqb (l_kval l) key then f l else l) (st_leases st)).

(* Handler.findOrCreate(clientID, mac, name): subnet = net2 iff the MAC is captured; a lease is kept only if its
   subnet is that one (pointer identity, /repo c9f204c) and its MAC matches *)
Definition lease_find_or_create (cx : ctx) (xcid xmac : src) (xname : src) (st : state) : state :=
  let key := src_val cx xcid in
  let name := src_val cx xname in
  let create (st0 : state) :=
      let l := {| l_key := retain RP_lease_key cx xcid; l_kval := key; l_cid := retain RP_lease_cid cx xcid;
                  l_mac := retain RP_lease_mac cx xmac; l_xid := Owned []; l_name := retain RP_lease_name cx xname; l_ip := [];
                  l_sub := is_captured cx (src_val cx xmac) st |} in
      set_leases st0 (remove_first (fun l' => beqb (l_kval l') key) (st_leases st0) ++ [l]) in
  match find_lease key (st_leases st) with
  | Some l =>
      let st1 := if negb (is_nil name) && negb (beqb (rd cx (l_name l)) name)
                 then upd_lease key (fun l' => l_with l' (l_xid l') (retain RP_lease_name cx xname) (l_ip l')) st else st in
      if Bool.eqb (l_sub l) (is_captured cx (src_val cx xmac) st) && beqb (rd cx (l_mac l)) (src_val cx xmac) then st1 else create st1
  | None => create st
  end.

(* the frame a decline/release goroutine sends later: type, client id, chaddr, address, xid *)
Open Scope string_scope.
Definition show_decl (cx : ctx) (typ : string) (cid mac xid : rv) (ip : bytes) : string :=
  "D(" ++ typ ++ "," ++ hx (rd cx cid) ++ "," ++ hx (rd cx mac) ++ "," ++ hx ip ++ "," ++ hx (rd cx xid) ++ ")".
(* the reply built in place from the request: type, chaddr, xid, yiaddr *)
Definition show_reply (cx : ctx) (typ : string) (yi : bytes) : string :=
  "R(" ++ typ ++ "," ++ hx (fsub (cx_frame cx) L_DHCP_CHADDR) ++ "," ++ hx (fsub (cx_frame cx) L_DHCP_XID) ++ "," ++ hx yi ++ ")".
Close Scope string_scope.

(* DHCP message as seen by the handler: locators of the options + oracle of the server's decision.
   Fixed offsets in an untagged Ethernet/IPv4/UDP frame: dhcp = 42; xid 46..49; ciaddr 54..57; chaddr 70..75. *)
Record dhcpmsg := {
  dm_type : N;                (* option 53 *)
  dm_cid : option loc;        (* option 61 *)
  dm_name : option loc;       (* option 12 *)
  dm_reqip : option loc;      (* option 50 *)
  dm_cls : N;                 (* request: 0 invalid (no address), 1 selecting, 2 renewing, 3 rebooting/rebinding *)
  dm_res : N;                 (* oracle: 0 no reply, 2 OFFER, 5 ACK, 6 NAK *)
  dm_yi : bytes;              (* oracle: yiaddr of the OFFER/ACK *)
  dm_lip : bytes              (* oracle: Lease.Addr.IP of the client's lease after the call ([] = none) *)
}.

Definition dm_cid_src (m : dhcpmsg) : src :=
  match dm_cid m with Some l => FrameSl (fst l) (snd l) | None => fsl L_DHCP_CHADDR end.
Definition dm_name_src (m : dhcpmsg) : src :=
  match dm_name m with Some l => FrameSl (fst l) (snd l) | None => Fresh [] end.
Definition dm_name_entry (cx : ctx) (m : dhcpmsg) : nameent :=
  {| n_name := retain RP_name_entry cx (dm_name_src m); n_model := Owned []; n_manuf := Owned []; n_os := Owned [] |}.

Definition dhcp_step0 (cx : ctx) (m : dhcpmsg) (st : state) : state * list string :=
  let xcid := dm_cid_src m in
  let key := src_val cx xcid in
  let xmac := fsl L_DHCP_CHADDR in
  let reqip := match dm_reqip m with Some l => lval cx l | None => [] end in
  if dm_type m =? 1 then
    (* handleDiscover *)
    let st1 := lease_find_or_create cx xcid xmac (dm_name_src m) st in
    if dm_res m =? 2 then
      let st2 := upd_lease key (fun l => l_with l (retain RP_lease_xid cx (fsl L_DHCP_XID)) (l_name l) (l_ip l)) st1 in
      match find_lease key (st_leases st2) with
      | Some l =>
          (* forceDecline(lease.ClientID, gw, lease.Addr.MAC, reqIP, p.XId()) when a usable address was requested *)
          let decl := if ip_unspec_or_invalid reqip then [] else
                      [show_decl cx "4" (retain RP_decline_cid cx (Held (l_cid l))) (retain RP_decline_mac cx (Held (l_mac l)))
                                 (retain RP_decline_xid cx (fsl L_DHCP_XID)) reqip] in
          (* SetDHCPv4IPOffer(lease.Addr.MAC, lease.IPOffer, NameEntry{Name: name}) *)
          let st3 := set_dhcpv4_offer cx (Held (l_mac l)) (dm_yi m) (dm_name_entry cx m) st2 in
          (st3, show_reply cx "2" (dm_yi m) :: decl)
      | None => (st2, [])
      end
    else (* all addresses allocated: lease deleted, silent *)
      (set_leases st1 (remove_first (fun l => beqb (l_kval l) key) (st_leases st1)), [])
  else if dm_type m =? 3 then
    (* handleRequest *)
    if dm_cls m =? 0 then (st, []) else
    let st1 := lease_find_or_create cx xcid xmac (dm_name_src m) st in
    let nm := dm_name_entry cx m in
    let st2 := if dm_cls m =? 3 then dhcpv4_update cx xmac reqip nm st1 else st1 in
    if dm_res m =? 5 then
      match find_lease key (st_leases st2) with
      | Some l =>
          let st3 := upd_lease key (fun l' => l_with l' (l_xid l') (retain RP_lease_name cx (dm_name_src m)) (dm_yi m)) st2 in
          (dhcpv4_update cx (Held (l_mac l)) (dm_yi m) nm st3, [show_reply cx "5" (dm_yi m)])
      | None => (st2, [])
      end
    else if dm_res m =? 6 then
      (* NAK; in the rebooting/rebinding paths a decline built from copies of the packet fields is sent by a goroutine *)
      let decl := if dm_cls m =? 3
                  then [show_decl cx "4" (retain RP_decline_cid cx xcid) (retain RP_decline_mac cx xmac)
                                  (retain RP_decline_xid cx (fsl L_DHCP_XID)) reqip]
                  else [] in
      (st2, show_reply cx "6" [0;0;0;0] :: decl)
    else (st2, [])
  else if (dm_type m =? 4) || (dm_type m =? 7) then
    (* handleDecline / handleRelease: findOrCreate(clientID, chaddr, ""), no reply; what they do to the lease's
       state and address is the oracle's (dm_lip) *)
    (lease_find_or_create cx xcid xmac (Fresh []) st, [])
  else if dm_type m =? 2 then
    (* processClientPacket: an OFFER of another server seen on the client port: forceDecline with copies of
       the packet's client id, chaddr, yiaddr (locator dm_reqip) and xid *)
    (st, [show_decl cx "4" (retain RP_decline_cid cx xcid) (retain RP_decline_mac cx xmac)
                    (retain RP_decline_xid cx (fsl L_DHCP_XID)) reqip])
  else (st, []).

Definition dhcp_step (cx : ctx) (m : dhcpmsg) (st : state) : state * list string :=
  let '(st1, outs) := dhcp_step0 cx m st in
  (upd_lease (src_val cx (dm_cid_src m)) (fun l => l_with l (l_xid l) (l_name l) (dm_lip m)) st1, outs).

(* Handler.StartHunt(addr): forceRelease(lease.ClientID, gw, lease.Addr.MAC, lease.Addr.IP, nil); xid is random *)
Definition hunt_step (cx : ctx) (ip : bytes) (st : state) : list string :=
  match find (fun l => beqb (l_ip l) ip) (st_leases st) with
  | Some l => (* only for a lease of the home subnet (lease.subnet.Stage != StageRedirected); the release carries
                 copies of the lease's client id and MAC (/repo 0040075 passes the options on) and a random xid *)
              if l_sub l then [] else
              [show_decl cx "7" (retain RP_decline_cid cx (Held (l_cid l))) (retain RP_decline_mac cx (Held (l_mac l))) (Owned []) ip]
  | None => []
  end.

(* ---------------------------------------------------------------- *)
(* handlers/icmp_spoofer: router advertisement *)

Definition mask_byte (bits : nat) (b : byte) : byte :=
  match bits with
  | 0%nat => 0 | 1%nat => N.land b 128 | 2%nat => N.land b 192 | 3%nat => N.land b 224 | 4%nat => N.land b 240
  | 5%nat => N.land b 248 | 6%nat => N.land b 252 | 7%nat => N.land b 254 | _ => b
  end.
Fixpoint mask_prefix (plen : nat) (l : bytes) : bytes :=
  match l with
  | [] => []
  | b :: r => mask_byte plen b :: mask_prefix (plen - 8) r
  end.

Record ramsg := {
  ra_slla : option nat;               (* offset of the 6 MAC bytes of the source link-layer address option *)
  ra_prefixes : list (nat * nat);     (* prefix length, offset of the 16 prefix bytes *)
  ra_rdnss : list nat;                (* offsets of the 16-byte server addresses *)
  ra_dnssl : list (list loc);         (* domain names: label locators *)
  ra_route : option (nat * nat)       (* prefix length, offset of the prefix bytes *)
}.

Definition ra_xmac (m : ramsg) : src :=
  match ra_slla m with Some off => FrameSl off 6 | None => fsl L_ETH_SRC end.

(* the Router record after this advertisement; an existing router keeps its Addr *)
Definition ra_mk (cx : ctx) (m : ramsg) (old : option router) : router :=
  {| r_key := fsub (cx_frame cx) L_IP6_SRC;
     r_ip := match old with Some r => r_ip r | None => retain RP_router_key cx (fsl L_IP6_SRC) end;
     r_mac := match old with Some r => r_mac r | None => retain RP_router_mac cx (ra_xmac m) end;
     r_slla := match ra_slla m with Some off => retain RP_ndp_lla cx (FrameSl off 6) | None => Owned [] end;
     r_prefixes := map (fun p => retain RP_ndp_prefix cx (Fresh (mask_prefix (fst p) (sub (cx_frame cx) (snd p) 16)))) (ra_prefixes m);
     r_rdnss := map (fun off => retain RP_ndp_rdnss cx (FrameSl off 16)) (ra_rdnss m);
     r_dnssl := map (fun ls => retain RP_ndp_dnssl cx (Fresh (join_labels cx ls))) (ra_dnssl m);
     r_route := match ra_route m with
                | Some (pl, off) =>
                    (* as repaired by commit ade5692: the first ceil(pl/8) bytes copied into a fresh
                       16-byte address, then masked to pl bits *)
                    let raw := sub (cx_frame cx) off (Nat.div (pl + 7) 8) in
                    retain RP_ndp_route cx (Fresh (mask_prefix pl (raw ++ repeat 0 (16 - List.length raw))))
                | None => Owned [] end |}.

Definition ra_step (cx : ctx) (m : ramsg) (fhost : option bytes) (st : state) : state :=
  match fhost with
  | None => st      (* "ra host cannot be nil" *)
  | Some _ =>
      let key := fsub (cx_frame cx) L_IP6_SRC in
      match find (fun r => beqb (r_key r) key) (st_routers st) with
      | Some r => set_routers st (map (fun r' => if beqb (r_key r') key then ra_mk cx m (Some r') else r') (st_routers st))
      | None => set_routers st (st_routers st ++ [ra_mk cx m None])
      end
  end.

(* ---------------------------------------------------------------- *)
(* handlers/dns_naming *)

Inductive dnsrr : Type :=
| RR_A (name : list loc) (off : nat)
| RR_AAAA (name : list loc) (off : nat)
| RR_CNAME (name : list loc) (cname : list loc)
| RR_PTR (ptr : list loc) (ip : bytes).   (* ip: the IPv4 address spelled by the owner name x.x.x.x.in-addr.arpa ([] = not such a name) *)

Record dnsmsg := { dq_name : list loc; dq_rrs : list dnsrr }.

Definition add_rec (r : dnsrec) (l : list dnsrec) : list dnsrec * bool :=
  if existsb (fun x => beqb (dr_key x) (dr_key r)) l then (l, false) else (l ++ [r], true).

(* DNSEntry.decodeRRs *)
Definition dns_rr (cx : ctx) (acc : dnsent * bool) (rr : dnsrr) : dnsent * bool :=
  let e := fst acc in
  match rr with
  | RR_A name off =>
      let '(l, u) := add_rec {| dr_key := sub (cx_frame cx) off 4; dr_name := retain RP_dns_rr_name cx (Fresh (join_labels cx name));
                                dr_val := retain RP_dns_ip cx (FrameSl off 4) |} (d_a e) in
      ({| d_key := d_key e; d_name := d_name e; d_a := l; d_aaaa := d_aaaa e; d_cname := d_cname e; d_ptr := d_ptr e |}, snd acc || u)
  | RR_AAAA name off =>
      let '(l, u) := add_rec {| dr_key := sub (cx_frame cx) off 16; dr_name := retain RP_dns_rr_name cx (Fresh (join_labels cx name));
                                dr_val := retain RP_dns_ip cx (FrameSl off 16) |} (d_aaaa e) in
      ({| d_key := d_key e; d_name := d_name e; d_a := d_a e; d_aaaa := l; d_cname := d_cname e; d_ptr := d_ptr e |}, snd acc || u)
  | RR_CNAME name cname =>
      (* layer_dns.go case 5 (as repaired by commit 2518490): owner := string(name) is taken before the
         target is decoded into the same scratch buffer *)
      let n0 := join_labels cx name in
      let '(l, u) := add_rec {| dr_key := n0; dr_name := retain RP_dns_rr_name cx (Fresh n0);
                                dr_val := retain RP_dns_cname cx (Fresh (join_labels cx cname)) |} (d_cname e) in
      ({| d_key := d_key e; d_name := d_name e; d_a := d_a e; d_aaaa := d_aaaa e; d_cname := l; d_ptr := d_ptr e |}, snd acc || u)
  | RR_PTR ptr ip =>
      (* layer_dns.go case 12: the owner spells the address (parsed from text: a value); Name = string(ptr) *)
      if is_nil ip then acc else
      let p0 := join_labels cx ptr in
      let '(l, u) := add_rec {| dr_key := p0; dr_name := retain RP_dns_rr_name cx (Fresh p0);
                                dr_val := retain RP_dns_ip cx (Fresh ip) |} (d_ptr e) in
      ({| d_key := d_key e; d_name := d_name e; d_a := d_a e; d_aaaa := d_aaaa e; d_cname := d_cname e; d_ptr := l |}, snd acc || u)
  end.

(* DNSHandler.ProcessDNS *)
Definition dns_step (cx : ctx) (m : dnsmsg) (st : state) : state :=
  let key := join_labels cx (dq_name m) in
  let e0 := match find (fun e => beqb (d_key e) key) (st_dns st) with
            | Some e => e
            | None => {| d_key := key; d_name := retain RP_dns_name cx (Fresh key); d_a := []; d_aaaa := []; d_cname := []; d_ptr := [] |}
            end in
  let '(e1, updated) := fold_left (dns_rr cx) (dq_rrs m) (e0, false) in
  if updated then set_dns st (remove_first (fun e => beqb (d_key e) key) (st_dns st) ++ [e1]) else st.

(* mDNS / LLMNR (ProcessMDNS) + the application glue that applies the returned entries to the host table *)
Record mdnsmsg := {
  mq_resp : bool;                      (* header QR bit *)
  mq_id : nat;                         (* offset of the 2-byte message id *)
  mq_qnames : list (list loc);         (* query: question names *)
  mq_a : list (list loc * nat * nat);  (* response: owner name, offset and length (4/16) of the address *)
  mq_model : option loc                (* response: value of the model key of a TXT record with more than 2 strings *)
}.

Definition dot_local : bytes := [46;108;111;99;97;108;46].                 (* ".local." *)
Definition tcp_local : bytes := [95;116;99;112;46;108;111;99;97;108;46].   (* "_tcp.local." *)
Definition udp_local : bytes := [95;117;100;112;46;108;111;99;97;108;46].   (* "_udp.local." *)
(* dnsmessage.Name.String(): labels joined by '.', with the trailing root dot *)
Definition fqdn (cx : ctx) (ls : list loc) : bytes := join_labels cx ls ++ [46].

(* query: the last question whose name ends in .local. (and is not a service) names the sender *)
Definition mdns_qname (cx : ctx) (m : mdnsmsg) : bytes :=
  fold_left (fun acc q => let n := fqdn cx q in
               if negb (ends_with tcp_local n) && negb (ends_with udp_local n) && ends_with dot_local n
               then trim_suffix dot_local n else acc) (mq_qnames m) [].
Definition mdns_model (cx : ctx) (m : mdnsmsg) : rv :=
  match mq_model m with Some l => retain RP_mdns_model cx (FrameSl (fst l) (snd l)) | None => Owned [] end.
(* one A/AAAA answer: the address (host key), the IPNameEntry name, the copied source MAC *)
Definition mdns_ent (cx : ctx) (model : rv) (a : list loc * nat * nat) : bytes * nameent * rv :=
  (sub (cx_frame cx) (snd (fst a)) (snd a),
   {| n_name := retain RP_mdns_name cx (Fresh (trim_suffix dot_local (fqdn cx (fst (fst a)))));
      n_model := model; n_manuf := Owned []; n_os := Owned [] |},
   retain RP_mdns_mac cx (fsl L_ETH_SRC)).
Definition mdns_ckey (cx : ctx) (m : mdnsmsg) : bytes := fsub (cx_frame cx) L_ETH_SRC ++ sub (cx_frame cx) (mq_id m) 2.

Definition mdns_step (cx : ctx) (slot : nat) (m : mdnsmsg) (fhost : option bytes) (st : state) : state :=
  if negb (mq_resp m) then
    let nm := mdns_qname cx m in
    if is_nil nm then st else
    match fhost with
    | Some key => update_name cx slot key {| n_name := retain RP_mdns_name cx (Fresh nm); n_model := Owned [];
                                            n_manuf := Owned []; n_os := Owned [] |} st
    | None => st
    end
  else
    let ckey := mdns_ckey cx m in
    if existsb (fun c => beqb (mc_kval c) ckey) (st_mcache st) then st else
    let ents := map (mdns_ent cx (mdns_model cx m)) (mq_a m) in
    let st1 := set_mcache st (st_mcache st ++ [{| mc_key := retain RP_mdns_cache_key cx (Fresh ckey); mc_kval := ckey;
                                                  mc_ents := map (fun x => (n_name (snd (fst x)), snd x, n_model (snd (fst x)))) ents |}]) in
    (* glue: every returned entry updates the host that owns the address *)
    fold_left (fun s x => update_name cx slot (fst (fst x)) (snd (fst x)) s) ents st1.

(* NBNS node status response: first name of the array, right-trimmed (locator) *)
Definition nbns_step (cx : ctx) (l : option loc) (fhost : option bytes) (st : state) : state :=
  match l, fhost with
  | Some l, Some key =>
      if is_nil (lval cx l) then st else
      update_name cx NM_NBNS key {| n_name := retain RP_nbns_name cx (FrameSl (fst l) (snd l)); n_model := Owned [];
                                    n_manuf := Owned []; n_os := Owned [] |} st
  | _, _ => st
  end.

(* SSDP M-SEARCH: model / manufacturer / OS are constants selected by the user agent (oracle) *)
Definition ssdp_step (cx : ctx) (model manuf os : bytes) (fhost : option bytes) (st : state) : state :=
  match fhost with
  | Some key => update_name cx NM_SSDP key {| n_name := Owned []; n_model := Owned model; n_manuf := Owned manuf; n_os := Owned os |} st
  | None => st
  end.

(* ---------------------------------------------------------------- *)
(* Observation: what a caller can see of the retained state *)
Open Scope string_scope.

Definition show_host (cx : ctx) (h : host) : string :=
  hx (rd cx (h_ip h)) ++ "=" ++ hx (rd cx (h_mac h)) ++ ":" ++ show_bool (h_online h) ++ ":" ++ show_names cx (h_names h).
Definition show_mac (cx : ctx) (e : macentry) : string :=
  hx (rd cx (me_mac e)) ++ "[" ++ join "+" (map hx (me_hosts e)) ++ "]" ++ show_bool (me_online e) ++ show_bool (me_captured e) ++ ":" ++ hx (me_offer e)
  ++ ":" ++ show_names cx (me_names e).
Definition show_lease (cx : ctx) (l : lease) : string :=
  hx (rd cx (l_key l)) ++ "=" ++ hx (rd cx (l_cid l)) ++ "/" ++ hx (rd cx (l_mac l)) ++ "/" ++ hx (rd cx (l_xid l)) ++ "/" ++ hx (rd cx (l_name l))
  ++ "/" ++ show_bool (l_sub l).
Definition show_rvs (cx : ctx) (l : list rv) : string := join "+" (map (fun v => hx (rd cx v)) l).
Definition show_router (cx : ctx) (r : router) : string :=
  hx (rd cx (r_ip r)) ++ "=" ++ hx (rd cx (r_mac r)) ++ "/" ++ hx (rd cx (r_slla r)) ++ "/" ++ show_rvs cx (r_prefixes r)
  ++ "/" ++ show_rvs cx (r_rdnss r) ++ "/" ++ show_rvs cx (r_dnssl r) ++ "/" ++ hx (rd cx (r_route r)).
Definition show_rec (cx : ctx) (r : dnsrec) : string := hx (rd cx (dr_val r)) ++ "=" ++ hx (rd cx (dr_name r)).
Definition rec_sorted (l : list dnsrec) : list dnsrec := sort_by (fun a b => bleb (dr_key a) (dr_key b)) l.
Definition show_dns (cx : ctx) (e : dnsent) : string :=
  hx (rd cx (d_name e)) ++ "{" ++ join "+" (map (show_rec cx) (rec_sorted (d_a e))) ++ "/"
  ++ join "+" (map (show_rec cx) (rec_sorted (d_aaaa e))) ++ "/" ++ join "+" (map (show_rec cx) (rec_sorted (d_cname e)))
  ++ "/" ++ join "+" (map (show_rec cx) (rec_sorted (d_ptr e))) ++ "}".

Definition show_mcache (cx : ctx) (c : mcache) : string :=
  hx (rd cx (mc_key c)) ++ "=" ++ join "+" (map (fun x => hx (rd cx (fst (fst x))) ++ "." ++ hx (rd cx (snd (fst x))) ++ "." ++ hx (rd cx (snd x))) (mc_ents c)).

Definition dump (s : store) (st : state) : string :=
  let cx := nocx s in
  "H:" ++ join "," (map (show_host cx) (sort_by (fun a b => bleb (h_key a) (h_key b)) (st_hosts st)))
  ++ ";M:" ++ join "," (map (show_mac cx) (st_macs st))
  ++ ";L:" ++ join "," (map (show_lease cx) (sort_by (fun a b => bleb (l_kval a) (l_kval b)) (st_leases st)))
  ++ ";R:" ++ join "," (map (show_router cx) (sort_by (fun a b => bleb (r_key a) (r_key b)) (st_routers st)))
  ++ ";D:" ++ join "," (map (show_dns cx) (sort_by (fun a b => bleb (d_key a) (d_key b)) (st_dns st)))
  ++ ";C:" ++ join "," (map (show_mcache cx) (sort_by (fun a b => bleb (mc_kval a) (mc_kval b)) (st_mcache st))).

(* probe sent by purge for a host that is going offline: Ethernet destination and target address *)
Definition show_probe (cx : ctx) (h : host) : string :=
  let key := h_key h in
  if Nat.eqb (List.length key) 4 then "P(arp," ++ hx (rd cx (h_ip h)) ++ ")"   (* ARP who-has *)
  else
    let dst := if is_lla key then [51;51;255; nth 13 key 0; nth 14 key 0; nth 15 key 0]  (* NS to the solicited-node address *)
               else rd cx (h_mac h) in                                                     (* echo request to Host.Addr *)
    "P(" ++ hx dst ++ "," ++ hx (rd cx (h_ip h)) ++ ")".

Definition items (l : list string) : string := match l with [] => "-" | _ => join "" l end.
Close Scope string_scope.

(* ---------------------------------------------------------------- *)
(* Library-level operations and environment-level histories *)

Inductive lop : Type :=
| LPurge (keys : list bytes)   (* Session.purge deleting these (offline, expired) hosts *)
| LOffline (key : bytes)       (* Session.purge finding this one host silent: probe + offline notification *)
| LHunt (ip : bytes)           (* dhcp4 Handler.StartHunt *)
| LDump.                       (* caller inspects the tables *)

(* one library call; [s] is the store at the time of the call *)
Definition lstep (c : cfg) (s : store) (o : lop) (st : state) : state * string :=
  let cx := nocx s in
  match o with
  | LPurge keys => (fold_left (fun st' k => delete_host cx k st') keys st, items [])
  | LOffline key =>
      match find_host key (st_hosts st) with
      | Some h => if h_online h
                  then let '(st1, outs) := make_offline cx key st in (st1, items (outs ++ [show_probe cx h]))
                  else (st, items [])
      | None => (st, items [])
      end
  | LHunt ip => (st, items (hunt_step cx ip st))
  | LDump => (st, dump s st)
  end.

(* what a received frame is handed to after Parse *)
Inductive pkind : Type :=
| KPlain
| KDhcp (m : dhcpmsg)
| KRa (m : ramsg)
| KDns (m : dnsmsg)
| KMdns (m : mdnsmsg)
| KLlmnr (m : mdnsmsg)
| KNbns (l : option loc)
| KSsdp (model manuf os : bytes)
| KCapture                          (* the application calls Session.Capture(frame.SrcAddr.MAC) *)
| KRelease                          (* ... Session.Release(frame.SrcAddr.MAC) *)
| KApiUpdate (ip : loc) (name : loc)   (* ... Session.DHCPv4Update(frame.SrcAddr.MAC, <address bytes of the packet>, <name bytes>) *)
| KApiOffer (ip : loc) (name : loc).   (* ... Session.SetDHCPv4IPOffer(frame.SrcAddr.MAC, ..., ...) *)

Definition api_name (cx : ctx) (l : loc) : nameent :=
  {| n_name := retain RP_name_entry cx (FrameSl (fst l) (snd l)); n_model := Owned []; n_manuf := Owned []; n_os := Owned [] |}.

(* receiving a frame in buffer [buf]: Parse, then the handler, then Notify *)
Definition rstep (c : cfg) (s : store) (buf : nat) (frame : bytes) (k : pkind) (st : state) : state * string :=
  let cx := {| cx_s := s; cx_buf := buf; cx_frame := frame |} in
  let '(st1, fhost, trans) := parse_hosts c cx st in
  let '(st2, outs) :=
    match k with
    | KPlain => (st1, [])
    | KDhcp m => dhcp_step cx m st1
    | KRa m => (ra_step cx m fhost st1, [])
    | KDns m => (dns_step cx m st1, [])
    | KMdns m => (mdns_step cx NM_MDNS m fhost st1, [])
    | KLlmnr m => (mdns_step cx NM_LLMNR m fhost st1, [])
    | KNbns l => (nbns_step cx l fhost st1, [])
    | KSsdp a b o => (ssdp_step cx a b o fhost st1, [])
    | KCapture => (capture cx (fsl L_ETH_SRC) st1, [])
    | KRelease => (release cx (fsub frame L_ETH_SRC) st1, [])
    | KApiUpdate ip name => (dhcpv4_update cx (fsl L_ETH_SRC) (lval cx ip) (api_name cx name) st1, [])
    | KApiOffer ip name => (set_dhcpv4_offer cx (fsl L_ETH_SRC) (lval cx ip) (api_name cx name) st1, [])
    end in
  (* Session.Notify *)
  let '(st3, nouts) :=
    match fhost with
    | Some key => notify_host cx key trans st2
    | None =>
        match k with
        | KDhcp _ =>
            match find_mac cx (fsub frame L_ETH_SRC) (st_macs st2) with
            | Some e => if is_nil (me_offer e) then (st2, []) else notify_host cx (me_offer e) true st2
            | None => (st2, [])
            end
        | _ => (st2, [])
        end
    end in
  (st3, items (nouts ++ outs)).

Inductive eop : Type :=
| ERecv (buf : nat) (frame : bytes) (k : pkind)   (* the caller reads a frame into buffer [buf] and hands it to the library *)
| EScribble (buf : nat) (c : bufc)                (* the caller overwrites / reuses buffer [buf] between two calls *)
| ELib (o : lop).

Record world := { w_store : store; w_state : state; w_out : list string }.

Definition estep (c : cfg) (w : world) (e : eop) : world :=
  match e with
  | ERecv buf frame k =>
      let s := sset (w_store w) buf (bwrite frame (sget (w_store w) buf)) in
      let '(st, o) := rstep c s buf frame k (w_state w) in
      {| w_store := s; w_state := st; w_out := w_out w ++ [o] |}
  | EScribble buf bc =>
      {| w_store := sset (w_store w) buf bc; w_state := w_state w; w_out := w_out w |}
  | ELib o =>
      let '(st, r) := lstep c (w_store w) o (w_state w) in
      {| w_store := w_store w; w_state := st; w_out := w_out w ++ [r] |}
  end.

Definition init_world (c : cfg) : world := {| w_store := []; w_state := init_state c; w_out := [] |}.
Definition erun (c : cfg) (h : list eop) : world := fold_left (estep c) h (init_world c).

(* what the caller observes of a history: every per-call output, then a final dump *)
Definition transcript (c : cfg) (h : list eop) : list string :=
  let w := erun c h in w_out w ++ [dump (w_store w) (w_state w)].

(* the packet-level content of a history: buffers and scribbles forgotten *)
Inductive pop : Type :=
| PRecv (frame : bytes) (k : pkind)
| PLib (o : lop).

Definition proj1 (e : eop) : list pop :=
  match e with
  | ERecv _ frame k => [PRecv frame k]
  | EScribble _ _ => []
  | ELib o => [PLib o]
  end.
Definition proj (h : list eop) : list pop := flat_map proj1 h.

(* the two runs of the differential harness *)
Fixpoint shared_run (scr : nat -> bufc) (i : nat) (p : list pop) : list eop :=
  match p with
  | [] => []
  | PRecv f k :: r => ERecv 0 f k :: EScribble 0 (scr i) :: shared_run scr (S i) r
  | PLib o :: r => ELib o :: shared_run scr i r
  end.
Fixpoint fresh_run (next : nat) (p : list pop) : list eop :=
  match p with
  | [] => []
  | PRecv f k :: r => ERecv next f k :: fresh_run (S next) r
  | PLib o :: r => ELib o :: fresh_run next r
  end.

(* ---------------------------------------------------------------- *)
(* NoRef: no retained field is a sub-slice of a receive buffer *)

Definition owned (v : rv) : bool := match v with Owned _ => true | Ref _ _ _ => false end.
Definition nm_ok (n : nameent) : bool := owned (n_name n) && owned (n_model n) && owned (n_manuf n) && owned (n_os n).
Definition host_ok (h : host) : bool := owned (h_ip h) && owned (h_mac h) && forallb nm_ok (h_names h).
Definition mac_ok (e : macentry) : bool := owned (me_mac e) && forallb nm_ok (me_names e).
Definition lease_ok (l : lease) : bool := owned (l_key l) && owned (l_cid l) && owned (l_mac l) && owned (l_xid l) && owned (l_name l).
Definition router_ok (r : router) : bool :=
  owned (r_ip r) && owned (r_mac r) && owned (r_slla r) && forallb owned (r_prefixes r) && forallb owned (r_rdnss r)
  && forallb owned (r_dnssl r) && owned (r_route r).
Definition rec_ok (r : dnsrec) : bool := owned (dr_name r) && owned (dr_val r).
Definition dns_ok (e : dnsent) : bool :=
  owned (d_name e) && forallb rec_ok (d_a e) && forallb rec_ok (d_aaaa e) && forallb rec_ok (d_cname e) && forallb rec_ok (d_ptr e).
Definition mcache_ok (c : mcache) : bool :=
  owned (mc_key c) && forallb (fun x => owned (fst (fst x)) && owned (snd (fst x)) && owned (snd x)) (mc_ents c).
Definition no_ref (st : state) : bool :=
  forallb host_ok (st_hosts st) && forallb mac_ok (st_macs st) && forallb lease_ok (st_leases st)
  && forallb router_ok (st_routers st) && forallb dns_ok (st_dns st) && forallb mcache_ok (st_mcache st).
