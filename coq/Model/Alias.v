(* Model/Alias.v — C10: retained state never aliases the caller's packet buffer.

   Memory model.  A byte-string field retained by the session or by a handler
   is an [rv]: either [Owned b] (the Go code made a private copy: CopyMAC,
   CopyIP, CopyBytes, dupBytes, string(..), netip value conversion, append to
   a fresh slice) or [Ref buf off n] (the Go code stored a sub-slice of the
   receive buffer [buf]).  Receive buffers live in a [store] (buf_id ->
   contents) which the environment may overwrite between two library calls.
   Everything the library later reads or reports about a retained field goes
   through [deref store].

   Every retention point of the anchored code is one constructor of [rpoint];
   [copies] is the transcription of what the Go code does at that point.
   The step functions below model only the data flow packet bytes -> retained
   fields -> later outputs (table dumps, notifications, replies); protocol
   decisions that do not depend on retained byte strings (address allocation,
   lease state machine) enter as oracle fields of the operation. *)
From PV Require Import Base.Prelude Base.Text.
Open Scope N_scope.
Open Scope list_scope.

(* ---------------------------------------------------------------- *)
(* byte-string helpers *)

Fixpoint beqb (a b : bytes) : bool :=
  match a, b with
  | [], [] => true
  | x :: a', y :: b' => (x =? y) && beqb a' b'
  | _, _ => false
  end.

(* lexicographic order, a proper prefix sorts first *)
Fixpoint bleb (a b : bytes) : bool :=
  match a, b with
  | [], _ => true
  | _ :: _, [] => false
  | x :: a', y :: b' => if x <? y then true else if y <? x then false else bleb a' b'
  end.

(* ---------------------------------------------------------------- *)
(* Receive buffers.  Contents = an explicit prefix followed by an infinite
   arithmetic pattern (byte i = fill + i*stp mod 256): this represents every
   finite buffer content (prefix = the content) and lets the harness' scribble
   patterns be evaluated lazily. *)

Record bufc := { b_pre : bytes; b_fill : N; b_stp : N }.

Definition bget (c : bufc) (i : nat) : byte :=
  match nth_error (b_pre c) i with
  | Some x => x
  | None => (b_fill c + N.of_nat i * b_stp c) mod 256
  end.
Definition bsub (c : bufc) (off n : nat) : bytes := map (bget c) (seq off n).

(* the receive call writes the frame at the start of the buffer *)
Definition bwrite (frame : bytes) (c : bufc) : bufc :=
  {| b_pre := frame ++ skipn (List.length frame) (b_pre c); b_fill := b_fill c; b_stp := b_stp c |}.

Definition zero_buf : bufc := {| b_pre := []; b_fill := 0; b_stp := 0 |}.

Definition store := list bufc.
Definition sget (s : store) (b : nat) : bufc := nth b s zero_buf.
Fixpoint sset (s : store) (b : nat) (c : bufc) : store :=
  match b, s with
  | O, [] => [c]
  | O, _ :: r => c :: r
  | S b', [] => zero_buf :: sset [] b' c
  | S b', x :: r => x :: sset r b' c
  end.

(* ---------------------------------------------------------------- *)
(* Retained values *)

Inductive rv : Type :=
| Owned (b : bytes)
| Ref (buf off n : nat).

Definition deref (s : store) (v : rv) : bytes :=
  match v with
  | Owned b => b
  | Ref buf off n => bsub (sget s buf) off n
  end.

(* where the bytes being retained come from: a slice of the frame being
   processed, or a value that is itself already retained (e.g. lease.Addr.MAC
   handed to Session.DHCPv4Update) *)
Inductive src : Type :=
| FrameSl (off n : nat)
| Held (v : rv).

(* Retention points: every place of the anchored code that stores a byte
   string derived from a received packet into state that outlives the call. *)
Inductive rpoint : Set :=
| RP_mactable_mac        (* mactable.go:110  MACEntry.MAC = CopyMAC(mac); Host.Addr.MAC shares it (hosttable.go:139) *)
| RP_host_ip             (* hosttable.go:139 Host.Addr.IP / HostTable key: netip.Addr value (layer_ip4/ip6 Src(), layer_frame.go:255 AddrFrom4) *)
.

(* Transcription of the Go code: does the retention point copy? *)
Definition copies (k : rpoint) : bool :=
  match k with
  | RP_mactable_mac => true
  | RP_host_ip => true
  end.

Definition src_val (s : store) (frame : bytes) (x : src) : bytes :=
  match x with
  | FrameSl off n => sub frame off n
  | Held v => deref s v
  end.

(* what ends up in the retained field *)
Definition retain (k : rpoint) (s : store) (buf : nat) (frame : bytes) (x : src) : rv :=
  if copies k then Owned (src_val s frame x)
  else match x with
       | FrameSl off n => Ref buf off n
       | Held v => v
       end.

(* ---------------------------------------------------------------- *)
(* Session state (hosttable.go, mactable.go) *)

Record macentry := {
  me_id : nat;             (* identity of the *MACEntry pointer *)
  me_mac : rv;             (* MACEntry.MAC *)
  me_hosts : list bytes    (* MACEntry.HostList (host keys, in slice order) *)
}.

Record host := {
  h_ip : rv;               (* Host.Addr.IP *)
  h_key : bytes;           (* key in HostTable.Table (netip.Addr value) *)
  h_me : nat;              (* Host.MACEntry *)
  h_mac : rv               (* Host.Addr.MAC: the same slice as MACEntry.MAC *)
}.

Record state := {
  st_hosts : list host;        (* HostTable.Table (a Go map: order irrelevant, dumps sort) *)
  st_macs : list macentry;     (* MACTable.Table (a Go slice: order kept) *)
  st_next : nat                (* allocation counter for me_id *)
}.

Record cfg := {
  c_host_mac : bytes; c_host_ip : bytes;
  c_router_mac : bytes; c_router_ip : bytes;
  c_lan : bytes                (* first three bytes of the /24 home LAN *)
}.

Definition std_cfg : cfg :=
  {| c_host_mac := [0;85;85;85;85;85]; c_host_ip := [192;168;0;129];
     c_router_mac := [0;102;102;102;102;102]; c_router_ip := [192;168;0;11];
     c_lan := [192;168;0] |}.

Definition set_hosts (st : state) (hs : list host) : state :=
  {| st_hosts := hs; st_macs := st_macs st; st_next := st_next st |}.
Definition set_macs (st : state) (ms : list macentry) : state :=
  {| st_hosts := st_hosts st; st_macs := ms; st_next := st_next st |}.

Definition find_host (key : bytes) (hs : list host) : option host :=
  find (fun h => beqb (h_key h) key) hs.
(* MACTable.findMAC: bytes.Equal(v.MAC, mac) over the slice *)
Definition find_mac (s : store) (mac : bytes) (ms : list macentry) : option macentry :=
  find (fun e => beqb (deref s (me_mac e)) mac) ms.
Definition me_by_id (id : nat) (ms : list macentry) : option macentry :=
  find (fun e => Nat.eqb (me_id e) id) ms.

(* MACTable.findOrCreate *)
Definition mac_find_or_create (s : store) (buf : nat) (frame : bytes) (x : src) (st : state)
  : state * macentry :=
  match find_mac s (src_val s frame x) (st_macs st) with
  | Some e => (st, e)
  | None =>
      let e := {| me_id := st_next st; me_mac := retain RP_mactable_mac s buf frame x; me_hosts := [] |} in
      ({| st_hosts := st_hosts st; st_macs := st_macs st ++ [e]; st_next := S (st_next st) |}, e)
  end.

Fixpoint remove_first {A} (p : A -> bool) (l : list A) : list A :=
  match l with
  | [] => []
  | x :: r => if p x then r else x :: remove_first p r
  end.

(* Session.deleteHost *)
Definition delete_host (s : store) (key : bytes) (st : state) : state :=
  match find_host key (st_hosts st) with
  | None => st
  | Some h =>
      (* host.MACEntry.unlink(host) *)
      let macs1 := map (fun e => if Nat.eqb (me_id e) (h_me h)
                                 then {| me_id := me_id e; me_mac := me_mac e;
                                         me_hosts := remove_first (fun k => beqb k key) (me_hosts e) |}
                                 else e) (st_macs st) in
      let hosts1 := remove_first (fun h' => beqb (h_key h') key) (st_hosts st) in
      let macs2 :=
        match me_by_id (h_me h) macs1 with
        | Some e =>
            match me_hosts e with
            | [] => (* MACTable.delete(host.MACEntry.MAC): first entry whose bytes are equal *)
                remove_first (fun e' => beqb (deref s (me_mac e')) (deref s (me_mac e))) macs1
            | _ => macs1
            end
        | None => macs1
        end in
      {| st_hosts := hosts1; st_macs := macs2; st_next := st_next st |}
  end.

(* Session.findOrCreateHostWithLock(Addr{MAC, IP}) *)
Definition find_or_create_host (s : store) (buf : nat) (frame : bytes) (xmac xip : src) (st : state) : state :=
  let key := src_val s frame xip in
  let mac := src_val s frame xmac in
  let fresh (st0 : state) :=
      let '(st1, e) := mac_find_or_create s buf frame xmac st0 in
      let h := {| h_ip := retain RP_host_ip s buf frame xip; h_key := key; h_me := me_id e; h_mac := me_mac e |} in
      {| st_hosts := st_hosts st1 ++ [h];
         st_macs := map (fun e' => if Nat.eqb (me_id e') (me_id e)
                                   then {| me_id := me_id e'; me_mac := me_mac e'; me_hosts := me_hosts e' ++ [key] |}
                                   else e') (st_macs st1);
         st_next := st_next st1 |} in
  match find_host key (st_hosts st) with
  | Some h =>
      match me_by_id (h_me h) (st_macs st) with
      | Some e => if beqb (deref s (me_mac e)) mac then st
                  else fresh (delete_host s key st)
      | None => fresh (delete_host s key st)
      end
  | None => fresh st
  end.

(* ---------------------------------------------------------------- *)
(* Session.Parse (layer_frame.go): host creation from ARP / IPv4 / IPv6.
   Only the classification needed for well-formed frames is modelled. *)

Definition be16_of (l : bytes) (off : nat) : N := nth off l 0 * 256 + nth (S off) l 0.
Definition in_lan (c : cfg) (ip : bytes) : bool := beqb (firstn 3 ip) (c_lan c) && Nat.eqb (List.length ip) 4.
Definition is_lla (ip : bytes) : bool := (nth 0 ip 0 =? 254) && (N.land (nth 1 ip 0) 192 =? 128).
Definition is_mcast6 (ip : bytes) : bool := nth 0 ip 0 =? 255.
Definition all_zero (ip : bytes) : bool := forallb (fun b => b =? 0) ip.
Definition is_loop6 (ip : bytes) : bool := all_zero (firstn 15 ip) && (nth 15 ip 0 =? 1).
(* netip.Addr.IsGlobalUnicast for a 16-byte address *)
Definition is_gua6 (ip : bytes) : bool :=
  negb (all_zero ip) && negb (is_loop6 ip) && negb (is_mcast6 ip) && negb (is_lla ip).

Definition parse_hosts (c : cfg) (s : store) (buf : nat) (frame : bytes) (st : state) : state :=
  if (List.length frame <? 14)%nat then st else
  let smac := sub frame 6 6 in
  if negb (N.land (nth 0 smac 0) 1 =? 0) then st else
  let et := be16_of frame 12 in
  if et =? 2048 then       (* IPv4 *)
    let sip := sub frame 26 4 in
    if negb (beqb smac (c_host_mac c)) && in_lan c sip
    then find_or_create_host s buf frame (FrameSl 6 6) (FrameSl 26 4) st else st
  else if et =? 34525 then (* IPv6 *)
    let sip := sub frame 22 16 in
    if negb (beqb smac (c_host_mac c)) &&
       (is_lla sip || (is_gua6 sip && negb (beqb smac (c_router_mac c))))
    then find_or_create_host s buf frame (FrameSl 6 6) (FrameSl 22 16) st else st
  else if et =? 2054 then  (* ARP: sender hardware / protocol address *)
    let sip := sub frame 28 4 in
    if negb (beqb smac (c_host_mac c)) && in_lan c sip
    then find_or_create_host s buf frame (FrameSl 22 6) (FrameSl 28 4) st else st
  else st.

(* NewSession: host and router entries, copied from NICInfo (not from a packet) *)
Definition init_state (c : cfg) : state :=
  let st0 := {| st_hosts := []; st_macs := []; st_next := 0 |} in
  let st1 := find_or_create_host [] 0 [] (Held (Owned (c_host_mac c))) (Held (Owned (c_host_ip c))) st0 in
  find_or_create_host [] 0 [] (Held (Owned (c_router_mac c))) (Held (Owned (c_router_ip c))) st1.

(* ---------------------------------------------------------------- *)
(* Observation: what a caller can see of the retained state *)

Fixpoint insert_by {A} (le : A -> A -> bool) (x : A) (l : list A) : list A :=
  match l with
  | [] => [x]
  | y :: r => if le x y then x :: l else y :: insert_by le x r
  end.
Definition sort_by {A} (le : A -> A -> bool) (l : list A) : list A := fold_right (insert_by le) [] l.

Open Scope string_scope.

Definition show_host (s : store) (h : host) : string :=
  hex_of_bytes (deref s (h_ip h)) ++ "=" ++ hex_of_bytes (deref s (h_mac h)).
Definition show_mac (s : store) (e : macentry) : string :=
  hex_of_bytes (deref s (me_mac e)) ++ "[" ++ join "+" (map hex_of_bytes (me_hosts e)) ++ "]".

Definition dump (s : store) (st : state) : string :=
  "H:" ++ join "," (map (show_host s) (sort_by (fun a b => bleb (h_key a) (h_key b)) (st_hosts st)))
  ++ ";M:" ++ join "," (map (show_mac s) (st_macs st)).

(* ---------------------------------------------------------------- *)
(* Library-level operations and environment-level histories *)

Inductive lop : Type :=
| LPurge (keys : list bytes)   (* Session.purge deleting these (offline, expired) hosts *)
| LDump.                       (* caller inspects the tables *)

(* one library call; [s] is the store at the time of the call *)
Definition lstep (c : cfg) (s : store) (o : lop) (st : state) : state * string :=
  match o with
  | LPurge keys => (fold_left (fun st' k => delete_host s k st') keys st, "-")
  | LDump => (st, dump s st)
  end.

(* receiving a frame in buffer [buf]: Parse, then the handlers, then Notify *)
Definition rstep (c : cfg) (s : store) (buf : nat) (frame : bytes) (st : state) : state * string :=
  (parse_hosts c s buf frame st, "-").

Inductive eop : Type :=
| ERecv (buf : nat) (frame : bytes)   (* the caller reads a frame into buffer [buf] and hands it to the library *)
| EScribble (buf : nat) (c : bufc)    (* the caller overwrites / reuses buffer [buf] between two calls *)
| ELib (o : lop).

Record world := { w_store : store; w_state : state; w_out : list string }.

Definition estep (c : cfg) (w : world) (e : eop) : world :=
  match e with
  | ERecv buf frame =>
      let s := sset (w_store w) buf (bwrite frame (sget (w_store w) buf)) in
      let '(st, o) := rstep c s buf frame (w_state w) in
      {| w_store := s; w_state := st; w_out := (w_out w ++ [o])%list |}
  | EScribble buf bc =>
      {| w_store := sset (w_store w) buf bc; w_state := w_state w; w_out := w_out w |}
  | ELib o =>
      let '(st, r) := lstep c (w_store w) o (w_state w) in
      {| w_store := w_store w; w_state := st; w_out := (w_out w ++ [r])%list |}
  end.

Definition init_world (c : cfg) : world := {| w_store := []; w_state := init_state c; w_out := [] |}.
Definition erun (c : cfg) (h : list eop) : world := fold_left (estep c) h (init_world c).

(* what the caller observes of a history: every per-call output, then a final dump *)
Definition transcript (c : cfg) (h : list eop) : list string :=
  let w := erun c h in (w_out w ++ [dump (w_store w) (w_state w)])%list.

(* the packet-level content of a history: buffers and scribbles forgotten *)
Inductive pop : Type :=
| PRecv (frame : bytes)
| PLib (o : lop).

Definition proj1 (e : eop) : list pop :=
  match e with
  | ERecv _ frame => [PRecv frame]
  | EScribble _ _ => []
  | ELib o => [PLib o]
  end.
Definition proj (h : list eop) : list pop := flat_map proj1 h.

(* the two runs of the differential harness *)
Fixpoint shared_run (scr : nat -> bufc) (i : nat) (p : list pop) : list eop :=
  match p with
  | [] => []
  | PRecv f :: r => ERecv 0 f :: EScribble 0 (scr i) :: shared_run scr (S i) r
  | PLib o :: r => ELib o :: shared_run scr i r
  end.
Fixpoint fresh_run (next : nat) (p : list pop) : list eop :=
  match p with
  | [] => []
  | PRecv f :: r => ERecv next f :: fresh_run (S next) r
  | PLib o :: r => ELib o :: fresh_run next r
  end.

(* ---------------------------------------------------------------- *)
(* NoRef: no retained field is a sub-slice of a receive buffer *)

Definition owned (v : rv) : bool := match v with Owned _ => true | Ref _ _ _ => false end.
Definition host_ok (h : host) : bool := owned (h_ip h) && owned (h_mac h).
Definition mac_ok (e : macentry) : bool := owned (me_mac e).
Definition no_ref (st : state) : bool := forallb host_ok (st_hosts st) && forallb mac_ok (st_macs st).
