(* Model/DNSMerge.v — NameEntry.Merge (mactable.go:169-191) and
   Host.Update{DHCP4,LLMNR,MDNS,SSDP,NBNS}Name (hosttable.go:211-269):
   merge into the host's per-source entry, set dirty when it changed, and
   merge the host's entry into the shared MAC entry.
   Go strings are byte lists; Expire is N with 0 = the zero time.Time{}. *)
From PV Require Export Base.Prelude.
Open Scope N_scope.

Fixpoint bytes_eqb (a b : bytes) : bool :=
  match a, b with
  | [], [] => true
  | x :: a', y :: b' => (x =? y) && bytes_eqb a' b'
  | _, _ => false
  end.

Definition nonempty (a : bytes) : bool := match a with [] => false | _ => true end.

Record NameEntry := mkNE {
  ne_type : bytes; ne_name : bytes; ne_model : bytes;
  ne_manufacturer : bytes; ne_os : bytes; ne_expire : N }.

Definition ne_zero : NameEntry := mkNE [] [] [] [] [] 0.

(* func (e NameEntry) Merge(nameEntry NameEntry) (newEntry NameEntry, modified bool) *)
Definition merge (e n : NameEntry) : NameEntry * bool :=
  let c1 := nonempty (ne_name n) && negb (bytes_eqb (ne_name e) (ne_name n)) in
  let name := if c1 then ne_name n else ne_name e in
  let c2 := nonempty (ne_model n) && negb (bytes_eqb (ne_model e) (ne_model n)) in
  let model := if c2 then ne_model n else ne_model e in
  let c3 := nonempty (ne_os n) && negb (bytes_eqb (ne_os e) (ne_os n)) in
  let os := if c3 then ne_os n else ne_os e in
  let c4 := nonempty (ne_manufacturer n) && negb (bytes_eqb (ne_manufacturer e) (ne_manufacturer n)) in
  let manu := if c4 then ne_manufacturer n else ne_manufacturer e in
  let modified := c1 || c2 || c3 || c4 in
  let expire := if modified && negb (ne_expire n =? 0) then ne_expire n else ne_expire e in
  (mkNE (ne_type n) name model manu os expire, modified).

(* the five naming sources *)
Inductive source := SDHCP4 | SLLMNR | SMDNS | SSSDP | SNBNS.

(* the name fields of Host / MACEntry *)
Record names := mkNames { n_dhcp4 : NameEntry; n_llmnr : NameEntry; n_mdns : NameEntry;
                          n_ssdp : NameEntry; n_nbns : NameEntry }.
Definition names_zero : names := mkNames ne_zero ne_zero ne_zero ne_zero ne_zero.

Definition nget (s : source) (x : names) : NameEntry :=
  match s with
  | SDHCP4 => n_dhcp4 x | SLLMNR => n_llmnr x | SMDNS => n_mdns x | SSSDP => n_ssdp x | SNBNS => n_nbns x
  end.
Definition nset (s : source) (v : NameEntry) (x : names) : names :=
  match s with
  | SDHCP4 => mkNames v (n_llmnr x) (n_mdns x) (n_ssdp x) (n_nbns x)
  | SLLMNR => mkNames (n_dhcp4 x) v (n_mdns x) (n_ssdp x) (n_nbns x)
  | SMDNS => mkNames (n_dhcp4 x) (n_llmnr x) v (n_ssdp x) (n_nbns x)
  | SSSDP => mkNames (n_dhcp4 x) (n_llmnr x) (n_mdns x) v (n_nbns x)
  | SNBNS => mkNames (n_dhcp4 x) (n_llmnr x) (n_mdns x) (n_ssdp x) v
  end.

(* a host with its (shared) MAC entry *)
Record hstate := mkH { h_names : names; h_dirty : bool; m_names : names }.

(* func (host *Host) UpdateXName(name NameEntry) *)
Definition update (s : source) (st : hstate) (n : NameEntry) : hstate :=
  let r := merge (nget s (h_names st)) n in
  let hn := nset s (fst r) (h_names st) in
  if snd r then
    mkH hn true (nset s (fst (merge (nget s (m_names st)) (fst r))) (m_names st))
  else mkH hn (h_dirty st) (m_names st).
