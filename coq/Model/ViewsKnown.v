(* Model/ViewsKnown.v -- the recorded defect classes of the view getters
   (known_findings.txt, keys "view-...").  Each class is a decidable predicate
   on (getter name, view) that reads the view's bytes directly; the theorems
   of Properties/C01_views.v / C02_views.v hold outside these classes
   (_partial) and fail inside them (_refuted).  The dispatch modules print the
   key of the class a failing case falls in. *)
From PV Require Export Model.ViewsBase.
Open Scope string_scope.
Open Scope N_scope.

Definition bt (v : slice) (i : nat) : N := nth i (arr v) 0.
Definition w16 (v : slice) (i : nat) : N := bt v i * 256 + bt v (i + 1).
Definition is (name want : string) : bool := String.eqb name want.

(* ---- IP4 ---- *)
(* #3: IsValid accepts TotalLen < IHL; Payload() = p[IHL:TotalLen] panics *)
Definition k_ip4_payload : finding :=
  mkFinding "view-ip4-payload-totallen-lt-ihl"
    (fun name v => is name "Payload" && (w16 v 2 <? 4 * (bt v 0 mod 16))).
(* #4: Fragment() computes (hi<<8) & lo, which is 0 for every input *)
Definition k_ip4_fragment : finding :=
  mkFinding "view-ip4-fragment-and"
    (fun name v => is name "Fragment" && negb ((bt v 6 mod 32) * 256 + bt v 7 =? 0)).
Definition IP4_findings_C01 : list finding := [k_ip4_payload].
Definition IP4_findings_C02 : list finding := [k_ip4_payload; k_ip4_fragment].

(* ---- TCP ---- *)
(* #5: HeaderLen()/Payload() use the data offset in 32-bit words as a byte count *)
Definition k_tcp_words : finding :=
  mkFinding "view-tcp-headerlen-words"
    (fun name v => (is name "HeaderLen" || is name "Payload") && negb (bt v 12 / 16 =? 0)).
Definition TCP_findings_C01 : list finding := [].
Definition TCP_findings_C02 : list finding := [k_tcp_words].

(* ---- Ether ---- *)
Definition eth_hlen (v : slice) : nat :=
  if w16 v 12 =? 33024 then 18%nat else if w16 v 12 =? 34984 then 22%nat else 14%nat.
(* #8: Payload() of a header-only frame returns p[n:cap(p)]: outside the view, capacity dependent *)
Definition k_ether_payload : finding :=
  mkFinding "view-ether-payload-spare-capacity"
    (fun name v => is name "Payload" && Nat.eqb (len v) (eth_hlen v) && Nat.ltb (len v) (cap v)).
(* #8: SrcIP()/DstIP() index the IP header without checking that the payload holds one *)
Definition k_ether_ip : finding :=
  mkFinding "view-ether-srcip-dstip-short-payload"
    (fun name v =>
       (is name "SrcIP" && (((w16 v 12 =? 2048) && Nat.ltb (len v) 30) || ((w16 v 12 =? 34525) && Nat.ltb (len v) 38))) ||
       (is name "DstIP" && (((w16 v 12 =? 2048) && Nat.ltb (len v) 34) || ((w16 v 12 =? 34525) && Nat.ltb (len v) 54)))).
Definition Ether_findings : list finding := [k_ether_payload; k_ether_ip].

(* ---- LLC ---- *)
Definition llc_u (v : slice) : bool :=
  (bt v 2 mod 4 =? 3) && negb ((bt v 2 =? 3) && (bt v 0 =? 170) && (bt v 1 =? 170)).
Definition llc_snap (v : slice) : bool := (bt v 2 =? 3) && (bt v 0 =? 170) && (bt v 1 =? 170).
(* #6: Payload() = p[4:] on a valid 3-byte frame that is not in the U format *)
Definition k_llc_short : finding :=
  mkFinding "view-llc-payload-3-bytes"
    (fun name v => is name "Payload" && Nat.eqb (len v) 3 && negb (llc_u v)).
(* a SNAP frame (AA AA 03) is a U frame: its information field starts at 3, Payload() returns p[4:] *)
Definition k_llc_snap : finding :=
  mkFinding "view-llc-payload-snap-offset" (fun name v => is name "Payload" && llc_snap v).
Definition LLC_findings_C01 : list finding := [k_llc_short].
Definition LLC_findings_C02 : list finding := [k_llc_short; k_llc_snap].

(* ---- LLDP ---- *)
(* #7: getTLV returns p[n+2:n+l]: panics when the 9-bit length l is 0 (type != 0) or 1, and is l-2 bytes
   instead of l otherwise.  TLV header at n as the code reads it: *)
Definition lldp_t (v : slice) (n : nat) : N := bt v n / 2.
Definition lldp_l (v : slice) (n : nat) : N := (bt v n mod 2) * 256 + bt v (n + 1).
Definition lldp_end (v : slice) (n : nat) : bool := (lldp_t v n =? 0) && (lldp_l v n =? 0).
Definition lldp_fits (v : slice) (n : nat) : bool := Nat.ltb (n + 2 + N.to_nat (lldp_l v n) + 2) (len v).
(* getTLV(n) panics *)
Definition lldp_bad (v : slice) (n : nat) : bool :=
  Nat.ltb (n + 2) (len v) && negb (lldp_end v n) && lldp_fits v n && (lldp_l v n <? 2).
(* position of the second getTLV call of PortID: len(ChassisID()) + 2 *)
Definition lldp_n2 (v : slice) : nat :=
  if Nat.ltb 2 (len v) && negb (lldp_end v 0) && lldp_fits v 0 then (N.to_nat (lldp_l v 0) - 2 + 2)%nat else 2%nat.
(* some TLV on the path of the FastLog walk makes getTLV panic *)
Fixpoint lldp_walk_bad (fuel : nat) (v : slice) (pos : nat) : bool :=
  match fuel with
  | O => false
  | S f =>
      if lldp_bad v pos then true else
      if Nat.leb (len v) (pos + 2) then false else
      if lldp_end v pos then false else
      if negb (lldp_fits v pos) then false else
      if lldp_t v pos =? 0 then false else
      lldp_walk_bad f v (pos + N.to_nat (lldp_l v pos) + 2)
  end.
Definition k_lldp_panic : finding :=
  mkFinding "view-lldp-gettlv-short-length"
    (fun name v => (is name "ChassisID" && lldp_bad v 0) ||
                   (is name "PortID" && (lldp_bad v 0 || lldp_bad v (lldp_n2 v))) ||
                   (is name "String" && lldp_walk_bad (S (len v)) v 0)).
(* the value range is wrong for every TLV that is not the End TLV *)
Definition k_lldp_range : finding :=
  mkFinding "view-lldp-gettlv-range"
    (fun name v => (is name "ChassisID" || is name "PortID") && (negb (lldp_end v 0) || negb (lldp_end v 2))).
Definition LLDP_findings_C01 : list finding := [k_lldp_panic].
Definition LLDP_findings_C02 : list finding := [k_lldp_panic; k_lldp_range].

(* ---- ICMP4Redirect ---- *)
(* #10: Addrs() computes entry positions from 0, ignoring the 8-byte header *)
Definition k_r4_addrs : finding :=
  mkFinding "view-icmp4redirect-addrs-offset" (fun name v => is name "Addrs" && negb (bt v 4 =? 0)).
Definition R4_findings_C02 : list finding := [k_r4_addrs].

(* ---- ICMP6 RS / RA ---- *)
(* SourceLLA() of an RS looks for a 24-byte option (length 3) and returns 16 bytes; RFC 4861: length 1, 6 bytes *)
Definition k_rs_sourcella : finding :=
  mkFinding "view-rs-sourcella-layout"
    (fun name v => is name "SourceLLA" &&
       ((Nat.leb 26 (len v) && (bt v 8 =? 1) && (bt v 9 =? 3)) || (Nat.leb 16 (len v) && (bt v 8 =? 1) && (bt v 9 =? 1)))).
Definition RS_findings_C01 : list finding := [].
Definition RS_findings_C02 : list finding := [k_rs_sourcella].
