(* Model/ViewsKnown.v -- the recorded defect classes of the view getters
   (known_findings.txt, keys "view-...").  Each class is a decidable predicate
   on (getter name, view) that reads the view's bytes directly; the theorems
   of Properties/C01_views.v / C02_views.v hold outside these classes
   (_partial) and fail inside them (_refuted).  The dispatch modules print the
   key of the class a failing case falls in. *)
From PV Require Export Model.ViewsBase.
Open Scope string_scope.
Open Scope N_scope.

Definition bt (v : slice) (i : nat) : N := nth i (arr v) 0.
Definition w16 (v : slice) (i : nat) : N := bt v i * 256 + bt v (i + 1).
Definition is (name want : string) : bool := String.eqb name want.

(* The classes of IP4 (#3 #4), TCP (#5), LLC (#6), LLDP (#7), Ether.SrcIP/DstIP (#8), ICMP4Redirect.Addrs and the
   RS SourceLLA/Options layout (#10) were repaired in /repo (known_findings.txt "fixed:" lines, FIXLOG.md);
   their predicates are gone with them.  What remains: *)

(* ---- Ether ---- *)
Definition eth_hlen (v : slice) : nat :=
  if w16 v 12 =? 33024 then 18%nat else if w16 v 12 =? 34984 then 22%nat else 14%nat.
(* #8: Payload() of a header-only frame returns p[n:cap(p)]: outside the view, capacity dependent
   (documented encoder idiom: "return the full buffer - we are likely building a packet"; not repaired) *)
Definition k_ether_payload : finding :=
  mkFinding "view-ether-payload-spare-capacity"
    (fun name v => is name "Payload" && Nat.eqb (len v) (eth_hlen v) && Nat.ltb (len v) (cap v)).
Definition Ether_findings : list finding := [k_ether_payload].

(* The two classes of HopByHopExtensionHeader.ParseHopByHopExtensions (type masked with 0x1f; overrunning option
   accepted) were repaired in /repo by HANDLERS (ddd494c, 3430bd4). *)
