(* Model/ViewsKnown.v -- the recorded defect classes of the view getters
   (known_findings.txt, keys "view-...").  Each class is a decidable predicate
   on (getter name, view) that reads the view's bytes directly; the theorems
   of Properties/C01_views.v / C02_views.v hold outside these classes
   (_partial) and fail inside them (_refuted).  The dispatch modules print the
   key of the class a failing case falls in. *)
From PV Require Export Model.ViewsBase.
Open Scope string_scope.
Open Scope N_scope.

Definition bt (v : slice) (i : nat) : N := nth i (arr v) 0.
Definition w16 (v : slice) (i : nat) : N := bt v i * 256 + bt v (i + 1).
Definition is (name want : string) : bool := String.eqb name want.

(* ---- IP4 ---- *)
(* #3: IsValid accepts TotalLen < IHL; Payload() = p[IHL:TotalLen] panics *)
Definition k_ip4_payload : finding :=
  mkFinding "view-ip4-payload-totallen-lt-ihl"
    (fun name v => is name "Payload" && (w16 v 2 <? 4 * (bt v 0 mod 16))).
(* #4: Fragment() computes (hi<<8) & lo, which is 0 for every input *)
Definition k_ip4_fragment : finding :=
  mkFinding "view-ip4-fragment-and"
    (fun name v => is name "Fragment" && negb ((bt v 6 mod 32) * 256 + bt v 7 =? 0)).
Definition IP4_findings_C01 : list finding := [k_ip4_payload].
Definition IP4_findings_C02 : list finding := [k_ip4_payload; k_ip4_fragment].

(* ---- TCP ---- *)
(* #5: HeaderLen()/Payload() use the data offset in 32-bit words as a byte count *)
Definition k_tcp_words : finding :=
  mkFinding "view-tcp-headerlen-words"
    (fun name v => (is name "HeaderLen" || is name "Payload") && negb (bt v 12 / 16 =? 0)).
Definition TCP_findings_C01 : list finding := [].
Definition TCP_findings_C02 : list finding := [k_tcp_words].

(* ---- Ether ---- *)
Definition eth_hlen (v : slice) : nat :=
  if w16 v 12 =? 33024 then 18%nat else if w16 v 12 =? 34984 then 22%nat else 14%nat.
(* #8: Payload() of a header-only frame returns p[n:cap(p)]: outside the view, capacity dependent *)
Definition k_ether_payload : finding :=
  mkFinding "view-ether-payload-spare-capacity"
    (fun name v => is name "Payload" && Nat.eqb (len v) (eth_hlen v) && Nat.ltb (len v) (cap v)).
(* #8: SrcIP()/DstIP() index the IP header without checking that the payload holds one *)
Definition k_ether_ip : finding :=
  mkFinding "view-ether-srcip-dstip-short-payload"
    (fun name v =>
       (is name "SrcIP" && (((w16 v 12 =? 2048) && Nat.ltb (len v) 30) || ((w16 v 12 =? 34525) && Nat.ltb (len v) 38))) ||
       (is name "DstIP" && (((w16 v 12 =? 2048) && Nat.ltb (len v) 34) || ((w16 v 12 =? 34525) && Nat.ltb (len v) 54)))).
Definition Ether_findings : list finding := [k_ether_payload; k_ether_ip].
