(* Model/ViewsKnown.v -- the recorded defect classes of the view getters
   (known_findings.txt, keys "view-...").  Each class is a decidable predicate
   on (getter name, view) that reads the view's bytes directly; the theorems
   of Properties/C01_views.v / C02_views.v hold outside these classes
   (_partial) and fail inside them (_refuted).  The dispatch modules print the
   key of the class a failing case falls in. *)
From PV Require Export Model.ViewsBase.
Open Scope string_scope.
Open Scope N_scope.

Definition bt (v : slice) (i : nat) : N := nth i (arr v) 0.
Definition w16 (v : slice) (i : nat) : N := bt v i * 256 + bt v (i + 1).
Definition is (name want : string) : bool := String.eqb name want.

(* The classes of IP4 (#3 #4), TCP (#5), LLC (#6), LLDP (#7), Ether.SrcIP/DstIP (#8), ICMP4Redirect.Addrs and the
   RS SourceLLA/Options layout (#10) were repaired in /repo (known_findings.txt "fixed:" lines, FIXLOG.md);
   their predicates are gone with them.  What remains: *)

(* ---- Ether ---- *)
Definition eth_hlen (v : slice) : nat :=
  if w16 v 12 =? 33024 then 18%nat else if w16 v 12 =? 34984 then 22%nat else 14%nat.
(* #8: Payload() of a header-only frame returns p[n:cap(p)]: outside the view, capacity dependent
   (documented encoder idiom: "return the full buffer - we are likely building a packet"; not repaired) *)
Definition k_ether_payload : finding :=
  mkFinding "view-ether-payload-spare-capacity"
    (fun name v => is name "Payload" && Nat.eqb (len v) (eth_hlen v) && Nat.ltb (len v) (cap v)).
Definition Ether_findings : list finding := [k_ether_payload].

(* ---- HopByHopExtensionHeader.ParseHopByHopExtensions (layer_ip6.go:114; the walk is HANDLERS' to repair) ----
   The code dispatches on type & 0x1f and treats every type with low bits 5 as a 4-byte router alert, and it
   stops as soon as pos >= len(data), so an option running past the area is accepted.  Walk over the options
   area d = p[2:Len] as the code does it: 0 = conformant, 1 = a type is misread because of the mask,
   2 = an option overruns the area. *)
Fixpoint hbh_dev (fuel : nat) (v : slice) (dlen pos : nat) : N :=
  match fuel with
  | O => 0
  | S f =>
      if Nat.leb dlen pos then 0 else
      let b0 := bt v (2 + pos) in
      if N.land b0 31 =? 0 then (if b0 =? 0 then hbh_dev f v dlen (S pos) else 1)
      else if N.land b0 31 =? 5 then
        (if (b0 =? 5) && (bt v (2 + pos + 1) =? 2) && Nat.leb (pos + 4) dlen then hbh_dev f v dlen (pos + 4)
         else if (b0 =? 5) && (bt v (2 + pos + 1) =? 2) then 0 else if Nat.ltb (dlen - pos) 2 then 0 else 1)
      else if Nat.ltb (dlen - pos) 2 then 0
      else let pos' := (pos + 2 + N.to_nat (bt v (2 + pos + 1)))%nat in
           if Nat.ltb dlen pos' then 2 else hbh_dev f v dlen pos'
  end.
Definition hbh_dlen (v : slice) : nat := (N.to_nat (bt v 1) * 8 + 6)%nat.
Definition k_hbh_mask : finding :=
  mkFinding "view-hbh-option-type-masked"
    (fun name v => is name "ParseHopByHopExtensions" && (hbh_dev (S (hbh_dlen v)) v (hbh_dlen v) 0 =? 1)).
Definition k_hbh_overrun : finding :=
  mkFinding "view-hbh-option-overrun-accepted"
    (fun name v => is name "ParseHopByHopExtensions" && (hbh_dev (S (hbh_dlen v)) v (hbh_dlen v) 0 =? 2)).
Definition HBH_findings_C02 : list finding := [k_hbh_mask; k_hbh_overrun].
