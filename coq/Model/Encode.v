(* Model/Encode.v — line-by-line model of the encoders of package packet
   (C03): EncodeEther / Ether.SetPayload / Ether.AppendPayload
   (layer_ethernet.go), EncodeIP4 / IP4.SetPayload / IP4.AppendPayload /
   EncodeUDP / UDP.SetPayload / UDP.AppendPayload (layer_ip4.go), EncodeIP6 /
   IP6.SetPayload / IP6.AppendPayload (layer_ip6.go), EncodeARP
   (layer_arp.go), EncodeICMPEcho and the NDP NS/NA marshal functions
   (layer_icmp.go), EncodeDNSQuery (layer_dns.go), together with the
   library's own getters ("library view") that read the result back.
   Byte-exact: buffer capacity and length, Go's panic rules (index
   expressions check the length, slice expressions the capacity), uint16
   wrap of length fields.  Defects are modelled as they are.
   A Go sub-slice p[n:] shares storage with p: a write through the child is
   put back into the parent with [writeback] (EncodeBase.v). *)
From PV Require Export Base.Prelude Base.Slice Model.EncodeBase Model.Checksum.
Open Scope N_scope.

Definition ETH_P_IP : N := 2048.      (* 0x0800 *)
Definition ETH_P_ARP : N := 2054.     (* 0x0806 *)
Definition ETH_P_IPV6 : N := 34525.   (* 0x86dd *)
Definition ETH_P_8021Q : N := 33024.  (* 0x8100 *)
Definition ETH_P_8021AD : N := 34984. (* 0x88a8 *)

(* ================================================================ *)
(* Ethernet (layer_ethernet.go)                                      *)

(* func EncodeEther(b []byte, hType uint16, srcMAC, dstMAC net.HardwareAddr) Ether
     if cap(b) < 14 { panic }; b = b[:14]
     copy(b[0:6], dstMAC); copy(b[6:12], srcMAC); PutUint16(b[12:14], hType) *)
Definition encode_ether (b : slice) (htype : N) (src dst : bytes) : res slice :=
  if Nat.ltb (cap b) 14 then Panic else
  (b1 <- reslice b 14 ;;
   b2 <- copyto b1 0 6 dst ;;
   b3 <- copyto b2 6 12 src ;;
   put16 b3 12 htype)%res.

(* EncodeEther when the MAC arguments are views into the destination's own backing array (srcMAC =
   b[so:so+sl], dstMAC = b[do:do+dl] of the full-capacity array): the as-found behaviour, pinned.  copy has
   memmove semantics (the source is read as it was before that copy), and the second copy reads srcMAC AFTER the
   first one has written b[0:6]: a source MAC that overlaps b[0:6] is read back changed. *)
Definition encode_ether_aliased (b : slice) (htype : N) (so sl_ do_ dl : nat) : res slice :=
  if Nat.ltb (cap b) 14 then Panic else
  (b1 <- reslice b 14 ;;
   b2 <- copyto b1 0 6 (sub (arr b1) do_ dl) ;;
   b3 <- copyto b2 6 12 (sub (arr b2) so sl_) ;;
   put16 b3 12 htype)%res.

(* getters *)
Definition ether_type (p : slice) : res N := be16_at p 12.          (* Uint16(p[12:14]) *)
Definition ether_dst (p : slice) : res bytes := (s <- sl p 0 6 ;; Ok (view s))%res.   (* p[:6] *)
Definition ether_src (p : slice) : res bytes := (s <- sl p 6 12 ;; Ok (view s))%res.  (* p[6:12] *)
Definition ether_is_valid (p : slice) : bool := Nat.leb 14 (len p).

(* HeaderLen: 14, 18 for 802.1Q, 22 for 802.1ad *)
Definition hlen_of_type (t : N) : nat :=
  if t =? ETH_P_8021Q then 18%nat else if t =? ETH_P_8021AD then 22%nat else 14%nat.
Definition ether_hlen (p : slice) : res nat := (t <- ether_type p ;; Ok (hlen_of_type t))%res.

(* Payload: len(p) > n -> p[n:] ; len(p) == n -> p[n:cap(p)] ; else nil *)
Definition ether_payload (p : slice) : res slice :=
  (n <- ether_hlen p ;;
   if Nat.ltb n (len p) then slfrom p n
   else if Nat.eqb (len p) n then sl p n (cap p)
   else Ok nil_slice)%res.

(* func (p Ether) SetPayload(payload []byte) (Ether, error)
     tmp := p[:p.HeaderLen()+len(payload)]        -- only the length of payload is used *)
Definition ether_set_payload (p : slice) (plen : nat) : res slice :=
  (n <- ether_hlen p ;; reslice p (n + plen))%res.

(* func (p Ether) AppendPayload(payload []byte) (Ether, error)
     if len(payload)+14 > cap(p) { return nil, ErrPayloadTooBig }
     copy(p.Payload()[:len(payload)], payload)    -- repo commit 564095a (was [:cap(payload)]:
                                                     panic when the caller's slice had spare capacity;
                                                     [pcap] is kept as an argument and no longer used)
     tmp := p[:14+len(payload)]
     if n := len(tmp); n < 60 { tmp = tmp[:60]; zero tmp[n:60] } *)
Definition ether_append (p : slice) (payload : bytes) (pcap : nat) : res slice :=
  let plen := List.length payload in
  if Nat.ltb (cap p) (plen + 14) then Err EPayloadTooBig else
  (n <- ether_hlen p ;;
   pl <- ether_payload p ;;
   _ <- sl pl 0 plen ;;
   let a1 := if Nat.ltb (len p) n then arr p else blit n payload (arr p) in
   tmp <- reslice (mkSlice a1 (len p)) (14 + plen) ;;
   if Nat.ltb (14 + plen) 60 then
     (tmp2 <- reslice tmp 60 ;;
      Ok (mkSlice (blit (14 + plen) (repeat 0 (60 - (14 + plen))) (arr tmp2)) 60))
   else Ok tmp)%res.

(* ================================================================ *)
(* IPv4 (layer_ip4.go)                                               *)

(* func EncodeIP4(p []byte, ttl byte, src, dst netip.Addr) IP4 : index expressions
   (p[0], p[1], p[8], p[9]) need the LENGTH, the slice expressions the capacity. *)
Definition v4_or_zero (a : bytes) : bytes := if is4 a then a else ipv4zero.

Definition encode_ip4 (p : slice) (ttl : N) (src dst : bytes) : res slice :=
  (p <- seti p 0 69 ;;            (* Version<<4 | hdrLen>>2 = 0x45 *)
   p <- seti p 1 192 ;;           (* 0xc0 DSCP CS6 *)
   p <- put16 p 2 20 ;;           (* totalLen = HeaderLen *)
   p <- put16 p 4 0 ;;            (* id *)
   p <- put16 p 6 0 ;;            (* flags and fragment offset *)
   p <- seti p 8 ttl ;;
   p <- seti p 9 0 ;;             (* protocol *)
   p <- put16 p 10 0 ;;           (* checksum *)
   p <- copyto p 12 16 (v4_or_zero src) ;;
   p <- copyto p 16 20 (v4_or_zero dst) ;;
   reslice p 20)%res.

(* getters *)
Definition ip4_ihl (p : slice) : res nat := (b <- idx p 0 ;; Ok (N.to_nat (b mod 16) * 4)%nat)%res.
Definition ip4_version (p : slice) : res N := (b <- idx p 0 ;; Ok (b / 16))%res.
Definition ip4_tos (p : slice) : res N := idx p 1.
Definition ip4_totlen (p : slice) : res nat := (v <- be16_at p 2 ;; Ok (N.to_nat v))%res.
Definition ip4_id (p : slice) : res N := be16_at p 4.
Definition ip4_flags (p : slice) : res N := (b <- idx p 6 ;; Ok (N.land b 224))%res.
Definition ip4_ttl (p : slice) : res N := idx p 8.
Definition ip4_protocol (p : slice) : res N := idx p 9.
Definition ip4_checksum (p : slice) : res N := be16_at p 10.
(* AddrFrom4 of p[12:16] converted to a 4-byte array: slice expression (capacity check) *)
Definition ip4_src (p : slice) : res bytes := (s <- sl p 12 16 ;; Ok (view s))%res.
Definition ip4_dst (p : slice) : res bytes := (s <- sl p 16 20 ;; Ok (view s))%res.
Definition ip4_payload (p : slice) : res slice :=
  (ihl <- ip4_ihl p ;; tl <- ip4_totlen p ;; sl p ihl tl)%res.

(* IsValid() == nil : n >= 20 && IHL >= 20 && n >= IHL && TotalLen >= IHL && n >= TotalLen
   (short-circuit; the IHL >= 20 and TotalLen >= IHL conditions since the VIEWS repairs of DESIGN #3) *)
Definition ip4_is_valid (p : slice) : res bool :=
  let n := len p in
  if Nat.leb 20 n then
    (ihl <- ip4_ihl p ;;
     if Nat.leb 20 ihl && Nat.leb ihl n
     then (tl <- ip4_totlen p ;; Ok (Nat.leb ihl tl && Nat.leb tl n)) else Ok false)%res
  else Ok false.

(* the checksum write shared by SetPayload and AppendPayload:
     checksum := p.CalculateChecksum()   -- p[0:10], p[12:20]: capacity >= 20
     p[11] = byte(checksum >> 8); p[10] = byte(checksum) *)
Definition ip4_write_checksum (p : slice) : res slice :=
  if Nat.ltb (cap p) 20 then Panic else
  let c := ip4_calc_checksum (arr p) in
  (p <- seti p 11 (u8 (N.shiftr c 8)) ;;
   seti p 10 (u8 c))%res.

(* func (p IP4) SetPayload(b []byte, protocol byte) IP4 : only len(b) is used; the
   payload is expected to be in place already. totalLen is a uint16. *)
Definition ip4_set_payload (p : slice) (blen : nat) (proto : N) : res slice :=
  (p <- seti p 9 proto ;;
   let tl := u16 (20 + N.of_nat blen) in
   p <- put16 p 2 tl ;;
   p <- ip4_write_checksum p ;;
   reslice p (N.to_nat tl))%res.

(* func (p IP4) AppendPayload(b []byte, protocol byte) (IP4, error) *)
Definition ip4_append (p : slice) (b : bytes) (proto : N) : res slice :=
  let blen := List.length b in
  (* repo commit 846ede1: cap(p)-HeaderLen < len(b) (integers), p[:HeaderLen+len(b)]; were relative to len(p) *)
  if Nat.ltb (cap p) (20 + blen) then Err EPayloadTooBig else
  (p <- reslice p (20 + blen) ;;
   let tl := u16 (20 + N.of_nat blen) in
   p <- put16 p 2 tl ;;
   ihl <- ip4_ihl p ;;
   tl' <- ip4_totlen p ;;
   p <- copyto p ihl tl' b ;;          (* copy(p.Payload(), b), Payload = p[IHL:TotalLen] *)
   p <- seti p 9 proto ;;
   ip4_write_checksum p)%res.

(* ================================================================ *)
(* UDP (layer_ip4.go)                                                *)

(* func EncodeUDP(p []byte, srcPort, dstPort uint16) UDP : nil when cap(p) < 8 *)
Definition encode_udp (p : slice) (sp dp : N) : res slice :=
  if Nat.ltb (cap p) 8 then Ok nil_slice else
  (p <- reslice p 8 ;;
   p <- put16 p 0 sp ;;
   p <- put16 p 2 dp ;;
   p <- put16 p 4 0 ;;
   put16 p 6 0)%res.

Definition udp_srcport (p : slice) : res N := be16_at p 0.
Definition udp_dstport (p : slice) : res N := be16_at p 2.
Definition udp_len (p : slice) : res N := be16_at p 4.
Definition udp_checksum (p : slice) : res N := be16_at p 6.
Definition udp_payload (p : slice) : res slice := slfrom p 8.
Definition udp_is_valid (p : slice) : bool := Nat.leb 8 (len p).

(* UDPHeaderLen+uint16(len(b)) : uint16 arithmetic *)
Definition udp_lenfield (blen : nat) : N := u16 (8 + u16 (N.of_nat blen)).

(* func (p UDP) SetPayload(b []byte) UDP *)
Definition udp_set_payload (p : slice) (blen : nat) : res slice :=
  (p <- put16 p 4 (udp_lenfield blen) ;;
   p <- put16 p 6 0 ;;
   reslice p (8 + blen))%res.                 (* repo commit 02073d4: p[:UDPHeaderLen+len(b)] (was len(p)+len(b)) *)

(* func (p UDP) AppendPayload(b []byte) (UDP, error) *)
Definition udp_append (p : slice) (b : bytes) : res slice :=
  let blen := List.length b in
  if Nat.ltb (cap p) (8 + blen) then Err EPayloadTooBig else     (* 02073d4: cap(p)-UDPHeaderLen < len(b) *)
  (p <- reslice p (8 + blen) ;;
   p <- copyfrom p 8 b ;;              (* copy(p.Payload(), b), Payload = p[8:] *)
   p <- put16 p 4 (udp_lenfield blen) ;;
   put16 p 6 0)%res.

(* ================================================================ *)
(* IPv6 (layer_ip6.go)                                               *)

(* func EncodeIP6(p []byte, hopLimit uint8, srcIP, dstIP netip.Addr) IP6
     if p == nil || cap(p) < 40 { p = make([]byte, 40) }   -- a FRESH buffer: the caller's is untouched
     p = p[:40] ... *)
Definition encode_ip6_on (p : slice) (hop : N) (src dst : bytes) : res slice :=
  (p <- reslice p 40 ;;
   p <- seti p 0 96 ;;      (* 0x60 *)
   p <- seti p 1 0 ;;
   p <- seti p 2 0 ;;
   p <- seti p 3 0 ;;
   p <- put16 p 4 0 ;;
   p <- seti p 6 59 ;;      (* no next header *)
   p <- seti p 7 hop ;;
   p <- copyto p 8 24 (as16 src) ;;
   copyto p 24 40 (as16 dst))%res.

(* second component: did the encoder allocate (result does not alias the caller's buffer) *)
Definition encode_ip6 (p : slice) (hop : N) (src dst : bytes) : res (slice * bool) :=
  if Nat.ltb (cap p) 40
  then (r <- encode_ip6_on (mkSlice (repeat 0 40) 40) hop src dst ;; Ok (r, true))%res
  else (r <- encode_ip6_on p hop src dst ;; Ok (r, false))%res.

Definition ip6_version (p : slice) : res N := (b <- idx p 0 ;; Ok (b / 16))%res.
Definition ip6_payloadlen (p : slice) : res N := be16_at p 4.
Definition ip6_nextheader (p : slice) : res N := idx p 6.
Definition ip6_hoplimit (p : slice) : res N := idx p 7.
Definition ip6_src (p : slice) : res bytes := (s <- sl p 8 24 ;; Ok (view s))%res.
Definition ip6_dst (p : slice) : res bytes := (s <- sl p 24 40 ;; Ok (view s))%res.
(* Payload: p[40 : 40+PayloadLen] (repo commit 31b163e; was p[40:]) *)
Definition ip6_payload (p : slice) : res slice := (pl <- ip6_payloadlen p ;; sl p 40 (40 + N.to_nat pl))%res.
(* IsValid: len(p) >= 40 && int(PayloadLen())+40 <= len(p) (repo commit 28b2fc9; was == in uint16) *)
Definition ip6_is_valid (p : slice) : res bool :=
  if Nat.leb 40 (len p)
  then (pl <- ip6_payloadlen p ;; Ok (Nat.leb (N.to_nat pl + 40) (len p)))%res
  else Ok false.

(* func (p IP6) SetPayload(b []byte, nextHeader uint8) IP6 *)
Definition ip6_set_payload (p : slice) (blen : nat) (nh : N) : res slice :=
  (p <- put16 p 4 (u16 (N.of_nat blen)) ;;
   p <- seti p 6 nh ;;
   reslice p (40 + blen))%res.                (* repo commit 952afb8: p[:IP6HeaderLen+len(b)] *)

(* func (p IP6) AppendPayload(b []byte, nextHeader uint8) (IP6, error) : b == nil is rejected too *)
Definition ip6_append (p : slice) (b : bytes) (b_is_nil : bool) (nh : N) : res slice :=
  let blen := List.length b in
  if b_is_nil || Nat.ltb (cap p) (40 + blen) then Err EPayloadTooBig else   (* 952afb8: cap(p)-IP6HeaderLen < len(b) *)
  (p <- reslice p (40 + blen) ;;
   p <- put16 p 4 (u16 (N.of_nat blen)) ;;          (* payload length first: Payload() spans it (31b163e) *)
   pl <- ip6_payloadlen p ;;
   p <- copyto p 40 (40 + N.to_nat pl) b ;;          (* copy(p.Payload(), b) *)
   seti p 6 nh)%res.

(* ================================================================ *)
(* ARP (layer_arp.go)                                                *)

(* func EncodeARP(b []byte, operation uint16, srcAddr Addr, dstAddr Addr) ARP
   MAC[:6] is a slice expression on the MAC: panics when cap(MAC) < 6 (the model takes
   the MAC's capacity as its length: the harness passes exact-capacity MACs);
   IP.AsSlice(): 0, 4 or 16 bytes, copy truncates to 4. *)
Definition encode_arp (b : slice) (op : N) (smac sip dmac dip : bytes) : res slice :=
  if Nat.ltb (cap b) 28 then Panic else
  (b <- reslice b 28 ;;
   b <- put16 b 0 1 ;;
   b <- put16 b 2 ETH_P_IP ;;
   b <- seti b 4 6 ;;
   b <- seti b 5 4 ;;
   b <- put16 b 6 op ;;
   if Nat.ltb (List.length smac) 6 then Panic else
   (b <- copyto b 8 14 (firstn 6 smac) ;;
    b <- copyto b 14 18 sip ;;
    if Nat.ltb (List.length dmac) 6 then Panic else
    (b <- copyto b 18 24 (firstn 6 dmac) ;;
     copyto b 24 28 dip)))%res.

Definition arp_htype (p : slice) : res N := be16_at p 0.
Definition arp_proto (p : slice) : res N := be16_at p 2.
Definition arp_hlen (p : slice) : res N := idx p 4.
Definition arp_plen (p : slice) : res N := idx p 5.
Definition arp_op (p : slice) : res N := be16_at p 6.
Definition arp_srcmac (p : slice) : res bytes := (s <- sl p 8 14 ;; Ok (view s))%res.
Definition arp_srcip (p : slice) : res bytes := (s <- sl p 14 18 ;; Ok (view s))%res.
Definition arp_dstmac (p : slice) : res bytes := (s <- sl p 18 24 ;; Ok (view s))%res.
Definition arp_dstip (p : slice) : res bytes := (s <- sl p 24 28 ;; Ok (view s))%res.
(* IsValid() == nil *)
Definition arp_is_valid (p : slice) : res bool :=
  if Nat.ltb (len p) 28 then Ok false else
  (ht <- arp_htype p ;; if negb (ht =? 1) then Ok false else
   pr <- arp_proto p ;; if negb (pr =? ETH_P_IP) then Ok false else
   hl <- arp_hlen p ;; if negb (hl =? 6) then Ok false else
   pl <- arp_plen p ;; Ok (pl =? 4))%res.

(* ================================================================ *)
(* ICMP echo (layer_icmp.go)                                         *)

(* func EncodeICMPEcho(b []byte, t, code uint8, id, seq uint16, data []byte) ICMPEcho
     n := 8 + len(data); if n > cap(b) { return nil }; b = b[:n] ... copy(b[8:], data) *)
Definition encode_icmp_echo (b : slice) (t code id seq : N) (data : bytes) : res slice :=
  let n := (8 + List.length data)%nat in
  if Nat.ltb (cap b) n then Ok nil_slice else
  (b <- reslice b n ;;
   b <- seti b 0 t ;;
   b <- seti b 1 code ;;
   b <- put16 b 2 0 ;;
   b <- put16 b 4 id ;;
   b <- put16 b 6 seq ;;
   b <- copyfrom b 8 data ;;
   reslice b n)%res.

Definition icmp_type (p : slice) : res N := idx p 0.
Definition icmp_code (p : slice) : res N := idx p 1.
Definition icmp_checksum (p : slice) : res N := be16_at p 2.
Definition echo_id (p : slice) : res N := be16_at p 4.
Definition echo_seq (p : slice) : res N := be16_at p 6.
(* EchoData: len(p) > 8 -> p[8:] else nil *)
Definition echo_data (p : slice) : res slice :=
  if Nat.ltb 8 (len p) then slfrom p 8 else Ok nil_slice.
Definition echo_is_valid (p : slice) : bool := Nat.leb 8 (len p).

(* ================================================================ *)
(* NDP neighbour advertisement / solicitation (layer_icmp.go)        *)

Definition bflag (b : bool) (v : N) : N := if b then v else 0.

(* func ICMP6NeighborAdvertisementMarshal(router, solicited, override bool, targetAddr Addr) []byte
     b := make([]byte, 32); b[0] = 136; flags in b[4]; copy(b[8:], As16()); b[24] = 2; b[25] = 1;
     copy(b[26:], MAC) *)
Definition na_marshal (router solicited override : bool) (tip tmac : bytes) : res slice :=
  (b <- Ok (mkSlice (repeat 0 32) 32) ;;
   b <- seti b 0 136 ;;
   b <- seti b 4 (bflag router 128 + bflag solicited 64 + bflag override 32) ;;
   b <- copyfrom b 8 (as16 tip) ;;
   b <- seti b 24 2 ;;
   b <- seti b 25 1 ;;
   copyfrom b 26 tmac)%res.

(* func ICMP6NeighborSolicitationMarshal(targetAddr netip.Addr, sourceLLA net.HardwareAddr) ([]byte, error)
     b := make([]byte, 32); b[0] = 135; copy(b[8:], targetAddr.AsSlice());
     b[24] = 1  -- source link-layer address option (repo commit 6b9f9d7; was 2, DESIGN #11)
     b[25] = 1; copy(b[26:], sourceLLA) *)
Definition NS_OPT_TYPE : N := 1.
Definition ns_marshal_ty (ty : N) (tip slla : bytes) : res slice :=
  (b <- Ok (mkSlice (repeat 0 32) 32) ;;
   b <- seti b 0 135 ;;
   b <- copyfrom b 8 tip ;;
   b <- seti b 24 ty ;;
   b <- seti b 25 1 ;;
   copyfrom b 26 slla)%res.
Definition ns_marshal (tip slla : bytes) : res slice := ns_marshal_ty NS_OPT_TYPE tip slla.

(* getters of ICMP6NeighborAdvertisement / ICMP6NeighborSolicitation *)
Definition nd_is_valid (p : slice) : bool := Nat.leb 24 (len p).
Definition na_router (p : slice) : res bool := (b <- idx p 4 ;; Ok (negb (N.land b 128 =? 0)))%res.
Definition na_solicited (p : slice) : res bool := (b <- idx p 4 ;; Ok (negb (N.land b 64 =? 0)))%res.
Definition na_override (p : slice) : res bool := (b <- idx p 4 ;; Ok (negb (N.land b 32 =? 0)))%res.
Definition nd_target (p : slice) : res bytes := (s <- sl p 8 24 ;; Ok (view s))%res.
(* TargetLLA / SourceLLA: len(p) < 32 || p[24] != want || p[25] != 1 -> nil ; else p[26:32] *)
Definition nd_lla (want : N) (p : slice) : res (option bytes) :=
  if Nat.ltb (len p) 32 then Ok None else
  (t <- idx p 24 ;;
   if negb (t =? want) then Ok None else
   l <- idx p 25 ;;
   if negb (l =? 1) then Ok None else
   s <- sl p 26 32 ;; Ok (Some (view s)))%res.
Definition na_target_lla := nd_lla 2.
Definition ns_source_lla := nd_lla 1.

(* ================================================================ *)
(* DNS query (layer_dns.go)                                          *)

(* func EncodeDNSQuery(tranID, flags uint16, encodedName []byte, questionType uint16) DNS
     b := make([]byte, 512); header; n := copy(b[12:], encodedName)
     PutUint16(b[12+n:], questionType); PutUint16(b[14+n:], 1); return b[:16+n] *)
Definition dns_header_buf (tranid flags : N) : res slice :=
  (b <- Ok (mkSlice (repeat 0 512) 512) ;;
   b <- put16 b 0 tranid ;;
   b <- put16 b 2 flags ;;
   b <- put16 b 4 1 ;;
   b <- put16 b 6 0 ;;
   b <- put16 b 8 0 ;;
   put16 b 10 0)%res.
Definition encode_dns_query (tranid flags : N) (name : bytes) (qtype : N) : res slice :=
  (b <- dns_header_buf tranid flags ;;
   let n := Nat.min (List.length name) 500 in
   b <- copyfrom b 12 name ;;
   b <- put16_from b (12 + n) qtype ;;
   b <- put16_from b (14 + n) 1 ;;
   reslice b (16 + n))%res.

Definition dns_tranid (p : slice) : res N := be16_at p 0.
Definition dns_flags (p : slice) : res N := be16_at p 2.
Definition dns_qdcount (p : slice) : res N := be16_at p 4.
Definition dns_ancount (p : slice) : res N := be16_at p 6.
Definition dns_nscount (p : slice) : res N := be16_at p 8.
Definition dns_arcount (p : slice) : res N := be16_at p 10.

(* DecodeQuestion(p, 12, buffer) restricted to names made of plain labels (no
   compression pointer, no 0x40/0x80 label types): decodeName's default branch.
   Returns the labels, and the offset after the name.  [ENotFound] stands for
   "outside the modelled fragment" (a pointer or extended label type was met). *)
Fixpoint dns_labels (fuel : nat) (p : slice) (offset index : nat) (acc : list bytes)
  : res (list bytes * nat) :=
  match fuel with
  | O => Fuel
  | S f =>
    (b <- idx p index ;;
     (* repo commit 5b0d6a4 (DNS): after the loop, more than 254 octets of labels (a name of more than 255
        octets on the wire) => ErrParseFrame *)
     if b =? 0 then (if Nat.ltb 254 (index - offset) then Err EParseFrame else Ok (rev acc, index)) else
     if negb (N.land b 192 =? 0) then Err ENotFound else
     let index2 := (index + N.to_nat b + 1)%nat in
     if Nat.ltb 255 (index2 - offset) then Err EParseFrame else
     if Nat.ltb (len p) index2 then Err EParseFrame else
     lab <- sl p (index + 1) index2 ;;
     (* repo commit c8663df (DNS): a label containing '.' => ErrParseFrame *)
     if existsb (N.eqb 46) (view lab) then Err EParseFrame else
     if Nat.leb (len p) index2 then Err EParseFrame else
     dns_labels f p offset index2 (view lab :: acc))%res
  end.

Record dns_question := { q_labels : list bytes; q_type : N; q_class : N; q_end : nat }.

Definition dns_decode_question (p : slice) : res dns_question :=
  (qd <- dns_qdcount p ;;
   if negb (qd =? 1) then Err EParseFrame else
   (* repo commit 8b21b8e: index+5 > len (was +6: the root-name query was rejected) *)
   if Nat.ltb (len p) (12 + 5) then Err EParseFrame else
   (* decodeName: offset >= len -> error; data[index] == 0 -> (nil, index+1) *)
   '(labs, index) <- dns_labels (S (len p)) p 12 12 [] ;;
   (* after the loop decodeName returns index+1 (skips the terminating zero) *)
   let endq := S index in
   (* repo commit 3f1ca67: type and class must be inside the message *)
   if Nat.ltb (len p) (endq + 4) then Err EParseFrame else
   t <- be16_at p endq ;;
   c <- be16_at p (endq + 2) ;;
   Ok {| q_labels := labs; q_type := t; q_class := c; q_end := (endq + 4)%nat |})%res.

(* ================================================================ *)
(* "decode_lib": the library view of a whole header as one record:
   IsValid() == nil, then every getter. *)
Record ip4_view := { iv_version : N; iv_ihl : nat; iv_tos : N; iv_totlen : nat; iv_id : N; iv_flags : N;
                     iv_ttl : N; iv_proto : N; iv_src : bytes; iv_dst : bytes; iv_payload : bytes }.
Definition ip4_decode_lib (p : slice) : res ip4_view :=
  (ok <- ip4_is_valid p ;;
   if negb ok then Err EFrameLen else
   v <- ip4_version p ;; ihl <- ip4_ihl p ;; tos <- ip4_tos p ;; tl <- ip4_totlen p ;; id <- ip4_id p ;;
   fl <- ip4_flags p ;; ttl <- ip4_ttl p ;; pr <- ip4_protocol p ;; s <- ip4_src p ;; d <- ip4_dst p ;;
   pl <- ip4_payload p ;;
   Ok {| iv_version := v; iv_ihl := ihl; iv_tos := tos; iv_totlen := tl; iv_id := id; iv_flags := fl;
         iv_ttl := ttl; iv_proto := pr; iv_src := s; iv_dst := d; iv_payload := view pl |})%res.

Record udp_view := { uv_sport : N; uv_dport : N; uv_len : N; uv_cksum : N; uv_payload : bytes }.
Definition udp_decode_lib (p : slice) : res udp_view :=
  (if negb (udp_is_valid p) then Err EFrameLen else
   s <- udp_srcport p ;; d <- udp_dstport p ;; l <- udp_len p ;; c <- udp_checksum p ;; pl <- udp_payload p ;;
   Ok {| uv_sport := s; uv_dport := d; uv_len := l; uv_cksum := c; uv_payload := view pl |})%res.

Record ip6_view := { v6_version : N; v6_plen : N; v6_next : N; v6_hop : N; v6_src : bytes; v6_dst : bytes;
                     v6_payload : bytes }.
Definition ip6_decode_lib (p : slice) : res ip6_view :=
  (ok <- ip6_is_valid p ;;
   if negb ok then Err EFrameLen else
   v <- ip6_version p ;; pl <- ip6_payloadlen p ;; nh <- ip6_nextheader p ;; hop <- ip6_hoplimit p ;;
   s <- ip6_src p ;; d <- ip6_dst p ;; w <- ip6_payload p ;;
   Ok {| v6_version := v; v6_plen := pl; v6_next := nh; v6_hop := hop; v6_src := s; v6_dst := d;
         v6_payload := view w |})%res.

Record arp_view := { av_htype : N; av_proto : N; av_hlen : N; av_plen : N; av_op : N;
                     av_smac : bytes; av_sip : bytes; av_dmac : bytes; av_dip : bytes }.
Definition arp_decode_lib (p : slice) : res arp_view :=
  (ok <- arp_is_valid p ;;
   if negb ok then Err EFrameLen else
   ht <- arp_htype p ;; pr <- arp_proto p ;; hl <- arp_hlen p ;; pl <- arp_plen p ;; op <- arp_op p ;;
   sm <- arp_srcmac p ;; si <- arp_srcip p ;; dm <- arp_dstmac p ;; di <- arp_dstip p ;;
   Ok {| av_htype := ht; av_proto := pr; av_hlen := hl; av_plen := pl; av_op := op;
         av_smac := sm; av_sip := si; av_dmac := dm; av_dip := di |})%res.

Record echo_view := { ev_type : N; ev_code : N; ev_cksum : N; ev_id : N; ev_seq : N; ev_data : bytes }.
Definition echo_decode_lib (p : slice) : res echo_view :=
  (if negb (echo_is_valid p) then Err EFrameLen else
   t <- icmp_type p ;; c <- icmp_code p ;; k <- icmp_checksum p ;; i <- echo_id p ;; s <- echo_seq p ;;
   d <- echo_data p ;;
   Ok {| ev_type := t; ev_code := c; ev_cksum := k; ev_id := i; ev_seq := s; ev_data := view d |})%res.

Record na_view := { nv_type : N; nv_code : N; nv_router : bool; nv_solicited : bool; nv_override : bool;
                    nv_target : bytes; nv_lla : option bytes }.
Definition na_decode_lib (p : slice) : res na_view :=
  (if negb (nd_is_valid p) then Err EFrameLen else
   t <- icmp_type p ;; c <- icmp_code p ;; r <- na_router p ;; s <- na_solicited p ;; o <- na_override p ;;
   tg <- nd_target p ;; l <- na_target_lla p ;;
   Ok {| nv_type := t; nv_code := c; nv_router := r; nv_solicited := s; nv_override := o;
         nv_target := tg; nv_lla := l |})%res.

Record ns_view := { sv_type : N; sv_code : N; sv_target : bytes; sv_lla : option bytes }.
Definition ns_decode_lib (p : slice) : res ns_view :=
  (if negb (nd_is_valid p) then Err EFrameLen else
   t <- icmp_type p ;; c <- icmp_code p ;; tg <- nd_target p ;; l <- ns_source_lla p ;;
   Ok {| sv_type := t; sv_code := c; sv_target := tg; sv_lla := l |})%res.

Record dns_view := { dv_id : N; dv_flags : N; dv_qd : N; dv_an : N; dv_ns : N; dv_ar : N;
                     dv_question : dns_question }.
Definition dns_decode_lib (p : slice) : res dns_view :=
  (i <- dns_tranid p ;; f <- dns_flags p ;; qd <- dns_qdcount p ;; an <- dns_ancount p ;; ns <- dns_nscount p ;;
   ar <- dns_arcount p ;; q <- dns_decode_question p ;;
   Ok {| dv_id := i; dv_flags := f; dv_qd := qd; dv_an := an; dv_ns := ns; dv_ar := ar; dv_question := q |})%res.

(* ================================================================ *)
(* AppendPayload with the caller's buffer as part of the result: (result, storage after the
   call).  The capacity check is the first statement of each function: on ErrPayloadTooBig the
   storage is returned as it was (nothing has been written).  For a panic the storage is
   unspecified (the model returns the old one; it is never observed). *)
Definition buf_after (p : slice) (r : res slice) : bytes := match r with Ok s => arr s | _ => arr p end.

Definition ip4_append_st (p : slice) (b : bytes) (proto : N) : res slice * bytes :=
  if Nat.ltb (cap p) (20 + List.length b) then (Err EPayloadTooBig, arr p)
  else let r := ip4_append p b proto in (r, buf_after p r).
Definition udp_append_st (p : slice) (b : bytes) : res slice * bytes :=
  if Nat.ltb (cap p) (8 + List.length b) then (Err EPayloadTooBig, arr p)
  else let r := udp_append p b in (r, buf_after p r).
Definition ip6_append_st (p : slice) (b : bytes) (b_is_nil : bool) (nh : N) : res slice * bytes :=
  if b_is_nil || Nat.ltb (cap p) (40 + List.length b) then (Err EPayloadTooBig, arr p)
  else let r := ip6_append p b b_is_nil nh in (r, buf_after p r).
Definition ether_append_st (p : slice) (payload : bytes) (pcap : nat) : res slice * bytes :=
  if Nat.ltb (cap p) (List.length payload + 14) then (Err EPayloadTooBig, arr p)
  else let r := ether_append p payload pcap in (r, buf_after p r).
