(* Model/HandlersDnsMsg.v — the loops of ProcessMDNS (handlers/dns_naming/mdns.go:314) and
   ProcessNBNS (nbns.go:223) over an abstract state machine of
   golang.org/x/net/dns/dnsmessage.Parser v0.34.0 (message.go:540-640, 1007-1075).

   A message is STRUCTURED: header counts plus the stream of resource records in wire
   order; per record whether its header unpacks, its type, whether the typed body parser
   the handler applies to that type succeeds, whether header-end + RDLENGTH stays inside
   the message, whether the header-less skip succeeds, and (type 0x21) its RDATA.
   Record k+1 starts where record k ends whichever way record k was consumed (typed
   parsers and skipResource both set off = header end + RDLENGTH), so the stream is
   independent of the path.  Parser fields: section, index, resHeaderValid; off is the
   position in the stream ([pos]; with resHeaderValid the offset is behind the header of
   record [pos], otherwise at its start). *)
From PV Require Import Base.Prelude Base.Slice Model.HandlersLoop.
Open Scope N_scope.

Record rrec := mkRec {
  r_hdr_ok : bool;    (* ResourceHeader.unpack at the record start succeeds *)
  r_type : N;
  r_body_ok : bool;   (* the typed parser for r_type (A, AAAA, PTR, SRV, TXT, OPT) succeeds *)
  r_fits : bool;      (* header end + RDLENGTH <= len(msg): skipResource with a valid header,
                         and UnknownResource, succeed exactly then *)
  r_rawskip : bool;   (* skipResource(msg, off) from the record start succeeds *)
  r_data : bytes      (* RDATA (consumed by the NBNS node status decoder) *)
}.

Record dmsg := mkMsg {
  m_start_ok : bool;  (* Parser.Start: the 12-byte header unpacks *)
  m_response : bool;
  m_skipq_ok : bool;  (* SkipAllQuestions succeeds *)
  m_an : nat; m_ns : nat; m_ar : nat;
  m_recs : list rrec
}.

(* section numbers of message.go:380 *)
Definition secQuestions := 2%nat.
Definition secAnswers := 3%nat.
Definition secAuthorities := 4%nat.
Definition secAdditionals := 5%nat.

Record pstate := mkP { p_section : nat; p_index : nat; p_valid : bool; p_pos : nat }.

Definition pstate_eqb (a b : pstate) : bool :=
  Nat.eqb (p_section a) (p_section b) && Nat.eqb (p_index a) (p_index b) &&
  Bool.eqb (p_valid a) (p_valid b) && Nat.eqb (p_pos a) (p_pos b).

Inductive perr := PNotStarted | PSectionDone | POther.

Definition count (m : dmsg) (sec : nat) : nat :=
  if Nat.eqb sec secAnswers then m_an m
  else if Nat.eqb sec secAuthorities then m_ns m
  else if Nat.eqb sec secAdditionals then m_ar m
  else 0%nat.

(* checkAdvance (message.go:567) *)
Definition check_advance (m : dmsg) (st : pstate) (sec : nat) : pstate * option perr :=
  if Nat.ltb (p_section st) sec then (st, Some PNotStarted)
  else if Nat.ltb sec (p_section st) then (st, Some PSectionDone)
  else
    if Nat.eqb (p_index st) (count m sec)
    then (mkP (S (p_section st)) 0 false (p_pos st), Some PSectionDone)
    else (mkP (p_section st) (p_index st) false (p_pos st), None).

(* resourceHeader (:599).  Beyond the end of the stream every header fails. *)
Definition resource_header (m : dmsg) (st : pstate) (sec : nat) : pstate * (perr + rrec) :=
  match check_advance m st sec with
  | (st1, Some e) => (st1, inl e)
  | (st1, None) =>
      match nth_error (m_recs m) (p_pos st1) with
      | Some r => if r_hdr_ok r
                  then (mkP (p_section st1) (p_index st1) true (p_pos st1), inr r)
                  else (st1, inl POther)
      | None => (st1, inl POther)
      end
  end.

Definition cur (m : dmsg) (st : pstate) : option rrec := nth_error (m_recs m) (p_pos st).
Definition consume (st : pstate) : pstate :=
  mkP (p_section st) (S (p_index st)) false (S (p_pos st)).

(* AResource .. OPTResource (:881-1058): need a valid header of exactly that type *)
Definition typed_resource (m : dmsg) (st : pstate) (ty : N) : pstate * option perr :=
  match cur m st with
  | Some r =>
      if negb (p_valid st) || negb (r_type r =? ty) then (st, Some PNotStarted)
      else if r_body_ok r then (consume st, None) else (st, Some POther)
  | None => (st, Some PNotStarted)
  end.

(* UnknownResource (:1061): any type; succeeds iff the RDATA lies inside the message *)
Definition unknown_resource (m : dmsg) (st : pstate) : pstate * option perr :=
  match cur m st with
  | Some r =>
      if negb (p_valid st) then (st, Some PNotStarted)
      else if r_fits r then (consume st, None) else (st, Some POther)
  | None => (st, Some PNotStarted)
  end.

(* skipResource (:620) *)
Definition skip_resource (m : dmsg) (st : pstate) (sec : nat) : pstate * option perr :=
  if p_valid st && Nat.eqb (p_section st) sec then
    match cur m st with
    | Some r => if r_fits r then (consume st, None) else (st, Some POther)
    | None => (st, Some POther)
    end
  else
    match check_advance m st sec with
    | (st1, Some e) => (st1, Some e)
    | (st1, None) =>
        match cur m st1 with
        | Some r => if r_rawskip r then (consume st1, None) else (st1, Some POther)
        | None => (st1, Some POther)
        end
    end.

Definition start_state : pstate := mkP secAnswers 0 false 0.

(* ---------------------------------------------------------------- *)
(* ProcessMDNS: the response loop (mdns.go:377-527).  State: parser state x section name. *)

Definition ty_A := 1. Definition ty_PTR := 12. Definition ty_TXT := 16.
Definition ty_AAAA := 28. Definition ty_SRV := 33. Definition ty_OPT := 41.

Definition mdns_state := (pstate * nat)%type.
Definition mdns_state_eqb (a b : mdns_state) : bool :=
  pstate_eqb (fst a) (fst b) && Nat.eqb (snd a) (snd b).

(* the #20 repair: skip() skips in the section being parsed (SkipAnswer / SkipAuthority /
   SkipAdditional) and its error ends the processing *)
Definition mdns_skip (m : dmsg) (st : pstate) (sec : nat) : lstep mdns_state unit :=
  match skip_resource m st sec with
  | (_, Some _) => Stop (Err EOther)
  | (st', None) => Cont (st', sec)
  end.

Definition mdns_step (m : dmsg) (x : mdns_state) : lstep mdns_state unit :=
  let (st, sec) := x in
  match resource_header m st sec with
  | (st1, inl PSectionDone) =>
      if Nat.eqb sec secAdditionals then Stop (Ok tt)   (* putMDNSCache; return *)
      else Cont (st1, S sec)                            (* section = next; continue *)
  | (st1, inl _) => Stop (Err EOther)
  | (st1, inr r) =>
      let t := r_type r in
      if (t =? ty_A) || (t =? ty_AAAA) then
        match typed_resource m st1 t with
        | (_, Some _) => Stop (Err EOther)
        | (st2, None) => Cont (st2, sec)
        end
      else if (t =? ty_PTR) || (t =? ty_SRV) || (t =? ty_TXT) || (t =? ty_OPT) then
        match typed_resource m st1 t with
        | (st2, Some _) => mdns_skip m st2 sec     (* if err := skip(); err != nil { return }; continue *)
        | (st2, None) => Cont (st2, sec)
        end
      else mdns_skip m st1 sec                       (* NSEC / default *)
  end.

Definition process_mdns (fuel : nat) (m : dmsg) : res unit :=
  if negb (m_start_ok m) then Err EOther
  else if negb (m_response m) then Ok tt     (* query: AllQuestions, errors ignored *)
  else if negb (m_skipq_ok m) then Err EOther
  else iter (mdns_step m) fuel (start_state, secAnswers).

(* ---------------------------------------------------------------- *)
(* NBNS: parseNodeNameArray (nbns.go:172), processNBNSNodeStatusResponse (:213), loop (:238) *)

(* the name loop (as repaired by d1f1b32): b is the array behind the count byte; returns whether
   a unique name was added *)
Fixpoint node_names (n : nat) (i : nat) (b : slice) (have : bool) : res bool :=
  match n with
  | O => Ok have
  | S n' =>
      (flags <- be16_at b (18 * i + 16) ;;
       if N.land flags 32768 =? 0 then
         (_ <- sl b (18 * i) (18 * i + 16) ;; node_names n' (S i) b true)
       else node_names n' (S i) b have)%res
  end.

Definition parse_node_name_array (b : slice) : res bool :=
  if Nat.ltb (len b) 1 then Err EFrameLen
  else
    (n <- idx b 0 ;;
     b' <- slfrom b 1 ;;
     if Nat.ltb (len b') (N.to_nat n * 18) then Err EFrameLen
     else node_names (N.to_nat n) 0 b' false)%res.

Definition node_status_response (b : slice) : res bool :=
  if Nat.ltb (len b) 3 then Err EOther else parse_node_name_array b.

Definition nbns_step (m : dmsg) (st : pstate) : lstep pstate unit :=
  match resource_header m st secAnswers with
  | (_, inl PSectionDone) => Stop (Ok tt)
  | (_, inl _) => Stop (Err EOther)
  | (st1, inr r) =>
      if r_type r =? 33 then
        match unknown_resource m st1 with
        | (_, Some _) => Stop (Err EOther)
        | (st2, None) =>
            match node_status_response (of_bytes (r_data r)) with
            | Ok true => Stop (Ok tt)
            | Panic => Stop Panic
            | Fuel => Stop Fuel
            | _ => Cont st2
            end
        end
      else                (* 0x20 and default (#19 repair): if err := p.SkipAnswer(); err != nil { return } *)
        match skip_resource m st1 secAnswers with
        | (_, Some _) => Stop (Err EOther)
        | (st2, None) => Cont st2
        end
  end.

Definition process_nbns (fuel : nat) (valid : bool) (m : dmsg) : res unit :=
  if negb valid then Err EFrameLen              (* DNS.IsValid: len >= 12 *)
  else if negb (m_start_ok m) then Err EOther
  else if negb (m_response m) then Ok tt
  else if negb (m_skipq_ok m) then Err EOther
  else iter (nbns_step m) fuel start_state.

