(* Model/PingAbs.v — how a state and a history of the waiter-table model (Model/Ping.v) read as a
   state and a history of the table-free reference machine (Spec/PingSpec.v). *)
From PV Require Import Base.Prelude Model.Ping Spec.PingSpec.
Open Scope N_scope.

Definition abs_out (ph : phase) : option outcome :=
  match ph with
  | Sending | Waiting => None
  | Returned RNil => Some ONil
  | Returned RTimeout => Some OTimeout
  | Returned RSendErr => Some OErr
  | Returned RBusy => Some OErr
  end.

Definition abs_call (pg : ping) : call := mkCall (p_id pg) (p_recv pg) (abs_out (p_phase pg)).
Definition abs_ping (e : pid * ping) : nat * call := (fst e, abs_call (snd e)).
Definition absst (s : state) : sstate := map abs_ping (pings s).

(* the identifier a Begin hands out is part of the reference event; timers, successful sends,
   frames without a notification and the compressed failed calls are invisible to the reference *)
Definition absev (s : state) (e : event) : sevent :=
  match e with
  | Begin p _ =>
      if table_full (tbl s) then SRefuse p (next s)
      else match alloc (tbl s) (next s) with Some i => SBegin p i | None => SOther end
  | Sent p true => SOther
  | Sent p false => SFail p
  | BulkFail _ => SOther
  | Notify i => SReply i
  | Skip => SOther
  | CloseSession _ => SOther
  | Tick _ => SOther
  | Timeout _ => SOther
  | End p => SEnd p
  end.

Fixpoint abs_trace (fx : bool) (s : state) (tr : list event) : list sevent :=
  match tr with
  | [] => []
  | e :: r => absev s e :: match step fx s e with Ok s' => abs_trace fx s' r | _ => [] end
  end.
