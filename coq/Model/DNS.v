(* Model/DNS.v — line-by-line model of the DNS name / question decoding of
   /repo/layer_dns.go (decodeName, DecodeQuestion) over Go slices with
   capacity.  Panics, error returns and the append semantics of the shared
   name buffer are modelled as they are coded. *)
From PV Require Export Base.Prelude Base.Slice.
Open Scope N_scope.
Open Scope res_scope.

(* ------------------------------------------------------------------ *)
(* The name buffer: `buffer *[]byte`, grown with append.
   ba : contents of the CALLER's backing array (length = its capacity)
   bl : current logical contents of *buffer
   bs : *buffer still lives in the caller's array (no reallocation yet).
   append writes in place while the result fits the caller's capacity,
   otherwise it moves to a private array (which nobody else aliases). *)
Record gobuf := mkBuf { ba : bytes; bl : bytes; bs : bool }.

Definition buf_of (s : slice) : gobuf := mkBuf (arr s) (view s) true.

Definition gappend (b : gobuf) (x : bytes) : gobuf :=
  if bs b && Nat.leb (length (bl b) + length x) (length (ba b))
  then mkBuf (blit (length (bl b)) x (ba b)) (bl b ++ x) true
  else mkBuf (ba b) (bl b ++ x) false.

(* buffer[start:] / buffer[start+1:] at the end of decodeName *)
Definition name_of (start : nat) (b : gobuf) : bytes :=
  if Nat.leb (length (bl b)) start then skipn start (bl b) else skipn (S start) (bl b).

Definition DOT : byte := 46.
Definition maxRecursionLevel : nat := 255.

(* name, offset after the name, buffer after the call *)
Definition dn_out : Type := (bytes * nat * gobuf)%type.

(* the `for data[index] != 0x00 { switch data[index] & 0xc0 ... }` loop of
   decodeName; [rec] is the recursive call decodeName(data, offsetp, buffer, level+1). *)
Fixpoint dn_loop (rec : nat -> gobuf -> nat -> res dn_out) (data : slice)
         (offset start level : nat) (fuel : nat) (index : nat) (buf : gobuf) : res dn_out :=
  match fuel with
  | O => Fuel
  | S f =>
      b <- idx data index ;;
      if b =? 0 then
        (if Nat.ltb 254 (length (bl buf) - start) then Err EParseFrame    (* total length, RFC 1035 2.3.4 *)
         else Ok (name_of start buf, S index, buf))
      else
        let top := N.land b 192 in
        if top =? 192 then
          if Nat.ltb (len data) (index + 2) then Err EParseFrame
          else
            w <- be16_at data index ;;
            let offsetp := N.to_nat (N.land w 16383) in
            if Nat.ltb (len data) offsetp then Err EParseFrame
            else
              r <- rec offsetp buf (S level) ;;
              let buf' := snd r in
              if Nat.ltb 254 (length (bl buf') - start) then Err EParseFrame
              else Ok (name_of start buf', S (S index), buf')
        else if top =? 64 then Err EOther
        else if top =? 128 then Err EOther
        else
          let index2 := (index + N.to_nat b + 1)%nat in
          if Nat.ltb 255 (index2 - offset) then Err EParseFrame
          else if Nat.ltb (len data) index2 then Err EParseFrame
          else
            lab <- sl data (S index) index2 ;;
            if existsb (fun c => c =? 46) (view lab) then Err EParseFrame    (* '.' inside a label *)
            else
            let buf1 := gappend (gappend buf [DOT]) (view lab) in
            if Nat.leb (len data) index2 then Err EParseFrame
            else dn_loop rec data offset start level f index2 buf1
  end.

Definition loop_fuel : nat := 256.

(* decodeName(data, offset, buffer, level); [lfuel] bounds the recursion depth
   (the code bounds it itself by maxRecursionLevel: 256 is always enough). *)
Fixpoint decodeName (lfuel : nat) (data : slice) (offset : nat) (buf : gobuf) (level : nat)
  {struct lfuel} : res dn_out :=
  match lfuel with
  | O => Fuel
  | S lf =>
      if Nat.ltb maxRecursionLevel level then Err EParseFrame
      else if Nat.leb (len data) offset then Err EParseFrame
      else
        b0 <- idx data offset ;;
        if b0 =? 0 then Ok ([], S offset, buf)
        else dn_loop (decodeName lf data) data offset (length (bl buf)) level loop_fuel offset buf
  end.

Definition name_fuel : nat := 256.

(* entry with a Go int offset (negative offsets are rejected after the upper-bound test) *)
Definition decodeNameZ (data : slice) (offset : Z) (buf : gobuf) : res dn_out :=
  if (Z.of_nat (len data) <=? offset)%Z then Err EParseFrame
  else if (offset <? 0)%Z then Err EParseFrame
  else decodeName name_fuel data (Z.to_nat offset) buf 1.

(* ------------------------------------------------------------------ *)
(* DecodeQuestion(p, index, buffer) -> (Question{Name,Type,Class}, off, err) *)
Record question := mkQ { q_name : bytes; q_type : N; q_class : N }.

Definition decodeQuestion (p : slice) (index : Z) (buffer : slice) : res (question * nat) :=
  qd <- be16_at p 4 ;;
  if negb (qd =? 1) then Err EParseFrame
  else if (Z.of_nat (len p) <? index + 5)%Z then Err EParseFrame
  else
    r <- decodeNameZ p index (buf_of buffer) ;;
    let name := fst (fst r) in
    let endq := snd (fst r) in
    if Nat.ltb (len p) (endq + 4) then Err EParseFrame else
    t <- be16_at p endq ;;
    c <- be16_at p (endq + 2) ;;
    Ok (mkQ name t c, (endq + 4)%nat).
