(* Model/Views2.v -- fixed-shape view types, continued: IP6, HopByHopExtensionHeader (fields),
   ICMP, ICMPEcho, ICMP6 RS/RA/NA/NS/Redirect (fields), DNS, LLC, SNAP, RRCP, IEEE1905,
   EthernetPause, Unknown880a, DHCP4 (fixed fields).  Same conventions as Model/Views.v.
   Looping accessors (options, TLVs, address lists) are in Model/ViewsVar.v. *)
From PV Require Export Model.Views.
Open Scope string_scope.
Open Scope N_scope.
Open Scope res_scope.

(* p[i] & mask == mask, (p[i] & mask) >> k, ... are written out per getter *)

(* ================================================================= *)
(* IP6 -- layer_ip6.go:19-41 *)

Definition IP6_PayloadLen_n (p : slice) : res N := be16_at p 4.
(* int(p[0]) >> 4 *)
Definition IP6_Version : getter := fun p => b <- idx p 0 ;; Ok (VN (N.shiftr b 4)).
(* int(p[0]&0x0f)<<4 | int(p[1])>>4 *)
Definition IP6_TrafficClass : getter := fun p =>
  b0 <- idx p 0 ;; b1 <- idx p 1 ;; Ok (VN (N.lor (N.shiftl (N.land b0 15) 4) (N.shiftr b1 4))).
(* int(p[1]&0x0f)<<16 | int(p[2])<<8 | int(p[3]) *)
Definition IP6_FlowLabel : getter := fun p =>
  b1 <- idx p 1 ;; b2 <- idx p 2 ;; b3 <- idx p 3 ;;
  Ok (VN (N.lor (N.lor (N.shiftl (N.land b1 15) 16) (N.shiftl b2 8)) b3)).
Definition IP6_PayloadLen : getter := fun p => rbe16 p 4.
Definition IP6_NextHeader : getter := fun p => rbyte p 6.
Definition IP6_HopLimit : getter := fun p => rbyte p 7.
(* p[IP6HeaderLen : IP6HeaderLen+int(p.PayloadLen())]   (repaired: was p[40:], which included trailing padding) *)
Definition IP6_Payload : getter := fun p => pl <- IP6_PayloadLen_n p ;; rsl p 40 (40 + N.to_nat pl).
Definition IP6_HeaderLen : getter := fun _ => Ok (VN 40).
(* FastLog: Version Src Dst NextHeader PayloadLen HopLimit TrafficClass *)
Definition IP6_String : getter :=
  calls [IP6_Version; IP6_Src; IP6_Dst; IP6_NextHeader; IP6_PayloadLen; IP6_HopLimit; IP6_TrafficClass].
(* len(p) >= 40 && int(p.PayloadLen())+IP6HeaderLen <= len(p)
   (repaired: was int(p.PayloadLen()+IP6HeaderLen) == len(p), rejecting every packet with trailing bytes) *)
Definition IP6_IsValid (p : slice) : res bool :=
  andr (Ok (40 <=? lenN p)) (pl <- IP6_PayloadLen_n p ;; Ok (pl + 40 <=? lenN p)).

Definition IP6_getters : gtable :=
  [("Dst", IP6_Dst); ("FlowLabel", IP6_FlowLabel); ("HeaderLen", IP6_HeaderLen); ("HopLimit", IP6_HopLimit);
   ("NextHeader", IP6_NextHeader); ("Payload", IP6_Payload); ("PayloadLen", IP6_PayloadLen); ("Src", IP6_Src);
   ("String", IP6_String); ("TrafficClass", IP6_TrafficClass); ("Version", IP6_Version)].

(* ================================================================= *)
(* HopByHopExtensionHeader -- layer_ip6.go:95-112 (IsValid returns bool) *)

Definition HBH_NextHeader : getter := fun p => rbyte p 0.
(* int(p[1])*8 + 8 *)
Definition HBH_Len_n (p : slice) : res N := b <- idx p 1 ;; Ok (b * 8 + 8).
Definition HBH_Len : getter := fun p => n <- HBH_Len_n p ;; Ok (VN n).
(* p[2:p.Len()] *)
Definition HBH_Data_l (p : slice) : res lslice := n <- HBH_Len_n p ;; lsub (mkL 0 p) 2 (N.to_nat n).
Definition HBH_Data : getter := fun p => d <- HBH_Data_l p ;; Ok (lval d).
(* len(p) < 2 -> false; len(p) < p.Len()+2 -> false *)
Definition HBH_IsValid (p : slice) : res bool :=
  if lenN p <? 2 then Ok false else
  n <- HBH_Len_n p ;; if lenN p <? n + 2 then Ok false else Ok true.

(* ================================================================= *)
(* ICMP -- layer_icmp.go:24-60 *)

Definition ICMP_Type : getter := fun p => rbyte p 0.
Definition ICMP_Code : getter := fun p => rbyte p 1.
Definition ICMP_Checksum : getter := fun p => rbe16 p 2.
Definition ICMP_RestOfHeader : getter := fun p => rsl p 4 8.
(* if len(p) > 8 { return p[8:] }; return []byte{} *)
Definition ICMP_Payload : getter := fun p => if Nat.ltb 8 (len p) then rfrom p 8 else Ok VNil.
Definition ICMP_String : getter := calls [ICMP_Type; ICMP_Code; ICMP_Checksum; ICMP_Payload].
Definition ICMP_IsValid (p : slice) : res bool := Ok (8 <=? lenN p).
Definition ICMP_getters : gtable :=
  [("Checksum", ICMP_Checksum); ("Code", ICMP_Code); ("Payload", ICMP_Payload);
   ("RestOfHeader", ICMP_RestOfHeader); ("String", ICMP_String); ("Type", ICMP_Type)].

(* ICMPEcho -- layer_icmp.go:62-109 *)
Definition ICMPEcho_EchoID : getter := fun p => rbe16 p 4.
Definition ICMPEcho_EchoSeq : getter := fun p => rbe16 p 6.
Definition ICMPEcho_EchoData : getter := fun p => if Nat.ltb 8 (len p) then rfrom p 8 else Ok VNil.
Definition ICMPEcho_String : getter :=
  calls [ICMP_Type; ICMP_Code; ICMP_Checksum; ICMPEcho_EchoID; ICMPEcho_EchoSeq; ICMPEcho_EchoData].
Definition ICMPEcho_IsValid : slice -> res bool := ICMP_IsValid.
Definition ICMPEcho_getters : gtable :=
  [("Checksum", ICMP_Checksum); ("Code", ICMP_Code); ("EchoData", ICMPEcho_EchoData); ("EchoID", ICMPEcho_EchoID);
   ("EchoSeq", ICMPEcho_EchoSeq); ("String", ICMPEcho_String); ("Type", ICMP_Type)].

(* ================================================================= *)
(* ICMP6RouterSolicitation -- layer_icmp.go:181-228 (Options: Model/ViewsVar.v) *)

(* len(p) < 8 -> err; p[0] != 133 -> err *)
Definition RS_IsValid (p : slice) : res bool :=
  if lenN p <? 8 then Ok false else b <- idx p 0 ;; Ok (b =? 133).
(* if len(p) >= 16 && p[8] == 1 && p[9] == 1 { return p[10:16] }; return nil
   (repaired: looked for a 24-byte option and returned 16 bytes) *)
Definition RS_SourceLLA : getter := fun p =>
  c <- andr (Ok (16 <=? lenN p)) (andr (b <- idx p 8 ;; Ok (b =? 1)) (b <- idx p 9 ;; Ok (b =? 1))) ;;
  if c then rsl p 10 16 else Ok VNil.
(* FastLog: Code SourceLLA *)
Definition RS_String : getter := calls [ICMP_Code; RS_SourceLLA].

(* ================================================================= *)
(* ICMP6RouterAdvertisement -- layer_icmp.go:231-277 (Options: Model/ViewsVar.v) *)

Definition RA_IsValid (p : slice) : res bool := Ok (16 <=? lenN p).
Definition RA_CurrentHopLimit : getter := fun p => rbyte p 4.
Definition RA_ManagedConfiguration : getter := fun p => rbit p 5 128.
Definition RA_OtherConfiguration : getter := fun p => rbit p 5 64.
Definition RA_HomeAgent : getter := fun p => rbit p 5 32.
(* (p[5] & 0x18) >> 3 *)
Definition RA_Preference : getter := fun p => b <- idx p 5 ;; Ok (VN (N.shiftr (N.land b 24) 3)).
Definition RA_ProxyFlag : getter := fun p => rbit p 5 4.
Definition RA_Flags : getter := fun p => rbyte p 5.
Definition RA_Lifetime : getter := fun p => rbe16 p 6.
Definition RA_ReachableTime : getter := fun p => rbe32 p 8.
Definition RA_RetransmitTimer : getter := fun p => rbe32 p 12.
(* FastLog: Code CurrentHopLimit Flags Managed Other Preference Lifetime ReachableTime RetransmitTimer *)
Definition RA_String : getter :=
  calls [ICMP_Code; RA_CurrentHopLimit; RA_Flags; RA_ManagedConfiguration; RA_OtherConfiguration;
         RA_Preference; RA_Lifetime; RA_ReachableTime; RA_RetransmitTimer].

(* ================================================================= *)
(* ICMP6NeighborAdvertisement -- layer_icmp.go:279-315 *)

Definition NA_IsValid (p : slice) : res bool := Ok (24 <=? lenN p).
Definition NA_Router : getter := fun p => rbit p 4 128.
Definition NA_Solicited : getter := fun p => rbit p 4 64.
Definition NA_Override : getter := fun p => rbit p 4 32.
(* netip.AddrFrom16 of the 16 bytes p[8:24] (array conversion: a copy) *)
Definition NA_TargetAddress : getter := fun p => rarr p 8 16.
(* if len(p) < 32 || p[24] != 2 || p[25] != 1 { return nil }; return p[26:32] *)
Definition NA_TargetLLA : getter := fun p =>
  c <- orr (Ok (lenN p <? 32)) (orr (b <- idx p 24 ;; Ok (negb (b =? 2))) (b <- idx p 25 ;; Ok (negb (b =? 1)))) ;;
  if c then Ok VNil else rsl p 26 32.
(* FastLog: Code Override Solicited Solicited TargetAddress TargetLLA *)
Definition NA_String : getter :=
  calls [ICMP_Code; NA_Override; NA_Solicited; NA_Solicited; NA_TargetAddress; NA_TargetLLA].
Definition NA_getters : gtable :=
  [("Checksum", ICMP_Checksum); ("Code", ICMP_Code); ("Override", NA_Override); ("Router", NA_Router);
   ("Solicited", NA_Solicited); ("String", NA_String); ("TargetAddress", NA_TargetAddress);
   ("TargetLLA", NA_TargetLLA); ("Type", ICMP_Type)].

(* ICMP6NeighborSolicitation -- layer_icmp.go:340-372 *)
Definition NS_IsValid (p : slice) : res bool := Ok (24 <=? lenN p).
(* ip, _ := netip.AddrFromSlice(p[8:24]) *)
Definition NS_TargetAddress : getter := fun p => rarr p 8 16.
(* if len(p) < 32 || p[24] != 1 || p[25] != 1 { return nil }; return p[26:32] *)
Definition NS_SourceLLA : getter := fun p =>
  c <- orr (Ok (lenN p <? 32)) (orr (b <- idx p 24 ;; Ok (negb (b =? 1))) (b <- idx p 25 ;; Ok (negb (b =? 1)))) ;;
  if c then Ok VNil else rsl p 26 32.
Definition NS_String : getter := calls [ICMP_Code; NS_TargetAddress; NS_SourceLLA].
Definition NS_getters : gtable :=
  [("Checksum", ICMP_Checksum); ("Code", ICMP_Code); ("SourceLLA", NS_SourceLLA); ("String", NS_String);
   ("TargetAddress", NS_TargetAddress); ("Type", ICMP_Type)].

(* ICMP6Redirect -- layer_icmp.go:389-411 *)
Definition Redirect6_IsValid (p : slice) : res bool := Ok (40 <=? lenN p).
Definition Redirect6_TargetAddress : getter := fun p => rsl p 8 24.
Definition Redirect6_DstAddress : getter := fun p => rsl p 24 40.
(* if len(p) < 48 || p[40] != 2 || p[41] != 1 { return nil }; return p[42:48] *)
Definition Redirect6_TargetLinkLayerAddr : getter := fun p =>
  c <- orr (Ok (lenN p <? 48)) (orr (b <- idx p 40 ;; Ok (negb (b =? 2))) (b <- idx p 41 ;; Ok (negb (b =? 1)))) ;;
  if c then Ok VNil else rsl p 42 48.
(* Sprintf: Code TargetAddress TargetLinkLayerAddr DstAddress *)
Definition Redirect6_String : getter :=
  calls [ICMP_Code; Redirect6_TargetAddress; Redirect6_TargetLinkLayerAddr; Redirect6_DstAddress].
Definition Redirect6_getters : gtable :=
  [("Checksum", ICMP_Checksum); ("Code", ICMP_Code); ("DstAddress", Redirect6_DstAddress);
   ("String", Redirect6_String); ("TargetAddress", Redirect6_TargetAddress);
   ("TargetLinkLayerAddr", Redirect6_TargetLinkLayerAddr); ("Type", ICMP_Type)].

(* ================================================================= *)
(* DNS header -- layer_dns.go:34-71 *)

Definition DNS_IsValid (p : slice) : res bool := Ok (12 <=? lenN p).
Definition DNS_TransactionID : getter := fun p => rbe16 p 0.
Definition DNS_QR : getter := fun p => rbit p 2 128.
(* int(p[2]>>3) & 0x0F *)
Definition DNS_OpCode : getter := fun p => b <- idx p 2 ;; Ok (VN (N.land (N.shiftr b 3) 15)).
Definition DNS_AA : getter := fun p => rbit p 2 4.
Definition DNS_TC : getter := fun p => rbit p 2 2.
Definition DNS_RD : getter := fun p => rbit p 2 1.
Definition DNS_RA : getter := fun p => rbit p 3 128.
(* uint8(p[3]>>4) & 0x07 *)
Definition DNS_Z : getter := fun p => b <- idx p 3 ;; Ok (VN (N.land (N.shiftr b 4) 7)).
Definition DNS_ResponseCode : getter := fun p => b <- idx p 3 ;; Ok (VN (N.land b 15)).
Definition DNS_QDCount : getter := fun p => rbe16 p 4.
Definition DNS_ANCount : getter := fun p => rbe16 p 6.
Definition DNS_NSCount : getter := fun p => rbe16 p 8.
Definition DNS_ARCount : getter := fun p => rbe16 p 10.
(* Sprintf: QR TC ResponseCode QDCount ANCount NSCount ARCount *)
Definition DNS_String : getter :=
  calls [DNS_QR; DNS_TC; DNS_ResponseCode; DNS_QDCount; DNS_ANCount; DNS_NSCount; DNS_ARCount].
Definition DNS_getters : gtable :=
  [("AA", DNS_AA); ("ANCount", DNS_ANCount); ("ARCount", DNS_ARCount); ("NSCount", DNS_NSCount);
   ("OpCode", DNS_OpCode); ("QDCount", DNS_QDCount); ("QR", DNS_QR); ("RA", DNS_RA); ("RD", DNS_RD);
   ("ResponseCode", DNS_ResponseCode); ("String", DNS_String); ("TC", DNS_TC);
   ("TransactionID", DNS_TransactionID); ("Z", DNS_Z)].

(* ================================================================= *)
(* LLC, SNAP -- layer_802_3.go:12-98 *)

Definition LLC_IsValid (p : slice) : res bool := Ok (3 <=? lenN p).
Definition LLC_DSAP : getter := fun p => rbyte p 0.
Definition LLC_SSAP : getter := fun p => rbyte p 1.
Definition LLC_Control : getter := fun p => rbyte p 2.
(* if p[2]==0x03 && p[0]==0xaa && p[1]==0xaa {"snap"}; if p[2]&0x3==0x03 {"u"}; if p[2]&0x01==0x01 {"s"}; "i" *)
Definition LLC_Type_s (p : slice) : res string :=
  c <- andr (b <- idx p 2 ;; Ok (b =? 3)) (andr (b <- idx p 0 ;; Ok (b =? 170)) (b <- idx p 1 ;; Ok (b =? 170))) ;;
  if c then Ok "snap" else
  b <- idx p 2 ;; if N.land b 3 =? 3 then Ok "u" else
  b <- idx p 2 ;; if N.land b 1 =? 1 then Ok "s" else Ok "i".
Definition LLC_Type : getter := fun p => s <- LLC_Type_s p ;; Ok (VS s).
(* if t := p.Type(); t == "u" || t == "snap" { return p[3:] }; if len(p) < 4 { return nil }; return p[4:]
   (repaired: p[4:] on a 3-byte frame panicked; a SNAP frame is a U frame) *)
Definition LLC_Payload : getter := fun p =>
  s <- LLC_Type_s p ;;
  if String.eqb s "u" || String.eqb s "snap" then rfrom p 3
  else if lenN p <? 4 then Ok VNil else rfrom p 4.
(* FastLog: DSAP SSAP Type Control *)
Definition LLC_String : getter := calls [LLC_DSAP; LLC_SSAP; LLC_Type; LLC_Control].
Definition LLC_getters : gtable :=
  [("Control", LLC_Control); ("DSAP", LLC_DSAP); ("Payload", LLC_Payload); ("SSAP", LLC_SSAP);
   ("String", LLC_String); ("Type", LLC_Type)].

Definition SNAP_IsValid (p : slice) : res bool := Ok (9 <=? lenN p).
Definition SNAP_OrganisationID : getter := fun p => rsl p 3 6.
Definition SNAP_EtherType : getter := fun p => rbe16 p 6.
Definition SNAP_Payload : getter := fun p => rfrom p 8.
(* FastLog: DSAP Control OrganisationID EtherType *)
Definition SNAP_String : getter := calls [LLC_DSAP; LLC_Control; SNAP_OrganisationID; SNAP_EtherType].
Definition SNAP_getters : gtable :=
  [("Control", LLC_Control); ("DSAP", LLC_DSAP); ("EtherType", SNAP_EtherType);
   ("OrganisationID", SNAP_OrganisationID); ("Payload", SNAP_Payload); ("SSAP", LLC_SSAP); ("String", SNAP_String)].

(* ================================================================= *)
(* RRCP -- layer_rrcp.go:29-81 *)

Definition RRCP_IsValid (p : slice) : res bool := Ok (16 <=? lenN p).
Definition RRCP_Protocol : getter := fun p => rbyte p 0.
(* p[1]&0x80 == 0x80 *)
Definition RRCP_Reply : getter := fun p => b <- idx p 1 ;; Ok (VB (N.land b 128 =? 128)).
Definition RRCP_OpCode : getter := fun p => b <- idx p 1 ;; Ok (VN (N.land b 127)).
Definition RRCP_AuthKey : getter := fun p => rbe16 p 2.
Definition RRCP_RegisterAddr : getter := fun p => rbe16 p 4.
Definition RRCP_RegisterData : getter := fun p => rbe16 p 6.
Definition RRCP_SixBytes : getter := fun p => rsl p 1 7.
Definition RRCP_Zeros : getter := fun p => rfrom p 7.
(* FastLog: switch p.Protocol() { 0x23: SixBytes Zeros; 0x01: Reply OpCode; default: Protocol } *)
Definition RRCP_String : getter := fun p =>
  b <- idx p 0 ;;
  if b =? 35 then calls [RRCP_SixBytes; RRCP_Zeros] p
  else if b =? 1 then calls [RRCP_Reply; RRCP_OpCode] p
  else calls [RRCP_Protocol] p.
Definition RRCP_getters : gtable :=
  [("AuthKey", RRCP_AuthKey); ("OpCode", RRCP_OpCode); ("Protocol", RRCP_Protocol);
   ("RegisterAddr", RRCP_RegisterAddr); ("RegisterData", RRCP_RegisterData); ("Reply", RRCP_Reply);
   ("SixBytes", RRCP_SixBytes); ("String", RRCP_String); ("Zeros", RRCP_Zeros)].

(* ================================================================= *)
(* IEEE1905, EthernetPause, Unknown880a -- layer_ethernet.go:200-258, 400-407 *)

Definition IEEE1905_IsValid (p : slice) : res bool := Ok (8 <=? lenN p).
Definition IEEE1905_Version : getter := fun p => rbyte p 0.
Definition IEEE1905_Reserved : getter := fun p => rbyte p 1.
Definition IEEE1905_Type : getter := fun p => rbe16 p 2.
Definition IEEE1905_ID : getter := fun p => rbe16 p 4.
Definition IEEE1905_FragmentID : getter := fun p => rbyte p 6.
Definition IEEE1905_Flags : getter := fun p => rbyte p 7.
Definition IEEE1905_TLV : getter := fun p => rfrom p 8.
(* FastLog: Version Type ID FragmentID Flags TLV *)
Definition IEEE1905_String : getter :=
  calls [IEEE1905_Version; IEEE1905_Type; IEEE1905_ID; IEEE1905_FragmentID; IEEE1905_Flags; IEEE1905_TLV].
Definition IEEE1905_getters : gtable :=
  [("Flags", IEEE1905_Flags); ("FragmentID", IEEE1905_FragmentID); ("ID", IEEE1905_ID);
   ("Reserved", IEEE1905_Reserved); ("String", IEEE1905_String); ("TLV", IEEE1905_TLV);
   ("Type", IEEE1905_Type); ("Version", IEEE1905_Version)].

Definition Pause_Opcode : getter := fun p => rbe16 p 0.
Definition Pause_Duration : getter := fun p => rbe16 p 2.
Definition Pause_Reserved : getter := fun p => rfrom p 4.
Definition Pause_String : getter := calls [Pause_Opcode; Pause_Duration].
(* len(p) < 46 -> err; p.Opcode() != 1 -> err *)
Definition Pause_IsValid (p : slice) : res bool :=
  if lenN p <? 46 then Ok false else o <- be16_at p 0 ;; Ok (o =? 1).
Definition Pause_getters : gtable :=
  [("Duration", Pause_Duration); ("Opcode", Pause_Opcode); ("Reserved", Pause_Reserved); ("String", Pause_String)].

(* if len(p) <= 0 -> err *)
Definition U880a_IsValid (p : slice) : res bool := Ok (negb (lenN p <=? 0)).
Definition U880a_getters : gtable := [].

(* ================================================================= *)
(* DHCP4, fixed fields -- layer_dhcp4.go:133-153, 195 *)

Definition DHCP4_OpCode : getter := fun p => rbyte p 0.
Definition DHCP4_HType : getter := fun p => rbyte p 1.
Definition DHCP4_HLen : getter := fun p => rbyte p 2.
Definition DHCP4_Hops : getter := fun p => rbyte p 3.
Definition DHCP4_XId : getter := fun p => rsl p 4 8.
Definition DHCP4_Secs : getter := fun p => rbe16 p 8.
Definition DHCP4_Flags : getter := fun p => rbe16 p 10.
Definition DHCP4_CIAddr : getter := fun p => rarr p 12 4.
Definition DHCP4_YIAddr : getter := fun p => rarr p 16 4.
Definition DHCP4_SIAddr : getter := fun p => rarr p 20 4.
Definition DHCP4_GIAddr : getter := fun p => rarr p 24 4.
Definition DHCP4_CHAddr : getter := fun p => rsl p 28 34.
Definition DHCP4_Cookie : getter := fun p => rsl p 236 240.
(* if len(p) > 240 { return p[240:] }; return nil *)
Definition DHCP4_Options_l (p : slice) : res (option lslice) :=
  if Nat.ltb 240 (len p) then q <- lfrom (mkL 0 p) 240 ;; Ok (Some q) else Ok None.
Definition DHCP4_Options : getter := fun p =>
  q <- DHCP4_Options_l p ;; Ok (match q with Some l => lval l | None => VNil end).
(* (p.Flags() & 0x8000) == 0x8000 *)
Definition DHCP4_Broadcast : getter := fun p => f <- be16_at p 10 ;; Ok (VB (N.land f 32768 =? 32768)).
(* FastLog: XId OpCode CHAddr CIAddr YIAddr *)
Definition DHCP4_String : getter := calls [DHCP4_XId; DHCP4_OpCode; DHCP4_CHAddr; DHCP4_CIAddr; DHCP4_YIAddr].

(* unfold hints for the proof tactics (generated from the definitions above) *)
#[global] Hint Unfold IP6_Version IP6_TrafficClass IP6_FlowLabel IP6_PayloadLen IP6_NextHeader IP6_HopLimit IP6_Payload IP6_HeaderLen IP6_String HBH_NextHeader HBH_Len HBH_Data ICMP_Type ICMP_Code ICMP_Checksum ICMP_RestOfHeader ICMP_Payload ICMP_String ICMPEcho_EchoID ICMPEcho_EchoSeq ICMPEcho_EchoData ICMPEcho_String RS_SourceLLA RS_String RA_CurrentHopLimit RA_ManagedConfiguration RA_OtherConfiguration RA_HomeAgent RA_Preference RA_ProxyFlag RA_Flags RA_Lifetime RA_ReachableTime RA_RetransmitTimer RA_String NA_Router NA_Solicited NA_Override NA_TargetAddress NA_TargetLLA NA_String NS_TargetAddress NS_SourceLLA NS_String Redirect6_TargetAddress Redirect6_DstAddress Redirect6_TargetLinkLayerAddr Redirect6_String DNS_TransactionID DNS_QR DNS_OpCode DNS_AA DNS_TC DNS_RD DNS_RA DNS_Z DNS_ResponseCode DNS_QDCount DNS_ANCount DNS_NSCount DNS_ARCount DNS_String LLC_DSAP LLC_SSAP LLC_Control LLC_Type LLC_Payload LLC_String SNAP_OrganisationID SNAP_EtherType SNAP_Payload SNAP_String RRCP_Protocol RRCP_Reply RRCP_OpCode RRCP_AuthKey RRCP_RegisterAddr RRCP_RegisterData RRCP_SixBytes RRCP_Zeros RRCP_String IEEE1905_Version IEEE1905_Reserved IEEE1905_Type IEEE1905_ID IEEE1905_FragmentID IEEE1905_Flags IEEE1905_TLV IEEE1905_String Pause_Opcode Pause_Duration Pause_Reserved Pause_String DHCP4_OpCode DHCP4_HType DHCP4_HLen DHCP4_Hops DHCP4_XId DHCP4_Secs DHCP4_Flags DHCP4_CIAddr DHCP4_YIAddr DHCP4_SIAddr DHCP4_GIAddr DHCP4_CHAddr DHCP4_Cookie DHCP4_Options DHCP4_Broadcast DHCP4_String : vg.
