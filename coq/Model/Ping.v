(* Model/Ping.v — event system over the echo waiter table of layer_icmp.go.

   Go state (process-wide):
     icmpTable.table : map[uint16]*icmpEntry      -> [tbl]  (id -> the call that owns the entry)
     icmpTable.id    : uint16 (starts at 1)        -> [next]
   Per call of Session.Ping / Ping6 (identified by a call number [pid]):
     id       the identifier captured under the lock            -> [p_id]
     msg.msgRecv                                               -> [p_recv]
     msg.wakeup closed?                                        -> [p_closed]
     the time.After channel has fired?                         -> [p_fired]
     the timeout argument, its normalised value, msg.expire,
     the instant the select (and its timer) started             -> [p_time]
     where the call is                                         -> [p_phase]
        Sending   registered, inside ICMP4SendEchoRequest / ICMP6SendEchoRequest
        Waiting   blocked in the select (the timer is armed HERE, after the send)
        Returned r

   Time: [clock] is the current instant (Z nanoseconds); it moves only by the event [Tick t].
   Ping/Ping6 FIRST normalise their timeout argument ([eff_timeout]: a value <= 0 or above 10 s
   means the 2 s default) and only then build the waiter (msg.expire = now + normalised timeout;
   the field is written and NOTHING reads it: echoNotify completes a waiter whatever its expire)
   and, after the send, arm time.After(normalised timeout).

   Events, in the order the code performs them (one critical section or one channel operation
   each; any event of any other goroutine may happen between two of them):
     Begin p tmo  (tmo = the timeout argument of the call) icmpRegister: lock; if all 65536 identifiers are in the table: unlock and return an
                  error (the call never registers).  Otherwise id := table.id; table.id++ (uint16
                  wrap), repeated while table[id] exists (identifiers still waited for are skipped,
                  /repo since the wrap repair); table[id] = &msg; unlock.  The waiter is in the
                  table BEFORE the request is sent.
     Sent p ok    the send returned.  ok=true: the call enters its select and arms its timer now.  ok=false: the send
                  returned an error (invalid address family, Conn.WriteTo failed); the call does
                  lock; if table[id] == &msg { delete(table, id) }; unlock and returns the error
                  ([fix24 = true], /repo since 659869d; [fix24 = false] is the code before: the entry
                  is not removed).
     BulkFail n   n complete calls whose send fails, back to back (each: Begin; Sent false), without
                  recording them as calls: each takes the next free identifier and gives it back, so
                  the table is unchanged and table.id moves past n free identifiers.  A compressed
                  history (Proofs/PingBulk.v: same table, next-id and other calls as the n pairs of
                  events); only for the repaired code.
     Notify i     Session.Parse reached echoNotify(i): if table[i] exists: msgRecv = true,
                  close(wakeup), delete(table, i) — whatever the owner is doing (also during its send).
     Skip         Session.Parse of a frame that does not reach echoNotify (no access to the table).
     CloseSession k   Session.Close of session k.  The waiter table is PROCESS-wide (one table for all
                  sessions of the process: Begin, Notify and End are the same whichever session makes the
                  call or parses the frame); Close does not touch it: pings pending on this or on any other
                  session stay registered and end by their reply or their timer.
     Tick t       time passes: clock := t (t >= clock).
     Timeout p    the timer of call p fires: enabled once clock >= (instant the select started) +
                  (normalised timeout).
     End p        the select of call p returns (enabled when wakeup is closed or the timer fired);
                  lock; if table[id] == &msg { delete(table, id) } (after a reply the entry is gone
                  and the identifier may belong to a newer call); unlock; return nil if msgRecv else
                  ErrTimeout.
   Ghost (history) fields, never read by the transitions: [cnt] = number of identifiers handed out
   so far, [p_seq] = value of [cnt] when the call began (kept for reference only). *)
From PV Require Import Base.Prelude.
Open Scope N_scope.

Definition id := N.
Definition pid := nat.

Inductive result : Set := RNil | RTimeout | RSendErr | RBusy.
Inductive phase : Set := Sending | Waiting | Returned (r : result).

(* if timeout <= 0 || timeout > time.Second*10 { timeout = time.Second * 2 } *)
Definition SECOND : Z := 1000000000%Z.
Definition eff_timeout (t : Z) : Z :=
  if (t <=? 0)%Z || (10 * SECOND <? t)%Z then (2 * SECOND)%Z else t.

Record ptime := mkPT {
  t_raw : Z;       (* the timeout argument *)
  t_eff : Z;       (* after normalisation *)
  t_expire : Z;    (* msg.expire (never read) *)
  t_armed : Z      (* instant time.After(t_eff) was armed (0 before the select) *)
}.

Record ping := mkPing {
  p_id : id;
  p_recv : bool;
  p_closed : bool;
  p_fired : bool;
  p_phase : phase;
  p_seq : N;
  p_time : ptime
}.

Record state := mkState {
  tbl : list (id * pid);
  next : id;
  pings : list (pid * ping);
  cnt : N;
  clock : Z
}.

(* Go map on uint16 keys as an association list without duplicate keys *)
Fixpoint tget (t : list (id * pid)) (k : id) : option pid :=
  match t with
  | [] => None
  | (k', v) :: r => if k' =? k then Some v else tget r k
  end.
Definition tdel (t : list (id * pid)) (k : id) : list (id * pid) :=
  filter (fun e => negb (fst e =? k)) t.
Definition tset (t : list (id * pid)) (k : id) (v : pid) : list (id * pid) := (k, v) :: tdel t k.

(* delete(table, k) only if the entry is the caller's own: if table[k] == &msg *)
Definition tdel_own (t : list (id * pid)) (k : id) (p : pid) : list (id * pid) :=
  match tget t k with
  | Some q => if Nat.eqb q p then tdel t k else t
  | None => t
  end.

(* the allocation loop of icmpRegister: the first identifier from nx on (mod 2^16) that is not in
   the table; the loop is modelled with fuel (Proofs/Ping.v first_free_total: with fewer than 65536
   entries it ends within length+1 probes, so the fuel below is never exhausted) *)
Fixpoint first_free (t : list (id * pid)) (nx : id) (fuel : nat) : option id :=
  match fuel with
  | O => None
  | S f => match tget t nx with
           | None => Some nx
           | Some _ => first_free t (N.modulo (nx + 1) 65536) f
           end
  end.
(* len(table) > 0xffff: every identifier is in the table *)
Definition TABLE_CAP : N := 65536.
Definition table_full (t : list (id * pid)) : bool := TABLE_CAP <=? N.of_nat (List.length t).
Definition alloc (t : list (id * pid)) (nx : id) : option id := first_free t nx (S (List.length t)).
(* table.id after one call that takes an identifier and gives it back *)
Definition bump (t : list (id * pid)) (nx : id) : id :=
  if table_full t then nx else match alloc t nx with Some i => N.modulo (i + 1) 65536 | None => nx end.

(* the calls, by call number *)
Fixpoint pget (l : list (pid * ping)) (p : pid) : option ping :=
  match l with
  | [] => None
  | (p', v) :: r => if Nat.eqb p' p then Some v else pget r p
  end.
Fixpoint pset (l : list (pid * ping)) (p : pid) (v : ping) : list (pid * ping) :=
  match l with
  | [] => [(p, v)]
  | (p', v') :: r => if Nat.eqb p' p then (p, v) :: r else (p', v') :: pset r p v
  end.

Inductive event : Set :=
| Begin (p : pid) (tmo : Z)
| Sent (p : pid) (ok : bool)
| BulkFail (n : N)
| Notify (i : id)
| Skip
| CloseSession (k : nat)
| Tick (t : Z)
| Timeout (p : pid)
| End (p : pid).

Definition init (n : id) : state := mkState [] n [] 0 0%Z.
(* the library starts with icmpTable.id = 1 *)
Definition init_go : state := init 1.

Definition set_pings (s : state) (l : list (pid * ping)) : state :=
  mkState (tbl s) (next s) l (cnt s) (clock s).

Definition outstanding (pg : ping) : bool :=
  match p_phase pg with Returned _ => false | _ => true end.

(* Err EOther = the event is not enabled in this state (ill-formed history);
   Panic = the Go code would panic (close of a closed channel). *)
Definition step (fix24 : bool) (s : state) (e : event) : res state :=
  match e with
  | Begin p tmo =>
      match pget (pings s) p with
      | Some _ => Err EOther
      | None =>
          if table_full (tbl s) then
            Ok (set_pings s (pset (pings s) p
                  (mkPing (next s) false false false (Returned RBusy) (cnt s)
                     (mkPT tmo (eff_timeout tmo) (clock s + eff_timeout tmo) 0))))
          else
            match alloc (tbl s) (next s) with
            | None => Fuel
            | Some i =>
                let pg := mkPing i false false false Sending (cnt s)
                            (mkPT tmo (eff_timeout tmo) (clock s + eff_timeout tmo) 0) in
                Ok (mkState (tset (tbl s) i p) (u16 (i + 1)) (pset (pings s) p pg) (cnt s + 1) (clock s))
            end
      end
  | Sent p ok =>
      match pget (pings s) p with
      | Some pg =>
          match p_phase pg with
          | Sending =>
              if ok then
                Ok (set_pings s (pset (pings s) p
                      (mkPing (p_id pg) (p_recv pg) (p_closed pg) (p_fired pg) Waiting (p_seq pg)
                         (mkPT (t_raw (p_time pg)) (t_eff (p_time pg)) (t_expire (p_time pg)) (clock s)))))
              else
                Ok (mkState (if fix24 then tdel_own (tbl s) (p_id pg) p else tbl s) (next s)
                      (pset (pings s) p
                         (mkPing (p_id pg) (p_recv pg) (p_closed pg) (p_fired pg)
                            (Returned RSendErr) (p_seq pg) (p_time pg)))
                      (cnt s) (clock s))
          | _ => Err EOther
          end
      | None => Err EOther
      end
  | BulkFail n =>
      if fix24 && (n <=? 65536) then
        Ok (mkState (tbl s) (N.iter n (bump (tbl s)) (next s)) (pings s) (cnt s + n) (clock s))
      else Err EOther
  | Notify i =>
      (* the early return on an empty table has no effect of its own *)
      match tget (tbl s) i with
      | None => Ok s
      | Some q =>
          match pget (pings s) q with
          | None => Err EOther
          | Some pg =>
              if p_closed pg then Panic
              else Ok (mkState (tdel (tbl s) i) (next s)
                         (pset (pings s) q
                            (mkPing (p_id pg) true true (p_fired pg) (p_phase pg) (p_seq pg) (p_time pg)))
                         (cnt s) (clock s))
          end
      end
  | Skip => Ok s
  | CloseSession _ => Ok s
  | Tick t =>
      if (clock s <=? t)%Z then Ok (mkState (tbl s) (next s) (pings s) (cnt s) t) else Err EOther
  | Timeout p =>
      match pget (pings s) p with
      | Some pg =>
          match p_phase pg with
          | Waiting =>
              if (t_armed (p_time pg) + t_eff (p_time pg) <=? clock s)%Z then
                Ok (set_pings s (pset (pings s) p
                      (mkPing (p_id pg) (p_recv pg) (p_closed pg) true Waiting (p_seq pg) (p_time pg))))
              else Err EOther
          | _ => Err EOther
          end
      | None => Err EOther
      end
  | End p =>
      match pget (pings s) p with
      | Some pg =>
          match p_phase pg with
          | Waiting =>
              if p_closed pg || p_fired pg then
                Ok (mkState (tdel_own (tbl s) (p_id pg) p) (next s)
                      (pset (pings s) p
                         (mkPing (p_id pg) (p_recv pg) (p_closed pg) (p_fired pg)
                            (Returned (if p_recv pg then RNil else RTimeout)) (p_seq pg) (p_time pg)))
                      (cnt s) (clock s))
              else Err EOther
          | _ => Err EOther
          end
      | None => Err EOther
      end
  end.

Fixpoint run (fix24 : bool) (s : state) (tr : list event) : res state :=
  match tr with
  | [] => Ok s
  | e :: r => match step fix24 s e with
              | Ok s' => run fix24 s' r
              | Err x => Err x
              | Panic => Panic
              | Fuel => Fuel
              end
  end.

(* [FIX24]: which code the model mirrors.  true = /repo since commit 659869d (repair of #24);
   false = the code before it (kept so that the refutation stays checkable). *)
Definition FIX24 : bool := true.

(* observables *)
Definition result_of (s : state) (p : pid) : option result :=
  match pget (pings s) p with
  | Some pg => match p_phase pg with Returned r => Some r | _ => None end
  | None => None
  end.
Definition id_of (s : state) (p : pid) : option id := option_map p_id (pget (pings s) p).
(* the call has begun and not returned (it is in its send or in its select) *)
Definition waiting (s : state) (p : pid) : bool :=
  match pget (pings s) p with
  | Some pg => outstanding pg
  | None => false
  end.
Definition size (s : state) : nat := List.length (tbl s).
