(* Model/ArpSpoof.v — event-system model of handlers/arp_spoofer (arp.go, spoof.go).

   Mirrors the Go code statement by statement:
     StartHunt / StopHunt / Close                  spoof.go, arp.go:62-70
     spoofLoop                                     spoof.go: one iteration is THREE events, cut at the points
                                                   where the goroutine holds no lock:
         Lookup i   pass the select (ticker / closeChan) or start; Lock; huntList[addr.MAC]; closed := h.closed;
                    Unlock; a closed handler ends the loop here
         Check i    decide on the local copies: send the restoring request and return / send the forged
                    announcement and go on (no shared read: since /repo 161661f h.closed is read under the lock)
         Send i     the WriteTo of the decided frame (may fail), then select or return
       so that StartHunt, StopHunt, Close, received packets and other loops interleave BETWEEN lookup,
       decision and send.
     ProcessPacket                                 arp.go: RxArp (decoded, valid packet) and RxRaw (any
                                                   EtherType and payload bytes: PayloadID test, ARP.IsValid,
                                                   field decoding with Go's slice-bound panics).  The request
                                                   branch looks the sender up under arpMutex, unlocks, and only
                                                   then replies: RxArp decides (the reply is queued), RxReply k
                                                   is the write of the k-th reply in flight.
     public send API                               Request, RequestTo, Probe, AnnounceTo, RequestRaw, Reply, WhoIs;
                                                   Scan is a loop "skip router/host; if h.closed return; Request;
                                                   sleep": ApiScan starts it, ScanCheck j takes the next address
                                                   (reading h.closed), ScanSend j is the write; ApiInvalid is any
                                                   public send call with an address that is not IPv4 or a MAC that
                                                   is not 6 bytes (ErrInvalidIP / ErrInvalidMAC, nothing written)
   Environment events: SetOffer (the session's DHCPv4IPOffer changes), FailWrites k (the connection fails
   its next k WriteTo calls).

   Residue (not in the model): real time (see the fairness hypothesis below). *)
From PV Require Import Base.Prelude Base.Slice.
Open Scope N_scope.

Definition mac := N.   (* 48-bit value of the 6 address bytes, big endian *)
Definition ip4 := N.   (* 32-bit value of the 4 address bytes, big endian *)

Record addr := mkAddr { amac : mac; aip : ip4 }.

(* NICInfo facts the handler reads *)
Record cfg := mkCfg {
  host_mac : mac;      (* NICInfo.HostAddr4.MAC *)
  host_ip : ip4;       (* NICInfo.HostAddr4.IP *)
  router_mac : mac;    (* NICInfo.RouterAddr4.MAC *)
  router_ip : ip4;     (* NICInfo.RouterAddr4.IP *)
  lan_addr : ip4;      (* NICInfo.HomeLAN4 address *)
  lan_bits : N         (* NICInfo.HomeLAN4 bits, 0..32 *)
}.

Definition MAC_BCAST : mac := 281474976710655.   (* ff:ff:ff:ff:ff:ff *)
Definition MAC_ZERO : mac := 0.
Definition IP4_BCAST : ip4 := 4294967295.        (* 255.255.255.255 = packet.IP4Broadcast *)
Definition IP4_ZERO : ip4 := 0.                  (* packet.IPv4zero *)

(* netip.Prefix.Contains for IPv4: xor, shift away the host bits (shift by 32 gives 0) *)
Definition in_lan (c : cfg) (x : ip4) : bool :=
  N.shiftr (N.lxor (lan_addr c) x) (32 - lan_bits c) =? 0.

(* netip.Addr.IsLinkLocalUnicast for IPv4: 169.254.0.0/16 *)
Definition link_local (x : ip4) : bool := x / 65536 =? 43518.

(* an emitted ARP frame: operation, Ethernet destination, ARP sender and target *)
Record frame := mkFrame {
  fop : N; fedst : mac; fsmac : mac; fsip : ip4; ftmac : mac; ftip : ip4 }.

(* a received, valid ARP packet: Ethernet source + decoded ARP fields *)
Record arp_pkt := mkPkt {
  pop : N; pethsrc : mac; psmac : mac; psip : ip4; ptmac : mac; ptip : ip4 }.

(* where a spoofLoop goroutine stands *)
Inductive pc :=
| PTop                              (* started, first iteration not begun *)
| PLooked (found : option addr)     (* lookup done under the lock, lock released *)
| PSend (f : frame) (cont : bool)   (* frame decided; cont: the loop goes on to its select afterwards *)
| PWait                             (* in the select *)
| PDone.                            (* returned *)

Record loop := mkLoop { laddr : addr; lpc : pc }.

(* a Scan() call in flight: the addresses still to visit, and the address it has decided to ask for *)
Record scan := mkScan { sips : list ip4; sdec : option ip4 }.

Record state := mkState {
  hunt : list addr;            (* huntList: at most one entry per MAC (key = amac) *)
  loops : list loop;           (* every spoofLoop goroutine ever started, in start order *)
  closed : bool;               (* h.closed / closeChan closed *)
  offers : list (mac * ip4);   (* session view: MACEntry.IP4Offer when it Is4() *)
  failn : nat;                 (* the connection fails its next failn writes *)
  rxq : list frame;            (* spoof replies / probe rejects decided by ProcessPacket calls in flight, not yet written *)
  scans : list scan            (* every Scan() call ever started *)
}.

Definition init_state : state := mkState [] [] false [] 0 [] [].

Inductive event :=
| StartHunt (a : addr)            (* StartHunt with a 6-byte MAC and an IPv4 address *)
| StartHuntInvalid                (* StartHunt with nil MAC or an address that is not Is4(): ErrInvalidIP *)
| StopHunt (m : mac)
| Close
| Lookup (i : nat)
| Check (i : nat)
| Send (i : nat)
| RxArp (p : arp_pkt)             (* ProcessPacket on a valid ARP frame, up to the write of a spoof reply *)
| RxReply (k : nat)               (* the write of the k-th spoof reply in flight *)
| RxRaw (ethertype : N) (payload : bytes)   (* ProcessPacket on whatever Parse hands over *)
| SetOffer (m : mac) (o : option ip4)       (* environment: the session's DHCP offer for m changes *)
| FailWrites (k : nat)            (* environment: the next k writes to the connection fail *)
(* public send API, IPv4 arguments *)
| ApiRequest (ip : ip4)
| ApiRequestTo (dst : mac) (ip : ip4)
| ApiProbe (ip : ip4)
| ApiAnnounceTo (dst : mac) (ip : ip4)
| ApiRequestRaw (dst : mac) (sender target : addr)
| ApiReply (dst : mac) (sender target : addr)
| ApiScan                         (* Scan() is called *)
| ScanCheck (j : nat)             (* scan j: next address, skip router/host, read h.closed *)
| ScanSend (j : nat)              (* scan j: the write of the request it decided *)
| ApiWhoIs (ip : ip4) (tries : nat)    (* tries: how many times session.FindIP(ip) fails (environment), 3 at most count *)
| ApiInvalid.                     (* a public send call with an unusable address or MAC: error, nothing written *)

(* ---------------------------------------------------------------- *)
(* hunt list *)

Definition hunt_has (m : mac) (h : list addr) : bool := existsb (fun e => amac e =? m) h.

Definition hunt_del (m : mac) (h : list addr) : list addr := filter (fun e => negb (amac e =? m)) h.

(* h.huntList[string(addr.MAC)]: the entry stored under the MAC (at most one) *)
Definition hunt_find (m : mac) (h : list addr) : option addr := find (fun e => amac e =? m) h.

(* session.DHCPv4IPOffer(mac) restricted to offers that are Is4() *)
Fixpoint offer_of (m : mac) (o : list (mac * ip4)) : option ip4 :=
  match o with
  | [] => None
  | (m', x) :: r => if m' =? m then Some x else offer_of m r
  end.

Definition offers_set (m : mac) (x : option ip4) (o : list (mac * ip4)) : list (mac * ip4) :=
  let o' := filter (fun e => negb (fst e =? m)) o in
  match x with Some v => (m, v) :: o' | None => o' end.

(* ---------------------------------------------------------------- *)
(* frames the handler builds *)

(* RequestRaw(dst, sender, target) / reply(dst, sender, target) *)
Definition request_raw (dst : mac) (sender target : addr) : frame :=
  mkFrame 1 dst (amac sender) (aip sender) (amac target) (aip target).
Definition reply_raw (dst : mac) (sender target : addr) : frame :=
  mkFrame 2 dst (amac sender) (aip sender) (amac target) (aip target).

(* AnnounceTo(dst, ip): RequestRaw(dst, {hostMAC, ip}, {broadcast, ip}) *)
Definition announce_ip (c : cfg) (dst : mac) (ip : ip4) : frame :=
  mkFrame 1 dst (host_mac c) ip MAC_BCAST ip.
Definition announce (c : cfg) (dst : mac) : frame := announce_ip c dst (router_ip c).

(* RequestRaw(addr.MAC, RouterAddr4, RouterAddr4): restores the router's real MAC *)
Definition restore (c : cfg) (dst : mac) : frame :=
  mkFrame 1 dst (router_mac c) (router_ip c) (router_mac c) (router_ip c).

(* Reply(srcMAC, {hostMAC, DstIP}, {srcMAC, srcIP}) *)
Definition spoof_reply (c : cfg) (p : arp_pkt) : frame :=
  mkFrame 2 (psmac p) (host_mac c) (ptip p) (psmac p) (psip p).

(* Reply(srcMAC, {hostMAC, DstIP}, {srcMAC, IP4Broadcast}) *)
Definition probe_reject (c : cfg) (p : arp_pkt) : frame :=
  mkFrame 2 (psmac p) (host_mac c) (ptip p) (psmac p) IP4_BCAST.

(* Request / RequestTo: RequestRaw(dst, HostAddr4, {broadcast, ip}) *)
Definition request_to (c : cfg) (dst : mac) (ip : ip4) : frame :=
  mkFrame 1 dst (host_mac c) (host_ip c) MAC_BCAST ip.

(* Probe(ip): RequestRaw(broadcast, {hostMAC, 0.0.0.0}, {00:00:00:00:00:00, ip}) *)
Definition probe_frame (c : cfg) (ip : ip4) : frame :=
  mkFrame 1 MAC_BCAST (host_mac c) IP4_ZERO MAC_ZERO ip.

(* ---------------------------------------------------------------- *)
(* the one place where frames leave: session.Conn.WriteTo *)

Definition set_failn (s : state) (k : nat) : state :=
  mkState (hunt s) (loops s) (closed s) (offers s) k (rxq s) (scans s).

(* result: new state, what went onto the wire, whether WriteTo returned nil *)
Definition wr (s : state) (f : frame) : state * list frame * bool :=
  match failn s with
  | O => (s, [f], true)
  | S k => (set_failn s k, [], false)
  end.

(* ---------------------------------------------------------------- *)
(* steps *)

Definition set_hunt (s : state) (h : list addr) : state := mkState h (loops s) (closed s) (offers s) (failn s) (rxq s) (scans s).
Definition set_loops (s : state) (l : list loop) : state := mkState (hunt s) l (closed s) (offers s) (failn s) (rxq s) (scans s).
Definition set_closed (s : state) : state := mkState (hunt s) (loops s) true (offers s) (failn s) (rxq s) (scans s).
Definition set_offers (s : state) (o : list (mac * ip4)) : state := mkState (hunt s) (loops s) (closed s) o (failn s) (rxq s) (scans s).
Definition set_rxq (s : state) (q : list frame) : state := mkState (hunt s) (loops s) (closed s) (offers s) (failn s) q (scans s).
Definition set_scans (s : state) (l : list scan) : state := mkState (hunt s) (loops s) (closed s) (offers s) (failn s) (rxq s) l.

(* StartHunt: found -> return; else insert and "go h.spoofLoop(addr)" *)
Definition start_hunt (s : state) (a : addr) : state * list frame :=
  if hunt_has (amac a) (hunt s) then (s, [])
  else (mkState (hunt s ++ [a]) (loops s ++ [mkLoop a PTop]) (closed s) (offers s) (failn s) (rxq s) (scans s), []).

(* StopHunt: delete(h.huntList, mac); nothing is sent here *)
Definition stop_hunt (s : state) (m : mac) : state * list frame :=
  (set_hunt s (hunt_del m (hunt s)), []).

Definition set_pc (i : nat) (p : pc) (l : list loop) : list loop :=
  match nth_error l i with
  | Some lp => set_nth i (mkLoop (laddr lp) p) l
  | None => l
  end.

(* Lock; targetAddr, hunting := h.huntList[string(addr.MAC)]; Unlock *)
Definition lookup (s : state) (i : nat) : state * list frame :=
  match nth_error (loops s) i with
  | Some lp =>
      match lpc lp with
      | PTop | PWait =>
          (* "Lock; targetAddr, hunting := huntList[addr.MAC]; closed := h.closed; Unlock" (/repo 161661f: h.closed is
             read inside the lock section): a closed handler ends the loop right here, silently *)
          let p := if closed s then PDone else PLooked (hunt_find (amac (laddr lp)) (hunt s)) in
          (set_loops s (set_pc i p (loops s)), [])
      | _ => (s, [])        (* not at this point of the program: nothing happens *)
      end
  | None => (s, [])
  end.

(* "if !hunting || closed { if !closed { RequestRaw(restore) }; return }; AnnounceTo(targetAddr.MAC, routerIP)" up to the
   write, on the LOCAL copies taken under the lock: no shared state is read here any more *)
Definition check (c : cfg) (s : state) (i : nat) : state * list frame :=
  match nth_error (loops s) i with
  | Some lp =>
      match lpc lp with
      | PLooked found =>
          let p :=
            match found with
            | Some target => PSend (announce c (amac target)) true
            | None => PSend (restore c (amac (laddr lp))) false
            end in
          (set_loops s (set_pc i p (loops s)), [])
      | _ => (s, [])
      end
  | None => (s, [])
  end.

(* the write, and what follows it: after the restoring request the loop returns whatever WriteTo said;
   after an announcement it goes to its select whatever WriteTo said (a refused announcement is logged and
   tried again at the next tick — repair of K4; the original code returned, leaving the hunt entry behind) *)
Definition send (s : state) (i : nat) : state * list frame :=
  match nth_error (loops s) i with
  | Some lp =>
      match lpc lp with
      | PSend f cont =>
          let '(s1, out, ok) := wr s f in
          let p := if cont then PWait else PDone in
          (set_loops s1 (set_pc i p (loops s1)), out)
      | _ => (s, [])
      end
  | None => (s, [])
  end.

Inductive arp_class := CReply | CRequest | CProbe | CAnnouncement | CInvalidOp | CLinkLocal.

Definition classify (p : arp_pkt) : arp_class :=
  if link_local (psip p) || link_local (ptip p) then CLinkLocal
  else if pop p =? 2 then CReply
  else if pop p =? 1 then
    if psip p =? ptip p then CAnnouncement
    else if psip p =? IP4_ZERO then CProbe
    else CRequest
  else CInvalidOp.

Definition wr2 (s : state) (f : frame) : state * list frame := fst (wr s f).

(* ProcessPacket after the PayloadID / IsValid tests (h.closed is read without a lock: residue).
   Request branch: "Lock; _, hunting := huntList[srcMAC]; Unlock; if hunting && DstIP == router { Reply }" — the
   reply is decided here and written by RxReply.  Probe branch: "offer := session.DHCPv4IPOffer(srcMAC)" (under
   the session's lock) "; if offer.Is4() && offer != DstIP && HomeLAN4.Contains(DstIP) && DstIP != router { Reply }":
   the probe-reject is decided on that reading of the offer table and written by RxReply as well. *)
Definition rx_arp (c : cfg) (s : state) (p : arp_pkt) : state * list frame :=
  if closed s then (s, [])
  else
  match classify p with
  | CRequest =>
      if hunt_has (psmac p) (hunt s) && (ptip p =? router_ip c)
      then (set_rxq s (rxq s ++ [spoof_reply c p]), []) else (s, [])
  | CProbe =>
      match offer_of (psmac p) (offers s) with
      | Some offer =>
          if negb (offer =? ptip p) && (in_lan c (ptip p) && negb (ptip p =? router_ip c))
          then (set_rxq s (rxq s ++ [probe_reject c p]), []) else (s, [])
      | None => (s, [])
      end
  | _ => (s, [])
  end.

(* ---- ProcessPacket from bytes: PayloadID, ARP.IsValid and the field getters with Go's slice rules ---- *)

Definition N_of_bytes (l : bytes) : N := fold_left (fun acc b => acc * 256 + b) l 0.

Definition ARP_LEN : nat := 28.

(* ARP.IsValid *)
Definition arp_is_valid (b : slice) : res unit :=
  if Nat.ltb (len b) ARP_LEN then Err EFrameLen
  else (ht <- be16_at b 0 ;;
        if negb (ht =? 1) then Err EParseFrame
        else (pr <- be16_at b 2 ;;
              if negb (pr =? 2048) then Err EOther
              else (hl <- idx b 4 ;;
                    if negb (hl =? 6) then Err EOther
                    else (pl <- idx b 5 ;;
                          if negb (pl =? 4) then Err EOther else Ok tt))))%res.

(* Operation(), SrcMAC() = b[8:14], SrcIP() = b[14:18], DstMAC() = b[18:24], DstIP() = b[24:28] *)
Definition arp_decode (ethsrc : mac) (b : slice) : res arp_pkt :=
  (op <- be16_at b 6 ;;
   sm <- sl b 8 14 ;;
   si <- sl b 14 18 ;;
   tm <- sl b 18 24 ;;
   ti <- sl b 24 28 ;;
   Ok (mkPkt op ethsrc (N_of_bytes (view sm)) (N_of_bytes (view si)) (N_of_bytes (view tm)) (N_of_bytes (view ti))))%res.

Definition ETH_P_ARP : N := 2054.

(* Parse gives PayloadID = PayloadARP exactly for EtherType 0x0806; ProcessPacket: PayloadID test,
   IsValid, then the packet logic *)
Definition process_raw (c : cfg) (s : state) (ethertype : N) (payload : bytes) : res (state * list frame) :=
  if negb (ethertype =? ETH_P_ARP) then Err EParseFrame
  else (let b := of_bytes payload in
        _ <- arp_is_valid b ;;
        p <- arp_decode 0 b ;;
        Ok (rx_arp c s p))%res.

(* ---- public send API ---- *)

(* Scan: "for host := 1; host < n; host++ { ip = ip.Next(); skip router and host; if h.closed return; Request(ip);
   sleep }" with n = 2^(32-bits) - 1; a write error that is not temporary ends the scan *)
Definition scan_ips (c : cfg) : list ip4 :=
  map (fun k => lan_addr c + N.of_nat k) (seq 1 (N.to_nat (2 ^ (32 - lan_bits c) - 2))).

Definition set_scan (j : nat) (x : scan) (l : list scan) : list scan :=
  match nth_error l j with Some _ => set_nth j x l | None => l end.

Definition scan_check (c : cfg) (s : state) (j : nat) : state * list frame :=
  match nth_error (scans s) j with
  | Some (mkScan (ip :: r) None) =>
      if (ip =? router_ip c) || (ip =? host_ip c) then (set_scans s (set_scan j (mkScan r None) (scans s)), [])
      else if closed s then (set_scans s (set_scan j (mkScan [] None) (scans s)), [])
      else (set_scans s (set_scan j (mkScan r (Some ip)) (scans s)), [])
  | _ => (s, [])
  end.

Definition scan_send (c : cfg) (s : state) (j : nat) : state * list frame :=
  match nth_error (scans s) j with
  | Some (mkScan r (Some ip)) =>
      let '(s1, out, ok) := wr s (request_to c MAC_BCAST ip) in
      (set_scans s1 (set_scan j (mkScan (if ok then r else []) None) (scans s1)), out)
  | _ => (s, [])
  end.

(* the write of the k-th reply in flight *)
Definition remove_nth {A} (k : nat) (l : list A) : list A := (firstn k l ++ skipn (S k) l)%list.
Definition rx_reply (s : state) (k : nat) : state * list frame :=
  match nth_error (rxq s) k with
  | Some f => let '(s1, out, _) := wr s f in (set_rxq s1 (remove_nth k (rxq s1)), out)
  | None => (s, [])
  end.

(* WhoIs: up to three rounds of "FindIP fails -> Request(ip)"; a write error ends it *)
Fixpoint whois_go (c : cfg) (s : state) (ip : ip4) (n : nat) : state * list frame :=
  match n with
  | O => (s, [])
  | S n' => let '(s1, out, ok) := wr s (request_to c MAC_BCAST ip) in
            if ok then let '(s2, out2) := whois_go c s1 ip n' in (s2, (out ++ out2)%list) else (s1, out)
  end.

Definition step (c : cfg) (s : state) (e : event) : state * list frame :=
  match e with
  | StartHunt a => start_hunt s a
  | StartHuntInvalid => (s, [])
  | StopHunt m => stop_hunt s m
  | Close => (set_closed s, [])
  | Lookup i => lookup s i
  | Check i => check c s i
  | Send i => send s i
  | RxArp p => rx_arp c s p
  | RxReply k => rx_reply s k
  | RxRaw et b => match process_raw c s et b with Ok r => r | _ => (s, []) end
  | SetOffer m o => (set_offers s (offers_set m o (offers s)), [])
  | FailWrites k => (set_failn s k, [])
  | ApiRequest ip => wr2 s (request_to c MAC_BCAST ip)
  | ApiRequestTo dst ip => wr2 s (request_to c dst ip)
  | ApiProbe ip => wr2 s (probe_frame c ip)
  | ApiAnnounceTo dst ip => wr2 s (announce_ip c dst ip)
  | ApiRequestRaw dst sender target => wr2 s (request_raw dst sender target)
  | ApiReply dst sender target => wr2 s (reply_raw dst sender target)
  | ApiScan => (set_scans s (scans s ++ [mkScan (scan_ips c) None]), [])
  | ScanCheck j => scan_check c s j
  | ScanSend j => scan_send c s j
  | ApiWhoIs ip n => whois_go c s ip (Nat.min n 3)
  | ApiInvalid => (s, [])
  end.

(* the run: for every position the state before the event, the event and what it emitted *)
Fixpoint trace (c : cfg) (s : state) (evs : list event) : list (state * event * list frame) :=
  match evs with
  | [] => []
  | e :: r => let '(s', out) := step c s e in (s, e, out) :: trace c s' r
  end.

Fixpoint final (c : cfg) (s : state) (evs : list event) : state :=
  match evs with
  | [] => s
  | e :: r => final c (fst (step c s e)) r
  end.

Definition outputs (c : cfg) (s : state) (evs : list event) : list (list frame) :=
  map snd (trace c s evs).

(* ---------------------------------------------------------------- *)
(* vocabulary of the property *)

(* a forged frame binds the router's IP to our MAC *)
Definition forged (c : cfg) (f : frame) : bool :=
  (fsip f =? router_ip c) && (fsmac f =? host_mac c).

Definition hunted (s : state) (m : mac) : bool := hunt_has m (hunt s).

(* configuration sanity used by the theorems: we are not the router, and the router has an address *)
Definition cfg_ok (c : cfg) : Prop :=
  host_mac c <> router_mac c /\ host_ip c <> router_ip c /\ router_ip c <> 0.

(* The CALLER asks for a forged frame: a public send call whose arguments put (our MAC, router IP) into the
   sender fields.  Only AnnounceTo, RequestRaw and Reply can do that; what they send is the caller's doing. *)
Definition caller_forged (c : cfg) (e : event) : bool :=
  match e with
  | ApiAnnounceTo _ ip => ip =? router_ip c
  | ApiRequestRaw _ sender _ | ApiReply _ sender _ => (aip sender =? router_ip c) && (amac sender =? host_mac c)
  | _ => false
  end.

(* loop i holds a decision, taken under the lock while m was in the hunt list, to send m a forged frame *)
Definition armed_pc (c : cfg) (m : mac) (p : pc) : bool :=
  match p with
  | PLooked (Some t) => amac t =? m
  | PSend f _ => forged c f && (fedst f =? m)
  | _ => false
  end.
Definition forged_for (c : cfg) (m : mac) (f : frame) : bool := forged c f && (fedst f =? m).
(* loops armed for m, plus spoof replies to m already decided by ProcessPacket calls in flight *)
Definition armed (c : cfg) (m : mac) (s : state) : nat :=
  (List.length (filter (fun lp => armed_pc c m (lpc lp)) (loops s))
   + List.length (filter (forged_for c m) (rxq s)))%nat.

(* shapes of events, for statements about runs *)
Definition is_loop_event (i : nat) (e : event) : bool :=
  match e with Lookup j | Check j | Send j => Nat.eqb i j | _ => false end.
Definition is_close (e : event) : bool := match e with Close => true | _ => false end.
Definition is_start_of (m : mac) (e : event) : bool :=
  match e with StartHunt a => amac a =? m | _ => false end.
Definition is_api_send (e : event) : bool :=
  match e with
  | ApiRequest _ | ApiRequestTo _ _ | ApiProbe _ | ApiAnnounceTo _ _ | ApiRequestRaw _ _ _ | ApiReply _ _ _
  | ApiScan | ScanCheck _ | ScanSend _ | ApiWhoIs _ _ | ApiInvalid => true
  | _ => false
  end.
(* frames a call of the public send API emits are the caller's; a Scan's steps are the caller's call too but
   they obey Close (see pending_of / C13_close_stops) *)
Definition is_scan_step (e : event) : bool := match e with ScanCheck _ | ScanSend _ => true | _ => false end.
Definition none_of (P : event -> bool) (evs : list event) : Prop :=
  forallb (fun e => negb (P e)) evs = true.

(* loop i exists, was started for address a, and stands at p *)
Definition loop_at (s : state) (i : nat) (a : addr) (p : pc) : Prop :=
  nth_error (loops s) i = Some (mkLoop a p).
Definition at_select (p : pc) : bool := match p with PTop | PWait => true | _ => false end.
Definition is_done (p : pc) : bool := match p with PDone => true | _ => false end.
Definition live (s : state) (i : nat) : bool :=
  match nth_error (loops s) i with Some lp => negb (is_done (lpc lp)) | None => false end.

Definition pc_of (s : state) (i : nat) : option pc := option_map lpc (nth_error (loops s) i).

(* ---- recorded defect classes ----
   None is left in the current tree.  Found on the original code and repaired in /repo (known_findings.txt,
   FIXLOG.md): K1 probe-reject for the router's address to an unhunted MAC; K2 = DESIGN #27 loop membership by
   IP; K3 forged replies on the receive path after Close; K4 a refused write of an announcement ended the loop
   and left the hunt entry behind.  The refutation theorems about the unrepaired models are in the history
   of this file (verif commits e3a3954, ae1e0b3, dd6b3e8, 87e4145). *)

(* ---- real time ----
   A timed run attaches a timestamp (any unit) to every event.  Real time enters the theorems only through
   the FAIRNESS HYPOTHESIS [fair c P tr]: whenever a spoof loop has not returned, then within one ticker
   period P (as long as the run is observed that long) it either returns or begins and completes an
   iteration: it passes its select and does its lookup, then its check, then its write, with no other step of
   that loop in between.  It is a hypothesis about the Go runtime (6 s ticker,
   scheduler), not about the handler. *)
Definition timed := list (Z * event).
Definition events (tr : timed) : list event := map snd tr.
Definition state_before (c : cfg) (tr : timed) (k : nat) : state :=
  final c init_state (firstn k (events tr)).
Definition output_at (c : cfg) (tr : timed) (k : nat) : option (list frame) :=
  nth_error (outputs c init_state (events tr)) k.

Definition time_ordered (tr : timed) : Prop :=
  forall a b ta ea tb eb, (a <= b)%nat ->
    nth_error tr a = Some (ta, ea) -> nth_error tr b = Some (tb, eb) -> (ta <= tb)%Z.

Definition observed_until (tr : timed) (t : Z) : Prop :=
  exists k' t' e', nth_error tr k' = Some (t', e') /\ (t <= t')%Z.

Definition fair (c : cfg) (P : Z) (tr : timed) : Prop :=
  forall k t e i,
    nth_error tr k = Some (t, e) ->
    live (state_before c tr (S k)) i = true ->
    observed_until tr (t + P) ->
    (* by t + P the loop has returned ... *)
    (exists j tj ej, (k < j)%nat /\ nth_error tr j = Some (tj, ej) /\ (tj <= t + P)%Z /\
                     live (state_before c tr (S j)) i = false)
    \/
    (* ... or it has begun and completed an iteration *)
    (exists j1 j2 j3 t1 t2 t3,
      (k < j1)%nat /\ (j1 < j2)%nat /\ (j2 < j3)%nat /\ (t3 <= t + P)%Z /\
      nth_error tr j1 = Some (t1, Lookup i) /\ nth_error tr j2 = Some (t2, Check i) /\
      nth_error tr j3 = Some (t3, Send i) /\
      (exists p, pc_of (state_before c tr j1) i = Some p /\ at_select p = true) /\
      (forall x tx ex, (j1 < x)%nat -> (x < j3)%nat -> x <> j2 -> nth_error tr x = Some (tx, ex) ->
                       is_loop_event i ex = false)).
