(* Model/ArpSpoof.v — event-system model of handlers/arp_spoofer (arp.go, spoof.go).

   Mirrors the Go code statement by statement, defects included:
     StartHunt / StopHunt / Close           spoof.go:32-68, arp.go:62-70
     spoofLoop (one iteration = Wake)       spoof.go:74-124   (membership looked up by MAC, the map key,
                                                               since the repair of DESIGN #27; before it: findHuntByIP)
     ProcessPacket (RxArp)                  arp.go:284-398
   plus the one session fact ProcessPacket consults (DHCPv4IPOffer), which the
   environment changes with SetOffer.

   Granularity / atomicity: one event = one critical section or one loop
   iteration.  A loop iteration (lookup under arpMutex, test of h.closed,
   send) is modelled as atomic; the Go code releases the mutex between the
   lookup and the send and reads h.closed without a lock, so a StopHunt or
   Close that lands inside that window (microseconds) is ordered after the
   Wake in the model.  Sends are assumed to succeed (the loop returns when
   AnnounceTo fails; a recording/real connection that fails is outside the
   model).  Real time does not appear here: a Wake is "loop i passes its
   select (ticker or closeChan) or starts running". *)
From PV Require Import Base.Prelude.
Open Scope N_scope.

Definition mac := N.   (* 48-bit value of the 6 address bytes, big endian *)
Definition ip4 := N.   (* 32-bit value of the 4 address bytes, big endian *)

Record addr := mkAddr { amac : mac; aip : ip4 }.

(* NICInfo facts the handler reads *)
Record cfg := mkCfg {
  host_mac : mac;      (* NICInfo.HostAddr4.MAC *)
  router_mac : mac;    (* NICInfo.RouterAddr4.MAC *)
  router_ip : ip4;     (* NICInfo.RouterAddr4.IP *)
  lan_addr : ip4;      (* NICInfo.HomeLAN4 address *)
  lan_bits : N         (* NICInfo.HomeLAN4 bits, 0..32 *)
}.

Definition MAC_BCAST : mac := 281474976710655.   (* ff:ff:ff:ff:ff:ff *)
Definition IP4_BCAST : ip4 := 4294967295.        (* 255.255.255.255 = packet.IP4Broadcast *)
Definition IP4_ZERO : ip4 := 0.                  (* packet.IPv4zero *)

(* netip.Prefix.Contains for IPv4: xor, shift away the host bits (shift by 32 gives 0) *)
Definition in_lan (c : cfg) (x : ip4) : bool :=
  N.shiftr (N.lxor (lan_addr c) x) (32 - lan_bits c) =? 0.

(* netip.Addr.IsLinkLocalUnicast for IPv4: 169.254.0.0/16 *)
Definition link_local (x : ip4) : bool := x / 65536 =? 43518.

(* an emitted ARP frame: operation, Ethernet destination, ARP sender and target *)
Record frame := mkFrame {
  fop : N; fedst : mac; fsmac : mac; fsip : ip4; ftmac : mac; ftip : ip4 }.

(* a received, valid ARP packet: Ethernet source + decoded ARP fields *)
Record arp_pkt := mkPkt {
  pop : N; pethsrc : mac; psmac : mac; psip : ip4; ptmac : mac; ptip : ip4 }.

Record loop := mkLoop { laddr : addr; alive : bool }.

Record state := mkState {
  hunt : list addr;            (* huntList: at most one entry per MAC (key = amac) *)
  loops : list loop;           (* every spoofLoop goroutine ever started, in start order *)
  closed : bool;               (* h.closed / closeChan closed *)
  offers : list (mac * ip4)    (* session view: MACEntry.IP4Offer when it Is4() *)
}.

Definition init_state : state := mkState [] [] false [].

Inductive event :=
| StartHunt (a : addr)            (* StartHunt with a 6-byte MAC and an IPv4 address *)
| StartHuntInvalid                (* StartHunt with nil MAC or an address that is not Is4(): ErrInvalidIP *)
| StopHunt (m : mac)
| Close
| Wake (i : nat)                  (* loop i runs one iteration (goroutine start, ticker or closeChan) *)
| RxArp (p : arp_pkt)             (* ProcessPacket on a valid ARP frame *)
| SetOffer (m : mac) (o : option ip4).   (* environment: the session's DHCP offer for m changes *)

(* ---------------------------------------------------------------- *)
(* hunt list *)

Definition hunt_has (m : mac) (h : list addr) : bool := existsb (fun e => amac e =? m) h.

Definition hunt_del (m : mac) (h : list addr) : list addr := filter (fun e => negb (amac e =? m)) h.

(* h.huntList[string(addr.MAC)]: the entry stored under the MAC (at most one) *)
Definition hunt_find (m : mac) (h : list addr) : option addr := find (fun e => amac e =? m) h.

(* session.DHCPv4IPOffer(mac) restricted to offers that are Is4() *)
Fixpoint offer_of (m : mac) (o : list (mac * ip4)) : option ip4 :=
  match o with
  | [] => None
  | (m', x) :: r => if m' =? m then Some x else offer_of m r
  end.

Definition offers_set (m : mac) (x : option ip4) (o : list (mac * ip4)) : list (mac * ip4) :=
  let o' := filter (fun e => negb (fst e =? m)) o in
  match x with Some v => (m, v) :: o' | None => o' end.

(* ---------------------------------------------------------------- *)
(* frames the handler builds *)

(* AnnounceTo(dst, routerIP): RequestRaw(dst, {hostMAC, routerIP}, {broadcast, routerIP}) *)
Definition announce (c : cfg) (dst : mac) : frame :=
  mkFrame 1 dst (host_mac c) (router_ip c) MAC_BCAST (router_ip c).

(* RequestRaw(addr.MAC, RouterAddr4, RouterAddr4): restores the router's real MAC *)
Definition restore (c : cfg) (dst : mac) : frame :=
  mkFrame 1 dst (router_mac c) (router_ip c) (router_mac c) (router_ip c).

(* Reply(srcMAC, {hostMAC, DstIP}, {srcMAC, srcIP}) *)
Definition spoof_reply (c : cfg) (p : arp_pkt) : frame :=
  mkFrame 2 (psmac p) (host_mac c) (ptip p) (psmac p) (psip p).

(* Reply(srcMAC, {hostMAC, DstIP}, {srcMAC, IP4Broadcast}) *)
Definition probe_reject (c : cfg) (p : arp_pkt) : frame :=
  mkFrame 2 (psmac p) (host_mac c) (ptip p) (psmac p) IP4_BCAST.

(* ---------------------------------------------------------------- *)
(* steps *)

Definition set_hunt (s : state) (h : list addr) : state := mkState h (loops s) (closed s) (offers s).
Definition set_loops (s : state) (l : list loop) : state := mkState (hunt s) l (closed s) (offers s).
Definition set_closed (s : state) : state := mkState (hunt s) (loops s) true (offers s).
Definition set_offers (s : state) (o : list (mac * ip4)) : state := mkState (hunt s) (loops s) (closed s) o.

(* StartHunt: found -> return; else insert and "go h.spoofLoop(addr)" *)
Definition start_hunt (s : state) (a : addr) : state * list frame :=
  if hunt_has (amac a) (hunt s) then (s, [])
  else (mkState (hunt s ++ [a]) (loops s ++ [mkLoop a true]) (closed s) (offers s), []).

(* StopHunt: delete(h.huntList, mac); nothing is sent here *)
Definition stop_hunt (s : state) (m : mac) : state * list frame :=
  (set_hunt s (hunt_del m (hunt s)), []).

Definition kill (i : nat) (l : list loop) : list loop :=
  match nth_error l i with
  | Some lp => set_nth i (mkLoop (laddr lp) false) l
  | None => l
  end.

(* one iteration of spoofLoop, from the top of the for to the select *)
Definition wake (c : cfg) (s : state) (i : nat) : state * list frame :=
  match nth_error (loops s) i with
  | None => (s, [])
  | Some lp =>
      if negb (alive lp) then (s, [])     (* the goroutine has returned: nothing can happen *)
      else
        match hunt_find (amac (laddr lp)) (hunt s) with
        | Some target =>
            if closed s then (set_loops s (kill i (loops s)), [])            (* !hunting || h.closed; closed: no restore *)
            else (s, [announce c (amac target)])                               (* AnnounceTo(targetAddr.MAC, router IP) *)
        | None =>
            if closed s then (set_loops s (kill i (loops s)), [])
            else (set_loops s (kill i (loops s)), [restore c (amac (laddr lp))]) (* RequestRaw(addr.MAC, router, router) *)
        end
  end.

Inductive arp_class := CReply | CRequest | CProbe | CAnnouncement | CInvalidOp | CLinkLocal.

Definition classify (p : arp_pkt) : arp_class :=
  if link_local (psip p) || link_local (ptip p) then CLinkLocal
  else if pop p =? 2 then CReply
  else if pop p =? 1 then
    if psip p =? ptip p then CAnnouncement
    else if psip p =? IP4_ZERO then CProbe
    else CRequest
  else CInvalidOp.

(* ProcessPacket after the PayloadID / IsValid tests (h.closed is read without a lock: residue) *)
Definition rx_arp (c : cfg) (s : state) (p : arp_pkt) : state * list frame :=
  if closed s then (s, [])       (* "if h.closed { return nil }" (repair of K3) *)
  else
  match classify p with
  | CRequest =>
      if hunt_has (psmac p) (hunt s) && (ptip p =? router_ip c)
      then (s, [spoof_reply c p]) else (s, [])
  | CProbe =>
      match offer_of (psmac p) (offers s) with
      | Some offer =>
          if negb (offer =? ptip p) && (in_lan c (ptip p) && negb (ptip p =? router_ip c))   (* not for the router's address: repair of K1 *)
          then (s, [probe_reject c p]) else (s, [])
      | None => (s, [])
      end
  | _ => (s, [])
  end.

Definition step (c : cfg) (s : state) (e : event) : state * list frame :=
  match e with
  | StartHunt a => start_hunt s a
  | StartHuntInvalid => (s, [])
  | StopHunt m => stop_hunt s m
  | Close => (set_closed s, [])
  | Wake i => wake c s i
  | RxArp p => rx_arp c s p
  | SetOffer m o => (set_offers s (offers_set m o (offers s)), [])
  end.

(* the run: for every position the state before the event, the event and what it emitted *)
Fixpoint trace (c : cfg) (s : state) (evs : list event) : list (state * event * list frame) :=
  match evs with
  | [] => []
  | e :: r => let '(s', out) := step c s e in (s, e, out) :: trace c s' r
  end.

Fixpoint final (c : cfg) (s : state) (evs : list event) : state :=
  match evs with
  | [] => s
  | e :: r => final c (fst (step c s e)) r
  end.

Definition outputs (c : cfg) (s : state) (evs : list event) : list (list frame) :=
  map snd (trace c s evs).

(* ---------------------------------------------------------------- *)
(* vocabulary of the property *)

(* a forged frame binds the router's IP to our MAC *)
Definition forged (c : cfg) (f : frame) : bool :=
  (fsip f =? router_ip c) && (fsmac f =? host_mac c).

Definition hunted (s : state) (m : mac) : bool := hunt_has m (hunt s).

(* configuration sanity used by the theorems: we are not the router *)
Definition cfg_ok (c : cfg) : Prop := host_mac c <> router_mac c.

(* shapes of events, for statements about runs *)
Definition is_wake_of (i : nat) (e : event) : bool :=
  match e with Wake j => Nat.eqb i j | _ => false end.
Definition is_close (e : event) : bool := match e with Close => true | _ => false end.
Definition is_start_of (m : mac) (e : event) : bool :=
  match e with StartHunt a => amac a =? m | _ => false end.
Definition none_of (P : event -> bool) (evs : list event) : Prop :=
  forallb (fun e => negb (P e)) evs = true.

(* loop i exists, was started for address a, and is running / has returned *)
Definition loop_is (s : state) (i : nat) (a : addr) (running : bool) : Prop :=
  nth_error (loops s) i = Some (mkLoop a running).

(* ---- real time ----
   A timed run attaches a timestamp (any unit) to every event.  Real time enters the theorems only through
   the FAIRNESS HYPOTHESIS [fair c P tr]: a spoof loop that is running passes its select (6 s ticker or
   closeChan) — i.e. a Wake of that loop occurs — within one ticker period P, as long as the run is
   observed that long.  It is a hypothesis about the Go runtime (ticker, scheduler), not about the handler. *)
Definition timed := list (Z * event).
Definition events (tr : timed) : list event := map snd tr.
Definition state_before (c : cfg) (tr : timed) (k : nat) : state :=
  final c init_state (firstn k (events tr)).
Definition output_at (c : cfg) (tr : timed) (k : nat) : option (list frame) :=
  nth_error (outputs c init_state (events tr)) k.

Definition time_ordered (tr : timed) : Prop :=
  forall a b ta ea tb eb, (a <= b)%nat ->
    nth_error tr a = Some (ta, ea) -> nth_error tr b = Some (tb, eb) -> (ta <= tb)%Z.

Definition observed_until (tr : timed) (t : Z) : Prop :=
  exists k' t' e', nth_error tr k' = Some (t', e') /\ (t <= t')%Z.

Definition fair (c : cfg) (P : Z) (tr : timed) : Prop :=
  forall k t e i a,
    nth_error tr k = Some (t, e) ->
    loop_is (state_before c tr (S k)) i a true ->
    observed_until tr (t + P) ->
    exists j t', (k < j)%nat /\ nth_error tr j = Some (t', Wake i) /\ (t' <= t + P)%Z.

(* ---- recorded defect classes ----
   None is left in the current tree.  The three classes found on the original code were repaired in /repo
   (see known_findings.txt, FIXLOG.md):
     K1  probe-reject for the ROUTER's address sent to an unhunted MAC (forged binding outside the hunt list)
     K2  DESIGN #27: loop membership looked up by IP — a stopped MAC sharing its IPv4 with a hunted MAC was never restored
     K3  forged replies on the receive path after Close
   The refutation theorems about the unrepaired model are in the history of this file (verif commits
   e3a3954, ae1e0b3, dd6b3e8). *)
