(* Model/Icmp6Spoof.v — event-system model of handlers/icmp_spoofer:
     Handler6.StartHunt / StopHunt / spoofLoop   (icmp6spoof.go)
     Handler6.Close, ProcessPacket (RA case)     (icmp6.go:67-74, 172-227)
     findOrCreateRouter                          (icmp6radv.go:47-57)
     packet.AddrList (set by MAC)                (addr.go:41-89)
   State: hunt list, one record per spoofLoop goroutine, LANRouters (association
   list in creation order; Go iterates the map in arbitrary order — a burst is a
   set and every theorem below is order-insensitive), the default router, the
   package-global RA counter [repeat], the closed flag and whether the current
   closeChan is a closed channel.
   One pass of a spoofLoop goroutine is cut where it releases the lock: [Lookup i order] (under
   h.Lock(): membership, closed, router known, the list of router addresses in map order) and one
   [Send i] per collected address (outside the lock, no further test), so that StartHunt, StopHunt,
   Close, received packets and other loops interleave between the decision and each send.
   Real time enters only through WHEN a Lookup happens (timer 2-2.8 s, or the RA wake-up). *)
From PV Require Export Base.Prelude Model.Icmp6SpoofRA.
Open Scope N_scope.

(* netip.Addr: [] = zero value (invalid), 4 bytes = IPv4, 16 bytes = IPv6 (incl. 4in6) *)
Record addr := mkAddr { a_mac : bytes; a_ip : bytes }.

Fixpoint bytes_eqb (a b : bytes) : bool :=
  match a, b with
  | [], [] => true
  | x :: a', y :: b' => (x =? y) && bytes_eqb a' b'
  | _, _ => false
  end.

Definition is4 (ip : bytes) : bool := (List.length ip =? 4)%nat.
Definition is6 (ip : bytes) : bool := (List.length ip =? 16)%nat.
Definition ip_valid (ip : bytes) : bool := is4 ip || is6 ip.
Definition is4in6 (ip : bytes) : bool :=
  is6 ip && bytes_eqb (firstn 12 ip) [0;0;0;0;0;0;0;0;0;0;255;255].
(* netip.Addr.IsLinkLocalUnicast (go1.23): 4in6 is unmapped first *)
Definition is_llu (ip : bytes) : bool :=
  if is4in6 ip then (at_ ip 12 =? 169) && (at_ ip 13 =? 254)
  else if is4 ip then (at_ ip 0 =? 169) && (at_ ip 1 =? 254)
  else if is6 ip then (N.land (be16_at ip 0) 65472 =? 65152)     (* &0xffc0 == 0xfe80 *)
  else false.
(* IsLinkLocalMulticast: v6u16(0)&0xff0f == 0xff02 (4in6 unmapped: 224.0.0.x) *)
Definition is_llm (ip : bytes) : bool :=
  if is4in6 ip then (at_ ip 12 =? 224) && (at_ ip 13 =? 0) && (at_ ip 14 =? 0)
  else if is4 ip then (at_ ip 0 =? 224) && (at_ ip 1 =? 0) && (at_ ip 2 =? 0)
  else if is6 ip then (N.land (be16_at ip 0) 65295 =? 65282)
  else false.

Definition all_nodes : bytes := [255;2;0;0;0;0;0;0;0;0;0;0;0;0;0;1].     (* ff02::1 *)

(* ---- AddrList ---- *)
Fixpoint al_index (l : list addr) (mac : bytes) : option nat :=
  match l with
  | [] => None
  | a :: r => if bytes_eqb (a_mac a) mac then Some O
              else match al_index r mac with Some i => Some (S i) | None => None end
  end.
Definition al_has (l : list addr) (mac : bytes) : bool :=
  match al_index l mac with Some _ => true | None => false end.
Definition al_add (l : list addr) (a : addr) : list addr :=
  if al_has l (a_mac a) then l else l ++ [a].
Fixpoint al_del (l : list addr) (mac : bytes) : list addr :=
  match l with
  | [] => []
  | a :: r => if bytes_eqb (a_mac a) mac then r else a :: al_del r mac
  end.

(* ---- state ---- *)
(* one spoofLoop goroutine: its destination, whether it still runs, and the router addresses it
   collected under the lock and has not sent to yet (the local slice [list] of spoofLoop) *)
Record sloop := mkLoop { l_dst : addr; l_alive : bool; l_pending : list bytes }.

Record state := mkSt {
  hunt : list addr;
  loops : list sloop;
  routers : list (bytes * router);     (* LANRouters, key = source IP of the RA *)
  defrouter : option bytes;            (* h.Router (its key) *)
  repeat_ : Z;                         (* package-global counter, starts at -1 *)
  closed : bool
}.

Definition init (rep : Z) : state := mkSt [] [] [] None rep false.

Record config := mkCfg { host_mac : bytes; host_lla : bytes }.

(* one forged neighbour advertisement as it leaves icmp6SendPacket *)
Record na := mkNA {
  na_eth_dst : bytes; na_eth_src : bytes;
  na_ip_src : bytes; na_ip_dst : bytes; na_hop : N;
  na_router : bool; na_solicited : bool; na_override : bool;
  na_target : bytes; na_tlla : bytes
}.

Inductive stage := NoChange | Normal | Hunt.

Inductive event :=
| StartHunt (a : addr)
| StopHunt (a : addr)
| Close
| Lookup (i : nat) (order : list nat)
    (* loop i passes its select (timer or RA wake-up) or starts: h.Lock(); membership and closed test;
       list := the addresses of h.LANRouters in the map's iteration order [order]; h.Unlock() *)
| Send (i : nat)
    (* loop i sends the neighbour advertisement for the next address of its list, outside the lock *)
| RxRA (src_ip eth_src p : bytes) (host_known : bool)
| RxOther (p : bytes)       (* any other ICMPv6 message through ProcessPacket: touches none of this state *)
| Tick.                     (* ANOTHER Handler6 of the same process receives a router advertisement: the rate limiter
                               `repeat` is a package-level variable (icmp6.go:94), shared by every handler *)

Inductive out :=
| OStage (s : stage) (e : option err)
| ONAs (l : list na)
| OLook (alive : bool) (decided : nat)     (* the loop goes on / returns; number of frames decided *)
| ORA (r : res unit)
| ONone.

Fixpoint rt_find (l : list (bytes * router)) (ip : bytes) : option router :=
  match l with
  | [] => None
  | (k, r) :: t => if bytes_eqb k ip then Some r else rt_find t ip
  end.
Fixpoint rt_set (l : list (bytes * router)) (ip : bytes) (r : router) : list (bytes * router) :=
  match l with
  | [] => [(ip, r)]
  | (k, r0) :: t => if bytes_eqb k ip then (k, r) :: t else (k, r0) :: rt_set t ip r
  end.

Definition set_loops st l := mkSt (hunt st) l (routers st) (defrouter st) (repeat_ st) (closed st).

Fixpoint kill (l : list sloop) (i : nat) : list sloop :=
  match l, i with
  | [], _ => []
  | x :: r, O => mkLoop (l_dst x) false [] :: r
  | x :: r, S i' => x :: kill r i'
  end.
Fixpoint set_pending (l : list sloop) (i : nat) (p : list bytes) : list sloop :=
  match l, i with
  | [], _ => []
  | x :: r, O => mkLoop (l_dst x) (l_alive x) p :: r
  | x :: r, S i' => x :: set_pending r i' p
  end.

(* Go map iteration order: [order] lists the positions of LANRouters in the order the range
   statement visits them.  Every theorem quantifies over all [order]s; for a permutation of
   0..n-1 the result is a permutation of the whole table (Proofs: pick_perm). *)
Definition pick {A} (order : list nat) (l : list A) : list A :=
  flat_map (fun k => match nth_error l k with Some x => [x] | None => [] end) order.

(* ICMP6SendNeighborAdvertisement(fakeRouter, dstAddr, targetAddr) *)
Definition forge (c : config) (dst : addr) (router_ip : bytes) : na :=
  mkNA (a_mac dst) (host_mac c) router_ip (a_ip dst)
       255      (* icmp6SendPacket: hop limit 255 for every neighbour discovery message (SEND repair 5a5618d;
                   before: 255 only towards a link-local destination, which every loop destination is) *)
       false false true router_ip (host_mac c).

(* spoofLoop, the part under h.Lock(): icmp6spoof.go:61-76.  Enabled only when the goroutine has
   nothing left to send (it is sequential: sends, then select, then the next lookup). *)
Definition lookup (st : state) (i : nat) (order : list nat) : state * out :=
  match nth_error (loops st) i with
  | Some l =>
    if negb (l_alive l) then (st, ONone)
    else match l_pending l with
    | _ :: _ => (st, ONone)
    | [] =>
      if negb (al_has (hunt st) (a_mac (l_dst l))) || closed st
      then (set_loops st (kill (loops st) i), OLook false 0)
      else match defrouter st with
           | Some _ =>
             let lst := pick order (map (fun kr => r_ip (snd kr)) (routers st)) in
             (set_loops st (set_pending (loops st) i lst), OLook true (List.length lst))
           | None => (st, OLook true 0)
           end
    end
  | None => (st, ONone)
  end.

(* spoofLoop, one iteration of "for _, routerAddr := range list": outside the lock, no test of
   the hunt list or of closed (icmp6spoof.go:78-110) *)
Definition send (c : config) (st : state) (i : nat) : state * out :=
  match nth_error (loops st) i with
  | Some l =>
    match l_pending l with
    | ip :: rest => (set_loops st (set_pending (loops st) i rest), ONAs [forge c (l_dst l) ip])
    | [] => (st, ONone)
    end
  | None => (st, ONone)
  end.

(* a whole pass without interleaving (what the older single Wake event was): lookup, then every send *)
Fixpoint sends (c : config) (st : state) (i : nat) (n : nat) (acc : list na) : state * list na :=
  match n with
  | O => (st, acc)
  | S n' => match send c st i with
            | (st', ONAs l) => sends c st' i n' (acc ++ l)
            | (st', _) => (st', acc)
            end
  end.
Definition wake (c : config) (st : state) (i : nat) (order : list nat) : state * out :=
  match lookup st i order with
  | (st1, OLook true n) => let '(st2, l) := sends c st1 i n [] in (st2, ONAs l)
  | (st1, OLook false _) => (st1, ONAs [])
  | (st1, o) => (st1, o)
  end.

Definition start_hunt (st : state) (a : addr) : state * out :=
  if is4 (a_ip a) then (st, OStage NoChange (Some EInvalidIP))
  else if is6 (a_ip a) && negb (is_llu (a_ip a)) then (st, OStage NoChange None)
  else if al_has (hunt st) (a_mac a) then (st, OStage Hunt None)
  else
    let dst := if ip_valid (a_ip a) then a else mkAddr (a_mac a) all_nodes in
    (mkSt (al_add (hunt st) a) (loops st ++ [mkLoop dst true []]) (routers st) (defrouter st)
          (repeat_ st) (closed st),
     OStage Hunt None).

Definition stop_hunt (st : state) (a : addr) : state * out :=
  if ip_valid (a_ip a) && negb (is_llu (a_ip a)) then (st, OStage NoChange None)
  else (mkSt (al_del (hunt st) (a_mac a)) (loops st) (routers st) (defrouter st)
             (repeat_ st) (closed st),
        OStage Normal None).

Definition close (st : state) : state * out :=
  if closed st then (st, OStage NoChange None)
  else (mkSt (hunt st) (loops st) (routers st) (defrouter st) (repeat_ st) true,
        OStage NoChange None).

(* ProcessPacket, case RouterAdvertisement.  [p] is the ICMPv6 message.
   The wake-up of the parked loops (closing closeChan and storing a fresh channel) happens only
   while the hunt list is non-empty and the handler is not closed (repaired: without the closed
   test the first RA after Close panicked, finding ra-after-close); it has no effect on the
   state modelled here: which loops run when is the Wake events' business. *)
Definition rx_ra (st : state) (src_ip eth_src p : bytes) (host_known : bool) : state * out :=
  if blen p <? 16 then (st, ORA (Err EFrameLen)) else
  let rep := (repeat_ st + 1)%Z in
  let st1 := mkSt (hunt st) (loops st) (routers st) (defrouter st) rep (closed st) in
  if negb (Z.rem rep 4 =? 0)%Z then (st1, ORA (Ok tt)) else
  if negb host_known then (st1, ORA (Err EOther)) else
  match ra_options p with
  | Ok o =>
    let mac := if (List.length (o_slla o) =? 6)%nat then o_slla o else eth_src in
    let '(r, created) := match rt_find (routers st) src_ip with
                         | Some r => (r, false)
                         | None => (router_new mac src_ip, true)
                         end in
    let r' := router_update r p o in
    (mkSt (hunt st) (loops st) (rt_set (routers st) src_ip r')
          (if created then Some src_ip else defrouter st) rep (closed st),
     ORA (Ok tt))
  | Err e => (st1, ORA (Err e))
  | Panic => (st1, ORA Panic)
  | Fuel => (st1, ORA Fuel)
  end.

Definition step (c : config) (st : state) (e : event) : state * out :=
  match e with
  | StartHunt a => start_hunt st a
  | StopHunt a => stop_hunt st a
  | Close => close st
  | Lookup i order => lookup st i order
  | Send i => send c st i
  | RxRA s m p hk => rx_ra st s m p hk
  | RxOther _ => (st, ONone)
  | Tick => (mkSt (hunt st) (loops st) (routers st) (defrouter st) (repeat_ st + 1)%Z (closed st), ONone)
  end.

(* run a history, collecting (state before the event, event, output) *)
Fixpoint run (c : config) (st : state) (evs : list event) : list (state * event * out) * state :=
  match evs with
  | [] => ([], st)
  | e :: r =>
    let '(st', o) := step c st e in
    let '(tr, fin) := run c st' r in
    ((st, e, o) :: tr, fin)
  end.
