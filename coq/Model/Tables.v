(* Model/Tables.v — host table, MAC table, notifications of irai/packet.

   Transcribed statement by statement from hosttable.go, mactable.go,
   session.go (purge, Notify, notify, makeOffline, DHCPv4Update,
   SetDHCPv4IPOffer, Capture, Release, NewSession's two manual entries),
   notification.go and the host-creation part of layer_frame.go
   (three creation predicates, onlineTransition).

   Representation decisions (each is validated only by the correspondence):
   * a MAC address is the 48-bit number of its 6 bytes (every MAC handed to the
     library by the harness has 6 bytes);
   * netip.Addr is [IPnone] (zero Addr{}), [IP4 a] (32 bit) or [IP6 a] (128 bit,
     includes IPv4-mapped addresses, which netip keeps distinct from IP4);
   * Go pointers are replaced by keys: a *Host is the IP it is indexed under, a
     *MACEntry is its MAC.  HostTable.Table (a Go map) is an association list
     with map semantics (lookup = first match, put removes every older binding);
     MACTable.Table and MACEntry.HostList (Go slices) are ordered lists;
   * the five learned names carry the four attributes NameEntry.Merge compares (numbers, 0 = "");
     Manufacturer, HuntStage, MACEntry.LastSeen, IP6Offer, statistics are not
     modelled (no property of the cluster constrains them);
   * time is Z seconds; [now] is an argument of every step;
   * a Go panic inside a step leaves the state as it was when the panic was
     raised; the step reports [OPanic];
   * the Frame value handed to Notify is the one returned by the most recent
     Parse ([lastf]); deleting the host it points to invalidates it (a stale
     *Host cannot be expressed with keys; the harness does not call Notify
     with a stale frame and reports [OStale] like the model). *)
From PV Require Import Base.Prelude.
Open Scope N_scope.

(* ------------------------------------------------------------------ *)
(* addresses *)

Definition mac := N.

Inductive ip : Set := IPnone | IP4 (a : N) | IP6 (a : N).

Definition ip_eqb (x y : ip) : bool :=
  match x, y with
  | IPnone, IPnone => true
  | IP4 a, IP4 b => a =? b
  | IP6 a, IP6 b => a =? b
  | _, _ => false
  end.

(* net/netip (go1.23) predicates, restated from the stdlib source *)
Definition is4 (i : ip) : bool := match i with IP4 _ => true | _ => false end.
Definition is_valid (i : ip) : bool := match i with IPnone => false | _ => true end.
Definition is4in6 (i : ip) : bool :=
  match i with IP6 a => a / 4294967296 =? 65535 | _ => false end.
Definition unmap (i : ip) : ip :=
  match i with IP6 a => if is4in6 i then IP4 (a mod 4294967296) else i | _ => i end.
Definition is_unspecified (i : ip) : bool :=
  match i with IP4 a => a =? 0 | IP6 a => a =? 0 | IPnone => false end.
Definition is_llu (i : ip) : bool :=
  match unmap i with
  | IP4 a => a / 65536 =? 43518                       (* 169.254/16 *)
  | IP6 a => N.land (a / 2 ^ 112) 65472 =? 65152       (* & 0xffc0 == 0xfe80 *)
  | IPnone => false
  end.
Definition is_loopback (i : ip) : bool :=
  match unmap i with
  | IP4 a => a / 16777216 =? 127
  | IP6 a => a =? 1
  | IPnone => false
  end.
Definition is_multicast (i : ip) : bool :=
  match unmap i with
  | IP4 a => N.land (a / 16777216) 240 =? 224
  | IP6 a => a / 2 ^ 120 =? 255
  | IPnone => false
  end.
Definition is_gua (i : ip) : bool :=
  match i with
  | IPnone => false
  | _ =>
    let j := unmap i in
    if is4 j && (ip_eqb j (IP4 0) || ip_eqb j (IP4 4294967295)) then false
    else negb (ip_eqb j (IP6 0)) && negb (is_loopback j) && negb (is_multicast j) && negb (is_llu j)
  end.
(* netip.Prefix.Contains for an IPv4 prefix base/bits (bits <= 32) *)
Definition lan_contains (base bits : N) (i : ip) : bool :=
  match i with
  | IP4 a => N.lxor a base / 2 ^ (32 - bits) =? 0
  | _ => false
  end.
(* IsUnicastMAC: mac[0] & 1 == 0 *)
Definition mac_unicast (m : mac) : bool := (m / 1099511627776) mod 2 =? 0.

(* ------------------------------------------------------------------ *)
(* records *)

(* a learned NameEntry: the four attributes Merge compares (0 = ""); Type and Expire are not modelled *)
Record nent : Set := { ne_name : N; ne_model : N; ne_os : N; ne_manuf : N }.
Definition nent0 : nent := {| ne_name := 0; ne_model := 0; ne_os := 0; ne_manuf := 0 |}.
(* an entry that carries only a Name (examples) *)
Definition named (n : N) : nent := {| ne_name := n; ne_model := 0; ne_os := 0; ne_manuf := 0 |}.

Record names : Set := { n_dhcp : nent; n_mdns : nent; n_ssdp : nent; n_llmnr : nent; n_nbns : nent }.
Definition names0 : names := {| n_dhcp := nent0; n_mdns := nent0; n_ssdp := nent0; n_llmnr := nent0; n_nbns := nent0 |}.
Inductive nkind : Set := KDhcp | KMdns | KSsdp | KLlmnr | KNbns.
Definition nget (k : nkind) (n : names) : nent :=
  match k with KDhcp => n_dhcp n | KMdns => n_mdns n | KSsdp => n_ssdp n | KLlmnr => n_llmnr n | KNbns => n_nbns n end.
Definition nset (k : nkind) (v : nent) (n : names) : names :=
  match k with
  | KDhcp => {| n_dhcp := v; n_mdns := n_mdns n; n_ssdp := n_ssdp n; n_llmnr := n_llmnr n; n_nbns := n_nbns n |}
  | KMdns => {| n_dhcp := n_dhcp n; n_mdns := v; n_ssdp := n_ssdp n; n_llmnr := n_llmnr n; n_nbns := n_nbns n |}
  | KSsdp => {| n_dhcp := n_dhcp n; n_mdns := n_mdns n; n_ssdp := v; n_llmnr := n_llmnr n; n_nbns := n_nbns n |}
  | KLlmnr => {| n_dhcp := n_dhcp n; n_mdns := n_mdns n; n_ssdp := n_ssdp n; n_llmnr := v; n_nbns := n_nbns n |}
  | KNbns => {| n_dhcp := n_dhcp n; n_mdns := n_mdns n; n_ssdp := n_ssdp n; n_llmnr := n_llmnr n; n_nbns := v |}
  end.

(* NameEntry.Merge (mactable.go:169-191), attribute by attribute in source order: a non-empty attribute that
   differs replaces the old one and marks the entry modified; every attribute is merged whether or not an
   earlier one changed *)
Definition merge1 (old new : N) : N * bool :=
  if negb (new =? 0) && negb (old =? new) then (new, true) else (old, false).
Definition merge (old new : nent) : nent * bool :=
  let (a, ma) := merge1 (ne_name old) (ne_name new) in
  let (b, mb) := merge1 (ne_model old) (ne_model new) in
  let (c, mc) := merge1 (ne_os old) (ne_os new) in
  let (d, md) := merge1 (ne_manuf old) (ne_manuf new) in
  ({| ne_name := a; ne_model := b; ne_os := c; ne_manuf := d |}, ma || mb || mc || md).

Record host : Set := {
  h_ip : ip;          (* Host.Addr.IP *)
  h_mac : mac;        (* Host.MACEntry (pointer, by key) = Host.Addr.MAC *)
  h_online : bool;
  h_dirty : bool;
  h_last : Z;         (* Host.LastSeen *)
  h_names : names;
  h_stage : N }.      (* Host.HuntStage (1 normal, 2 hunt, 3 redirected): an exported field the APPLICATION writes; the library
                         sets it to normal when it creates the record and reads it in no step *)

Record macent : Set := {
  m_mac : mac;
  m_captured : bool;
  m_ip4 : ip;
  m_offer : ip;       (* IP4Offer *)
  m_gua : ip;
  m_lla : ip;
  m_online : bool;
  m_router : bool;
  m_hosts : list ip;  (* HostList, slice order *)
  m_names : names }.

Record notif : Set := {
  nt_ip : ip; nt_mac : mac; nt_online : bool; nt_names : names; nt_router : bool }.

(* what Notify reads of a Frame *)
Record frame : Set := {
  fr_host : option ip;   (* Frame.Host *)
  fr_online : bool;      (* flags & 1 *)
  fr_dhcp4 : bool;       (* PayloadID == PayloadDHCP4 *)
  fr_src : mac }.        (* SrcAddr.MAC *)

Record state : Set := {
  hosts : list (ip * host);
  macs : list macent;
  chan : list notif;          (* Session.C, capacity 128 *)
  lastf : option frame }.

Record cfg : Set := {
  own_mac : mac; own_ip4 : ip; own_lla : ip;
  rt_mac : mac; rt_ip4 : ip;
  lan_base : N; lan_bits : N;
  offline_dl : Z; purge_dl : Z;
  probe_dl : Z }.             (* ProbeDeadline: carried by the case configuration, read by NO step of the model
                                (the probes purge sends are packets, not table state) *)
(* the deadlines NewSession accepts (session.go, Config.NewSession): defaults, limits, and the one ordering it enforces *)
Definition default_probe : Z := 120.      (* DefaultProbeDeadline   = 2 min *)
Definition default_offline : Z := 300.    (* DefaultOfflineDeadline = 5 min *)
Definition default_purge : Z := 3660.     (* DefaultPurgeDeadline   = 61 min *)
Definition max_probe : Z := 1800.         (* 30 min *)
Definition max_offline : Z := 3600.       (* 60 min *)
Definition max_purge : Z := 86400.        (* 24 h *)
(* seconds; a zero in any of the three selects the three defaults *)
Definition deadlines_okb (probe offline purge : Z) : bool :=
  ((probe =? 0) || (offline =? 0) || (purge =? 0))%Z ||
  ((0 <? probe) && (probe <=? max_probe) && (0 <? offline) && (offline <=? max_offline) && (probe <=? offline) &&
   (0 <? purge) && (purge <=? max_purge))%Z.

Definition set_probe (p : Z) (c : cfg) : cfg :=
  {| own_mac := own_mac c; own_ip4 := own_ip4 c; own_lla := own_lla c; rt_mac := rt_mac c; rt_ip4 := rt_ip4 c;
     lan_base := lan_base c; lan_bits := lan_bits c; offline_dl := offline_dl c; purge_dl := purge_dl c; probe_dl := p |}.

(* field setters *)
Definition set_online (b : bool) (h : host) : host :=
  {| h_ip := h_ip h; h_mac := h_mac h; h_online := b; h_dirty := h_dirty h; h_last := h_last h; h_names := h_names h; h_stage := h_stage h |}.
Definition set_dirty (b : bool) (h : host) : host :=
  {| h_ip := h_ip h; h_mac := h_mac h; h_online := h_online h; h_dirty := b; h_last := h_last h; h_names := h_names h; h_stage := h_stage h |}.
Definition set_last (t : Z) (h : host) : host :=
  {| h_ip := h_ip h; h_mac := h_mac h; h_online := h_online h; h_dirty := h_dirty h; h_last := t; h_names := h_names h; h_stage := h_stage h |}.
Definition set_hnames (n : names) (h : host) : host :=
  {| h_ip := h_ip h; h_mac := h_mac h; h_online := h_online h; h_dirty := h_dirty h; h_last := h_last h; h_names := n; h_stage := h_stage h |}.
Definition set_hstage (st : N) (h : host) : host :=
  {| h_ip := h_ip h; h_mac := h_mac h; h_online := h_online h; h_dirty := h_dirty h; h_last := h_last h; h_names := h_names h; h_stage := st |}.

Definition set_mhosts (l : list ip) (e : macent) : macent :=
  {| m_mac := m_mac e; m_captured := m_captured e; m_ip4 := m_ip4 e; m_offer := m_offer e; m_gua := m_gua e;
     m_lla := m_lla e; m_online := m_online e; m_router := m_router e; m_hosts := l; m_names := m_names e |}.
Definition set_monline (b : bool) (e : macent) : macent :=
  {| m_mac := m_mac e; m_captured := m_captured e; m_ip4 := m_ip4 e; m_offer := m_offer e; m_gua := m_gua e;
     m_lla := m_lla e; m_online := b; m_router := m_router e; m_hosts := m_hosts e; m_names := m_names e |}.
Definition set_mip4 (i : ip) (e : macent) : macent :=
  {| m_mac := m_mac e; m_captured := m_captured e; m_ip4 := i; m_offer := m_offer e; m_gua := m_gua e;
     m_lla := m_lla e; m_online := m_online e; m_router := m_router e; m_hosts := m_hosts e; m_names := m_names e |}.
Definition set_moffer (i : ip) (e : macent) : macent :=
  {| m_mac := m_mac e; m_captured := m_captured e; m_ip4 := m_ip4 e; m_offer := i; m_gua := m_gua e;
     m_lla := m_lla e; m_online := m_online e; m_router := m_router e; m_hosts := m_hosts e; m_names := m_names e |}.
Definition set_mgua (i : ip) (e : macent) : macent :=
  {| m_mac := m_mac e; m_captured := m_captured e; m_ip4 := m_ip4 e; m_offer := m_offer e; m_gua := i;
     m_lla := m_lla e; m_online := m_online e; m_router := m_router e; m_hosts := m_hosts e; m_names := m_names e |}.
Definition set_mlla (i : ip) (e : macent) : macent :=
  {| m_mac := m_mac e; m_captured := m_captured e; m_ip4 := m_ip4 e; m_offer := m_offer e; m_gua := m_gua e;
     m_lla := i; m_online := m_online e; m_router := m_router e; m_hosts := m_hosts e; m_names := m_names e |}.
Definition set_mcaptured (b : bool) (e : macent) : macent :=
  {| m_mac := m_mac e; m_captured := b; m_ip4 := m_ip4 e; m_offer := m_offer e; m_gua := m_gua e;
     m_lla := m_lla e; m_online := m_online e; m_router := m_router e; m_hosts := m_hosts e; m_names := m_names e |}.
Definition set_mrouter (b : bool) (e : macent) : macent :=
  {| m_mac := m_mac e; m_captured := m_captured e; m_ip4 := m_ip4 e; m_offer := m_offer e; m_gua := m_gua e;
     m_lla := m_lla e; m_online := m_online e; m_router := b; m_hosts := m_hosts e; m_names := m_names e |}.
Definition set_mnames (n : names) (e : macent) : macent :=
  {| m_mac := m_mac e; m_captured := m_captured e; m_ip4 := m_ip4 e; m_offer := m_offer e; m_gua := m_gua e;
     m_lla := m_lla e; m_online := m_online e; m_router := m_router e; m_hosts := m_hosts e; m_names := n |}.

Definition set_hosts (l : list (ip * host)) (s : state) : state :=
  {| hosts := l; macs := macs s; chan := chan s; lastf := lastf s |}.
Definition set_macs (l : list macent) (s : state) : state :=
  {| hosts := hosts s; macs := l; chan := chan s; lastf := lastf s |}.
Definition set_chan (l : list notif) (s : state) : state :=
  {| hosts := hosts s; macs := macs s; chan := l; lastf := lastf s |}.
Definition set_lastf (f : option frame) (s : state) : state :=
  {| hosts := hosts s; macs := macs s; chan := chan s; lastf := f |}.

(* ------------------------------------------------------------------ *)
(* Go map / slice primitives *)

Fixpoint hlookup (k : ip) (l : list (ip * host)) : option host :=
  match l with
  | [] => None
  | (k', h) :: r => if ip_eqb k' k then Some h else hlookup k r
  end.
Definition hdel (k : ip) (l : list (ip * host)) : list (ip * host) :=
  filter (fun e => negb (ip_eqb (fst e) k)) l.
Definition hput (k : ip) (h : host) (l : list (ip * host)) : list (ip * host) :=
  (k, h) :: hdel k l.
(* write through a *Host: the object indexed under k *)
Definition hupd (k : ip) (f : host -> host) (l : list (ip * host)) : list (ip * host) :=
  map (fun e => if ip_eqb (fst e) k then (fst e, f (snd e)) else e) l.

(* MACTable.findMAC: first entry with that MAC *)
Fixpoint find_mac (m : mac) (l : list macent) : option macent :=
  match l with
  | [] => None
  | e :: r => if m_mac e =? m then Some e else find_mac m r
  end.
(* write through a *MACEntry *)
Definition mupd (m : mac) (f : macent -> macent) (l : list macent) : list macent :=
  map (fun e => if m_mac e =? m then f e else e) l.
(* MACTable.delete: removes the first entry with that MAC (both branches of the Go code) *)
Fixpoint mdel (m : mac) (l : list macent) : list macent :=
  match l with
  | [] => []
  | e :: r => if m_mac e =? m then r else e :: mdel m r
  end.
(* MACEntry.unlink: removes the first host with that IP (both branches) *)
Fixpoint remove_first (k : ip) (l : list ip) : list ip :=
  match l with
  | [] => []
  | x :: r => if ip_eqb x k then r else x :: remove_first k r
  end.

Definition upd_host (k : ip) (f : host -> host) (s : state) : state := set_hosts (hupd k f (hosts s)) s.
Definition upd_mac (m : mac) (f : macent -> macent) (s : state) : state := set_macs (mupd m f (macs s)) s.
Definition mac_hosts (m : mac) (s : state) : list ip :=
  match find_mac m (macs s) with Some e => m_hosts e | None => [] end.

(* ------------------------------------------------------------------ *)
(* mactable.go *)

Definition mac_new (m : mac) : macent :=
  {| m_mac := m; m_captured := false; m_ip4 := IP4 0; m_offer := IPnone; m_gua := IP6 0; m_lla := IP6 0;
     m_online := false; m_router := false; m_hosts := []; m_names := names0 |}.

(* MACTable.findOrCreate *)
Definition mac_find_or_create (m : mac) (s : state) : state :=
  match find_mac m (macs s) with
  | Some _ => s
  | None => set_macs (macs s ++ [mac_new m]) s
  end.

(* ------------------------------------------------------------------ *)
(* hosttable.go *)

Definition count_hosts (l : list macent) : nat :=
  fold_right (fun e n => (List.length (m_hosts e) + n)%nat) 0%nat l.

(* printHostTable: the self-check *)
Definition print_table (s : state) : res unit :=
  if Nat.eqb (count_hosts (macs s)) (List.length (hosts s)) then Ok tt else Panic.

Definition clear_lastf (k : ip) (s : state) : state :=
  match lastf s with
  | Some f => match fr_host f with
              | Some k' => if ip_eqb k' k then set_lastf None s else s
              | None => s
              end
  | None => s
  end.

(* deleteHost *)
Definition delete_host (k : ip) (s : state) : state :=
  match hlookup k (hosts s) with
  | None => s
  | Some h =>
      let s1 := upd_mac (h_mac h) (fun e => set_mhosts (remove_first (h_ip h) (m_hosts e)) e) s in
      let s2 := set_hosts (hdel k (hosts s1)) s1 in
      let s3 := match mac_hosts (h_mac h) s2 with
                | [] => set_macs (mdel (h_mac h) (macs s2)) s2
                | _ => s2
                end in
      clear_lastf k s3
  end.

Definition new_host (m : mac) (k : ip) (now : Z) : host :=
  {| h_ip := k; h_mac := m; h_online := false; h_dirty := true; h_last := now; h_names := names0; h_stage := 1 |}.

(* the creating half of findOrCreateHostWithLock *)
Definition create_host (m : mac) (k : ip) (now : Z) (s : state) : state :=
  let s1 := mac_find_or_create m s in
  let s2 := set_hosts (hput k (new_host m k now) (hosts s1)) s1 in
  upd_mac m (fun e => set_mhosts (m_hosts e ++ [k]) e) s2.

(* findOrCreateHostWithLock *)
Definition find_or_create (m : mac) (k : ip) (now : Z) (s : state) : res (state * bool) :=
  match hlookup k (hosts s) with
  | Some h =>
      if h_mac h =? m then Ok (upd_host k (set_last now) s, true)
      else
        (_ <- print_table s ;;
         Ok (create_host m k now (delete_host k s), false))%res
  | None => Ok (create_host m k now s, false)
  end.

(* Update*Name: the five methods differ only in the field *)
Definition update_name (kd : nkind) (k : ip) (name : nent) (s : state) : state :=
  match hlookup k (hosts s) with
  | None => s
  | Some h =>
      let (nm, modified) := merge (nget kd (h_names h)) name in
      if modified then
        let s1 := upd_host k (fun x => set_dirty true (set_hnames (nset kd nm (h_names x)) x)) s in
        upd_mac (h_mac h) (fun e => set_mnames (nset kd (fst (merge (nget kd (m_names e)) nm)) (m_names e)) e) s1
      else s
  end.

(* ------------------------------------------------------------------ *)
(* layer_frame.go *)

Definition supersede (h : host) : host :=
  if h_online h then set_dirty true (set_online false h) else h.

(* onlineTransition *)
Definition online_transition (k : ip) (s : state) : state :=
  match hlookup k (hosts s) with
  | None => s
  | Some h =>
      if h_online h then s else
      let s1 := upd_mac (h_mac h) (set_monline true) s in
      let s2 := upd_host k (fun x => set_dirty true (set_online true x)) s1 in
      match find_mac (h_mac h) (macs s2) with
      | None => s2
      | Some e =>
          if is4 (h_ip h) then
            if negb (ip_eqb (h_ip h) (m_ip4 e)) then
              let s3 := upd_mac (h_mac h) (set_mip4 (h_ip h)) s2 in
              fold_left (fun st v => if is4 v && negb (ip_eqb v (h_ip h)) then upd_host v supersede st else st)
                        (m_hosts e) s3
            else s2
          else
            let s3 := if is_gua (h_ip h) && negb (ip_eqb (h_ip h) (m_gua e))
                      then upd_mac (h_mac h) (set_mgua (h_ip h)) s2 else s2 in
            if is_llu (h_ip h) && negb (ip_eqb (h_ip h) (m_lla e))
            then upd_mac (h_mac h) (set_mlla (h_ip h)) s3 else s3
      end
  end.

(* the abstract summary of a received frame: what Parse reads on the way to the
   creation predicates and what Notify later reads of the Frame *)
Inductive fclass : Set := FInvalid | FIP4 | FIP6 | FARP | FOther.
Record fsum : Set := {
  f_src : mac;        (* Ethernet source *)
  f_class : fclass;   (* EtherType class; FInvalid: Parse returns before the predicates *)
  f_ip : ip;          (* IPv4/IPv6 source, ARP sender IP *)
  f_arpmac : mac;     (* ARP sender MAC *)
  f_dhcp4 : bool }.   (* PayloadID ends as PayloadDHCP4 *)

Definition host_event (c : cfg) (f : fsum) : option (mac * ip) :=
  if negb (mac_unicast (f_src f)) then None else
  match f_class f with
  | FIP4 => if negb (f_src f =? own_mac c) && lan_contains (lan_base c) (lan_bits c) (f_ip f)
            then Some (f_src f, f_ip f) else None
  | FIP6 => if negb (f_src f =? own_mac c) &&
               (is_llu (f_ip f) || (is_gua (f_ip f) && negb (f_src f =? rt_mac c)))
            then Some (f_src f, f_ip f) else None
  | FARP => if negb (f_src f =? own_mac c) && lan_contains (lan_base c) (lan_bits c) (f_ip f)
            then Some (f_arpmac f, f_ip f) else None
  | _ => None
  end.

Definition host_online (k : ip) (s : state) : bool :=
  match hlookup k (hosts s) with Some h => h_online h | None => false end.

(* the table part of Session.Parse *)
Definition rx (c : cfg) (f : fsum) (now : Z) (s : state) : res (state * frame) :=
  match host_event c f with
  | None => Ok (s, {| fr_host := None; fr_online := false; fr_dhcp4 := f_dhcp4 f; fr_src := f_src f |})
  | Some (m, k) =>
      (r <- find_or_create m k now s ;;
       let s1 := fst r in
       if negb (host_online k s1)
       then Ok (online_transition k s1, {| fr_host := Some k; fr_online := true; fr_dhcp4 := f_dhcp4 f; fr_src := f_src f |})
       else Ok (s1, {| fr_host := Some k; fr_online := false; fr_dhcp4 := f_dhcp4 f; fr_src := f_src f |}))%res
  end.

(* ------------------------------------------------------------------ *)
(* notification.go, session.go *)

(* toNotification: LLMNR name from the host, the other four from the MAC entry *)
Definition to_notif (h : host) (s : state) : notif :=
  match find_mac (h_mac h) (macs s) with
  | Some e =>
      {| nt_ip := h_ip h; nt_mac := h_mac h; nt_online := h_online h;
         nt_names := nset KLlmnr (n_llmnr (h_names h)) (m_names e); nt_router := m_router e |}
  | None =>
      {| nt_ip := h_ip h; nt_mac := h_mac h; nt_online := h_online h; nt_names := h_names h; nt_router := false |}
  end.

Definition chan_cap : nat := 128.

(* sendNotification *)
Definition send (n : notif) (s : state) : state :=
  if Nat.ltb (List.length (chan s)) chan_cap then set_chan (chan s ++ [n]) s else s.

(* makeOffline *)
Definition make_offline (k : ip) (s : state) : state :=
  match hlookup k (hosts s) with
  | None => s
  | Some h0 =>
      let s1 := upd_host k (fun x => set_dirty false (set_online false x)) s in
      let h := set_dirty false (set_online false h0) in
      let n := to_notif h s1 in
      let mo := existsb (fun v => host_online v s1) (mac_hosts (h_mac h) s1) in
      let s2 := upd_mac (h_mac h) (set_monline mo) s1 in
      if Nat.ltb (List.length (chan s2)) chan_cap then send n s2 else s2
  end.

(* notify *)
Definition notify_host (k : ip) (online_flag : bool) (s : state) : state :=
  match hlookup k (hosts s) with
  | None => s
  | Some h =>
      if negb (h_dirty h) then s else
      let offl := if online_flag && is4 (h_ip h)
                  then filter (fun v => negb (ip_eqb v k) &&      (* v != frame.Host (fix of the C06 duplicate) *)
                                        match hlookup v (hosts s) with
                                        | Some x => negb (h_online x) && h_dirty x
                                        | None => false end)
                              (mac_hosts (h_mac h) s)
                  else [] in
      let s1 := fold_left (fun st v => make_offline v st) offl s in
      match hlookup k (hosts s1) with
      | None => s1
      | Some h1 =>
          let n := to_notif h1 s1 in
          send n (upd_host k (set_dirty false) s1)
      end
  end.

(* Notify *)
Definition notify (f : frame) (s : state) : state :=
  match fr_host f with
  | Some k => notify_host k (fr_online f) s
  | None =>
      if negb (fr_dhcp4 f) then s else
      let offer := match find_mac (fr_src f) (macs s) with Some e => m_offer e | None => IPnone end in
      if negb (is_valid offer) then s else
      match hlookup offer (hosts s) with
      | None => s
      | Some _ => notify_host offer true s
      end
  end.

Inductive terr : Set := TInvalidIP | TIsRouter.

(* DHCPv4Update *)
Definition dhcp4_update (m : mac) (k : ip) (name : nent) (now : Z) (s : state) : res (state * option terr) :=
  if negb (is_valid k) || is_unspecified k then Ok (s, Some TInvalidIP) else
  (r <- find_or_create m k now s ;;
   let s1 := update_name KDhcp k name (fst r) in
   let s2 := upd_mac m (set_moffer k) s1 in
   Ok (if negb (host_online k s2) then online_transition k s2 else s2, None))%res.

(* SetDHCPv4IPOffer *)
Definition set_offer (m : mac) (k : ip) (name : nent) (s : state) : state :=
  let s1 := mac_find_or_create m s in
  upd_mac m (fun e => set_mnames (nset KDhcp name (m_names e)) (set_moffer k e)) s1.

(* Capture *)
Definition capture (m : mac) (s : state) : state * option terr :=
  let s1 := mac_find_or_create m s in
  match find_mac m (macs s1) with
  | None => (s1, None)
  | Some e =>
      if m_captured e then (s1, None)
      else if m_router e then (s1, Some TIsRouter)
      else (upd_mac m (set_mcaptured true) s1, None)
  end.

(* Release *)
Definition release (m : mac) (s : state) : state := upd_mac m (set_mcaptured false) s.

(* purge; [order] is the iteration order of GetHosts (a Go map walk) *)
Definition snapshot (order : list ip) (s : state) : list host :=
  flat_map (fun k => match hlookup k (hosts s) with Some h => [h] | None => [] end) order.

Definition purge (c : cfg) (now : Z) (order : list ip) (s : state) : state :=
  let snap := snapshot order s in
  let del := filter (fun h => negb (h_online h) && (h_last h <? now - purge_dl c)%Z) snap in
  let off := filter (fun h => h_online h && (h_last h <? now - offline_dl c)%Z) snap in
  let s1 := fold_left (fun st h => make_offline (h_ip h) st) off s in
  fold_left (fun st h => delete_host (h_ip h) st) del s1.

(* ------------------------------------------------------------------ *)
(* NewSession: the two manual entries *)

Definition empty_state : state := {| hosts := []; macs := []; chan := []; lastf := None |}.

Definition year : Z := 31536000.

Definition new_session (c : cfg) (now : Z) : res state :=
  (r1 <- find_or_create (own_mac c) (own_ip4 c) now empty_state ;;
   let s1 := fst r1 in
   let s2 := upd_host (own_ip4 c) (fun h => set_online true (set_last (now + year)%Z h)) s1 in
   let s3 := upd_mac (own_mac c) (fun e => set_monline true (set_mlla (own_lla c) (set_mip4 (own_ip4 c) e))) s2 in
   r2 <- find_or_create (rt_mac c) (rt_ip4 c) now s3 ;;
   let s4 := fst r2 in
   let s5 := upd_mac (rt_mac c) (fun e => set_monline true (set_mip4 (rt_ip4 c) (set_mrouter true e))) s4 in
   Ok (upd_host (rt_ip4 c) (set_online true) s5))%res.

(* ------------------------------------------------------------------ *)
(* the state machine *)

Inductive op : Set :=
| Rx (f : fsum) (now : Z)
| Notify
| DHCPv4Update (m : mac) (k : ip) (name : nent) (now : Z)
| SetOffer (m : mac) (k : ip) (name : nent)
| Capture (m : mac)
| Release (m : mac)
| Purge (now : Z) (order : list ip)
| NameUpdate (kd : nkind) (k : ip) (name : nent)
| Drain.

Inductive out : Set :=
| ONone
| OFrame (f : frame)
| OErr (e : terr)
| ONotifs (l : list notif)
| OStale
| OPanic.

Definition step (c : cfg) (s : state) (o : op) : state * out :=
  match o with
  | Rx f now =>
      match rx c f now s with
      | Ok (s', fr) => (set_lastf (Some fr) s', OFrame fr)
      | _ => (s, OPanic)
      end
  | Notify =>
      match lastf s with
      | Some f => (notify f s, ONone)
      | None => (s, OStale)
      end
  | DHCPv4Update m k name now =>
      match dhcp4_update m k name now s with
      | Ok (s', Some e) => (s', OErr e)
      | Ok (s', None) => (s', ONone)
      | _ => (s, OPanic)
      end
  | SetOffer m k name => (set_offer m k name s, ONone)
  | Capture m => match capture m s with (s', Some e) => (s', OErr e) | (s', None) => (s', ONone) end
  | Release m => (release m s, ONone)
  | Purge now order => (purge c now order s, ONone)
  | NameUpdate kd k name => (update_name kd k name s, ONone)
  | Drain => (set_chan [] s, ONotifs (chan s))
  end.

Fixpoint run (c : cfg) (s : state) (ops : list op) : state :=
  match ops with
  | [] => s
  | o :: r => run c (fst (step c s o)) r
  end.

(* ------------------------------------------------------------------ *)
(* read-only API *)

Definition find_ip (k : ip) (s : state) : option host := hlookup k (hosts s).
Definition get_hosts (s : state) : list host := map snd (hosts s).            (* up to map order *)
Definition ip_addrs (m : mac) (s : state) : option (list (mac * ip)) :=
  match find_mac m (macs s) with
  | None => None
  | Some e => Some (flat_map (fun k => match hlookup k (hosts s) with
                                      | Some h => [(h_mac h, h_ip h)] | None => [] end) (m_hosts e))
  end.
Definition find_by_mac (m : mac) (s : state) : list (mac * ip) :=                  (* up to map order *)
  flat_map (fun e => if h_mac (snd e) =? m then [(h_mac (snd e), h_ip (snd e))] else []) (hosts s).
Definition find_mac_entry (m : mac) (s : state) : option macent := find_mac m (macs s).
