(* Model/PingKnown.v — decidable predicates characterising the recorded defect classes of C19
   (column 3 of the dispatch output; hypotheses of the _partial theorems). *)
From PV Require Import Base.Prelude Model.Ping Model.PingFrame Spec.PingRFC.
Open Scope N_scope.

(* frames on which Session.Parse and the RFC reading may disagree about "echo reply for id i" *)
Definition is_ip4 (f : bytes) : bool := Nat.leb 34 (List.length f) && (word_at f 12 =? 2048).
Definition is_ip6 (f : bytes) : bool := Nat.leb 54 (List.length f) && (word_at f 12 =? 34525).

(* IPv4 version nibble not 4; IPv6 version nibble not 6: Parse does not look
   (IHL < 5 was part of this class until /repo 38ef1da made IP4.IsValid reject it) *)
Definition known_C19_iphdr (f : bytes) : bool :=
  (is_ip4 f && negb (at_ f 14 / 16 =? 4))
  || (is_ip6 f && negb (at_ f 14 / 16 =? 6)).

(* ICMPv6 protocol number inside IPv4 / ICMP protocol number inside IPv6: one switch serves both *)
Definition known_C19_family (f : bytes) : bool :=
  (is_ip4 f && (at_ f 23 =? 58)) || (is_ip6 f && (at_ f 20 =? 1)).

(* IPv4 TotalLength leaves fewer than 8 bytes of ICMP (IHL <= TotalLength < IHL + 8): Parse reads
   the message to the end of the Ethernet frame instead (TotalLength < IHL is rejected since
   /repo 38ef1da) *)
Definition known_C19_totallen (f : bytes) : bool :=
  is_ip4 f && (4 * (at_ f 14 mod 16) <=? word_at f 16) && (word_at f 16 <? 4 * (at_ f 14 mod 16) + 8).

(* the same for IPv6 (since /repo 28b2fc9 accepts trailing bytes): PayloadLength below 8 *)
Definition known_C19_paylen (f : bytes) : bool :=
  is_ip6 f && (word_at f 18 <? 8).

Definition known_C19_frame (f : bytes) : bool :=
  known_C19_iphdr f || known_C19_family f || known_C19_totallen f || known_C19_paylen f.
