(* Model/PingKnown.v — frame classes that WERE recorded defect classes of C19 and have been closed
   by repairs in /repo (kept as decidable predicates so that the regression examples in
   Properties/C19.v can name them; no open frame class is left: Proofs/PingFrame.v frame_agree is
   unconditional).
     iphdr     version nibble not 4 / not 6            closed by the version guard in Session.Parse
     family    protocol 58 in IPv4 / 1 in IPv6          closed by the family guard in Session.Parse
     totallen  IPv4 TotalLength leaves < 8 ICMP bytes   closed by the IP4.Payload() length guard
     paylen    IPv6 PayloadLength < 8                   closed by the IP6.Payload() length guard *)
From PV Require Import Base.Prelude Model.Ping Model.PingFrame Spec.PingRFC.
Open Scope N_scope.

Definition is_ip4 (f : bytes) : bool := Nat.leb 34 (List.length f) && (word_at f 12 =? 2048).
Definition is_ip6 (f : bytes) : bool := Nat.leb 54 (List.length f) && (word_at f 12 =? 34525).

Definition was_C19_iphdr (f : bytes) : bool :=
  (is_ip4 f && negb (at_ f 14 / 16 =? 4)) || (is_ip6 f && negb (at_ f 14 / 16 =? 6)).
Definition was_C19_family (f : bytes) : bool :=
  (is_ip4 f && (at_ f 23 =? 58)) || (is_ip6 f && (at_ f 20 =? 1)).
Definition was_C19_totallen (f : bytes) : bool :=
  is_ip4 f && (4 * (at_ f 14 mod 16) <=? word_at f 16) && (word_at f 16 <? 4 * (at_ f 14 mod 16) + 8).
Definition was_C19_paylen (f : bytes) : bool :=
  is_ip6 f && (word_at f 18 <? 8).
