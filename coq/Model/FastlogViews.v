(* Model/FastlogViews.v — the FastLog methods of the protocol views and table entries of
   package packet, each as the list of appender calls it performs, as a function of the view
   bytes / entry fields.  The few getters needed are restated here from layer_*.go (fixed
   offsets; the validity predicates are the views' IsValid, compared by the harness).
   Struct(value) is a call of its own: nil -> nothing, otherwise value.FastLog(line). *)
From Coq Require Import String Ascii.
From PV Require Export Base.Prelude Model.Fastlog Model.FastlogOps Spec.TextSpec.
Open Scope N_scope.

(* ---------------------------------------------------------------- calls, with Struct *)

(* func (l *Line) Struct(value FastLog) *Line {
     if value == nil || (Kind == Ptr && IsNil) { return l } ; return value.FastLog(l) } *)
Inductive vop : Type :=
| VOp (o : op)
| VStruct (v : option (list vop)).        (* None: nil value; Some ops: the calls of value.FastLog *)

Fixpoint flatten_vop (v : vop) : list op :=
  match v with
  | VOp o => [o]
  | VStruct None => []
  | VStruct (Some vs) => (fix go (l : list vop) : list op :=
                            match l with [] => [] | x :: r => flatten_vop x ++ go r end) vs
  end.
Definition flatten (vs : list vop) : list op := concat (map flatten_vop vs).

(* the calls run in order on the same line: Struct returns what value.FastLog returns *)
Definition run_vops (l : line) (vs : list vop) : res line := run_ops l (flatten vs).

(* ---------------------------------------------------------------- helpers *)

Fixpoint s2b (s : string) : bytes :=
  match s with
  | EmptyString => []
  | String c r => N_of_ascii c :: s2b r
  end.

Definition bt (p : bytes) (i : nat) : N := nth i p 0.                       (* p[i] *)
Definition w16 (p : bytes) (i : nat) : N := bt p i * 256 + bt p (i + 1).    (* BigEndian.Uint16(p[i:i+2]) *)
Definition w32 (p : bytes) (i : nat) : N :=
  ((bt p i * 256 + bt p (i + 1)) * 256 + bt p (i + 2)) * 256 + bt p (i + 3).
Definition vsub (p : bytes) (i n : nat) : bytes := firstn n (skipn i p).    (* p[i:i+n] *)
Definition plen (p : bytes) : nat := List.length p.

(* line.Int(name, v): the text is strconv's *)
Definition oint (name : string) (z : Z) : op := OInt (s2b name) z (dec_Z z).
Definition ointN (name : string) (n : N) : op := oint name (Z.of_N n).
(* line.IP(name, netip.AddrFrom4/16(bytes)) *)
Definition oaddr (name : string) (b : bytes) : op := OIP (s2b name) (Some b) (addr_text (Some b)).
Definition oaddr_opt (name : string) (a : option bytes) : op :=
  match a with Some b => oaddr name b | None => OIP (s2b name) None [] end.
Definition ouint (name : string) (v : N) : op := OUint (s2b name) v.
Definition ohex8 (name : string) (v : N) : op := OHex8 (s2b name) v.
Definition ohex16 (name : string) (v : N) : op := OHex16 (s2b name) v.
Definition omac (name : string) (m : bytes) : op := OMac (s2b name) m.
Definition obool (name : string) (v : bool) : op := OBool (s2b name) v.
Definition ostr (name : string) (v : bytes) : op := OString (s2b name) v.
Definition oba (name : string) (v : bytes) : op := OByteArr (s2b name) v.
Definition bit (x mask : N) : bool := negb (N.land x mask =? 0).

(* ---------------------------------------------------------------- byte views *)

Inductive vkind : Set :=
| KEther | KIP4 | KIP6 | KUDP | KARP | KICMP | KICMPEcho | KRS | KRA | KNA | KNS
| KDHCP4 | KDNS | KPause | KIEEE1905
| KLLC | KSNAP | KRRCP | KRedirect | KLLDP.

(* DHCP4.validateOptions over p[240:] *)
Fixpoint dhcp_opts_ok (fuel : nat) (o : bytes) : bool :=
  match fuel with
  | O => true
  | S f =>
      match o with
      | c :: n :: r =>
          if c =? 255 then true
          else if c =? 0 then dhcp_opts_ok f (n :: r)
          else if Nat.ltb (List.length r) (N.to_nat n) then false
          else dhcp_opts_ok f (skipn (N.to_nat n) r)
      | _ => true
      end
  end.

(* IsValid() == nil *)
Definition view_valid (k : vkind) (p : bytes) : bool :=
  let n := plen p in
  match k with
  | KEther => Nat.leb 14 n
  | KIP4 => let ihl := N.to_nat (N.land (bt p 0) 15 * 4) in let tl := N.to_nat (w16 p 2) in
            Nat.leb 20 n && Nat.leb 20 ihl && Nat.leb ihl n && Nat.leb ihl tl && Nat.leb tl n
  | KIP6 => Nat.leb 40 n && Nat.leb (N.to_nat (w16 p 4) + 40) n    (* trailing bytes allowed (/repo 28b2fc9) *)
  | KUDP => Nat.leb 8 n
  | KARP => Nat.leb 28 n && (w16 p 0 =? 1) && (w16 p 2 =? 2048) && (bt p 4 =? 6) && (bt p 5 =? 4)
  | KICMP | KICMPEcho => Nat.leb 8 n
  | KRS => Nat.leb 8 n && (bt p 0 =? 133)
  | KRA => Nat.leb 16 n
  | KNA | KNS => Nat.leb 24 n
  | KDHCP4 => Nat.leb 240 n && ((bt p 0 =? 1) || (bt p 0 =? 2)) && (bt p 2 =? 6)
              && Nat.leb 2 (n - 240) && dhcp_opts_ok n (skipn 240 p)
  | KDNS => Nat.leb 12 n
  | KPause => Nat.leb 46 n && (w16 p 0 =? 1)
  | KIEEE1905 => Nat.leb 8 n
  | KLLC => Nat.leb 3 n
  | KSNAP => Nat.leb 9 n
  | KRRCP => Nat.leb 16 n
  | KRedirect => Nat.leb 8 n && Nat.leb (8 + N.to_nat (bt p 4) * N.to_nat (bt p 5) * 4) n
                 && (bt p 0 =? 137) && ((bt p 5 =? 4) || (bt p 5 =? 10))
  | KLLDP => Nat.leb 6 n
  end.

(* an option "type t, length 1 (8 bytes)" at offset o holding a link-layer address *)
Definition lla_at (p : bytes) (o : nat) (t : N) : bytes :=
  if Nat.leb (o + 8) (plen p) && (bt p o =? t) && (bt p (o + 1) =? 1) then vsub p (o + 2) 6 else [].

(* LLC.Type *)
Definition llc_type (p : bytes) : bytes :=
  if (bt p 2 =? 3) && (bt p 0 =? 170) && (bt p 1 =? 170) then s2b "snap"
  else if N.land (bt p 2) 3 =? 3 then s2b "u"
  else if N.land (bt p 2) 1 =? 1 then s2b "s" else s2b "i".

(* ICMP4Redirect.Addrs: entry i starts at 8 + i*AddrSize*4; 4 bytes when AddrSize = 4, else 16 *)
Definition redirect_addrs (p : bytes) : list (option bytes) :=
  let sz := N.to_nat (bt p 5) in
  map (fun i => Some (vsub p (8 + i * sz * 4) (if bt p 5 =? 4 then 4 else 16))) (seq 0 (N.to_nat (bt p 4))).

(* LLDP.Type(t) *)
Definition lldp_type (t : N) : bytes :=
  match t with
  | 0 => s2b "endpdu" | 1 => s2b "chassisID" | 2 => s2b "port" | 3 => s2b "ttl" | 4 => s2b "portdesc"
  | 5 => s2b "name" | 6 => s2b "description" | 7 => s2b "capabilities" | 8 => s2b "mngntaddr"
  | _ => dec t
  end.
(* LLDP.Capability(v): names of the bits 0x01 .. 0x80 of v[1] in that order (IEEE 802.1AB table 8-4), comma separated
   (as found the masks were mirrored; repaired by VIEWS in /repo bf5afdb) *)
Definition lldp_capability (v : bytes) : bytes :=
  if Nat.ltb (List.length v) 2 then []
  else let b := nth 1 v 0 in
       let s := (if bit b 1 then s2b "other," else []) ++ (if bit b 2 then s2b "repeater," else [])
                ++ (if bit b 4 then s2b "bridge," else []) ++ (if bit b 8 then s2b "AP," else [])
                ++ (if bit b 16 then s2b "router," else []) ++ (if bit b 32 then s2b "phone," else [])
                ++ (if bit b 64 then s2b "docsis," else []) ++ (if bit b 128 then s2b "station," else []) in
       removelast s.
(* LLDP.FastLog: walk the TLVs from pos; getTLV: type = p[n]>>1, length = (p[n]&1)<<8 + p[n+1];
   stops at the end TLV, at type 0, or when the value does not lie inside the frame.  Every step
   advances by at least 2 bytes: fuel = len(p) never runs out. *)
Fixpoint lldp_ops (fuel : nat) (p : bytes) (pos : nat) : list op :=
  match fuel with
  | O => []
  | S f =>
      if Nat.leb (plen p) (pos + 2) then []
      else
        let t := bt p pos / 2 in
        let l := N.to_nat (N.land (bt p pos) 1 * 256 + bt p (pos + 1)) in
        if (t =? 0) && Nat.eqb l 0 then []
        else if Nat.leb (pos + 2 + l) (plen p) then
          if t =? 0 then []
          else
            let v := vsub p (pos + 2) l in
            (if (t =? 5) || (t =? 6) then [OString (lldp_type t) v]
             else if t =? 7 then [OByteArr (s2b "capability") v; OString (s2b "type") (lldp_capability v)]
             else [OByteArr (lldp_type t) v])
            ++ lldp_ops f p (pos + l + 2)
        else []
  end.

Definition view_ops (k : vkind) (p : bytes) : list vop :=
  map VOp
  match k with
  | KEther => [ohex16 "type" (w16 p 12); omac "src" (vsub p 6 6); omac "dst" (vsub p 0 6);
               oint "len" (Z.of_nat (plen p))]
  | KIP4 =>
      [ointN "version" (bt p 0 / 16); oaddr "src" (vsub p 12 4); oaddr "dst" (vsub p 16 4);
       ouint "proto" (bt p 9); ointN "ttl" (bt p 8); ointN "tos" (bt p 1);
       ohex8 "flags" (N.land (bt p 6) 224)]
      ++ (let frag := N.land (bt p 6) 31 * 256 + bt p 7 in
          if frag =? 0 then [] else [ointN "fragment" frag])
      ++ [ointN "totallen" (w16 p 2)]
  | KIP6 =>
      [ointN "version" (bt p 0 / 16); oaddr "src" (vsub p 8 16); oaddr "dst" (vsub p 24 16);
       ouint "nextHeader" (bt p 6); ouint "len" (w16 p 4); ouint "hopLimit" (bt p 7);
       ointN "class" (N.lor (N.land (bt p 0) 15 * 16) (bt p 1 / 16))]
  | KUDP => [ouint "srcport" (w16 p 0); ouint "dstport" (w16 p 2); ointN "len" (w16 p 4);
             oint "payloadlen" (Z.of_nat (plen p - 8))]
  | KARP => [ouint "operation" (w16 p 6); omac "srcMAC" (vsub p 8 6); oaddr "srcIP" (vsub p 14 4);
             omac "dstMAC" (vsub p 18 6); oaddr "dstIP" (vsub p 24 4)]
  | KICMP => [ouint "type" (bt p 0); ouint "code" (bt p 1); ohex16 "checksum" (w16 p 2);
              oint "len" (Z.of_nat (plen p - 8))]
  | KICMPEcho => [ouint "type" (bt p 0); ouint "code" (bt p 1); ohex16 "checksum" (w16 p 2);
                  ohex16 "id" (w16 p 4); ohex16 "seq" (w16 p 6); oba "data" (skipn 8 p)]
  | KRS => [ostr "type" (s2b "ra"); ouint "code" (bt p 1); omac "sourceLLA" (lla_at p 8 1)]
  | KRA => [ostr "type" (s2b "ra"); ouint "code" (bt p 1); ouint "hoplim" (bt p 4); ohex8 "flags" (bt p 5);
            obool "managed" (bit (bt p 5) 128); obool "other" (bit (bt p 5) 64);
            ouint "preference" (N.land (bt p 5) 24 / 8); ouint "lifetimesec" (w16 p 6);
            ouint "reacheablemsec" (w32 p 8); ouint "retransmitmsec" (w32 p 12)]
  | KNA => [ostr "type" (s2b "na"); ouint "code" (bt p 1); obool "override" (bit (bt p 4) 32);
            obool "solicited" (bit (bt p 4) 64); obool "router" (bit (bt p 4) 64);
            oaddr "targetIP" (vsub p 8 16); omac "targetLLA" (lla_at p 24 2)]
  | KNS => [ostr "type" (s2b "ns"); ouint "code" (bt p 1); oaddr "targetIP" (vsub p 8 16);
            omac "sourceLLA" (lla_at p 24 1)]
  | KDHCP4 => [oba "xid" (vsub p 4 4); ouint "opcode" (bt p 0); omac "chaddr" (vsub p 28 6);
               oaddr "ciaddr" (vsub p 12 4); oaddr "yiaddr" (vsub p 16 4); oint "len" (Z.of_nat (plen p))]
  | KDNS => [ouint "tranid" (w16 p 0); obool "qr" (bit (bt p 2) 128); obool "rc" (bit (bt p 2) 2);
             ointN "rcode" (N.land (bt p 3) 15); ouint "qdcount" (w16 p 4); ouint "ancount" (w16 p 6);
             ouint "nscount" (w16 p 8); ouint "arcount" (w16 p 10)]
  | KPause => [ohex16 "opcode" (w16 p 0); ohex16 "duration" (w16 p 2)]
  | KIEEE1905 => [ouint "version" (bt p 0); ohex16 "type" (w16 p 2); ouint "id" (w16 p 4);
                  ouint "fragment" (bt p 6); ohex8 "flags" (bt p 7); oba "tlv" (skipn 8 p)]
  | KLLC => [ouint "dsap" (bt p 0); ouint "ssap" (bt p 1); ostr "type" (llc_type p); ouint "control" (bt p 2)]
  | KSNAP => [ouint "dsap" (bt p 0); ouint "control" (bt p 2); oba "orgid" (vsub p 3 3); ouint "ethertype" (w16 p 6)]
  | KRRCP =>
      if bt p 0 =? 35 then
        [ostr "protocol" (s2b "realtek loop detection (0x23)"); oba "sixbytes" (vsub p 1 6); oba "zeros" (skipn 7 p)]
      else if bt p 0 =? 1 then
        [ostr "protocol" (s2b "realtek (0x01)"); obool "reply" (bit (bt p 1) 128); ohex8 "opcode" (N.land (bt p 1) 127)]
      else [ohex8 "protocol" (bt p 0); ostr "msg" (s2b "unknown realtek protocol"); oba "payload" p]
  | KRedirect =>
      [ouint "type" (bt p 0); ouint "code" (bt p 1); ohex16 "checksum" (w16 p 2); ouint "naddrs" (bt p 4);
       ouint "addrsize" (bt p 5); ouint "lifetime" (w16 p 6); ouint "lifetime" (w16 p 6);
       OIPArr (s2b "addrs") (redirect_addrs p)]
  | KLLDP => lldp_ops (plen p) p 0
  end.

(* ---------------------------------------------------------------- table entries *)

(* packet.Addr{MAC, IP, Port}: IP None = the invalid netip.Addr *)
Record addr_t := mkAddr { a_mac : bytes; a_ip : option bytes; a_port : N }.
Definition addr_ops (a : addr_t) : list vop :=
  map VOp ([omac "mac" (a_mac a); oaddr_opt "ip" (a_ip a)]
           ++ (if a_port a =? 0 then [] else [ouint "port" (a_port a)])).

(* packet.NameEntry; ne_expire: None = the zero time, Some t = AppendFormat(StampMilli) text *)
Record name_t := mkName { ne_type : bytes; ne_name : bytes; ne_model : bytes; ne_os : bytes;
                          ne_manuf : bytes; ne_expire : option bytes }.
Definition nonempty (b : bytes) : bool := match b with [] => false | _ => true end.
Definition name_ops (n : name_t) : list vop :=
  map VOp
  ((if nonempty (ne_name n) then [OString (ne_type n ++ s2b "name") (ne_name n)] else [])
   ++ (if nonempty (ne_model n) then [OString (ne_type n ++ s2b "model") (ne_model n)] else [])
   ++ (if nonempty (ne_os n) then [OString (ne_type n ++ s2b "OS") (ne_os n)] else [])
   ++ (if nonempty (ne_manuf n) then [OString (ne_type n ++ s2b "manufacturer") (ne_manuf n)] else [])
   ++ (match ne_expire n with Some t => [OText (s2b "expire") t] | None => [] end)).

Record names_t := mkNames { n_dhcp4 : name_t; n_mdns : name_t; n_ssdp : name_t; n_llmnr : name_t; n_nbns : name_t }.
Definition names_ops (ns : names_t) : list vop :=
  [VStruct (Some (name_ops (n_dhcp4 ns))); VStruct (Some (name_ops (n_mdns ns)));
   VStruct (Some (name_ops (n_ssdp ns))); VStruct (Some (name_ops (n_llmnr ns)));
   VStruct (Some (name_ops (n_nbns ns)))].

(* HuntStage.String *)
Definition stage_text (s : N) : bytes :=
  if s =? 1 then s2b "normal" else if s =? 3 then s2b "redirected" else if s =? 2 then s2b "hunt" else s2b "noop".

(* packet.Host (with its MACEntry present); h_lastseen: time.Since(LastSeen).String() *)
Record host_t := mkHost { h_addr : addr_t; h_online : bool; h_captured : bool; h_stage : N;
                          h_manuf : bytes; h_names : names_t; h_lastseen : bytes }.
Definition host_ops (h : host_t) : list vop :=
  map VOp [omac "mac" (a_mac (h_addr h)); oaddr_opt "ip" (a_ip (h_addr h)); obool "online" (h_online h);
           obool "captured" (h_captured h); ostr "stage" (stage_text (h_stage h)); ostr "manufacturer" (h_manuf h)]
  ++ names_ops (h_names h)
  ++ [VOp (ostr "lastSeen" (h_lastseen h))].

(* packet.MACEntry *)
Record mac_t := mkMac { m_mac : bytes; m_captured : bool; m_online : bool; m_ip4 : option bytes;
                        m_gua : option bytes; m_lla : option bytes; m_offer : option bytes; m_hosts : Z;
                        m_lastseen : bytes; m_manuf : bytes; m_names : names_t }.
Definition mac_ops (e : mac_t) : list vop :=
  map VOp ([omac "mac" (m_mac e)]
           ++ (if m_captured e then [obool "captured" true] else [])
           ++ (if m_online e then [obool "online" true] else [])
           ++ [oaddr_opt "ip" (m_ip4 e); oaddr_opt "ip6" (m_gua e); oaddr_opt "lla" (m_lla e)]
           ++ (match m_offer e with Some b => [oaddr "ip4offer" b] | None => [] end)
           ++ [oint "hosts" (m_hosts e); ostr "lastSeen" (m_lastseen e)]
           ++ (if nonempty (m_manuf e) then [ostr "manufacturer" (m_manuf e)] else []))
  ++ names_ops (m_names e).

(* packet.Notification *)
Record notif_t := mkNotif { nf_addr : addr_t; nf_online : bool; nf_manuf : bytes; nf_names : names_t; nf_router : bool }.
Definition notif_ops (n : notif_t) : list vop :=
  [VStruct (Some (addr_ops (nf_addr n))); VOp (obool "online" (nf_online n))]
  ++ (if nonempty (nf_manuf n) then [VOp (ostr "manufacturer" (nf_manuf n))] else [])
  ++ names_ops (nf_names n)
  ++ [VOp (obool "router" (nf_router n))].

(* packet.DNSEntry: the record maps are ranged over in Go's map order, which is a parameter here:
   the lists hold the IP.String() / CName texts in the order the iteration produced them *)
Record dnsentry_t := mkDnsEntry { de_name : bytes; de_ip4 : list bytes; de_ip6 : list bytes; de_cname : list bytes }.
Definition dnsentry_ops (d : dnsentry_t) : list vop :=
  map VOp [ostr "name" (de_name d); OStrArr (s2b "ip4") (de_ip4 d); OStrArr (s2b "ip6") (de_ip6 d);
           OStrArr (s2b "cname") (de_cname d)].

(* packet.DNSNameEntry *)
Record dnsname_t := mkDnsName { dn_addr : addr_t; dn_name : bytes; dn_model : bytes }.
Definition dnsname_ops (d : dnsname_t) : list vop :=
  [VStruct (Some (addr_ops (dn_addr d))); VOp (ostr "name" (dn_name d)); VOp (ostr "model" (dn_model d))].

(* packet.IPNameEntry *)
Record ipname_t := mkIpName { in_addr : addr_t; in_name : name_t }.
Definition ipname_ops (n : ipname_t) : list vop :=
  [VStruct (Some (addr_ops (in_addr n))); VStruct (Some (name_ops (in_name n)))].

(* dhcp4_spoofer.Lease attached to its subnet; State.String; ls_lan = subnet.LAN.String() *)
Definition lease_state_text (s : N) : bytes :=
  if s =? 2 then s2b "allocated" else if s =? 1 then s2b "discovery" else s2b "free".
Record lease_t := mkLease { ls_id : bytes; ls_state : N; ls_addr : addr_t; ls_name : bytes; ls_offer : option bytes;
                            ls_stage : N; ls_gw : option bytes; ls_lan : bytes; ls_subid : bytes }.
Definition lease_ops (l : lease_t) : list vop :=
  [VOp (oba "id" (ls_id l)); VOp (ostr "state" (lease_state_text (ls_state l)));
   VStruct (Some (addr_ops (ls_addr l))); VOp (ostr "name" (ls_name l)); VOp (oaddr_opt "offer" (ls_offer l));
   VOp (ostr "capture" (stage_text (ls_stage l))); VOp (oaddr_opt "gw" (ls_gw l));
   VOp (ostr "subnet" (ls_lan l)); VOp (ostr "subnet_id" (ls_subid l))].

(* ---------------------------------------------------------------- one type for all of them *)

Inductive view : Type :=
| VBytes (k : vkind) (p : bytes)
| VAddr (a : addr_t) | VName (n : name_t) | VHost (h : host_t) | VMac (e : mac_t) | VNotif (n : notif_t)
| VDnsEntry (d : dnsentry_t) | VDnsName (d : dnsname_t) | VIpName (n : ipname_t) | VLease (l : lease_t).

Definition ops_of (v : view) : list vop :=
  match v with
  | VBytes k p => view_ops k p
  | VAddr a => addr_ops a
  | VName n => name_ops n
  | VHost h => host_ops h
  | VMac e => mac_ops e
  | VNotif n => notif_ops n
  | VDnsEntry d => dnsentry_ops d
  | VDnsName d => dnsname_ops d
  | VIpName n => ipname_ops n
  | VLease l => lease_ops l
  end.

(* ---------------------------------------------------------------- census: what is modelled, by name *)
(* Compared on every run with the source (reflection / go/ast, harness kind "census"): a new exported method
   of Line or Logger, or a new FastLog implementation anywhere in /repo, disagrees with these lists. *)

(* exported methods of *fastlog.Line, each with the model function that mirrors it *)
Definition line_methods : list (string * string) :=
  [("Bool", "f_bool"); ("ByteArray", "f_byte_array"); ("Bytes", "f_bytes"); ("Duration", "f_text"); ("Error", "f_error");
   ("IP", "f_ip"); ("IPArray", "f_ip_array"); ("IPSlice", "f_ipslice"); ("Int", "f_int"); ("LF", "f_lf"); ("Label", "f_label");
   ("MAC", "f_mac"); ("Module", "f_module"); ("Sprintf", "f_text"); ("String", "f_string"); ("StringArray", "f_string_array");
   ("Stringer", "f_stringer"); ("Struct", "VStruct"); ("Time", "f_text"); ("ToString", "to_string"); ("Uint16", "f_uint");
   ("Uint16Hex", "f_uint16hex"); ("Uint32", "f_uint"); ("Uint8", "f_uint"); ("Uint8Hex", "f_uint8hex"); ("Write", "write_out")]%string.

(* exported methods of *fastlog.Logger: Msg starts a line (msg_line); the others read or set the level and do not format *)
Definition logger_methods : list (string * string) :=
  [("Disable", "level"); ("EnableDebug", "level"); ("EnableInfo", "level"); ("IsDebug", "level"); ("IsInfo", "level");
   ("Level", "level"); ("Msg", "msg_line"); ("SetLevel", "level"); ("SetLevelString", "level")]%string.

(* every FastLog implementation of /repo (non-test files), each with its call-list model *)
Definition fastlog_impls : list (string * string) :=
  [("dhcp4_spoofer.Lease", "lease_ops"); ("packet.ARP", "KARP"); ("packet.Addr", "addr_ops"); ("packet.DHCP4", "KDHCP4");
   ("packet.DNS", "KDNS"); ("packet.DNSEntry", "dnsentry_ops"); ("packet.DNSNameEntry", "dnsname_ops"); ("packet.Ether", "KEther");
   ("packet.EthernetPause", "KPause"); ("packet.Host", "host_ops"); ("packet.ICMP", "KICMP"); ("packet.ICMP4Redirect", "KRedirect");
   ("packet.ICMP6NeighborAdvertisement", "KNA"); ("packet.ICMP6NeighborSolicitation", "KNS");
   ("packet.ICMP6RouterAdvertisement", "KRA"); ("packet.ICMP6RouterSolicitation", "KRS"); ("packet.ICMPEcho", "KICMPEcho");
   ("packet.IEEE1905", "KIEEE1905"); ("packet.IP4", "KIP4"); ("packet.IP6", "KIP6"); ("packet.IPNameEntry", "ipname_ops");
   ("packet.LLC", "KLLC"); ("packet.LLDP", "KLLDP"); ("packet.MACEntry", "mac_ops"); ("packet.NameEntry", "name_ops");
   ("packet.Notification", "notif_ops"); ("packet.RRCP", "KRRCP"); ("packet.SNAP", "KSNAP"); ("packet.UDP", "KUDP")]%string.

(* the appenders whose text comes from the standard library (a parameter of the model), each with the calls that LEAVE
   package fastlog today (go/ast: standard-library functions qualified, methods on values other than the Line by name,
   collected through package-local helpers; builtins and package-local calls are not listed, so refactoring inside the
   package is silent).  Replacing a standard rendering by a hand-written one changes this table. *)
Definition stdlib_calls : string :=
  "Duration:String;Error:Error;IP:AppendTo,IsValid;Int:strconv.AppendInt;Sprintf:fmt.Sprintf;Stringer:IsNil,Kind,String,reflect.ValueOf;Struct:FastLog,IsNil,Kind,reflect.ValueOf;Time:AppendFormat"%string.
