(* Model/Locks.v — the locking discipline of irai/packet as an interleaving
   semantics of threads over RW locks, channels and shared locations.

   Two levels:
   * templates ([tact]): what the Go source says, at the level of lock CLASSES
     and FIELDS (the session lock, "the row lock of the MAC entry this host
     belongs to", "Host.LastSeen of that host"). One template per operation
     of the supported pattern, hand-transcribed in Model/LocksOps.v.
   * actions ([action]): templates instantiated on concrete row instances
     ([inst]): lock (class, instance), location (field, instance).  A thread
     of the semantics executes an instantiated template.

   Semantics ([step]): standard interleaving; an acquire is enabled only when
   Go's sync.RWMutex would grant it, including writer preference (a reader
   blocks behind a pending writer), which is the most-blocking reading of the
   RWMutex contract.  A Go panic (send on / close of a closed channel) is the
   [panicked] component.  The scheduler, the memory model and the detector are
   NOT modelled (runtime residue of C09). *)
From PV Require Import Base.Prelude.
From Coq Require Import Bool Arith.
Open Scope nat_scope.

(* ---------- lock classes, fields, channels ---------- *)

Inductive lockc :=
| LSess      (* Session.mutex                         session.go:95 *)
| LRow       (* MACEntry.Row (one per MAC entry)      mactable.go:27 *)
| LArp       (* arp_spoofer.Handler.arpMutex          arp.go:26 *)
| LIcmp6     (* icmp_spoofer.Handler6.Mutex           icmp6.go:26 *)
| LDhcp      (* dhcp4_spoofer.Handler.Mutex           dhcp4.go *)
| LDns       (* dns_naming.DNSHandler.mutex           dns.go:27 *)
| LPing.     (* packet.icmpTable.Mutex                layer_icmp.go *)

Inductive mode := MR | MW.

Definition lockc_idx (c : lockc) : nat :=
  match c with LSess => 0 | LRow => 1 | LArp => 2 | LIcmp6 => 3 | LDhcp => 4 | LDns => 5 | LPing => 6 end.
Definition lockc_eqb (a b : lockc) : bool := Nat.eqb (lockc_idx a) (lockc_idx b).
Definition mode_eqb (a b : mode) : bool :=
  match a, b with MR, MR => true | MW, MW => true | _, _ => false end.
Definition is_W (m : mode) : bool := match m with MW => true | MR => false end.

(* a lock class with one instance per MAC entry; all others are singletons *)
Definition per_row_lock (c : lockc) : bool := match c with LRow => true | _ => false end.

Inductive field :=
(* session-wide *)
| FHostTable        (* Session.HostTable.Table (map)      *)
| FMACTable         (* Session.MACTable.Table (slice)     *)
| FSessClosed       (* Session.closed                     *)
| FStats            (* Session.Statistics[i]              *)
| FHeartBeat        (* Session.ipHeartBeat (atomic)       *)
(* per MAC entry (row): Host fields of the hosts of that entry and MACEntry fields *)
| FHostLastSeen | FHostOnline | FHostDirty | FHostHuntStage | FHostNames | FHostManuf
| FMacLastSeen | FMacOnline | FMacCaptured | FMacIsRouter | FMacIPs | FMacIP4Offer
| FMacHostList | FMacNames | FMacManuf
(* arp handler *)
| FArpHuntList | FArpClosed
(* icmp6 handler *)
| FI6HuntList | FI6Closed | FI6CloseChan | FI6Routers | FI6Router | FI6Repeat
(* dhcp4 handler *)
| FDhcpTable | FDhcpClosed | FDhcpMode
(* dns handler *)
| FDnsTable | FDnsMdnsCache | FDnsClosed.

Definition field_idx (f : field) : nat :=
  match f with
  | FHostTable => 0 | FMACTable => 1 | FSessClosed => 2 | FStats => 3 | FHeartBeat => 4
  | FHostLastSeen => 5 | FHostOnline => 6 | FHostDirty => 7 | FHostHuntStage => 8 | FHostNames => 9
  | FHostManuf => 10 | FMacLastSeen => 11 | FMacOnline => 12 | FMacCaptured => 13 | FMacIsRouter => 14
  | FMacIPs => 15 | FMacIP4Offer => 16 | FMacHostList => 17 | FMacNames => 18 | FMacManuf => 19
  | FArpHuntList => 20 | FArpClosed => 21
  | FI6HuntList => 22 | FI6Closed => 23 | FI6CloseChan => 24 | FI6Routers => 25 | FI6Router => 26 | FI6Repeat => 27
  | FDhcpTable => 28 | FDhcpClosed => 29 | FDhcpMode => 30
  | FDnsTable => 31 | FDnsMdnsCache => 32 | FDnsClosed => 33
  end.
Definition field_eqb (a b : field) : bool := Nat.eqb (field_idx a) (field_idx b).

(* fields that exist once per MAC entry (instance = row) *)
Definition per_row_field (f : field) : bool :=
  match f with
  | FHostLastSeen | FHostOnline | FHostDirty | FHostHuntStage | FHostNames | FHostManuf
  | FMacLastSeen | FMacOnline | FMacCaptured | FMacIsRouter | FMacIPs | FMacIP4Offer
  | FMacHostList | FMacNames | FMacManuf => true
  | _ => false
  end.

Inductive chan :=
| CNotify      (* Session.C *)
| CSessClose   (* Session.closeChan *)
| CArpClose    (* arp Handler.closeChan *)
| CI6Close     (* Handler6.closeChan (the channel current at the time of the action) *)
| CDhcpClose
| CDnsClose.
Definition chan_idx (c : chan) : nat :=
  match c with CNotify => 0 | CSessClose => 1 | CArpClose => 2 | CI6Close => 3 | CDhcpClose => 4 | CDnsClose => 5 end.
Definition chan_eqb (a b : chan) : bool := Nat.eqb (chan_idx a) (chan_idx b).

(* ---------- templates ---------- *)

Section WithOps.
(* operation names: an enumeration supplied by Model/LocksOps.v *)
Variable op : Type.

Inductive tact :=
| TAcq (c : lockc) (m : mode)
| TRel (c : lockc)
| TRd (f : field)
| TWr (f : field)
| TARd (f : field)            (* sync/atomic load  *)
| TAWr (f : field)            (* sync/atomic store *)
| TSend (c : chan)            (* ch <- v *)
| TLenCap (c : chan)          (* len(ch) < cap(ch): synchronised by the channel, no data access *)
| TCloseCh (c : chan)         (* close(ch) *)
| TSpawn (o : op)             (* go o(...) on the same row *)
| TExitIfClosed (c : chan)    (* select { case <-c: return ... } *)
| TExitIfFlag (f : field)     (* if flag { return }: control only; the read of f is a separate TRd *)
| TSetFlag (f : field)        (* flag = true: control only; the write of f is a separate TWr *)
| TAgain                      (* for { ... } : back to the loop head *)
| TOnce (f : field)           (* atomic test-and-set of a flag inside one exclusive lock section (or by CAS):
                                 if set { unlock everything; return } else set it *)
| TWake (c : chan)            (* under the handler lock: replace the wake-up channel by a fresh one and close the
                                 replaced one — the CURRENT channel stays open (icmp6 RA) *)
| TSendIfOpen (f : field) (c : chan) (* if !flag { select { case c <- v: default: } } : non-blocking, skipped once closed *)
| TRecv (c : chan).           (* blocking receive / select without default that waits on c (and a timer) *)

(* a template: prologue, a section repeated for each row of the instance, epilogue *)
Record tmpl := { t_pre : list tact; t_each : list tact; t_post : list tact }.
Definition flat (t : tmpl) : list tact := t_pre t ++ t_each t ++ t_post t.

(* ---------- instantiated actions ---------- *)

Definition lock := (lockc * nat)%type.
Definition loc := (field * nat)%type.
Definition lock_eqb (a b : lock) : bool := lockc_eqb (fst a) (fst b) && Nat.eqb (snd a) (snd b).
Definition loc_eqb (a b : loc) : bool := field_eqb (fst a) (fst b) && Nat.eqb (snd a) (snd b).

Inductive action :=
| Acq (l : lock) (m : mode)
| Rel (l : lock)
| Rd (x : loc)
| Wr (x : loc)
| ARd (x : loc)
| AWr (x : loc)
| Send (c : chan)
| LenCap (c : chan)
| CloseCh (c : chan)
| Spawn (o : op) (r : nat)
| ExitIfClosed (c : chan)
| ExitIfFlag (x : loc)
| SetFlag (x : loc)
| Again
| Once (x : loc)
| Wake (c : chan)
| SendIfOpen (x : loc) (c : chan)
| Recv (c : chan).

Definition ilock (r : nat) (c : lockc) : lock := (c, if per_row_lock c then r else 0).
Definition iloc (r : nat) (f : field) : loc := (f, if per_row_field f then r else 0).

Definition inst1 (r : nat) (a : tact) : action :=
  match a with
  | TAcq c m => Acq (ilock r c) m
  | TRel c => Rel (ilock r c)
  | TRd f => Rd (iloc r f)
  | TWr f => Wr (iloc r f)
  | TARd f => ARd (iloc r f)
  | TAWr f => AWr (iloc r f)
  | TSend c => Send c
  | TLenCap c => LenCap c
  | TCloseCh c => CloseCh c
  | TSpawn o => Spawn o r
  | TExitIfClosed c => ExitIfClosed c
  | TExitIfFlag f => ExitIfFlag (iloc r f)
  | TSetFlag f => SetFlag (iloc r f)
  | TAgain => Again
  | TOnce f => Once (iloc r f)
  | TWake c => Wake c
  | TSendIfOpen f c => SendIfOpen (iloc r f) c
  | TRecv c => Recv c
  end.
Definition inst (r : nat) (l : list tact) : list action := map (inst1 r) l.

(* the action list of a template on rows [rows]: prologue and epilogue on the
   first row, the repeated section once per row *)
Definition body_of (t : tmpl) (rows : list nat) : list action :=
  let r0 := hd 0 rows in
  inst r0 (t_pre t) ++ flat_map (fun r => inst r (t_each t)) rows ++ inst r0 (t_post t).

(* ---------- threads and states ---------- *)

Variable template : op -> tmpl.
Definition body (o : op) (rows : list nat) : list action := body_of (template o) rows.

Record thread := { top : op; trows : list nat; held : list (lock * mode); rest : list action }.
Record state := { threads : list thread; closedch : list chan; flags : list loc; panicked : bool }.

Definition start (o : op) (rows : list nat) : thread :=
  {| top := o; trows := rows; held := []; rest := body o rows |}.
Definition init (l : list (op * list nat)) : state :=
  {| threads := map (fun p => start (fst p) (snd p)) l; closedch := []; flags := []; panicked := false |}.

Definition holds (t : thread) (l : lock) : bool := existsb (fun h => lock_eqb (fst h) l) (held t).
Definition holdsW (t : thread) (l : lock) : bool :=
  existsb (fun h => lock_eqb (fst h) l && is_W (snd h)) (held t).
Definition waitsW (t : thread) (l : lock) : bool :=
  match rest t with Acq l' MW :: _ => lock_eqb l' l | _ => false end.

Fixpoint others {A} (i : nat) (l : list A) : list A :=
  match l, i with
  | [], _ => []
  | _ :: r, O => r
  | x :: r, S i' => x :: others i' r
  end.

(* sync.RWMutex: Lock needs the lock free; RLock needs no writer holding it
   and (writer preference) no writer waiting for it *)
Definition can_acquire (ts : list thread) (i : nat) (self : thread) (l : lock) (m : mode) : bool :=
  match m with
  | MW => negb (holds self l) && forallb (fun t => negb (holds t l)) (others i ts)
  | MR => negb (holdsW self l) && forallb (fun t => negb (holdsW t l) && negb (waitsW t l)) (others i ts)
  end.

Fixpoint remove_lock (l : lock) (h : list (lock * mode)) : list (lock * mode) :=
  match h with
  | [] => []
  | x :: r => if lock_eqb (fst x) l then r else x :: remove_lock l r
  end.

Definition chan_closed (s : state) (c : chan) : bool := existsb (chan_eqb c) (closedch s).
Definition flag_set (s : state) (x : loc) : bool := existsb (loc_eqb x) (flags s).

Fixpoint set_thread (i : nat) (t : thread) (l : list thread) : list thread :=
  match l, i with
  | [], _ => []
  | _ :: r, O => t :: r
  | x :: r, S i' => x :: set_thread i' t r
  end.

Definition upd (s : state) (i : nat) (t : thread) : state :=
  {| threads := set_thread i t (threads s); closedch := closedch s; flags := flags s; panicked := panicked s |}.

Definition with_rest (t : thread) (r : list action) : thread :=
  {| top := top t; trows := trows t; held := held t; rest := r |}.
Definition with_held (t : thread) (h : list (lock * mode)) (r : list action) : thread :=
  {| top := top t; trows := trows t; held := h; rest := r |}.

(* one step of thread i; None = finished, blocked, or the program has panicked *)
Definition step (s : state) (i : nat) : option state :=
  if panicked s then None else
  match nth_error (threads s) i with
  | None => None
  | Some t =>
    match rest t with
    | [] => None
    | a :: r =>
      match a with
      | Acq l m =>
          if can_acquire (threads s) i t l m then Some (upd s i (with_held t ((l, m) :: held t) r)) else None
      | Rel l => Some (upd s i (with_held t (remove_lock l (held t)) r))
      | Rd _ | Wr _ | ARd _ | AWr _ | LenCap _ | Wake _ | Recv _ => Some (upd s i (with_rest t r))
      | Once x =>
          if flag_set s x then Some (upd s i (with_held t [] []))
          else Some {| threads := set_thread i (with_rest t r) (threads s); closedch := closedch s;
                       flags := x :: flags s; panicked := false |}
      | SendIfOpen x c =>
          if flag_set s x then Some (upd s i (with_rest t r))
          else if chan_closed s c
          then Some {| threads := threads s; closedch := closedch s; flags := flags s; panicked := true |}
          else Some (upd s i (with_rest t r))
      | Send c =>
          if chan_closed s c
          then Some {| threads := threads s; closedch := closedch s; flags := flags s; panicked := true |}
          else Some (upd s i (with_rest t r))
      | CloseCh c =>
          if chan_closed s c
          then Some {| threads := threads s; closedch := closedch s; flags := flags s; panicked := true |}
          else Some {| threads := set_thread i (with_rest t r) (threads s); closedch := c :: closedch s;
                       flags := flags s; panicked := false |}
      | Spawn o row =>
          Some {| threads := set_thread i (with_rest t r) (threads s) ++ [start o [row]];
                  closedch := closedch s; flags := flags s; panicked := false |}
      | ExitIfClosed c =>
          if chan_closed s c then Some (upd s i (with_rest t [])) else Some (upd s i (with_rest t r))
      | ExitIfFlag x =>
          if flag_set s x then Some (upd s i (with_rest t [])) else Some (upd s i (with_rest t r))
      | SetFlag x =>
          Some {| threads := set_thread i (with_rest t r) (threads s); closedch := closedch s;
                  flags := x :: flags s; panicked := false |}
      | Again => Some (upd s i (with_rest t (body (top t) (trows t))))
      end
    end
  end.

(* a schedule is the list of thread indices chosen; stuck choices are skipped *)
Fixpoint run (s : state) (sched : list nat) : state :=
  match sched with
  | [] => s
  | i :: r => match step s i with Some s' => run s' r | None => run s r end
  end.

Inductive reachable (s0 : state) : state -> Prop :=
| reach_refl : reachable s0 s0
| reach_step : forall s i s', reachable s0 s -> step s i = Some s' -> reachable s0 s'.

(* ---------- lock order ---------- *)

(* executing [acts] from held set [h]: every acquire takes a lock of rank
   strictly above everything held (so never a lock already held, in any mode),
   every release releases a held lock, the thread ends (or loops) holding nothing *)
Fixpoint remove1 (l : lock) (h : list lock) : list lock :=
  match h with
  | [] => []
  | x :: r => if lock_eqb x l then r else x :: remove1 l r
  end.

Fixpoint ordered (rank : lock -> nat) (h : list lock) (acts : list action) : Prop :=
  match acts with
  | [] => h = []
  | Acq l _ :: r => (forall x, In x h -> rank x < rank l) /\ ordered rank (l :: h) r
  | Rel l :: r => In l h /\ ordered rank (remove1 l h) r
  | Again :: r => h = []
  | ExitIfClosed _ :: r | ExitIfFlag _ :: r => h = [] /\ ordered rank h r
  | _ :: r => ordered rank h r
  end.


(* ---------- static analysis of templates (lock classes) ---------- *)

Definition crank (c : lockc) : nat :=
  match c with LDhcp => 1 | LArp => 2 | LIcmp6 => 3 | LDns => 4 | LSess => 10 | LRow => 20 | LPing => 30 end.
Definition rank (l : lock) : nat := crank (fst l).

Fixpoint cremove (c : lockc) (h : list (lockc * mode)) : list (lockc * mode) :=
  match h with
  | [] => []
  | x :: r => if lockc_eqb (fst x) c then r else x :: cremove c r
  end.
Definition cheld (c : lockc) (h : list (lockc * mode)) : bool := existsb (fun x => lockc_eqb (fst x) c) h.

(* walk a template from held classes [h]; None = lock-order violation *)
Fixpoint tord (h : list (lockc * mode)) (acts : list tact) : option (list (lockc * mode)) :=
  match acts with
  | [] => Some h
  | TAcq c m :: r =>
      if forallb (fun x => crank (fst x) <? crank c) h then tord ((c, m) :: h) r else None
  | TRel c :: r => if cheld c h then tord (cremove c h) r else None
  | TAgain :: r => match h with [] => Some [] | _ => None end
  | TExitIfClosed _ :: r | TExitIfFlag _ :: r => match h with [] => tord h r | _ => None end
  | _ :: r => tord h r
  end.

Definition held_eqb (a b : list (lockc * mode)) : bool :=
  Nat.eqb (length a) (length b) &&
  forallb (fun p => lockc_eqb (fst (fst p)) (fst (snd p)) && mode_eqb (snd (fst p)) (snd (snd p))) (combine a b).

Definition ends_in_again (l : list tact) : bool :=
  match rev l with TAgain :: _ => true | _ => false end.

(* a template respects the lock order: prologue from nothing to [h1] (only
   singleton locks may stay held across the per-row section), the per-row
   section is balanced, the epilogue ends holding nothing *)
Definition tmpl_ok (t : tmpl) : bool :=
  match tord [] (t_pre t) with
  | None => false
  | Some h1 =>
      forallb (fun x => negb (per_row_lock (fst x))) h1 &&
      match tord h1 (t_each t) with
      | None => false
      | Some h2 =>
          held_eqb h1 h2 &&
          match tord h1 (t_post t) with Some [] => true | _ => false end
      end
  end.

(* nesting graph: (held, acquired) edges between lock classes *)
Fixpoint tedges (h : list (lockc * mode)) (acts : list tact) : list (lockc * lockc) :=
  match acts with
  | [] => []
  | TAcq c m :: r => map (fun x => (fst x, c)) h ++ tedges ((c, m) :: h) r
  | TRel c :: r => tedges (cremove c h) r
  | _ :: r => tedges h r
  end.

(* accesses with the lock classes held: (field, is_write, held) ; atomics are not data accesses *)
Fixpoint taccs (h : list (lockc * mode)) (acts : list tact) : list (field * bool * list (lockc * mode)) :=
  match acts with
  | [] => []
  | TAcq c m :: r => taccs ((c, m) :: h) r
  | TRel c :: r => taccs (cremove c h) r
  | TRd f :: r => (f, false, h) :: taccs h r
  | TWr f :: r => (f, true, h) :: taccs h r
  | _ :: r => taccs h r
  end.

(* two accesses to field f are protected when they hold a common lock class, at least one of them
   exclusively, and that class denotes the SAME lock for both: a singleton lock, or the row lock when f is a
   field of that row (a row lock says nothing about session-wide fields: two threads may hold different rows) *)
Definition protectedb (f : field) (h1 h2 : list (lockc * mode)) : bool :=
  existsb (fun x => existsb (fun y =>
     lockc_eqb (fst x) (fst y) && (is_W (snd x) || is_W (snd y))
     && (negb (per_row_lock (fst x)) || per_row_field f)) h2) h1.

Definition conflictb (a b : field * bool * list (lockc * mode)) : bool :=
  field_eqb (fst (fst a)) (fst (fst b)) && (snd (fst a) || snd (fst b)).

(* fields on which the two templates have an unprotected conflicting pair of accesses *)
Definition racy_fields (t1 t2 : tmpl) : list field :=
  let a1 := taccs [] (flat t1) in
  let a2 := taccs [] (flat t2) in
  flat_map (fun a => flat_map (fun b =>
     if conflictb a b && negb (protectedb (fst (fst a)) (snd a) (snd b)) then [fst (fst a)] else []) a2) a1.

(* send / close sites *)
Definition sends (t : tmpl) (c : chan) : bool :=
  existsb (fun a => match a with TSend c' => chan_eqb c c' | _ => false end) (flat t).
Definition closes (t : tmpl) (c : chan) : bool :=
  existsb (fun a => match a with TCloseCh c' => chan_eqb c c' | _ => false end) (flat t).
(* guarded (non-blocking, skipped when the flag is set) sends *)
Definition gsends (t : tmpl) (c : chan) (f : field) : bool :=
  existsb (fun a => match a with TSendIfOpen f' c' => chan_eqb c c' && field_eqb f f' | _ => false end) (flat t).
(* every close of c in the template happens after the atomic test-and-set of flag f *)
Fixpoint close_after_once_aux (seen : bool) (c : chan) (f : field) (acts : list tact) : bool :=
  match acts with
  | [] => true
  | TOnce f' :: r => close_after_once_aux (seen || field_eqb f f') c f r
  | TCloseCh c' :: r => (negb (chan_eqb c c') || seen) && close_after_once_aux seen c f r
  | _ :: r => close_after_once_aux seen c f r
  end.
Definition close_after_once (t : tmpl) (c : chan) (f : field) : bool := close_after_once_aux false c f (flat t).

(* every BLOCKING channel operation (send outside a select-with-default, receive / select without default)
   happens with no lock held; non-blocking ones (TSendIfOpen, close, the wake-up swap) may hold locks *)
Fixpoint sends_unlocked (h : list (lockc * mode)) (acts : list tact) : bool :=
  match acts with
  | [] => true
  | TAcq c m :: r => sends_unlocked ((c, m) :: h) r
  | TRel c :: r => sends_unlocked (cremove c h) r
  | TSend _ :: r | TRecv _ :: r | TExitIfClosed _ :: r => match h with [] => sends_unlocked h r | _ => false end
  | _ :: r => sends_unlocked h r
  end.

End WithOps.

Arguments TAcq {op}. Arguments TRel {op}. Arguments TRd {op}. Arguments TWr {op}.
Arguments TARd {op}. Arguments TAWr {op}. Arguments TSend {op}. Arguments TLenCap {op}.
Arguments TCloseCh {op}. Arguments TSpawn {op}. Arguments TExitIfClosed {op}.
Arguments TExitIfFlag {op}. Arguments TSetFlag {op}. Arguments TAgain {op}.
Arguments TOnce {op}. Arguments TWake {op}. Arguments TSendIfOpen {op}. Arguments TRecv {op}.
