(* Model/Checksum.v — line-by-line model of packet.Checksum and
   IP4.CalculateChecksum / the checksum write of SetPayload, AppendPayload
   (layer_ip4.go:99-147) and ICMP.SetChecksum (layer_icmp.go:40). *)
From PV Require Export Base.Prelude.
Open Scope N_scope.

(* for i := 0; i < len(b)-1; i += 2 { s += uint64(b[i+1])<<8 | uint64(b[i]) }
   if (len(b)-1)&1 == 0 { s += uint64(b[len(b)-1]) }     -- uint64 accumulator, wrap explicit *)
Definition u64 (x : N) : N := x mod 18446744073709551616.

Fixpoint cs_loop (b : bytes) (s : N) : N :=
  match b with
  | lo :: hi :: r => cs_loop r (u64 (s + (N.lor (N.shiftl hi 8) lo)))
  | [x] => u64 (s + x)
  | [] => s
  end.

(* for s>>16 != 0 { s = s>>16 + s&0xffff }: the loop, on fuel; five rounds bring any 64-bit
   value below 65536 (Proofs.Checksum.cs_fold_loop_done), the model gives it eight *)
Fixpoint cs_fold_loop (fuel : nat) (s : N) : N :=
  match fuel with
  | O => s
  | S f => if N.shiftr s 16 =? 0 then s
           else cs_fold_loop f (u64 (N.shiftr s 16 + N.land s 65535))
  end.

(* return ^uint16(s) *)
Definition cs_fold (s : N) : N := 65535 - u16 (cs_fold_loop 8 s).

Definition checksum (b : bytes) : N := cs_fold (cs_loop b 0).

(* proofs about callers treat the checksum as a value: simpl / cbn do not run the loops *)
Global Arguments cs_fold_loop : simpl never.
Global Arguments cs_fold : simpl never.
Global Arguments checksum : simpl never.

(* IP4.CalculateChecksum: psh := make([]byte,20); copy(psh[0:10], p[0:10]);
   copy(psh[10:18], p[12:20]); Checksum(psh).  Panics when cap(p) < 20
   (slice expressions p[0:10], p[12:20]); modelled on the 20-byte prefix. *)
Definition ip4_calc_checksum (p : bytes) : N :=
  checksum (firstn 10 p ++ sub p 12 8 ++ [0; 0]).

(* p[11] = byte(checksum >> 8); p[10] = byte(checksum) *)
Definition ip4_store_checksum (p : bytes) : bytes :=
  let c := ip4_calc_checksum p in
  set_nth 11 (u8 (N.shiftr c 8)) (set_nth 10 (u8 c) p).

(* ICMP.SetChecksum(cs): p[3] = uint8(cs >> 8); p[2] = uint8(cs) *)
Definition icmp_set_checksum (p : bytes) (cs : N) : bytes :=
  set_nth 2 (u8 cs) (set_nth 3 (u8 (N.shiftr cs 8)) p).

(* icmp6SendPacket pseudo header: psh[0:16]=src, psh[16:32]=dst,
   PutUint32(psh[32:36], uint32(len(b))), psh[36..38]=0, psh[39]=58 *)
Definition icmp6_pseudo (src dst : bytes) (n : N) : bytes :=
  src ++ dst ++ [u8 (N.shiftr n 24); u8 (N.shiftr n 16); u8 (N.shiftr n 8); u8 n] ++ [0; 0; 0; 58].
