(* Model/Checksum.v — line-by-line model of packet.Checksum and
   IP4.CalculateChecksum / the checksum write of SetPayload, AppendPayload
   (layer_ip4.go:99-147) and ICMP.SetChecksum (layer_icmp.go:40). *)
From PV Require Export Base.Prelude.
Open Scope N_scope.

(* for i := 0; i < len(b)-1; i += 2 { s += uint32(b[i+1])<<8 | uint32(b[i]) }
   if (len(b)-1)&1 == 0 { s += uint32(b[len(b)-1]) }     -- uint32 accumulator *)
Fixpoint cs_loop (b : bytes) (s : N) : N :=
  match b with
  | lo :: hi :: r => cs_loop r (u32 (s + (N.lor (N.shiftl hi 8) lo)))
  | [x] => u32 (s + x)
  | [] => s
  end.

(* s = s>>16 + s&0xffff ; s = s + s>>16 ; return ^uint16(s) *)
Definition cs_fold (s : N) : N :=
  let s1 := u32 (N.shiftr s 16 + N.land s 65535) in
  let s2 := u32 (s1 + N.shiftr s1 16) in
  65535 - u16 s2.

Definition checksum (b : bytes) : N := cs_fold (cs_loop b 0).

(* IP4.CalculateChecksum: psh := make([]byte,20); copy(psh[0:10], p[0:10]);
   copy(psh[10:18], p[12:20]); Checksum(psh).  Panics when cap(p) < 20
   (slice expressions p[0:10], p[12:20]); modelled on the 20-byte prefix. *)
Definition ip4_calc_checksum (p : bytes) : N :=
  checksum (firstn 10 p ++ sub p 12 8 ++ [0; 0]).

(* p[11] = byte(checksum >> 8); p[10] = byte(checksum) *)
Definition ip4_store_checksum (p : bytes) : bytes :=
  let c := ip4_calc_checksum p in
  set_nth 11 (u8 (N.shiftr c 8)) (set_nth 10 (u8 c) p).

(* ICMP.SetChecksum(cs): p[3] = uint8(cs >> 8); p[2] = uint8(cs) *)
Definition icmp_set_checksum (p : bytes) (cs : N) : bytes :=
  set_nth 2 (u8 cs) (set_nth 3 (u8 (N.shiftr cs 8)) p).

(* icmp6SendPacket pseudo header: psh[0:16]=src, psh[16:32]=dst,
   PutUint32(psh[32:36], uint32(len(b))), psh[36..38]=0, psh[39]=58 *)
Definition icmp6_pseudo (src dst : bytes) (n : N) : bytes :=
  src ++ dst ++ [u8 (N.shiftr n 24); u8 (N.shiftr n 16); u8 (N.shiftr n 8); u8 n] ++ [0; 0; 0; 58].
