(* Model/ViewsBase.v — values returned by the zero-argument methods of the
   protocol view types (package packet, layer_*.go) and the slice helpers the
   getter models are written with.  A view is a Go []byte: [slice] of
   Base/Slice.v (storage up to capacity + length).  A returned sub-slice is
   reported by its position (offset, length) relative to the start of the
   view, which is what "stays inside the view" (C01) and "value at its
   RFC-defined position" (C02) talk about. *)
From Coq Require Export String.
From PV Require Export Base.Prelude Base.Slice.
Open Scope N_scope.

Inductive value :=
| VN (n : N)                 (* integers of any Go width (wraps written out in the getter) *)
| VB (b : bool)
| VR (off n : nat)           (* a slice aliasing the view's storage: v[off : off+n] *)
| VNil                       (* nil slice / empty slice literal / invalid netip.Addr *)
| VX (b : bytes)             (* bytes copied out of the view: arrays, netip.Addr, CopyMAC/CopyIP *)
| VS (s : string)            (* LLC.Type *)
| VL (l : list value)        (* []net.IP, option maps, records *)
| VU                         (* the call returned; its value is not observed (String, decoded option structs) *)
| VE.                        (* the call returned a non-nil error *)

(* every aliasing range contained in a value *)
Fixpoint ranges (x : value) : list (nat * nat) :=
  match x with
  | VR o n => [(o, n)]
  | VL l => (fix go (l : list value) : list (nat * nat) :=
               match l with [] => [] | y :: r => ranges y ++ go r end) l
  | _ => []
  end.

(* a range is inside the view when it is empty or ends within the length *)
Definition range_in (v : slice) (r : nat * nat) : Prop :=
  snd r = 0%nat \/ (fst r + snd r <= len v)%nat.
Definition range_inb (v : slice) (r : nat * nat) : bool :=
  Nat.eqb (snd r) 0 || Nat.leb (fst r + snd r) (len v).

Definition inside (v : slice) (r : res value) : Prop :=
  match r with Ok x => Forall (range_in v) (ranges x) | _ => True end.
Definition insideb (v : slice) (r : res value) : bool :=
  match r with Ok x => forallb (range_inb v) (ranges x) | _ => true end.

(* a getter: one zero-argument method of a view type *)
Definition getter := slice -> res value.
Definition gtable := list (string * getter).

Fixpoint lookup {A} (name : string) (t : list (string * A)) : option A :=
  match t with
  | [] => None
  | (n, a) :: r => if String.eqb n name then Some a else lookup name r
  end.

(* ---- slicing that reports the position ---- *)
(* p[a:b] *)
Definition rsl (p : slice) (a b : nat) : res value :=
  bind (sl p a b) (fun s => Ok (VR a (len s))).
(* p[a:] *)
Definition rfrom (p : slice) (a : nat) : res value :=
  bind (slfrom p a) (fun s => Ok (VR a (len s))).
(* conversion of p[a:a+n] to an n-byte array, dereferenced: a copy (netip.AddrFrom4 / AddrFrom16) *)
Definition rarr (p : slice) (a n : nat) : res value :=
  bind (sl p a (a + n)) (fun s => Ok (VX (firstn n (arr s)))).
Definition rbyte (p : slice) (i : nat) : res value := bind (idx p i) (fun b => Ok (VN b)).
Definition rbe16 (p : slice) (a : nat) : res value := bind (be16_at p a) (fun n => Ok (VN n)).
Definition rbe32 (p : slice) (a : nat) : res value := bind (be32_at p a) (fun n => Ok (VN n)).
(* a range, with the empty range canonical (nil and empty slices are not distinguished by the observation) *)
Definition vr (o n : nat) : value := if Nat.eqb n 0 then VNil else VR o n.
(* p[i] & mask != 0 *)
Definition rbit (p : slice) (i : nat) (mask : N) : res value :=
  bind (idx p i) (fun b => Ok (VB (negb (N.land b mask =? 0)))).

(* Go's `a && b` / `a || b` on outcomes: the right operand is evaluated only when needed *)
Definition andr (a b : res bool) : res bool := bind a (fun x => if x then b else Ok false).
Definition orr (a b : res bool) : res bool := bind a (fun x => if x then Ok true else b).

(* lengths as Go ints *)
Definition lenN (p : slice) : N := N.of_nat (len p).

(* a sub-slice as a slice value located inside the view (for nested views:
   IP4(p.Payload()).Src(), newParseOptions(p[16:]), ...) *)
Record lslice := mkL { loff : nat; lsl : slice }.
Definition lsub (p : lslice) (a b : nat) : res lslice :=
  bind (sl (lsl p) a b) (fun s => Ok (mkL (loff p + a) s)).
Definition lfrom (p : lslice) (a : nat) : res lslice :=
  bind (slfrom (lsl p) a) (fun s => Ok (mkL (loff p + a) s)).
Definition lval (p : lslice) : value := VR (loff p) (len (lsl p)).

(* ---- findings and the shape of the per-type theorems ---- *)
(* A finding is a narrow decidable class (getter name, view) on which the real
   code violates the property; its key is column 3 of the dispatch output. *)
Record finding := mkFinding { f_key : string; f_pred : string -> slice -> bool }.
Definition known_of (fs : list finding) (name : string) (v : slice) : bool :=
  existsb (fun f => f_pred f name v) fs.
Fixpoint key_of (fs : list finding) (name : string) (v : slice) : option string :=
  match fs with
  | [] => None
  | f :: r => if f_pred f name v then Some (f_key f) else key_of r name v
  end.
Definition no_findings : list finding := [].

(* C01: every getter of the table is panic-free, terminates, and the slices it
   returns lie inside [0, len v) -- outside the known classes *)
Definition getter_ok (v : slice) (g : getter) : Prop := safe (g v) /\ inside v (g v).
Definition getter_okb (v : slice) (g : getter) : bool :=
  negb (is_panic (g v)) && negb (is_fuel (g v)) && insideb v (g v).
Definition getters_ok (fs : list finding) (t : gtable) (v : slice) : Prop :=
  Forall (fun ng => known_of fs (fst ng) v = false -> getter_ok v (snd ng)) t.

(* C02: every getter returns the value the spec table gives for the bytes of
   the view (positions per RFC), outside the known classes.  The spec table
   has the same names in the same order as the getter table. *)
Definition spec := bytes -> value.
(* [None]: the method is not a field getter with an RFC position (option-list decoders); only C01 applies *)
Definition stable := list (string * option spec).
Definition getters_spec (fs : list finding) (t : gtable) (st : stable) (v : slice) : Prop :=
  Forall2 (fun ng ns => fst ng = fst ns /\
                        forall s, snd ns = Some s ->
                        known_of fs (fst ng) v = false -> snd ng v = Ok (s (view v))) t st.

(* C01, second half of "stays inside the view": the result depends only on
   the bytes within the length, for every capacity *)
Definition getters_len_only (fs : list finding) (t : gtable) (st : stable) (v v' : slice) : Prop :=
  Forall2 (fun ng ns => snd ns <> None ->
                        known_of fs (fst ng) v = false -> known_of fs (fst ng) v' = false ->
                        snd ng v = snd ng v') t st.

(* the view restricted to its length: the same bytes with no spare capacity *)
Definition restrict (v : slice) : slice := of_bytes (view v).

(* ---- decoded NDP options (packet.NewOptions), the vocabulary shared by model and spec ---- *)
Record ndp_st := mkSt {
  st_mtu : N;
  st_prefixes : list value;           (* in order of appearance *)
  st_rdnss_lt : N; st_servers : list bytes;
  st_slla : bytes; st_tlla : bytes;
  st_dnssl_lt : N; st_domains : list bytes;
  st_route : N * N * N * bytes }.     (* prefix length, preference, lifetime, prefix *)
Definition st0 : ndp_st := mkSt 0 [] 0 [] [] [] 0 [] (0, 0, 0, []).

(* the observed projection of NewOptions: a copied byte string that is empty shows as nil *)
Definition vx (l : bytes) : value := match l with [] => VNil | _ => VX l end.
Definition ndp_show (st : ndp_st) : value :=
  VL [VN (st_mtu st); VL (st_prefixes st);
      VL [VN (st_rdnss_lt st); VL (map vx (st_servers st))];
      vx (st_slla st); vx (st_tlla st);
      VL [VN (st_dnssl_lt st); VL (map vx (st_domains st))];
      (let '(pl, prf, lt, pfx) := st_route st in VL [VN pl; VN prf; VN lt; vx pfx])].

(* ---- a getter call as a step on the store (the slice with its storage up to the capacity).  The model's getters
   are built from idx / sl / slfrom / be16_at / be32_at only: reads.  There is no write primitive, so the store
   after a call is the store before it; this is the statement the harness ties (every call is made on a poisoned
   backing array that is compared before and after, and is made twice). ---- *)
Definition getter_step (g : getter) (store : slice) : res value * slice := (g store, store).
Definition valid_step (isvalid : slice -> res bool) (store : slice) : res bool * slice := (isvalid store, store).
