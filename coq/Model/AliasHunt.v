(* Model/AliasHunt.v — C10, hunt lists of the spoofers.

   handlers/icmp_spoofer/icmp6spoof.go StartHunt(addr packet.Addr) appends addr to
   h.huntList (packet.AddrList, addr.go) and starts spoofLoop(addr); StopHunt(addr)
   deletes the entry whose MAC is bytes.Equal to addr.MAC; every iteration of the
   loop re-checks huntList.Index(dstAddr.MAC) with the very slice it was started
   with.  packet.Addr is passed by value but its MAC is a slice: when the
   application hunts the sender of the frame it is looking at
   (StartHunt(frame.SrcAddr), frame.SrcAddr.MAC = frame.ether.Src(): a view of the
   receive buffer), the hunt list entry and the goroutine share the packet buffer
   unless StartHunt copies.  (handlers/arp_spoofer/spoof.go StartHunt has the same
   shape; its loop runs on a 6 s ticker and is not exercised by the harness.)

   [cp] = does StartHunt copy addr.MAC.  The state is the list of hunted MACs; what
   a caller observes is how many hunts are still running (each running loop answers
   every router advertisement with one neighbour advertisement per known router). *)
From PV Require Import Base.Prelude Base.Text Model.Alias.
Open Scope N_scope.
Open Scope list_scope.

(* transcription of icmp6spoof.go StartHunt: as found in /repo it stored the Addr as passed (false);
   repaired by /repo commit 94488cb: addr.MAC = packet.CopyMAC(addr.MAC) before the list is touched
   (c1ee67c: the same in arp_spoofer) *)
Definition hunt6_copies : bool := true.

Definition hstate := list rv.

(* the application parses [frame] (sitting in buffer [buf]) and calls StartHunt(frame.SrcAddr) *)
Definition hunt_start (cp : bool) (s : store) (buf : nat) (frame : bytes) (st : hstate) : hstate :=
  let mac := sub frame 6 6 in
  if existsb (fun v => beqb (deref s v) mac) st then st           (* huntList.Index(addr.MAC) != -1 *)
  else st ++ [if cp then Owned mac else Ref buf 6 6].              (* huntList.Add(addr); go spoofLoop(addr) *)

(* StopHunt(Addr{MAC: mac}) with a MAC the application owns: AddrList.Del *)
Definition hunt_stop (s : store) (mac : bytes) (st : hstate) : hstate :=
  remove_first (fun v => beqb (deref s v) mac) st.

Inductive hop : Type :=
| HStart (frame : bytes)
| HStop (mac : bytes).

Inductive heop : Type :=
| HEStart (buf : nat) (frame : bytes)
| HEScribble (buf : nat) (c : bufc)
| HEStop (mac : bytes).

Definition hestep (cp : bool) (w : store * hstate) (e : heop) : store * hstate :=
  match e with
  | HEStart buf frame =>
      let s := sset (fst w) buf (bwrite frame (sget (fst w) buf)) in
      (s, hunt_start cp s buf frame (snd w))
  | HEScribble buf c => (sset (fst w) buf c, snd w)
  | HEStop mac => (fst w, hunt_stop (fst w) mac (snd w))
  end.

Definition herun (cp : bool) (h : list heop) : store * hstate := fold_left (hestep cp) h ([], []).

(* observation: the MACs the running loops currently attack; their number = running hunts *)
Definition hunted (w : store * hstate) : list bytes := map (deref (fst w)) (snd w).
Definition running (cp : bool) (h : list heop) : nat := List.length (snd (herun cp h)).

Fixpoint hshared (scr : nat -> bufc) (i : nat) (p : list hop) : list heop :=
  match p with
  | [] => []
  | HStart f :: r => HEStart 0 f :: HEScribble 0 (scr i) :: hshared scr (S i) r
  | HStop m :: r => HEStop m :: hshared scr i r
  end.
Fixpoint hfresh (next : nat) (p : list hop) : list heop :=
  match p with
  | [] => []
  | HStart f :: r => HEStart next f :: hfresh (S next) r
  | HStop m :: r => HEStop m :: hfresh next r
  end.

(* the defect class of the unrepaired code: the history contains a StartHunt on a frame view *)
Definition known_C10_hunt6 (p : list hop) : bool :=
  existsb (fun o => match o with HStart _ => true | HStop _ => false end) p.
