(* Model/AliasHunt.v — C10, hunt lists of the spoofers.

   handlers/icmp_spoofer/icmp6spoof.go StartHunt(addr packet.Addr) appends addr to
   h.huntList (packet.AddrList, addr.go) and starts spoofLoop(addr); StopHunt(addr)
   deletes the entry whose MAC is bytes.Equal to addr.MAC; every iteration of the
   loop re-checks huntList.Index(dstAddr.MAC) with the very slice it was started
   with.  packet.Addr is passed by value but its MAC is a slice: when the
   application hunts the sender of the frame it is looking at
   (StartHunt(frame.SrcAddr), frame.SrcAddr.MAC = frame.ether.Src(): a view of the
   receive buffer), the hunt list entry and the goroutine share the packet buffer
   unless StartHunt copies.  (handlers/arp_spoofer/spoof.go StartHunt has the same
   shape; its loop runs on a 6 s ticker and is not exercised by the harness.)

   [cp] = does StartHunt copy addr.MAC.  The state is the list of hunted MACs; what
   a caller observes is how many hunts are still running (each running loop answers
   every router advertisement with one neighbour advertisement per known router). *)
From PV Require Import Base.Prelude Base.Text Model.Alias.
Open Scope N_scope.
Open Scope list_scope.

(* transcription of icmp6spoof.go StartHunt: as found in /repo it stored the Addr as passed (false);
   repaired by /repo commit 94488cb: addr.MAC = packet.CopyMAC(addr.MAC) before the list is touched
   (c1ee67c: the same in arp_spoofer) *)
Definition hunt6_copies : bool := true.

Definition hstate := list rv.

(* the application parses [frame] (sitting in buffer [buf]) and calls StartHunt(frame.SrcAddr) *)
Definition hunt_start (cp : bool) (s : store) (buf : nat) (frame : bytes) (st : hstate) : hstate :=
  let mac := fsub frame L_ETH_SRC in
  if existsb (fun v => beqb (deref s v) mac) st then st           (* huntList.Index(addr.MAC) != -1 *)
  else st ++ [if cp then Owned mac else Ref buf (fst L_ETH_SRC) (snd L_ETH_SRC)].              (* huntList.Add(addr); go spoofLoop(addr) *)

(* StopHunt(Addr{MAC: mac}) with a MAC the application owns: AddrList.Del *)
Definition hunt_stop (s : store) (mac : bytes) (st : hstate) : hstate :=
  remove_first (fun v => beqb (deref s v) mac) st.

Inductive hop : Type :=
| HStart (frame : bytes)
| HStop (mac : bytes).

Inductive heop : Type :=
| HEStart (buf : nat) (frame : bytes)
| HEScribble (buf : nat) (c : bufc)
| HEStop (mac : bytes).

Definition hestep (cp : bool) (w : store * hstate) (e : heop) : store * hstate :=
  match e with
  | HEStart buf frame =>
      let s := sset (fst w) buf (bwrite frame (sget (fst w) buf)) in
      (s, hunt_start cp s buf frame (snd w))
  | HEScribble buf c => (sset (fst w) buf c, snd w)
  | HEStop mac => (fst w, hunt_stop (fst w) mac (snd w))
  end.

Definition herun (cp : bool) (h : list heop) : store * hstate := fold_left (hestep cp) h ([], []).

(* observation: the MACs the running loops currently attack; their number = running hunts *)
Definition hunted (w : store * hstate) : list bytes := map (deref (fst w)) (snd w).
Definition running (cp : bool) (h : list heop) : nat := List.length (snd (herun cp h)).

Fixpoint hshared (scr : nat -> bufc) (i : nat) (p : list hop) : list heop :=
  match p with
  | [] => []
  | HStart f :: r => HEStart 0 f :: HEScribble 0 (scr i) :: hshared scr (S i) r
  | HStop m :: r => HEStop m :: hshared scr i r
  end.
Fixpoint hfresh (next : nat) (p : list hop) : list heop :=
  match p with
  | [] => []
  | HStart f :: r => HEStart next f :: hfresh (S next) r
  | HStop m :: r => HEStop m :: hfresh next r
  end.

(* the defect class of the unrepaired code: the history contains a StartHunt on a frame view *)
Definition known_C10_hunt6 (p : list hop) : bool :=
  existsb (fun o => match o with HStart _ => true | HStop _ => false end) p.

(* ---------------------------------------------------------------- *)
(* handlers/arp_spoofer/spoof.go: huntList map[string]packet.Addr keyed by string(addr.MAC) (a copy),
   the value is the Addr as passed; spoofLoop(addr) keeps its own addr.  Every 6 s (and once at start)
   the loop looks its own MAC up (h.huntList[string(addr.MAC)]): found -> AnnounceTo(value.MAC, router IP);
   not found -> RequestRaw(addr.MAC, router, router) and the loop ends.  ProcessPacket answers an ARP
   request for the router address from a MAC that is a key of the hunt list. *)

Record h4state := { h4_list : list (bytes * rv); h4_loops : list rv }.

Definition h4_has (k : bytes) (st : h4state) : bool := existsb (fun e => beqb (fst e) k) (h4_list st).
Definition h4_val (k : bytes) (st : h4state) : option rv :=
  option_map snd (find (fun e => beqb (fst e) k) (h4_list st)).

Open Scope string_scope.
Definition item_announce (dst : bytes) : string := "A(" ++ hex_of_bytes dst ++ ")".
Definition item_restore (dst : bytes) : string := "Q(" ++ hex_of_bytes dst ++ ")".
Definition item_reply (dst : bytes) : string := "Y(" ++ hex_of_bytes dst ++ ")".
Close Scope string_scope.

(* StartHunt(frame.SrcAddr) on an IPv4 frame; the new loop's first iteration announces at once *)
Definition h4_start (cp : bool) (s : store) (buf : nat) (frame : bytes) (st : h4state) : h4state * list string :=
  let mac := fsub frame L_ETH_SRC in
  if h4_has mac st then (st, []) else
  let v := if cp then Owned mac else Ref buf (fst L_ETH_SRC) (snd L_ETH_SRC) in
  ({| h4_list := h4_list st ++ [(mac, v)]; h4_loops := h4_loops st ++ [v] |}, [item_announce (deref s v)]).

Definition h4_stop (mac : bytes) (st : h4state) : h4state :=
  {| h4_list := remove_first (fun e => beqb (fst e) mac) (h4_list st); h4_loops := h4_loops st |}.

(* one ticker period: every loop iterates once *)
Definition h4_tick1 (s : store) (st : h4state) (acc : list rv * list string) (v : rv) : list rv * list string :=
  match h4_val (deref s v) st with
  | Some tv => (fst acc ++ [v], snd acc ++ [item_announce (deref s tv)])
  | None => (fst acc, snd acc ++ [item_restore (deref s v)])
  end.
Definition h4_tick (s : store) (st : h4state) : h4state * list string :=
  let r := fold_left (h4_tick1 s st) (h4_loops st) ([], []) in
  ({| h4_list := h4_list st; h4_loops := fst r |}, snd r).

(* an ARP request (sender hardware address L_ARP_SHA, target address L_ARP_TPA) seen by ProcessPacket *)
Definition h4_request (router_ip : bytes) (frame : bytes) (st : h4state) : list string :=
  if h4_has (fsub frame L_ARP_SHA) st && beqb (fsub frame L_ARP_TPA) router_ip then [item_reply (fsub frame L_ARP_SHA)] else [].

Inductive h4op : Type :=
| A4Start (frame : bytes)
| A4Stop (mac : bytes)
| A4Tick
| A4Request (frame : bytes).

Inductive h4eop : Type :=
| AEStart (buf : nat) (frame : bytes)
| AEScribble (buf : nat) (c : bufc)
| AEStop (mac : bytes)
| AETick
| AERequest (buf : nat) (frame : bytes).

Record h4world := { aw_store : store; aw_state : h4state; aw_out : list (list string) }.

Definition h4estep (cp : bool) (rip : bytes) (w : h4world) (e : h4eop) : h4world :=
  match e with
  | AEStart buf frame =>
      let s := sset (aw_store w) buf (bwrite frame (sget (aw_store w) buf)) in
      let r := h4_start cp s buf frame (aw_state w) in
      {| aw_store := s; aw_state := fst r; aw_out := aw_out w ++ [snd r] |}
  | AEScribble buf c => {| aw_store := sset (aw_store w) buf c; aw_state := aw_state w; aw_out := aw_out w |}
  | AEStop mac => {| aw_store := aw_store w; aw_state := h4_stop mac (aw_state w); aw_out := aw_out w ++ [[]] |}
  | AETick =>
      let r := h4_tick (aw_store w) (aw_state w) in
      {| aw_store := aw_store w; aw_state := fst r; aw_out := aw_out w ++ [snd r] |}
  | AERequest buf frame =>
      let s := sset (aw_store w) buf (bwrite frame (sget (aw_store w) buf)) in
      {| aw_store := s; aw_state := aw_state w; aw_out := aw_out w ++ [h4_request rip frame (aw_state w)] |}
  end.

Definition h4run (cp : bool) (rip : bytes) (h : list h4eop) : h4world :=
  fold_left (h4estep cp rip) h {| aw_store := []; aw_state := {| h4_list := []; h4_loops := [] |}; aw_out := [] |}.
Definition h4transcript (cp : bool) (rip : bytes) (h : list h4eop) : list (list string) := aw_out (h4run cp rip h).

Fixpoint h4shared (scr : nat -> bufc) (i : nat) (p : list h4op) : list h4eop :=
  match p with
  | [] => []
  | A4Start f :: r => AEStart 0 f :: AEScribble 0 (scr i) :: h4shared scr (S i) r
  | A4Stop m :: r => AEStop m :: h4shared scr i r
  | A4Tick :: r => AETick :: h4shared scr i r
  | A4Request f :: r => AERequest 0 f :: AEScribble 0 (scr i) :: h4shared scr (S i) r
  end.
Fixpoint h4fresh (next : nat) (p : list h4op) : list h4eop :=
  match p with
  | [] => []
  | A4Start f :: r => AEStart next f :: h4fresh (S next) r
  | A4Stop m :: r => AEStop m :: h4fresh next r
  | A4Tick :: r => AETick :: h4fresh next r
  | A4Request f :: r => AERequest next f :: h4fresh (S next) r
  end.

(* transcription of arp_spoofer StartHunt: repaired by /repo c1ee67c (was: the Addr stored as passed) *)
Definition hunt4_copies : bool := true.
