(* Model/AliasWhole.v — C10: the whole library in ONE world and ONE store: session tables and handler
   tables (Model/Alias.v), the hunt list of the ICMPv6 spoofer and the hunt list + spoof loops of the ARP
   spoofer (Model/AliasHunt.v), driven by one operation list over the same receive buffers.  Provenance of
   every retained value is its [rv] tag: [Owned] = a copy, [Ref] = a view of a caller's buffer. *)
From PV Require Import Base.Prelude Base.Text Model.Alias Model.AliasHunt.
Open Scope N_scope.
Open Scope list_scope.

Record wworld := { ww_main : world; ww_h6 : hstate; ww_h4 : h4state }.

Inductive wop : Type :=
| WMain (e : eop)                          (* a frame received into a buffer, a scribble, or a library call *)
| WHunt6Start (buf : nat) (frame : bytes)  (* icmp6 StartHunt(frame.SrcAddr) on the frame sitting in [buf] *)
| WHunt6Stop (mac : bytes)
| WHunt4Start (buf : nat) (frame : bytes)  (* arp StartHunt(frame.SrcAddr) *)
| WHunt4Stop (mac : bytes)
| WHunt4Tick.                              (* one period of the ARP spoof loops *)

Definition wstep (c : cfg) (w : wworld) (o : wop) : wworld :=
  let s := w_store (ww_main w) in
  match o with
  | WMain e => {| ww_main := estep c (ww_main w) e; ww_h6 := ww_h6 w; ww_h4 := ww_h4 w |}
  | WHunt6Start buf frame => {| ww_main := ww_main w; ww_h6 := hunt_start hunt6_copies s buf frame (ww_h6 w); ww_h4 := ww_h4 w |}
  | WHunt6Stop mac => {| ww_main := ww_main w; ww_h6 := hunt_stop s mac (ww_h6 w); ww_h4 := ww_h4 w |}
  | WHunt4Start buf frame => {| ww_main := ww_main w; ww_h6 := ww_h6 w; ww_h4 := fst (h4_start hunt4_copies s buf frame (ww_h4 w)) |}
  | WHunt4Stop mac => {| ww_main := ww_main w; ww_h6 := ww_h6 w; ww_h4 := h4_stop mac (ww_h4 w) |}
  | WHunt4Tick => {| ww_main := ww_main w; ww_h6 := ww_h6 w; ww_h4 := fst (h4_tick s (ww_h4 w)) |}
  end.

Definition winit (c : cfg) : wworld :=
  {| ww_main := init_world c; ww_h6 := []; ww_h4 := {| h4_list := []; h4_loops := [] |} |}.
Definition wrun (c : cfg) (h : list wop) : wworld := fold_left (wstep c) h (winit c).

(* no value reachable from retained state is a view of a caller's buffer *)
Definition h4_ok (st : h4state) : bool := forallb (fun e => owned (snd e)) (h4_list st) && forallb owned (h4_loops st).
Definition no_view (w : wworld) : bool :=
  no_ref (w_state (ww_main w)) && forallb owned (ww_h6 w) && h4_ok (ww_h4 w).
