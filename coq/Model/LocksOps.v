(* Model/LocksOps.v — the operations of the supported concurrency pattern,
   hand-transcribed from the Go source (file:line in comments) as templates
   over lock classes and fields.  Branches are merged as a union of the
   actions of all branches in program order (sound for lock order and
   lockset analysis; the path-specific operations Parse.fast / Parse.slow
   are kept apart because the harness can steer them).
   Immutable-after-creation fields (Host.Addr, Host.MACEntry, MACEntry.MAC,
   Session.NICInfo, Session.Conn, deadlines) are not accesses.
   Logger output at Debug level (off by default) is not transcribed. *)
From PV Require Import Base.Prelude Base.Text Model.Locks.
From Coq Require Import Bool Arith.
Open Scope nat_scope.

Inductive op :=
(* packet loop (one goroutine); DHCPv4Update is called by the DHCP handler's ProcessPacket *)
| ParseFast | ParseSlow | Notify | NotifyDhcp | DHCPv4Update | ReadFrom
(* background of the session *)
| Purge | PurgeProbe | MinuteLoop | NicMonitor
(* query / control API of the session *)
| FindIP | GetHosts | IPAddrs | FindByMAC | FindMACEntry | PrintTable
| Capture | Release | IsCaptured | DHCPv4IPOffer | SetDHCPv4IPOffer
| SessClose
(* arp_spoofer *)
| ArpProcess | ArpStartHunt | ArpStopHunt | ArpIsHunting | ArpPrintTable | ArpSpoofLoop | ArpClose
(* icmp_spoofer (Handler6) *)
| I6ProcessRA | I6StartHunt | I6StopHunt | I6PrintTable | I6SpoofLoop | I6Close
(* dhcp4_spoofer *)
| DhcpProcess | DhcpMinuteTicker | DhcpStartHunt | DhcpPrintTable | DhcpSend | DhcpClose
(* dns_naming *)
| DnsProcessDNS | DnsProcessMDNS | DnsFind | DnsClose.

Definition all_ops : list op :=
  [ParseFast; ParseSlow; Notify; NotifyDhcp; DHCPv4Update; ReadFrom; Purge; PurgeProbe; MinuteLoop; NicMonitor;
   FindIP; GetHosts; IPAddrs; FindByMAC; FindMACEntry; PrintTable;
   Capture; Release; IsCaptured; DHCPv4IPOffer; SetDHCPv4IPOffer; SessClose;
   ArpProcess; ArpStartHunt; ArpStopHunt; ArpIsHunting; ArpPrintTable; ArpSpoofLoop; ArpClose;
   I6ProcessRA; I6StartHunt; I6StopHunt; I6PrintTable; I6SpoofLoop; I6Close;
   DhcpProcess; DhcpMinuteTicker; DhcpStartHunt; DhcpPrintTable; DhcpSend; DhcpClose;
   DnsProcessDNS; DnsProcessMDNS; DnsFind; DnsClose].

Definition op_name (o : op) : string :=
  match o with
  | ReadFrom => "ReadFrom"
  | ParseFast => "Parse.fast" | ParseSlow => "Parse.slow" | Notify => "Notify" | NotifyDhcp => "Notify.dhcp"
  | Purge => "purge" | PurgeProbe => "purge.probe" | MinuteLoop => "minuteLoop" | NicMonitor => "nicMonitor"
  | FindIP => "FindIP" | GetHosts => "GetHosts" | IPAddrs => "IPAddrs" | FindByMAC => "FindByMAC"
  | FindMACEntry => "FindMACEntry" | PrintTable => "PrintTable"
  | Capture => "Capture" | Release => "Release" | IsCaptured => "IsCaptured"
  | DHCPv4IPOffer => "DHCPv4IPOffer" | SetDHCPv4IPOffer => "SetDHCPv4IPOffer" | DHCPv4Update => "DHCPv4Update"
  | SessClose => "Close"
  | ArpProcess => "arp.ProcessPacket" | ArpStartHunt => "arp.StartHunt" | ArpStopHunt => "arp.StopHunt"
  | ArpIsHunting => "arp.IsHunting" | ArpPrintTable => "arp.PrintTable" | ArpSpoofLoop => "arp.spoofLoop"
  | ArpClose => "arp.Close"
  | I6ProcessRA => "icmp6.ProcessPacket.RA" | I6StartHunt => "icmp6.StartHunt" | I6StopHunt => "icmp6.StopHunt"
  | I6PrintTable => "icmp6.PrintTable" | I6SpoofLoop => "icmp6.spoofLoop" | I6Close => "icmp6.Close"
  | DhcpProcess => "dhcp4.ProcessPacket" | DhcpMinuteTicker => "dhcp4.MinuteTicker" | DhcpStartHunt => "dhcp4.StartHunt"
  | DhcpPrintTable => "dhcp4.PrintTable" | DhcpSend => "dhcp4.sendDeclineRelease" | DhcpClose => "dhcp4.Close"
  | DnsProcessDNS => "dns.ProcessDNS" | DnsProcessMDNS => "dns.ProcessMDNS" | DnsFind => "dns.DNSFind"
  | DnsClose => "dns.Close"
  end.

Definition field_name (f : field) : string :=
  match f with
  | FHostTable => "HostTable.Table" | FMACTable => "MACTable.Table" | FSessClosed => "Session.closed"
  | FStats => "Session.Statistics" | FHeartBeat => "Session.ipHeartBeat"
  | FHostLastSeen => "Host.LastSeen" | FHostOnline => "Host.Online" | FHostDirty => "Host.dirty"
  | FHostHuntStage => "Host.HuntStage" | FHostNames => "Host.Names" | FHostManuf => "Host.Manufacturer"
  | FMacLastSeen => "MACEntry.LastSeen" | FMacOnline => "MACEntry.Online" | FMacCaptured => "MACEntry.Captured"
  | FMacIsRouter => "MACEntry.IsRouter" | FMacIPs => "MACEntry.IPs" | FMacIP4Offer => "MACEntry.IP4Offer"
  | FMacHostList => "MACEntry.HostList" | FMacNames => "MACEntry.Names" | FMacManuf => "MACEntry.Manufacturer"
  | FArpHuntList => "arp.huntList" | FArpClosed => "arp.closed"
  | FI6HuntList => "icmp6.huntList" | FI6Closed => "icmp6.closed" | FI6CloseChan => "icmp6.closeChan"
  | FI6Routers => "icmp6.LANRouters" | FI6Router => "icmp6.Router" | FI6Repeat => "icmp6.repeat"
  | FDhcpTable => "dhcp4.table" | FDhcpClosed => "dhcp4.closed" | FDhcpMode => "dhcp4.mode"
  | FDnsTable => "dns.table" | FDnsMdnsCache => "dns.mdnsCache" | FDnsClosed => "dns.closed"
  end.

Notation T := (tact op).

(* ---- shared fragments ---- *)

(* layer_frame.go:415-465 onlineTransition(host): no lock of its own *)
Definition onlineTransition : list T :=
  [TRd FHostOnline; TWr FMacOnline; TWr FHostOnline; TWr FHostDirty;
   TRd FMacIPs; TWr FMacIPs; TRd FMacHostList; TRd FHostOnline; TWr FHostOnline; TWr FHostDirty].

(* layer_frame.go hostOnline: Online test and onlineTransition under the row lock (repaired, was no lock) *)
Definition hostOnline : list T := [TAcq LRow MW; TRd FHostOnline] ++ onlineTransition ++ [TRel LRow].

(* hosttable.go:44 Host.FastLog has a VALUE receiver: Struct(host) copies the whole Host *)
Definition hostFastLog : list T :=
  [TRd FHostOnline; TRd FHostHuntStage; TRd FHostLastSeen; TRd FHostManuf; TRd FHostNames; TRd FHostDirty;
   TRd FMacCaptured].

(* mactable.go:42 MACEntry.FastLog (pointer receiver) *)
Definition macFastLog : list T :=
  [TRd FMacCaptured; TRd FMacOnline; TRd FMacIPs; TRd FMacIP4Offer; TRd FMacHostList; TRd FMacLastSeen;
   TRd FMacManuf; TRd FMacNames].

(* hosttable.go printHostTable: caller holds the session lock; each entry's hosts are printed under its
   row read lock (repaired, was no row lock) *)
Definition printHostTable : list T :=
  [TRd FMACTable; TAcq LRow MR; TRd FMacHostList] ++ hostFastLog ++ [TRel LRow; TRd FHostTable].

(* hosttable.go:156-171 deleteHost + mactable.go:75,116 : caller holds the session write lock *)
Definition deleteHost : list T :=
  [TRd FHostTable; TAcq LRow MW; TRd FMacHostList; TWr FMacHostList; TRel LRow;   (* unlink under the row lock (repaired) *)
   TWr FHostTable; TRd FMacHostList; TRd FMACTable; TWr FMACTable].

(* hosttable.go fast path of findOrCreateHostWithLock: session READ lock, LastSeen written under the row
   lock (repaired, was under the session read lock only) *)
Definition findHostFast : list T :=
  [TAcq LSess MR; TRd FHostTable; TAcq LRow MW; TWr FHostLastSeen; TWr FMacLastSeen; TRel LRow; TRel LSess].

(* hosttable.go:111-154 miss: read-locked lookup, then the write-locked creation *)
Definition findHostSlow : list T :=
  [TAcq LSess MR; TRd FHostTable; TRel LSess; TAcq LSess MW]
  ++ [TAcq LRow MR] ++ hostFastLog ++ [TRel LRow]          (* duplicated IP: the log line copies the old host under its row lock (repaired) *)
  ++ printHostTable ++ deleteHost                          (* duplicated IP with another MAC *)
  ++ [TRd FMACTable; TWr FMACTable;                         (* MACTable.findOrCreate *)
      TAcq LRow MW;                                         (* the entry's row lock (repaired): creation and linking *)
      (* the new Host record is initialised here and published through HostTable/HostList *)
      TWr FHostOnline; TWr FHostDirty; TWr FHostManuf; TWr FHostHuntStage; TWr FHostLastSeen; TWr FHostNames;
      TRd FMacManuf; TWr FMacManuf; TWr FMacLastSeen;
      TWr FHostTable; TRd FMacHostList; TWr FMacHostList;
      TRel LRow; TRel LSess].

Definition fFindIP0 : list T := [TAcq LSess MR; TRd FHostTable; TRel LSess].
Definition fDHCPv4IPOffer0 : list T :=
  [TAcq LSess MR; TRd FMACTable; TAcq LRow MR; TRd FMacIP4Offer; TRel LRow; TRel LSess].

(* notification.go sendNotification (repaired): under the session read lock, skipped once `closed` is set,
   non-blocking send (select with default) — was: len/cap test then a blocking send, no ordering with Close *)
Definition sendNotification : list T :=
  [TAcq LSess MR; TRd FSessClosed; TSendIfOpen FSessClosed CNotify; TRel LSess].

(* notification.go:41 toNotification(host) *)
Definition toNotification : list T :=
  [TRd FHostOnline; TRd FMacManuf; TRd FMacNames; TRd FHostNames; TRd FMacIsRouter].

(* session.go:443-467 makeOffline *)
Definition makeOffline : list T :=
  [TAcq LRow MW; TWr FHostOnline; TWr FHostDirty] ++ toNotification ++
  [TRd FMacHostList; TRd FHostOnline; TWr FMacOnline; TRel LRow; TLenCap CNotify] ++ sendNotification.

(* session.go:409-441 notify *)
Definition notify : list T :=
  [TAcq LRow MR; TRd FHostDirty; TRd FMacHostList; TRd FHostOnline; TRd FHostDirty; TRel LRow]
  ++ makeOffline
  ++ [TAcq LRow MW] ++ toNotification ++ [TWr FHostDirty; TRel LRow]
  ++ sendNotification.

(* layer_frame.go:185-201 the part of Parse around the host lookup *)
Definition parseCounters : list T := [TAWr FHeartBeat; TRd FStats; TWr FStats].

(* session API fragments as called from handlers *)
Definition fFindIP : list T := [TAcq LSess MR; TRd FHostTable; TRel LSess].
Definition fIsCaptured : list T := [TAcq LSess MR; TRd FMACTable; TRd FMacCaptured; TRel LSess].
(* session.go DHCPv4IPOffer / SetDHCPv4IPOffer: the offer and name are accessed under the row lock too (repaired) *)
Definition fDHCPv4IPOffer : list T :=
  [TAcq LSess MR; TRd FMACTable; TAcq LRow MR; TRd FMacIP4Offer; TRel LRow; TRel LSess].
Definition fSetDHCPv4IPOffer : list T :=
  [TAcq LSess MW; TRd FMACTable; TWr FMACTable; TAcq LRow MW; TWr FMacIP4Offer; TWr FMacNames; TRel LRow; TRel LSess].
Definition fDHCPv4Update : list T :=
  findHostFast ++ findHostSlow
  ++ [TAcq LRow MW; TRd FHostNames; TWr FHostNames; TWr FHostDirty; TRd FMacNames; TWr FMacNames; TRel LRow]
  ++ [TAcq LRow MW; TWr FMacIP4Offer; TRd FHostOnline] ++ onlineTransition ++ [TRel LRow].

(* unsynchronised `closed` flag + close(closeChan): the Close of the session and of three handlers *)
Definition closeWith (f : field) (pre : list T) (c : chan) : list T :=
  [TRd f; TExitIfFlag f; TWr f; TSetFlag f] ++ pre ++ [TCloseCh c].

Definition simple (l : list T) : tmpl op := {| t_pre := l; t_each := []; t_post := [] |}.

Definition template (o : op) : tmpl op :=
  match o with
  (* layer_frame.go:152 Parse, host present: findOrCreateHostWithLock hit, then Online test and
     onlineTransition with no lock at all *)
  | ParseFast => simple (parseCounters ++ findHostFast ++ hostOnline)
  | ParseSlow => simple (parseCounters ++ findHostSlow ++ hostOnline)
  (* session.go:389 Notify with frame.Host set *)
  | Notify => simple notify
  (* session.go:391-406 Notify for a DHCP frame without host: DHCPv4IPOffer, then FindIP (session read
     lock; repaired by /repo 35be599, was findIP on the map with no lock) *)
  | NotifyDhcp =>
      simple (fDHCPv4IPOffer0 ++ fFindIP0 ++ notify)
  (* session.go:282-360 purge: GetHosts snapshot; per host a row read-locked inspection and (if stale)
     makeOffline; probe goroutine; deletions under the session write lock.
     (The source runs all inspections, spawns the probe, then all makeOffline calls; the per-row
     section merges inspection and makeOffline of one row — same lock sections.) *)
  | Purge =>
      {| t_pre := [TAcq LSess MR; TRd FHostTable; TRel LSess];
         t_each := [TAcq LRow MR; TRd FHostOnline; TRd FHostLastSeen; TRel LRow] ++ makeOffline;
         t_post := [TSpawn PurgeProbe; TAcq LSess MW] ++ deleteHost ++ [TRel LSess] |}
  (* session.go:316-344 probe goroutine: only immutable NICInfo and Conn.WriteTo *)
  | PurgeProbe => simple []
  (* session.go:196-211 *)
  | MinuteLoop => simple [TExitIfClosed CSessClose; TSpawn Purge; TAgain]
  (* session.go:175-193 *)
  | NicMonitor => simple [TExitIfClosed CSessClose; TARd FHeartBeat; TAWr FHeartBeat; TAgain]
  (* hosttable.go:174 *)
  | FindIP => simple [TAcq LSess MR; TRd FHostTable; TRel LSess]
  (* hosttable.go:201 *)
  | GetHosts => simple [TAcq LSess MR; TRd FHostTable; TRel LSess]
  (* session.go:565 *)
  | IPAddrs => simple [TAcq LSess MR; TRd FMACTable; TRd FMacHostList; TRel LSess]
  (* hosttable.go:189 *)
  | FindByMAC => simple [TAcq LSess MR; TRd FHostTable; TRel LSess]
  (* session.go:513 *)
  | FindMACEntry => simple [TAcq LSess MR; TRd FMACTable; TRel LSess]
  (* session.go:250 + mactable.go:99 + hosttable.go:89 *)
  | PrintTable =>
      simple ([TAcq LSess MR; TRd FMACTable; TAcq LRow MR] ++ macFastLog ++ [TRel LRow; TRd FHostTable]
              ++ printHostTable ++ [TRel LSess])
  (* session.go:531 *)
  | Capture => simple [TAcq LSess MW; TRd FMACTable; TWr FMACTable; TRd FMacCaptured; TRd FMacIsRouter; TWr FMacCaptured; TRel LSess]
  (* session.go:551 *)
  | Release => simple [TAcq LSess MW; TRd FMACTable; TWr FMacCaptured; TRel LSess]
  (* session.go:521 *)
  | IsCaptured => simple [TAcq LSess MR; TRd FMACTable; TRd FMacCaptured; TRel LSess]
  (* session.go:503 *)
  | DHCPv4IPOffer => simple fDHCPv4IPOffer0
  (* session.go:493 *)
  | SetDHCPv4IPOffer =>
      simple [TAcq LSess MW; TRd FMACTable; TWr FMACTable; TAcq LRow MW; TWr FMacIP4Offer; TWr FMacNames; TRel LRow; TRel LSess]
  (* session.go:474-489: lookup (either path), UpdateDHCP4Name under the row lock, then IP4Offer and
     onlineTransition under the row lock *)
  | DHCPv4Update => simple fDHCPv4Update
  (* session.go:234-243 Close: unsynchronised flag, close(closeChan), close(C) *)
  (* (repaired) the flag is tested and set under the session write lock: one Close closes the channels *)
  | SessClose =>
      simple [TAcq LSess MW; TRd FSessClosed; TOnce FSessClosed; TWr FSessClosed; TRel LSess;
              TCloseCh CSessClose; TCloseCh CNotify]
  (* session.go ReadFrom: after a connection error `closed` is read under the session read lock (repaired) *)
  | ReadFrom => simple [TAcq LSess MR; TRd FSessClosed; TRel LSess]

  (* ---- handlers/arp_spoofer (arp.go, spoof.go at the current head) ---- *)
  (* arp.go ProcessPacket: `closed` read with no lock; hunt list under arpMutex; DHCPv4IPOffer for probes *)
  | ArpProcess =>
      simple ([TAcq LArp MW; TRd FArpClosed; TRel LArp;      (* isClosed (repaired: was read with no lock) *)
               TAcq LArp MW; TRd FArpHuntList; TRel LArp] ++ fDHCPv4IPOffer)
  (* spoof.go:34 StartHunt: map insert and `go spoofLoop` under arpMutex *)
  | ArpStartHunt => simple [TAcq LArp MW; TRd FArpHuntList; TWr FArpHuntList; TSpawn ArpSpoofLoop; TRel LArp]
  (* spoof.go:57 StopHunt *)
  | ArpStopHunt => simple [TAcq LArp MW; TRd FArpHuntList; TWr FArpHuntList; TRel LArp]
  (* spoof.go:11 IsHunting -> findHuntByIP ranges over the map under arpMutex (repaired by /repo 95679df,
     was an unlocked map iteration) *)
  | ArpIsHunting => simple [TAcq LArp MW; TRd FArpHuntList; TRel LArp]
  (* arp.go:72 PrintTable *)
  | ArpPrintTable => simple [TAcq LArp MW; TRd FArpHuntList; TRel LArp]
  (* spoof.go:78 spoofLoop, one iteration: membership under arpMutex, `closed` read with no lock,
     exit when not hunted or closed; the select wakes on closeChan or the ticker *)
  | ArpSpoofLoop =>
      simple [TAcq LArp MW; TRd FArpHuntList; TRd FArpClosed; TRel LArp; TExitIfFlag FArpClosed;
              TRecv CArpClose; TAgain]   (* select { case <-h.closeChan: case <-ticker: } with no lock held *)
  (* arp.go:63 Close *)
  | ArpClose => simple [TAcq LArp MW; TRd FArpClosed; TOnce FArpClosed; TWr FArpClosed; TCloseCh CArpClose; TRel LArp]

  (* ---- handlers/icmp_spoofer Handler6 (icmp6.go, icmp6spoof.go at the current head) ---- *)
  (* icmp6.go RA branch: huntList.Len() and `closed` with no lock, closeChan swapped and the old one
     closed with no lock; package-global `repeat`; router table under the handler lock *)
  | I6ProcessRA =>
      simple [TAcq LIcmp6 MW; TRd FI6HuntList; TRd FI6Closed; TRd FI6CloseChan; TWr FI6CloseChan; TWake CI6Close;
              TRel LIcmp6;   (* (repaired) the wake-up swap runs under the handler lock and only while not closed *)
              TRd FI6Repeat; TWr FI6Repeat;
              TAcq LIcmp6 MW; TRd FI6Routers; TWr FI6Routers; TWr FI6Router; TRel LIcmp6]
              (* (the Debug log line after Unlock no longer reads router.Options: repaired in /repo) *)
  (* icmp6spoof.go:16 *)
  | I6StartHunt => simple [TAcq LIcmp6 MW; TRd FI6HuntList; TWr FI6HuntList; TRel LIcmp6; TSpawn I6SpoofLoop]
  (* icmp6spoof.go:40 *)
  | I6StopHunt => simple [TAcq LIcmp6 MW; TRd FI6HuntList; TWr FI6HuntList; TRel LIcmp6]
  (* icmp6.go:30 PrintTable: GetHosts, per host a row read lock, then LANRouters under the handler lock
     (repaired by /repo 46b11c1, was read with no lock) *)
  | I6PrintTable =>
      {| t_pre := [TAcq LSess MR; TRd FHostTable; TRel LSess];
         t_each := [TAcq LRow MR; TRd FHostOnline; TRel LRow];
         t_post := [TAcq LIcmp6 MW; TRd FI6Routers; TRel LIcmp6] |}
  (* icmp6spoof.go:56 spoofLoop, one iteration: hunt list and `closed` under the handler lock (exit),
     router list under the lock, then select on h.closeChan read with NO lock *)
  | I6SpoofLoop =>
      simple [TAcq LIcmp6 MW; TRd FI6CloseChan; TRd FI6HuntList; TRd FI6Closed; TRd FI6Router; TRd FI6Routers; TRel LIcmp6;
              TExitIfFlag FI6Closed; TRecv CI6Close; TAgain]   (* select { case <-wake: case <-time.After: } *)
  (* icmp6.go:67 Close: closes whatever channel h.closeChan currently holds *)
  | I6Close =>
      simple [TAcq LIcmp6 MW; TRd FI6Closed; TOnce FI6Closed; TWr FI6Closed; TRd FI6CloseChan; TCloseCh CI6Close; TRel LIcmp6]

  (* ---- handlers/dhcp4_spoofer ---- *)
  (* dhcp4.go:247 ProcessPacket: client branch reads `mode` with no lock; server branch holds the handler
     lock across the lease table and the session calls (IsCaptured, FindIP, SetDHCPv4IPOffer, DHCPv4Update),
     may start decline/release senders *)
  | DhcpProcess =>
      simple ([TRd FDhcpMode] ++ fIsCaptured ++ [TSpawn DhcpSend]
              ++ [TAcq LDhcp MW; TRd FDhcpTable; TWr FDhcpTable; TRd FDhcpMode]
              ++ fIsCaptured ++ fFindIP ++ fSetDHCPv4IPOffer ++ fDHCPv4Update
              ++ [TSpawn DhcpSend; TRel LDhcp])
  (* dhcp4.go:175 *)
  | DhcpMinuteTicker => simple [TAcq LDhcp MW; TRd FDhcpTable; TWr FDhcpTable; TRel LDhcp]
  (* dhcp4.go:220 *)
  | DhcpStartHunt => simple [TAcq LDhcp MW; TRd FDhcpTable; TRd FDhcpMode; TSpawn DhcpSend; TRel LDhcp]
  (* dhcp4.go:207 *)
  | DhcpPrintTable => simple [TAcq LDhcp MW; TRd FDhcpTable; TRel LDhcp]
  (* client.go:58,84 sender goroutines: copies of their arguments, Conn.WriteTo only *)
  | DhcpSend => simple []
  (* dhcp4.go:165 *)
  | DhcpClose => simple [TAcq LDhcp MW; TRd FDhcpClosed; TOnce FDhcpClosed; TWr FDhcpClosed; TCloseCh CDhcpClose; TRel LDhcp]

  (* ---- handlers/dns_naming ---- *)
  (* dns.go:104 ProcessDNS *)
  | DnsProcessDNS => simple [TAcq LDns MW; TRd FDnsTable; TWr FDnsTable; TRel LDns]
  (* mdns.go ProcessMDNS: getMDNSCache (may delete an expired entry) and putMDNSCache, each under the write lock
     (getMDNSCache repaired in /repo: was a delete under the READ lock) *)
  | DnsProcessMDNS =>
      simple [TAcq LDns MW; TRd FDnsMdnsCache; TWr FDnsMdnsCache; TRel LDns; TAcq LDns MW; TWr FDnsMdnsCache; TRel LDns]
  (* dnstable.go:32 DNSFind / :20 DNSExist *)
  | DnsFind => simple [TAcq LDns MR; TRd FDnsTable; TRel LDns]
  (* dns.go:55 Close: the two maps are set to nil under the handler lock (repaired by /repo 2a21877,
     was with no lock); a later ProcessDNS/ProcessMDNS still assigns into the nil map: see nils_map *)
  | DnsClose => simple [TAcq LDns MW; TWr FDnsTable; TWr FDnsMdnsCache; TRel LDns]
  end.

(* operations executed by the single packet-loop goroutine: never concurrent with each other *)
Definition pktloop (o : op) : bool :=
  match o with
  | ParseFast | ParseSlow | Notify | NotifyDhcp | DHCPv4Update | ReadFrom
  | ArpProcess | I6ProcessRA | DhcpProcess | DnsProcessDNS | DnsProcessMDNS => true
  | _ => false
  end.

(* goroutines that exist once per session *)
Definition singleton_op (o : op) : bool :=
  match o with MinuteLoop | NicMonitor => true | _ => false end.

Definition op_idx (o : op) : nat :=
  (fix go (l : list op) (n : nat) : nat :=
     match l with
     | [] => n
     | x :: r => if String.eqb (op_name x) (op_name o) then n else go r (S n)
     end) all_ops 0.
Definition op_eqb (a b : op) : bool := Nat.eqb (op_idx a) (op_idx b).

Definition concurrent_allowed (a b : op) : bool :=
  negb (pktloop a && pktloop b) && negb (op_eqb a b && singleton_op a).

(* ---------- guards: which lock protects which field ---------- *)
Inductive guard :=
| GLock (c : lockc)              (* reads hold c (any mode), writes hold c exclusively *)
| GEither (c1 c2 : lockc)        (* writes hold BOTH exclusively, reads hold at least one *)
| GPkt                           (* touched by the packet-loop goroutine only, no lock *)
| GNone.                         (* never written by an operation of the pattern (set at construction) *)

Definition field_guard (f : field) : guard :=
  match f with
  | FHostTable | FMACTable | FSessClosed | FMacCaptured => GLock LSess
  | FStats | FI6Repeat | FHeartBeat => GPkt
  | FHostLastSeen | FHostOnline | FHostDirty | FHostHuntStage | FHostNames | FHostManuf
  | FMacLastSeen | FMacOnline | FMacIPs | FMacIP4Offer | FMacNames | FMacManuf => GLock LRow
  | FMacHostList | FMacIsRouter => GEither LSess LRow
  | FArpHuntList | FArpClosed => GLock LArp
  | FI6HuntList | FI6Closed | FI6CloseChan | FI6Routers | FI6Router => GLock LIcmp6
  | FDhcpTable | FDhcpClosed => GLock LDhcp
  | FDhcpMode | FDnsClosed => GNone
  | FDnsTable | FDnsMdnsCache => GLock LDns
  end.

Definition holds_c (c : lockc) (h : list (lockc * mode)) : bool := existsb (fun x => lockc_eqb (fst x) c) h.
Definition holds_cW (c : lockc) (h : list (lockc * mode)) : bool :=
  existsb (fun x => lockc_eqb (fst x) c && is_W (snd x)) h.

Definition guard_ok (pkt : bool) (f : field) (w : bool) (h : list (lockc * mode)) : bool :=
  match field_guard f with
  | GLock c => if w then holds_cW c h else holds_c c h
  | GEither c1 c2 => if w then holds_cW c1 h && holds_cW c2 h else holds_c c1 h || holds_c c2 h
  | GPkt => pkt
  | GNone => negb w
  end.

(* goroutines present in every session (started by NewSession) *)
Definition ambient_ops : list op := [MinuteLoop; NicMonitor].

(* operations started as goroutines by an operation *)
Definition spawns (o : op) : list op :=
  flat_map (fun a => match a with TSpawn x => [x] | _ => [] end) (flat op (template o)).

(* goroutine census: every `go` statement of the five packages starts one of these (the last one, the router
   advertisement sender of icmp6 RADVS, is outside the supported pattern and only named) *)
Definition go_census : list op :=
  [NicMonitor; MinuteLoop; Purge; PurgeProbe; ArpSpoofLoop; I6SpoofLoop; DhcpSend].
Definition go_outside_pattern : list string := ["icmp6.radvs"].

(* the races the model predicts for a pair of operations: fields with an
   unprotected conflicting pair of accesses, duplicates removed, in field order *)
Fixpoint dedup_fields (seen : list nat) (l : list field) : list field :=
  match l with
  | [] => []
  | f :: r => if existsb (Nat.eqb (field_idx f)) seen then dedup_fields seen r
              else f :: dedup_fields (field_idx f :: seen) r
  end.

Fixpoint insert_field (f : field) (l : list field) : list field :=
  match l with
  | [] => [f]
  | g :: r => if field_idx f <=? field_idx g then f :: l else g :: insert_field f r
  end.
Definition sort_fields (l : list field) : list field := fold_right insert_field [] l.

Definition predicted (a b : op) : list field :=
  if concurrent_allowed a b
  then sort_fields (dedup_fields [] (racy_fields op (template a) (template b)))
  else [].

(* the `closed` flag that guards a channel *)
Definition flag_of_chan (c : chan) : field :=
  match c with
  | CNotify | CSessClose => FSessClosed | CArpClose => FArpClosed | CI6Close => FI6Closed
  | CDhcpClose => FDhcpClosed | CDnsClose => FDnsClosed
  end.
Definition all_chans_l : list chan := [CNotify; CSessClose; CArpClose; CI6Close; CDhcpClose; CDnsClose].

(* a send on ch by one operation while another (allowed to overlap) closes ch: an unguarded send, or a
   guarded one (skipped once the flag is set) when the closer does not set that flag, atomically, before closing *)
Definition send_vs_close (a b : op) (c : chan) : bool :=
  closes op (template b) c &&
  (sends op (template a) c
   || (gsends op (template a) c (flag_of_chan c) && negb (close_after_once op (template b) c (flag_of_chan c)))).
Definition predicted_send_on_closed (a b : op) : bool :=
  concurrent_allowed a b && existsb (fun c => send_vs_close a b c || send_vs_close b a c) all_chans_l.

(* two closers of one channel allowed to overlap: close of a closed channel, unless both close only after the
   atomic test-and-set of the channel's flag (then at most one of them ever closes) *)
Definition predicted_double_close (a b : op) : bool :=
  concurrent_allowed a b &&
  existsb (fun c => closes op (template a) c && closes op (template b) c
                    && negb (close_after_once op (template a) c (flag_of_chan c)
                             && close_after_once op (template b) c (flag_of_chan c))) all_chans_l.

(* an operation that stores nil into a map field while another (allowed to overlap) assigns an entry
   of that map: "assignment to entry in nil map" panics (dns.go:55-58 Close vs dns.go:141, mdns.go:307) *)
Definition nils_map (o : op) : list field :=
  match o with DnsClose => [FDnsTable; FDnsMdnsCache] | _ => [] end.
(* (repaired by /repo: ProcessDNS and putMDNSCache test the map for nil under the handler lock, which Close
   holds when it drops the maps, before assigning: no operation assigns into a map another one nils) *)
Definition assigns_map (o : op) : list field :=
  match o with _ => [] end.
Definition predicted_nil_map (a b : op) : bool :=
  concurrent_allowed a b &&
  (existsb (fun f => existsb (field_eqb f) (assigns_map b)) (nils_map a)
   || existsb (fun f => existsb (field_eqb f) (assigns_map a)) (nils_map b)).

(* ---------- keys (text shared with the harness and known_findings.txt) ---------- *)
Open Scope string_scope.

Definition pair_name (a b : op) : string :=
  if Nat.leb (op_idx a) (op_idx b) then op_name a ++ "/" ++ op_name b else op_name b ++ "/" ++ op_name a.

Definition race_key (a b : op) (f : field) : string := "race:" ++ pair_name a b ++ ":" ++ field_name f.

Definition predicted_keys (a b : op) : list string :=
  map (race_key a b) (predicted a b)
  ++ (if predicted_send_on_closed a b then ["panic:" ++ pair_name a b ++ ":send-on-closed-channel"] else [])
  ++ (if predicted_double_close a b then ["panic:" ++ pair_name a b ++ ":close-of-closed-channel"] else [])
  ++ (if predicted_nil_map a b then ["panic:" ++ pair_name a b ++ ":nil-map-write"] else []).

Definition op_of_name (s : string) : option op :=
  find (fun o => String.eqb (op_name o) s) all_ops.
