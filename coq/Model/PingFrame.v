(* Model/PingFrame.v — which frames make Session.Parse call echoNotify, and with which id.
   Transcribed from layer_frame.go (Session.Parse), layer_ethernet.go (Ether.IsValid, IsUnicastMAC,
   EtherType, HeaderLen), layer_ip4.go (IP4.IsValid, IHL, TotalLen, Protocol), layer_ip6.go
   (IP6.IsValid, PayloadLen, NextHeader), layer_icmp.go (ICMP.IsValid, Type, ICMPEcho.IsValid,
   EchoID).  Only the path to echoNotify is modelled; every other path of Parse (ARP, UDP, TCP,
   LLDP, ...) does not touch the waiter table and is [Ok None] here (their own panics are C01's).

   Facts of the code that matter (all transcribed, none assumed):
   * the source MAC must be unicast (bit 0 of byte 6 clear), EtherType >= 1536;
   * EtherType 0x0800: ip4 = ether[14:]; IsValid (since /repo 38ef1da): len >= 20, IHL >= 20,
     len >= IHL, TotalLen >= IHL, len >= TotalLen — the version nibble is not checked there;
   * EtherType 0x86dd: ip6 = ether[14:]; IsValid (since /repo 28b2fc9): len >= 40 and
     PayloadLen+40 <= len (trailing bytes allowed) — the version nibble is not checked there;
   * icmpFrame = frame.Payload() = ether[14+IHL:] resp. ether[54:] extends to the end of the
     Ethernet frame; ICMP.IsValid and ICMPEcho.IsValid are both len >= 8; code and checksum are
     not looked at; ONE switch on the protocol number serves both IP versions;
   * echoNotify is called (since the three repairs of this cluster in Session.Parse) only when
       protocol 1:  type 0   && the frame is IPv4 (offsetIP4 != 0) && len(IP4.Payload()) >= 8
                             && IP4.Version() == 4       (IP4.Payload() = ip4[IHL:TotalLen])
       protocol 58: type 129 && the frame is IPv6 (offsetIP6 != 0) && len(IP6.Payload()) >= 8
                             && IP6.Version() == 6       (IP6.Payload() = ip6[40:40+PayloadLen])
   * the id is the big-endian uint16 at offset 4 of the ICMP message. *)
From PV Require Import Base.Prelude Base.Slice.
Open Scope N_scope.

Definition ETH_P_IP : N := 2048.     (* 0x0800 *)
Definition ETH_P_IPV6 : N := 34525.  (* 0x86dd *)
Definition IPPROTO_ICMP : N := 1.
Definition IPPROTO_ICMPV6 : N := 58.
Definition ICMP4TypeEchoReply : N := 0.
Definition ICMP6TypeEchoReply : N := 129.

(* the shared protocol switch, restricted to the two ICMP cases; [icmp] = frame.Payload();
   [is4] = the frame is IPv4; [guard] = len(IPx.Payload()) >= 8 && IPx.Version() == x for the IP
   version of the frame *)
Definition icmp_notify (proto : N) (is4 guard : bool) (icmp : slice) : res (option N) :=
  if (proto =? IPPROTO_ICMP) || (proto =? IPPROTO_ICMPV6) then
    if Nat.ltb (len icmp) 8 then Ok None                    (* ICMP.IsValid: ErrFrameLen *)
    else
      (t <- idx icmp 0 ;;
       if (t =? (if proto =? IPPROTO_ICMP then ICMP4TypeEchoReply else ICMP6TypeEchoReply))
          && Bool.eqb is4 (proto =? IPPROTO_ICMP) && guard then
         if Nat.ltb (len icmp) 8 then Ok None               (* ICMPEcho.IsValid *)
         else (i <- be16_at icmp 4 ;; Ok (Some i))          (* echoNotify(echo.EchoID()) *)
       else Ok None)%res
  else Ok None.

Definition parse_notify_s (ether : slice) : res (option N) :=
  if Nat.ltb (len ether) 14 then Ok None                    (* Ether.IsValid *)
  else
    (m0 <- idx ether 6 ;;
     if negb (N.land m0 1 =? 0) then Ok None                (* !IsUnicastMAC(src) *)
     else
       et <- be16_at ether 12 ;;
       if et <? 1536 then Ok None
       else if et =? ETH_P_IP then
         ip4 <- slfrom ether 14 ;;
         if Nat.ltb (len ip4) 20 then Ok None
         else
           b0 <- idx ip4 0 ;;
           tl <- be16_at ip4 2 ;;
           let ihl := N.to_nat (N.shiftl (N.land b0 15) 2) in
           if Nat.ltb ihl 20 || Nat.ltb (len ip4) ihl || Nat.ltb (N.to_nat tl) ihl
              || Nat.ltb (len ip4) (N.to_nat tl) then Ok None
           else
             proto <- idx ip4 9 ;;
             icmp <- slfrom ether (14 + ihl) ;;
             icmp_notify proto true (Nat.leb 8 (N.to_nat tl - ihl) && (N.shiftr b0 4 =? 4)) icmp
       else if et =? ETH_P_IPV6 then
         ip6 <- slfrom ether 14 ;;
         if Nat.ltb (len ip6) 40 then Ok None
         else
           b0 <- idx ip6 0 ;;
           pl <- be16_at ip6 4 ;;
           if Nat.ltb (len ip6) (N.to_nat pl + 40) then Ok None
           else
             proto <- idx ip6 6 ;;
             icmp <- slfrom ether 54 ;;
             icmp_notify proto false (Nat.leb 8 (N.to_nat pl) && (N.shiftr b0 4 =? 6)) icmp
       else Ok None)%res.

(* Parse is called with a slice whose capacity equals its length (the harness copies the frame) *)
Definition parse_notify (f : bytes) : res (option N) := parse_notify_s (of_bytes f).
