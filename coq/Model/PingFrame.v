(* Model/PingFrame.v — which frames make Session.Parse call echoNotify, and with which id.
   Transcribed from layer_frame.go (Session.Parse), layer_ethernet.go (Ether.IsValid, IsUnicastMAC,
   EtherType, HeaderLen), layer_ip4.go (IP4.IsValid, IHL, TotalLen, Protocol), layer_ip6.go
   (IP6.IsValid, PayloadLen, NextHeader), layer_icmp.go (ICMP.IsValid, Type, ICMPEcho.IsValid,
   EchoID).  Only the path to echoNotify is modelled; every other path of Parse (ARP, UDP, TCP,
   LLDP, ...) does not touch the waiter table and is [Ok None] here (their own panics are C01's).

   Facts of the code that matter (all transcribed, none assumed):
   * the source MAC must be unicast (bit 0 of byte 6 clear), EtherType >= 1536;
   * EtherType 0x0800: ip4 = ether[14:]; IsValid (since /repo 38ef1da): len >= 20, IHL >= 20,
     len >= IHL, TotalLen >= IHL, len >= TotalLen — the version nibble is NOT checked;
   * EtherType 0x86dd: ip6 = ether[14:]; IsValid (since /repo 28b2fc9): len >= 40 and
     PayloadLen+40 <= len (trailing bytes allowed) — the version nibble is not checked;
   * the ICMP message is frame.Payload() = ether[14+IHL:] resp. ether[54:], i.e. it extends to the
     END OF THE ETHERNET FRAME, not to IP4.TotalLen / IP6.PayloadLen;
   * ONE switch on the protocol number serves both IP versions: protocol 1 tests type 0,
     protocol 58 tests type 129, whatever the EtherType was;
   * ICMP.IsValid and ICMPEcho.IsValid are both len >= 8; code and checksum are not looked at;
   * the id is the big-endian uint16 at offset 4 of the ICMP message. *)
From PV Require Import Base.Prelude Base.Slice.
Open Scope N_scope.

Definition ETH_P_IP : N := 2048.     (* 0x0800 *)
Definition ETH_P_IPV6 : N := 34525.  (* 0x86dd *)
Definition IPPROTO_ICMP : N := 1.
Definition IPPROTO_ICMPV6 : N := 58.
Definition ICMP4TypeEchoReply : N := 0.
Definition ICMP6TypeEchoReply : N := 129.

(* the shared protocol switch, restricted to the two ICMP cases; [icmp] = frame.Payload() *)
Definition icmp_notify (proto : N) (icmp : slice) : res (option N) :=
  if (proto =? IPPROTO_ICMP) || (proto =? IPPROTO_ICMPV6) then
    if Nat.ltb (len icmp) 8 then Ok None                    (* ICMP.IsValid: ErrFrameLen *)
    else
      (t <- idx icmp 0 ;;
       if t =? (if proto =? IPPROTO_ICMP then ICMP4TypeEchoReply else ICMP6TypeEchoReply) then
         if Nat.ltb (len icmp) 8 then Ok None               (* ICMPEcho.IsValid *)
         else (i <- be16_at icmp 4 ;; Ok (Some i))          (* echoNotify(echo.EchoID()) *)
       else Ok None)%res
  else Ok None.

Definition parse_notify_s (ether : slice) : res (option N) :=
  if Nat.ltb (len ether) 14 then Ok None                    (* Ether.IsValid *)
  else
    (m0 <- idx ether 6 ;;
     if negb (N.land m0 1 =? 0) then Ok None                (* !IsUnicastMAC(src) *)
     else
       et <- be16_at ether 12 ;;
       if et <? 1536 then Ok None
       else if et =? ETH_P_IP then
         ip4 <- slfrom ether 14 ;;
         if Nat.ltb (len ip4) 20 then Ok None
         else
           b0 <- idx ip4 0 ;;
           tl <- be16_at ip4 2 ;;
           let ihl := N.to_nat (N.shiftl (N.land b0 15) 2) in
           if Nat.ltb ihl 20 || Nat.ltb (len ip4) ihl || Nat.ltb (N.to_nat tl) ihl
              || Nat.ltb (len ip4) (N.to_nat tl) then Ok None
           else
             proto <- idx ip4 9 ;;
             icmp <- slfrom ether (14 + ihl) ;;
             icmp_notify proto icmp
       else if et =? ETH_P_IPV6 then
         ip6 <- slfrom ether 14 ;;
         if Nat.ltb (len ip6) 40 then Ok None
         else
           pl <- be16_at ip6 4 ;;
           if Nat.ltb (len ip6) (N.to_nat pl + 40) then Ok None
           else
             proto <- idx ip6 6 ;;
             icmp <- slfrom ether 54 ;;
             icmp_notify proto icmp
       else Ok None)%res.

(* Parse is called with a slice whose capacity equals its length (the harness copies the frame) *)
Definition parse_notify (f : bytes) : res (option N) := parse_notify_s (of_bytes f).
