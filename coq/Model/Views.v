(* Model/Views.v — one Gallina function per zero-argument method of the view
   types of package packet whose behaviour is a fixed sequence of index /
   slice expressions (layer_ip4.go, layer_ip6.go, layer_arp.go, layer_icmp.go,
   layer_ethernet.go, layer_802_3.go, layer_rrcp.go, layer_dns.go,
   layer_dhcp4.go).  Each function mirrors the Go method as it is, defects
   included, with Go's panic rules (Base/Slice.v: indexing checks the length,
   slice expressions check the capacity).  Looping accessors are in
   Model/ViewsVar.v.  For every type T: T_IsValid and the explicit table
   T_getters of ALL its zero-argument methods other than IsValid (the harness
   compares the table's names with the method set found by reflection). *)
From PV Require Export Model.ViewsBase.
Open Scope string_scope.
Open Scope N_scope.
Open Scope res_scope.

(* String() methods: Logger.Msg("").Struct(p).ToString() runs p.FastLog, which
   calls a fixed sequence of getters; the text is a C20 matter, here only
   whether the call returns.  fastlog's own writes are not modelled. *)
Fixpoint calls (l : list getter) (p : slice) : res value :=
  match l with
  | [] => Ok VU
  | g :: r => _ <- g p ;; calls r p
  end.

(* ================================================================= *)
(* IP4 — layer_ip4.go:19-49 *)

Definition IP4_IHL_n (p : slice) : res N := b <- idx p 0 ;; Ok (N.shiftl (N.land b 15) 2).
Definition IP4_TotalLen_n (p : slice) : res N := be16_at p 2.

Definition IP4_IHL : getter := fun p => n <- IP4_IHL_n p ;; Ok (VN n).
Definition IP4_Version : getter := fun p => b <- idx p 0 ;; Ok (VN (N.shiftr b 4)).
Definition IP4_Protocol : getter := fun p => rbyte p 9.
Definition IP4_TOS : getter := fun p => rbyte p 1.
Definition IP4_ID : getter := fun p => rbe16 p 4.
Definition IP4_Flags : getter := fun p => b <- idx p 6 ;; Ok (VN (N.land b 224)).
Definition IP4_FlagDontFragment : getter := fun p => rbit p 6 64.
Definition IP4_FlagMoreFragments : getter := fun p => rbit p 6 32.
(* ((uint16(p[6]) & 0b00011111) << 8) & uint16(p[7])   -- '&' where '|' is meant *)
Definition IP4_Fragment : getter := fun p =>
  b6 <- idx p 6 ;; b7 <- idx p 7 ;; Ok (VN (N.land (N.shiftl (N.land b6 31) 8) b7)).
Definition IP4_TTL : getter := fun p => rbyte p 8.
Definition IP4_Checksum : getter := fun p => rbe16 p 10.
Definition IP4_Src : getter := fun p => rarr p 12 4.
Definition IP4_Dst : getter := fun p => rarr p 16 4.
Definition IP4_TotalLen : getter := fun p => n <- IP4_TotalLen_n p ;; Ok (VN n).
(* p[p.IHL():p.TotalLen()] *)
Definition IP4_Payload : getter := fun p =>
  ihl <- IP4_IHL_n p ;; tl <- IP4_TotalLen_n p ;; rsl p (N.to_nat ihl) (N.to_nat tl).
(* FastLog: Version Src Dst Protocol TTL TOS Flags Fragment TotalLen *)
Definition IP4_String : getter :=
  calls [IP4_Version; IP4_Src; IP4_Dst; IP4_Protocol; IP4_TTL; IP4_TOS; IP4_Flags; IP4_Fragment; IP4_TotalLen].

(* if n := len(p); n >= 20 && n >= p.IHL() && n >= p.TotalLen() { return nil }
   if n := len(p); n < 20 || n < p.IHL() { return ... }
   return fmt.Errorf(..., p.TotalLen(), ...) *)
Definition IP4_IsValid (p : slice) : res bool :=
  let n := lenN p in
  c <- andr (Ok (20 <=? n))
            (andr (ihl <- IP4_IHL_n p ;; Ok (ihl <=? n)) (tl <- IP4_TotalLen_n p ;; Ok (tl <=? n))) ;;
  if c then Ok true else
  c2 <- orr (Ok (n <? 20)) (ihl <- IP4_IHL_n p ;; Ok (n <? ihl)) ;;
  if c2 then Ok false else _ <- IP4_TotalLen_n p ;; Ok false.

Definition IP4_getters : gtable :=
  [("Checksum", IP4_Checksum); ("Dst", IP4_Dst); ("FlagDontFragment", IP4_FlagDontFragment);
   ("FlagMoreFragments", IP4_FlagMoreFragments); ("Flags", IP4_Flags); ("Fragment", IP4_Fragment);
   ("ID", IP4_ID); ("IHL", IP4_IHL); ("Payload", IP4_Payload); ("Protocol", IP4_Protocol);
   ("Src", IP4_Src); ("String", IP4_String); ("TOS", IP4_TOS); ("TTL", IP4_TTL);
   ("TotalLen", IP4_TotalLen); ("Version", IP4_Version)].

(* ================================================================= *)
(* UDP — layer_ip4.go:148-175 *)

Definition UDP_SrcPort : getter := fun p => rbe16 p 0.
Definition UDP_DstPort : getter := fun p => rbe16 p 2.
Definition UDP_Len : getter := fun p => rbe16 p 4.
Definition UDP_Checksum : getter := fun p => rbe16 p 6.
Definition UDP_Payload : getter := fun p => rfrom p 8.
Definition UDP_HeaderLen : getter := fun _ => Ok (VN 8).
(* FastLog: SrcPort DstPort Len Payload *)
Definition UDP_String : getter := calls [UDP_SrcPort; UDP_DstPort; UDP_Len; UDP_Payload].
Definition UDP_IsValid (p : slice) : res bool := Ok (8 <=? lenN p).

Definition UDP_getters : gtable :=
  [("Checksum", UDP_Checksum); ("DstPort", UDP_DstPort); ("HeaderLen", UDP_HeaderLen);
   ("Len", UDP_Len); ("Payload", UDP_Payload); ("SrcPort", UDP_SrcPort); ("String", UDP_String)].

(* ================================================================= *)
(* TCP — layer_ip4.go:208-234 *)

Definition TCP_SrcPort : getter := fun p => rbe16 p 0.
Definition TCP_DstPort : getter := fun p => rbe16 p 2.
Definition TCP_Seq : getter := fun p => rbe32 p 4.
Definition TCP_Ack : getter := fun p => rbe32 p 8.
(* int(p[12] >> 4) : the data offset in 32-bit words, returned as if bytes *)
Definition TCP_HeaderLen : getter := fun p => b <- idx p 12 ;; Ok (VN (N.shiftr b 4)).
Definition TCP_NS : getter := fun p => rbit p 12 1.
Definition TCP_FIN : getter := fun p => rbit p 13 1.
Definition TCP_SYN : getter := fun p => rbit p 13 2.
Definition TCP_RST : getter := fun p => rbit p 13 4.
Definition TCP_PSH : getter := fun p => rbit p 13 8.
Definition TCP_ACK : getter := fun p => rbit p 13 16.
Definition TCP_URG : getter := fun p => rbit p 13 32.
Definition TCP_ECE : getter := fun p => rbit p 13 64.
Definition TCP_CWR : getter := fun p => rbit p 13 128.
Definition TCP_Window : getter := fun p => rbe16 p 14.
Definition TCP_Checksum : getter := fun p => rbe16 p 16.
Definition TCP_Urgent : getter := fun p => rbe16 p 18.
(* p[p[12]>>4:] *)
Definition TCP_Payload : getter := fun p => b <- idx p 12 ;; rfrom p (N.to_nat (N.shiftr b 4)).
Definition TCP_IsValid (p : slice) : res bool := Ok (20 <=? lenN p).

Definition TCP_getters : gtable :=
  [("ACK", TCP_ACK); ("Ack", TCP_Ack); ("CWR", TCP_CWR); ("Checksum", TCP_Checksum);
   ("DstPort", TCP_DstPort); ("ECE", TCP_ECE); ("FIN", TCP_FIN); ("HeaderLen", TCP_HeaderLen);
   ("NS", TCP_NS); ("PSH", TCP_PSH); ("Payload", TCP_Payload); ("RST", TCP_RST); ("SYN", TCP_SYN);
   ("Seq", TCP_Seq); ("SrcPort", TCP_SrcPort); ("URG", TCP_URG); ("Urgent", TCP_Urgent);
   ("Window", TCP_Window)].
