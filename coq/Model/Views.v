(* Model/Views.v — one Gallina function per zero-argument method of the view
   types of package packet whose behaviour is a fixed sequence of index /
   slice expressions (layer_ip4.go, layer_ip6.go, layer_arp.go, layer_icmp.go,
   layer_ethernet.go, layer_802_3.go, layer_rrcp.go, layer_dns.go,
   layer_dhcp4.go).  Each function mirrors the Go method as it is, defects
   included, with Go's panic rules (Base/Slice.v: indexing checks the length,
   slice expressions check the capacity).  Looping accessors are in
   Model/ViewsVar.v.  For every type T: T_IsValid and the explicit table
   T_getters of ALL its zero-argument methods other than IsValid (the harness
   compares the table's names with the method set found by reflection). *)
From PV Require Export Model.ViewsBase Model.Checksum.
Open Scope string_scope.
Open Scope N_scope.
Open Scope res_scope.

(* String() methods: Logger.Msg("").Struct(p).ToString() runs p.FastLog, which
   calls a fixed sequence of getters; the text is a C20 matter, here only
   whether the call returns.  fastlog's own writes are not modelled. *)
Fixpoint calls (l : list getter) (p : slice) : res value :=
  match l with
  | [] => Ok VU
  | g :: r => _ <- g p ;; calls r p
  end.

(* ================================================================= *)
(* IP4 — layer_ip4.go:19-49 *)

Definition IP4_IHL_n (p : slice) : res N := b <- idx p 0 ;; Ok (N.shiftl (N.land b 15) 2).
Definition IP4_TotalLen_n (p : slice) : res N := be16_at p 2.

Definition IP4_IHL : getter := fun p => n <- IP4_IHL_n p ;; Ok (VN n).
Definition IP4_Version : getter := fun p => b <- idx p 0 ;; Ok (VN (N.shiftr b 4)).
Definition IP4_Protocol : getter := fun p => rbyte p 9.
Definition IP4_TOS : getter := fun p => rbyte p 1.
Definition IP4_ID : getter := fun p => rbe16 p 4.
Definition IP4_Flags : getter := fun p => b <- idx p 6 ;; Ok (VN (N.land b 224)).
Definition IP4_FlagDontFragment : getter := fun p => rbit p 6 64.
Definition IP4_FlagMoreFragments : getter := fun p => rbit p 6 32.
(* ((uint16(p[6]) & 0b00011111) << 8) | uint16(p[7])   (repaired: was '&') *)
Definition IP4_Fragment : getter := fun p =>
  b6 <- idx p 6 ;; b7 <- idx p 7 ;; Ok (VN (N.lor (N.shiftl (N.land b6 31) 8) b7)).
Definition IP4_TTL : getter := fun p => rbyte p 8.
Definition IP4_Checksum : getter := fun p => rbe16 p 10.
Definition IP4_Src : getter := fun p => rarr p 12 4.
Definition IP4_Dst : getter := fun p => rarr p 16 4.
Definition IP4_TotalLen : getter := fun p => n <- IP4_TotalLen_n p ;; Ok (VN n).
(* p[p.IHL():p.TotalLen()] *)
Definition IP4_Payload : getter := fun p =>
  ihl <- IP4_IHL_n p ;; tl <- IP4_TotalLen_n p ;; rsl p (N.to_nat ihl) (N.to_nat tl).
(* FastLog: Version Src Dst Protocol TTL TOS Flags Fragment TotalLen *)
Definition IP4_String : getter :=
  calls [IP4_Version; IP4_Src; IP4_Dst; IP4_Protocol; IP4_TTL; IP4_TOS; IP4_Flags; IP4_Fragment; IP4_TotalLen].

(* if n := len(p); n >= 20 && p.IHL() >= 20 && n >= p.IHL() && p.TotalLen() >= p.IHL() && n >= p.TotalLen() { return nil }
   if n := len(p); n < 20 || p.IHL() < 20 || n < p.IHL() { return ... }
   return fmt.Errorf(..., p.TotalLen(), ...)          (repaired: IHL >= 20 and TotalLen >= IHL were not checked) *)
Definition IP4_IsValid (p : slice) : res bool :=
  let n := lenN p in
  c <- andr (Ok (20 <=? n))
        (andr (ihl <- IP4_IHL_n p ;; Ok (20 <=? ihl))
          (andr (ihl <- IP4_IHL_n p ;; Ok (ihl <=? n))
            (andr (tl <- IP4_TotalLen_n p ;; ihl <- IP4_IHL_n p ;; Ok (ihl <=? tl))
                  (tl <- IP4_TotalLen_n p ;; Ok (tl <=? n))))) ;;
  if c then Ok true else
  c2 <- orr (Ok (n <? 20)) (orr (ihl <- IP4_IHL_n p ;; Ok (ihl <? 20)) (ihl <- IP4_IHL_n p ;; Ok (n <? ihl))) ;;
  if c2 then Ok false else _ <- IP4_TotalLen_n p ;; Ok false.

(* psh := make([]byte, 20); copy(psh[0:10], p[0:10]); copy(psh[10:18], p[12:20]); Checksum(psh) *)
Definition IP4_CalculateChecksum : getter := fun p =>
  a <- sl p 0 10 ;; b <- sl p 12 20 ;;
  Ok (VN (checksum (firstn 10 (arr a) ++ firstn 8 (arr b) ++ [0; 0])%list)).

Definition IP4_getters : gtable :=
  [("CalculateChecksum", IP4_CalculateChecksum); ("Checksum", IP4_Checksum); ("Dst", IP4_Dst); ("FlagDontFragment", IP4_FlagDontFragment);
   ("FlagMoreFragments", IP4_FlagMoreFragments); ("Flags", IP4_Flags); ("Fragment", IP4_Fragment);
   ("ID", IP4_ID); ("IHL", IP4_IHL); ("Payload", IP4_Payload); ("Protocol", IP4_Protocol);
   ("Src", IP4_Src); ("String", IP4_String); ("TOS", IP4_TOS); ("TTL", IP4_TTL);
   ("TotalLen", IP4_TotalLen); ("Version", IP4_Version)].

(* ================================================================= *)
(* UDP — layer_ip4.go:148-175 *)

Definition UDP_SrcPort : getter := fun p => rbe16 p 0.
Definition UDP_DstPort : getter := fun p => rbe16 p 2.
Definition UDP_Len : getter := fun p => rbe16 p 4.
Definition UDP_Checksum : getter := fun p => rbe16 p 6.
Definition UDP_Payload : getter := fun p => rfrom p 8.
Definition UDP_HeaderLen : getter := fun _ => Ok (VN 8).
(* FastLog: SrcPort DstPort Len Payload *)
Definition UDP_String : getter := calls [UDP_SrcPort; UDP_DstPort; UDP_Len; UDP_Payload].
Definition UDP_IsValid (p : slice) : res bool := Ok (8 <=? lenN p).

Definition UDP_getters : gtable :=
  [("Checksum", UDP_Checksum); ("DstPort", UDP_DstPort); ("HeaderLen", UDP_HeaderLen);
   ("Len", UDP_Len); ("Payload", UDP_Payload); ("SrcPort", UDP_SrcPort); ("String", UDP_String)].

(* ================================================================= *)
(* TCP — layer_ip4.go:208-234 *)

Definition TCP_SrcPort : getter := fun p => rbe16 p 0.
Definition TCP_DstPort : getter := fun p => rbe16 p 2.
Definition TCP_Seq : getter := fun p => rbe32 p 4.
Definition TCP_Ack : getter := fun p => rbe32 p 8.
(* int(p[12]>>4) * 4   (repaired: the data offset counts 32-bit words) *)
Definition TCP_HeaderLen_n (p : slice) : res N := b <- idx p 12 ;; Ok (N.shiftr b 4 * 4).
Definition TCP_HeaderLen : getter := fun p => n <- TCP_HeaderLen_n p ;; Ok (VN n).
Definition TCP_NS : getter := fun p => rbit p 12 1.
Definition TCP_FIN : getter := fun p => rbit p 13 1.
Definition TCP_SYN : getter := fun p => rbit p 13 2.
Definition TCP_RST : getter := fun p => rbit p 13 4.
Definition TCP_PSH : getter := fun p => rbit p 13 8.
Definition TCP_ACK : getter := fun p => rbit p 13 16.
Definition TCP_URG : getter := fun p => rbit p 13 32.
Definition TCP_ECE : getter := fun p => rbit p 13 64.
Definition TCP_CWR : getter := fun p => rbit p 13 128.
Definition TCP_Window : getter := fun p => rbe16 p 14.
Definition TCP_Checksum : getter := fun p => rbe16 p 16.
Definition TCP_Urgent : getter := fun p => rbe16 p 18.
(* p[p.HeaderLen():] *)
Definition TCP_Payload : getter := fun p => n <- TCP_HeaderLen_n p ;; rfrom p (N.to_nat n).
(* len(p) >= 20 && p.HeaderLen() >= 20 && len(p) >= p.HeaderLen()   (repaired: only the length was checked) *)
Definition TCP_IsValid (p : slice) : res bool :=
  andr (Ok (20 <=? lenN p))
       (andr (n <- TCP_HeaderLen_n p ;; Ok (20 <=? n)) (n <- TCP_HeaderLen_n p ;; Ok (n <=? lenN p))).

Definition TCP_getters : gtable :=
  [("ACK", TCP_ACK); ("Ack", TCP_Ack); ("CWR", TCP_CWR); ("Checksum", TCP_Checksum);
   ("DstPort", TCP_DstPort); ("ECE", TCP_ECE); ("FIN", TCP_FIN); ("HeaderLen", TCP_HeaderLen);
   ("NS", TCP_NS); ("PSH", TCP_PSH); ("Payload", TCP_Payload); ("RST", TCP_RST); ("SYN", TCP_SYN);
   ("Seq", TCP_Seq); ("SrcPort", TCP_SrcPort); ("URG", TCP_URG); ("Urgent", TCP_Urgent);
   ("Window", TCP_Window)].

(* ================================================================= *)
(* ARP -- layer_arp.go:19-56 *)

Definition ARP_HType : getter := fun p => rbe16 p 0.
Definition ARP_Proto : getter := fun p => rbe16 p 2.
Definition ARP_HLen : getter := fun p => rbyte p 4.
Definition ARP_PLen : getter := fun p => rbyte p 5.
Definition ARP_Operation : getter := fun p => rbe16 p 6.
Definition ARP_SrcMAC : getter := fun p => rsl p 8 14.
Definition ARP_SrcIP : getter := fun p => rarr p 14 4.
Definition ARP_DstMAC : getter := fun p => rsl p 18 24.
Definition ARP_DstIP : getter := fun p => rarr p 24 4.
(* FastLog: Operation SrcMAC SrcIP DstMAC DstIP *)
Definition ARP_String : getter := calls [ARP_Operation; ARP_SrcMAC; ARP_SrcIP; ARP_DstMAC; ARP_DstIP].
(* len < 28 -> ErrFrameLen; HType != 1; Proto != 0x0800; HLen != 6; PLen != 4 *)
Definition ARP_IsValid (p : slice) : res bool :=
  if lenN p <? 28 then Ok false else
  h <- be16_at p 0 ;; if negb (h =? 1) then Ok false else
  pr <- be16_at p 2 ;; if negb (pr =? 2048) then Ok false else
  hl <- idx p 4 ;; if negb (hl =? 6) then Ok false else
  pl <- idx p 5 ;; if negb (pl =? 4) then Ok false else Ok true.

Definition ARP_getters : gtable :=
  [("DstIP", ARP_DstIP); ("DstMAC", ARP_DstMAC); ("HLen", ARP_HLen); ("HType", ARP_HType);
   ("Operation", ARP_Operation); ("PLen", ARP_PLen); ("Proto", ARP_Proto); ("SrcIP", ARP_SrcIP);
   ("SrcMAC", ARP_SrcMAC); ("String", ARP_String)].

(* ================================================================= *)
(* Ether -- layer_ethernet.go:64-180.  IP6.Src/Dst (layer_ip6.go:33-34) are needed by SrcIP/DstIP. *)

Definition IP6_Src : getter := fun p => rarr p 8 16.
Definition IP6_Dst : getter := fun p => rarr p 24 16.

Definition Ether_Dst : getter := fun p => rsl p 0 6.
Definition Ether_Src : getter := fun p => rsl p 6 12.
Definition Ether_EtherType_n (p : slice) : res N := be16_at p 12.
Definition Ether_EtherType : getter := fun p => rbe16 p 12.
(* switch p.EtherType(): IP, IPV6, ARP -> 14; 8021Q -> 18; 8021AD -> 22; default 14 *)
Definition Ether_HeaderLen_n (p : slice) : res nat :=
  et <- Ether_EtherType_n p ;;
  Ok (if et =? 33024 then 18%nat else if et =? 34984 then 22%nat else 14%nat).
Definition Ether_HeaderLen : getter := fun p => n <- Ether_HeaderLen_n p ;; Ok (VN (N.of_nat n)).
(* n := p.HeaderLen(); if len(p) > n { return p[n:] }; if len(p) == n { return p[n:cap(p)] }; return nil
   -- as a located slice (the nested views of SrcIP/DstIP read it) *)
Definition Ether_Payload_l (p : slice) : res (option lslice) :=
  n <- Ether_HeaderLen_n p ;;
  if Nat.ltb n (len p) then q <- slfrom p n ;; Ok (Some (mkL n q))
  else if Nat.eqb (len p) n then q <- sl p n (cap p) ;; Ok (Some (mkL n q))
  else Ok None.
Definition Ether_Payload : getter := fun p =>
  q <- Ether_Payload_l p ;; Ok (match q with Some l => lval l | None => VNil end).
Definition nil_slice : slice := mkSlice [] 0.
Definition Ether_Payload_s (p : slice) : res slice :=
  q <- Ether_Payload_l p ;; Ok (match q with Some l => lsl l | None => nil_slice end).
(* switch p.EtherType() { case IP: if len(p) >= 14+20 { return IP4(p[14:]).Src() }
                           case IPV6: if len(p) >= 14+40 { return IP6(p[14:]).Src() } }; return netip.Addr{}
   (repaired: the IP header of the payload was indexed unguarded) *)
Definition Ether_ip (g4 g6 : getter) : getter := fun p =>
  et <- Ether_EtherType_n p ;;
  if et =? 2048 then (if 34 <=? lenN p then q <- slfrom p 14 ;; g4 q else Ok (VX []))
  else if et =? 34525 then (if 54 <=? lenN p then q <- slfrom p 14 ;; g6 q else Ok (VX []))
  else Ok (VX []).
Definition Ether_SrcIP : getter := Ether_ip IP4_Src IP6_Src.
Definition Ether_DstIP : getter := Ether_ip IP4_Dst IP6_Dst.
(* FastLog: EtherType Src Dst *)
Definition Ether_String : getter := calls [Ether_EtherType; Ether_Src; Ether_Dst].
Definition Ether_IsValid (p : slice) : res bool := Ok (14 <=? lenN p).

Definition Ether_getters : gtable :=
  [("Dst", Ether_Dst); ("DstIP", Ether_DstIP); ("EtherType", Ether_EtherType); ("HeaderLen", Ether_HeaderLen);
   ("Payload", Ether_Payload); ("Src", Ether_Src); ("SrcIP", Ether_SrcIP); ("String", Ether_String)].

(* unfold hints for the proof tactics (generated from the definitions above) *)
#[global] Hint Unfold IP4_IHL IP4_Version IP4_Protocol IP4_TOS IP4_ID IP4_Flags IP4_FlagDontFragment IP4_FlagMoreFragments IP4_Fragment IP4_TTL IP4_Checksum IP4_Src IP4_Dst IP4_TotalLen IP4_Payload IP4_String IP4_CalculateChecksum UDP_SrcPort UDP_DstPort UDP_Len UDP_Checksum UDP_Payload UDP_HeaderLen UDP_String TCP_SrcPort TCP_DstPort TCP_Seq TCP_Ack TCP_HeaderLen TCP_NS TCP_FIN TCP_SYN TCP_RST TCP_PSH TCP_ACK TCP_URG TCP_ECE TCP_CWR TCP_Window TCP_Checksum TCP_Urgent TCP_Payload ARP_HType ARP_Proto ARP_HLen ARP_PLen ARP_Operation ARP_SrcMAC ARP_SrcIP ARP_DstMAC ARP_DstIP ARP_String IP6_Src IP6_Dst Ether_Dst Ether_Src Ether_EtherType Ether_HeaderLen Ether_Payload Ether_SrcIP Ether_DstIP Ether_String : vg.
