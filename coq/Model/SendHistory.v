(* Model/SendHistory.v — the event system of C07_history: every way a frame reaches the session connection.
   An event is one call of a send path (an exported function called by the application, or the call a
   handler makes when it processes a packet / a timer fires: purge probes, arp_spoofer hunt loop and spoofed
   reply, DHCP replies / burst / forced decline and release, icmp_spoofer NA / RA / RS, dns_naming queries).
   [emit] maps an event to the send function the code calls — nothing else writes to Conn. *)
From PV Require Export Model.Send Model.SendNdp Model.SendUdp.
Open Scope N_scope.

Inductive event :=
| EvPurgeArp (ip : bytes)                                   (* session.go purge, IPv4 host *)
| EvPurgeIp6 (host : addr) (id : N)                         (* session.go purge, IPv6 host *)
| EvEcho4 (src dst : addr) (id seq : N)                     (* ICMP4SendEchoRequest, Ping *)
| EvEcho6 (src dst : addr) (id seq : N)                     (* ICMP6SendEchoRequest, Ping6, icmp_spoofer PingAll *)
| EvNS (src dst : addr) (target : bytes)                    (* ICMP6SendNeighbourSolicitation *)
| EvNA (src dst target : addr)                              (* ICMP6SendNeighborAdvertisement, icmp_spoofer spoof loop *)
| EvRS                                                      (* ICMP6SendRouterSolicitation *)
| EvRA (pf : list (N * bytes)) (rd : option (N * list bytes)) (dst : addr)   (* ICMP6SendRouterAdvertisement, RADVS *)
| EvArp (op : N) (dst : bytes) (sender target : addr)       (* arp_spoofer RequestRaw / Reply and everything built on them *)
| EvDhcpReply (dst : addr) (payload : bytes)                (* dhcp4_spoofer ProcessPacket: OFFER / ACK / NAK *)
| EvDiscover (ch ci xid : bytes) (opts : list opt)          (* SendDiscoverPacket, attackDHCPServer burst *)
| EvDeclineRelease (ch ci xid : bytes) (opts : list opt)    (* forceDecline / forceRelease *)
| EvMdnsQuery (name : bytes) | EvLlmnrQuery (name : bytes)  (* SendMDNSQuery / SendLLMNRQuery *)
| EvMdns (buf : bytes) (src dst : addr) (port : N)          (* sendMDNS: SendSleepProxyResponse *)
| EvNbnsQuery (src dst : addr) (seq : N) (name : bytes) | EvNbnsStatus (seq : N)
| EvSsdp.

(* an event with the previous contents of the pooled buffers it takes *)
Definition step := (event * bytes * bytes)%type.

Definition emit (c : cfg) (s : step) : res (list bytes) :=
  let '(ev, j1, j2) := s in
  match ev with
  | EvPurgeArp ip => send_purge_arp c ip j1
  | EvPurgeIp6 host id => send_purge_ip6 c host id j1
  | EvEcho4 src dst id seq => send_echo4 c src dst id seq j1
  | EvEcho6 src dst id seq => send_echo6 c src dst id seq j1
  | EvNS src dst tg => send_ns c src dst tg j1
  | EvNA src dst tg => send_na c src dst tg j1
  | EvRS => send_rs c j1
  | EvRA pf rd dst => send_ra c pf rd dst j1
  | EvArp op dst sender target => send_arp c op dst sender target j1
  | EvDhcpReply dst p => send_dhcp4_reply c dst p j1
  | EvDiscover ch ci xid opts => send_discover c (Some ch) ci xid opts j1
  | EvDeclineRelease ch ci xid opts => send_decline_release c (Some ch) ci xid opts j1 j2
  | EvMdnsQuery name => send_mdns_query c name
  | EvLlmnrQuery name => send_llmnr_query c name
  | EvMdns buf src dst port => send_mdns c buf src dst port
  | EvNbnsQuery src dst seq name => send_nbns_query c src dst seq name j1
  | EvNbnsStatus seq => send_nbns_node_status c seq j1
  | EvSsdp => send_ssdp_search c j1
  end.

Definition frames_of (r : res (list bytes)) : list bytes := match r with Ok l => l | _ => [] end.

(* all frames written to the connection along a history *)
Definition run (c : cfg) (h : list step) : list bytes := concat (map (fun s => frames_of (emit c s)) h).
