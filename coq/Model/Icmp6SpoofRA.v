(* Model/Icmp6SpoofRA.v — line-by-line model of the router-advertisement
   decoding path of handlers/icmp_spoofer/icmp6.go:172-227:
     ICMP6RouterAdvertisement getters         (layer_icmp.go:231-261)
     newParseOptions                          (layer_icmp6_options.go:677-740)
     LinkLayerAddress/MTU/PrefixInformation/RouteInformation/
     RecursiveDNSServer/DNSSearchList/RawOption .unmarshal
   The model mirrors the code AS IT IS (defects included; each is marked DEFECT).

   Slices.  Every slice expression on this path is bounded by the *length* of
   the option region: the loop checks l <= len(b[i:]) before b[i:i+l], and each
   unmarshal only indexes below l once l >= 8.  Capacity is therefore never
   consulted and plain byte lists (firstn/skipn) are a faithful model.  An option of
   length zero is an error of the whole option block (repaired f37ae93, HANDLERS cluster; before:
   panic or endless loop); the [Panic] results on an empty option slice below are unreachable from
   [parse_opts] and kept only so that each unmarshal is total on its own.
   Every decoded value is an owned copy (CopyMAC, CopyIP, AddrFromSlice, make+copy, string):
   nothing in the result refers to the packet buffer; the harness checks exactly that by
   overwriting the one receive buffer after every packet. *)
From PV Require Export Base.Prelude.
Open Scope N_scope.

(* ---------------------------------------------------------------- *)
(* byte helpers *)

Definition at_ (b : bytes) (i : nat) : byte := nth i b 0.
(* binary.BigEndian.Uint32(b[off:off+4]) / Uint16 *)
Definition be32_at (b : bytes) (off : nat) : N :=
  be32 (at_ b off) (at_ b (off + 1)) (at_ b (off + 2)) (at_ b (off + 3)).
Definition be16_at (b : bytes) (off : nat) : N := be16 (at_ b off) (at_ b (off + 1)).
Definition blen (b : bytes) : N := N.of_nat (List.length b).

(* (x & m) != 0 *)
Definition bit_and (x m : N) : bool := negb (N.land x m =? 0).

(* ---------------------------------------------------------------- *)
(* decoded values (Go structs of layer_icmp6_options.go) *)

Record prefix_info := mkPI {
  pi_len : N; pi_onlink : bool; pi_auto : bool;
  pi_valid : N;          (* seconds *)
  pi_pref : N;           (* seconds *)
  pi_prefix : bytes      (* net.IP; [] models nil (prefix length > 128) *)
}.
Record route_info := mkRI {
  ri_len : N; ri_prf : N; ri_life : N;
  ri_set : bool;         (* Prefix != nil *)
  ri_prefix : bytes
}.
Record rdnss := mkRD { rd_life : N; rd_servers : list bytes }.
Record dnssl := mkDS { ds_life : N; ds_names : list bytes }.

Record new_options := mkOpts {
  o_mtu : N;
  o_prefixes : list prefix_info;
  o_rdnss : rdnss;
  o_slla : bytes;        (* SourceLLA.MAC, [] = nil *)
  o_tlla : bytes;
  o_dnssl : dnssl;
  o_ri : route_info;
  (* every well-formed option of the kind, in packet order (fields added by the repair of the
     findings ri-multiple / rdnss-multiple / dnssl-multiple; the single fields keep their meaning) *)
  o_routes : list route_info;
  o_rdnss_all : list rdnss;
  o_dnssl_all : list dnssl
}.

Definition ri_zero := mkRI 0 0 0 false [].
Definition opts_zero := mkOpts 0 [] (mkRD 0 []) [] [] (mkDS 0 []) ri_zero [] [] [].

Definition set_mtu o v := mkOpts v (o_prefixes o) (o_rdnss o) (o_slla o) (o_tlla o) (o_dnssl o) (o_ri o) (o_routes o) (o_rdnss_all o) (o_dnssl_all o).
Definition add_prefix o p := mkOpts (o_mtu o) (o_prefixes o ++ [p]) (o_rdnss o) (o_slla o) (o_tlla o) (o_dnssl o) (o_ri o) (o_routes o) (o_rdnss_all o) (o_dnssl_all o).
Definition set_rdnss o v := mkOpts (o_mtu o) (o_prefixes o) v (o_slla o) (o_tlla o) (o_dnssl o) (o_ri o) (o_routes o) (o_rdnss_all o) (o_dnssl_all o).
Definition set_slla o v := mkOpts (o_mtu o) (o_prefixes o) (o_rdnss o) v (o_tlla o) (o_dnssl o) (o_ri o) (o_routes o) (o_rdnss_all o) (o_dnssl_all o).
Definition set_tlla o v := mkOpts (o_mtu o) (o_prefixes o) (o_rdnss o) (o_slla o) v (o_dnssl o) (o_ri o) (o_routes o) (o_rdnss_all o) (o_dnssl_all o).
Definition set_dnssl o v := mkOpts (o_mtu o) (o_prefixes o) (o_rdnss o) (o_slla o) (o_tlla o) v (o_ri o) (o_routes o) (o_rdnss_all o) (o_dnssl_all o).
Definition set_ri o v := mkOpts (o_mtu o) (o_prefixes o) (o_rdnss o) (o_slla o) (o_tlla o) (o_dnssl o) v (o_routes o) (o_rdnss_all o) (o_dnssl_all o).
Definition add_route o v := mkOpts (o_mtu o) (o_prefixes o) (o_rdnss o) (o_slla o) (o_tlla o) (o_dnssl o) (o_ri o) (o_routes o ++ [v]) (o_rdnss_all o) (o_dnssl_all o).
Definition add_rdnss o v := mkOpts (o_mtu o) (o_prefixes o) (o_rdnss o) (o_slla o) (o_tlla o) (o_dnssl o) (o_ri o) (o_routes o) (o_rdnss_all o ++ [v]) (o_dnssl_all o).
Definition add_dnssl o v := mkOpts (o_mtu o) (o_prefixes o) (o_rdnss o) (o_slla o) (o_tlla o) (o_dnssl o) (o_ri o) (o_routes o) (o_rdnss_all o) (o_dnssl_all o ++ [v]).

(* ---------------------------------------------------------------- *)
(* LinkLayerAddress.unmarshal(b):  b[1] != 1 -> error ; MAC = CopyMAC(b[2:]) *)
Definition lla_unmarshal (b : bytes) : res bytes :=
  match b with
  | [] => Panic                                  (* b[0] on an empty slice *)
  | _ => if negb (at_ b 1 =? 1) then Err EOther else Ok (skipn 2 b)
  end.

(* MTU.unmarshal(b): l := int(b[1])*8 - 2; l != 6 -> error; *m = Uint32(b[4:8])
   (repaired: was int(b[1]*8) in uint8 and b[2:6], finding mtu-offset) *)
Definition mtu_off : nat := 4.
Definition mtu_unmarshal (b : bytes) : res N :=
  match b with
  | [] => Panic
  | _ => if negb (Z.of_N (at_ b 1) * 8 - 2 =? 6)%Z then Err EOther
         else Ok (be32_at b mtu_off)
  end.

(* net.CIDRMask(ones,128) byte i, iterating n as the Go loop does:
   n >= 8 -> 0xff, n -= 8 ; else ^byte(0xff >> n), n = 0 *)
Fixpoint cidr_mask (k : nat) (n : N) : bytes :=
  match k with
  | O => []
  | S k' => if 8 <=? n then 255 :: cidr_mask k' (n - 8)
            else (255 - N.shiftr 255 n) :: cidr_mask k' 0
  end.
Fixpoint and_bytes (a m : bytes) : bytes :=
  match a, m with
  | x :: a', y :: m' => N.land x y :: and_bytes a' m'
  | _, _ => []
  end.
(* net.IP(addr16).Mask(net.CIDRMask(pl,128)): nil when pl > 128 *)
Definition ip_mask128 (ip : bytes) (pl : N) : bytes :=
  if 128 <? pl then [] else and_bytes ip (cidr_mask 16 pl).

(* PrefixInformation.unmarshal(b): b[1] != 4 -> io.ErrUnexpectedEOF *)
Definition pi_unmarshal (b : bytes) : res prefix_info :=
  match b with
  | [] => Panic
  | _ =>
    if negb (at_ b 1 =? 4) then Err EOther else
    let value := skipn 2 b in
    let pl := at_ value 0 in
    if 128 <? pl then Err EOther else             (* repaired: was accepted with Prefix = nil *)
    Ok (mkPI pl (bit_and (at_ value 1) 128) (bit_and (at_ value 1) 64)
             (be32_at value 2) (be32_at value 6)
             (ip_mask128 (sub value 14 16) pl))
  end.

(* RouteInformation.unmarshal(b) updates *ri in place, after all checks (the caller ignores an error). *)
Definition ri_len_ok (l pl : N) : bool :=
  if pl =? 0 then negb ((l <? 1) || (3 <? l))
  else if pl <? 65 then (l =? 2) || (l =? 3)
  else if pl <? 129 then (l =? 3)
  else false.
(* prefix := make(net.IP, 16); copy(prefix, b[8:8+(pl+7)/8]); prefix.Mask(net.CIDRMask(pl,128))
   (repaired: was CopyBytes(b[8:8+pl/8]), finding ri-prefix-bits) *)
Definition ri_prefix_bytes (b : bytes) (pl : N) : bytes :=
  ip_mask128 (firstn 16 (sub b 8 (N.to_nat ((pl + 7) / 8)) ++ repeat 0 16)) pl.
Definition ri_unmarshal (ri : route_info) (b : bytes) : res (route_info * bool) :=
  match b with
  | [] => Panic
  | _ =>
    let l := at_ b 1 in let pl := at_ b 2 in
    if negb (ri_len_ok l pl) then Ok (ri, false) else
    let prf := N.shiftr (N.land (at_ b 3) 24) 3 in
    if prf =? 2 then Ok (ri, false)                       (* checkPreference: reserved; nothing assigned (repaired) *)
    else Ok (mkRI pl prf (be32_at b 4) true (ri_prefix_bytes b pl), true)
  end.

(* RecursiveDNSServer.unmarshal(b): Length checked, then r.Lifetime assigned and Servers appended *)
Fixpoint rd_servers_from (value : bytes) (start : nat) (count : nat) : list bytes :=
  match count with
  | O => []
  | S c => sub value start 16 :: rd_servers_from value (start + 16) c
  end.
Definition rd_unmarshal (r : rdnss) (b : bytes) : res (rdnss * bool) :=
  match b with
  | [] => Panic                                  (* b[2:] on an empty slice *)
  | _ =>
    let value := skipn 2 b in
    let lt := be32_at value 2 in
    let dividend := (at_ b 1 - 1) * 8 in         (* int arithmetic; b[1] >= 1 here *)
    let count := dividend / 16 in
    if negb (dividend mod 16 =? 0) then Ok (r, false)    (* even Length: errRDNSSBadServer (repaired: was dead code) *)
    else if count =? 0 then Ok (r, false)                 (* errRDNSSNoServers; lifetime not yet assigned (repaired) *)
    else Ok (mkRD lt (rd_servers r ++ rd_servers_from value 6 (N.to_nat count)), true)
  end.

(* DNSSearchList.unmarshal(b) via RawOption.unmarshal:
   l := int(r.Length)*8 - 2 must equal len(b[2:])
   (repaired: was int(r.Length*8) in uint8, finding dnssl-long). *)
Definition raw_len (len8 : N) : Z := Z.of_N len8 * 8 - 2.
Definition isascii (l : bytes) : bool := forallb (fun c => c <? 128) l.
Definition has_byte (c : N) (l : bytes) : bool := existsb (fun x => x =? c) l.
(* labels containing "xn--" go through the third-party punycode decoder: not modelled *)
Fixpoint has_xn (l : bytes) : bool :=
  match l with
  | 120 :: ((110 :: 45 :: 45 :: _) as r) => true
  | _ :: r => has_xn r
  | [] => false
  end.
Fixpoint join_labels (ls : list bytes) : bytes :=
  match ls with
  | [] => []
  | [x] => x
  | x :: r => x ++ 46 :: join_labels r
  end.

(* the for-loop over raw.Value[i:]; [rest] is raw.Value[i:] *)
Fixpoint dnssl_loop (fuel : nat) (rest : bytes) (labels : list bytes) (domains : list bytes)
  : res (list bytes) :=
  match fuel with
  | O => Fuel
  | S f =>
    if blen rest <? 2 then Err EOther else
    let length := at_ rest 0 in
    if blen rest - 1 <=? length then Err EOther else
    if length =? 0 then Ok domains else
    let r1 := skipn 1 rest in
    let label := firstn (N.to_nat length) r1 in
    if negb (isascii label) then Err EOther else
    if has_byte 46 label || has_byte 32 label then Err EOther else
    let labels' := labels ++ [label] in
    let r2 := skipn (N.to_nat length) r1 in
    if at_ r2 0 =? 0 then
      let r3 := skipn 1 r2 in
      let domains' := domains ++ [join_labels labels'] in
      if (blen r3 =? 0) || ((blen r3 =? 1) && (at_ r3 0 =? 0)) then Ok domains'
      else dnssl_loop f r3 [] domains'
    else dnssl_loop f r2 labels' domains
  end.

Definition ds_unmarshal (d : dnssl) (b : bytes) : res (dnssl * bool) :=
  if blen b <? 2 then Ok (d, false) else       (* raw.unmarshal: io.ErrUnexpectedEOF, ignored by the caller *)
  let value := skipn 2 b in
  if negb (raw_len (at_ b 1) =? Z.of_N (blen value))%Z then Ok (d, false) else
  let lt := be32_at value 2 in
  match dnssl_loop (S (List.length value)) (skipn 6 value) [] [] with
  | Ok domains => if (List.length domains =? 0)%nat then Ok (d, false) else Ok (mkDS lt domains, true)
  | Err _ => Ok (d, false)
  | Panic => Panic
  | Fuel => Fuel
  end.

(* ---------------------------------------------------------------- *)
(* newParseOptions: [b] is b[i:].  One iteration: *)
Definition opt_step (o : new_options) (t : N) (ob : bytes) : res new_options :=
  if t =? 1 then (m <- lla_unmarshal ob ;; Ok (set_slla o m))%res
  else if t =? 2 then (m <- lla_unmarshal ob ;; Ok (set_tlla o m))%res
  else if t =? 5 then
    match mtu_unmarshal ob with
    | Ok v => Ok (set_mtu o v) | Err _ => Ok o | Panic => Panic | Fuel => Fuel end
  else if t =? 3 then (p <- pi_unmarshal ob ;; Ok (add_prefix o p))%res
  else if t =? 24 then
    ('(r, ok) <- ri_unmarshal (o_ri o) ob ;;
     Ok (if ok then add_route (set_ri o r) r else set_ri o r))%res
  else if t =? 25 then
    (* n := len(options.RDNSS.Servers); ...; RDNSSList += {Lifetime, Servers[n:]} *)
    ('(r, ok) <- rd_unmarshal (o_rdnss o) ob ;;
     Ok (if ok then add_rdnss (set_rdnss o r)
                      (mkRD (rd_life r) (skipn (List.length (rd_servers (o_rdnss o))) (rd_servers r)))
         else set_rdnss o r))%res
  else if t =? 31 then
    ('(r, ok) <- ds_unmarshal (o_dnssl o) ob ;;
     Ok (if ok then add_dnssl (set_dnssl o r) r else set_dnssl o r))%res
  else Ok o.

Fixpoint parse_opts (fuel : nat) (b : bytes) (o : new_options) : res new_options :=
  match fuel with
  | O => Fuel
  | S f =>
    match b with
    | [] => Ok o
    | _ =>
      if blen b <? 2 then Err EOther else
      let t := at_ b 0 in
      let l := at_ b 1 * 8 in
      if l =? 0 then Err EOther else              (* repaired f37ae93 (HANDLERS, #12): was panic / endless loop *)
      if blen b <? l then Err EOther else
      (o' <- opt_step o t (firstn (N.to_nat l) b) ;;
       parse_opts f (skipn (N.to_nat l) b) o')%res
    end
  end.

(* fuel that suffices whenever no option has length zero: every iteration consumes >= 8 bytes *)
Definition opts_fuel (b : bytes) : nat := S (List.length b).

(* ICMP6RouterAdvertisement.Options() *)
Definition ra_options (p : bytes) : res new_options :=
  if blen p <=? 16 then Ok opts_zero else parse_opts (opts_fuel p) (skipn 16 p) opts_zero.

(* ---------------------------------------------------------------- *)
(* Router (icmp6radv.go:24-38) as far as the property constrains it *)
Record router := mkRouter {
  r_mac : bytes; r_ip : bytes;
  r_managed : bool; r_other : bool; r_prf : N; r_hop : N;
  r_life : N;             (* DefaultLifetime, seconds *)
  r_reach : N; r_retrans : N;
  r_mtu : N;              (* Router.MTU *)
  r_prefixes : list prefix_info;
  r_opts : new_options
}.

Definition router_new (mac ip : bytes) : router :=
  mkRouter mac ip false false 0 0 0 0 0 0 [] opts_zero.

(* icmp6.go:210-220: the field assignments (router.MTU = uint32(options.MTU) added by the
   repair of finding router-mtu-unset). *)
Definition router_update (r : router) (p : bytes) (o : new_options) : router :=
  mkRouter (r_mac r) (r_ip r)
    (bit_and (at_ p 5) 128) (bit_and (at_ p 5) 64)
    (N.shiftr (N.land (at_ p 5) 24) 3) (at_ p 4)
    (be16_at p 6) (be32_at p 8) (be32_at p 12)
    (o_mtu o)
    (o_prefixes o) o.
