(* Model/MiscHopByHop.v — layer_ip6.go:93-175: HopByHopExtensionHeader.IsValid,
   Len, Data, ParseHopByHopExtensions.  Termination / panic-freedom only. *)
From PV Require Import Base.Prelude Base.Slice.
Open Scope N_scope.

(* IsValid (:97) *)
Definition hbh_is_valid (p : slice) : bool :=
  if Nat.ltb (len p) 2 then false
  else if Nat.ltb (len p) (N.to_nat (nth 1 (arr p) 0) * 8 + 8 + 2) then false
  else true.

(* one option of the loop body (:124-160): new position or error *)
Definition hbh_option (buffer : slice) (pos : nat) : res nat :=
  (b0 <- idx buffer 0 ;;
   let t := N.land b0 31 in
   if t =? 0 then Ok (pos + 1)%nat
   else if t =? 1 then
     (if Nat.ltb (len buffer) 2 then Err EParseFrame
      else b1 <- idx buffer 1 ;; Ok (pos + N.to_nat b1 + 2)%nat)
   else if t =? 5 then
     (if Nat.ltb (len buffer) 4 then Err EParseFrame
      else _ <- sl buffer 2 4 ;; Ok (pos + 4)%nat)
   else if t =? 194 then Ok (pos + 4)%nat   (* unreachable: t <= 31 *)
   else
     (if Nat.ltb (len buffer) 2 then Err EParseFrame
      else b1 <- idx buffer 1 ;; Ok (pos + N.to_nat b1 + 2)%nat))%res.

Fixpoint hbh_loop (fuel : nat) (data : slice) (pos : nat) : res unit :=
  match fuel with
  | O => Fuel
  | S f =>
      (buffer <- slfrom data pos ;;
       if Nat.ltb (len buffer) 1 then Err EParseFrame
       else
         pos' <- hbh_option buffer pos ;;
         if Nat.leb (len data) pos' then Ok tt
         else hbh_loop f data pos')%res
  end.

(* ParseHopByHopExtensions (:113, with the length guard added by the repair):
   len(p) < 2 || len(p) < p.Len() -> ErrParseFrame; data := p[2:p.Len()], Len() = int(p[1])*8+8 *)
Definition hbh_parse (fuel : nat) (p : slice) : res unit :=
  if Nat.ltb (len p) 2 then Err EParseFrame
  else
    (l1 <- idx p 1 ;;
     if Nat.ltb (len p) (N.to_nat l1 * 8 + 8) then Err EParseFrame
     else
       data <- sl p 2 (N.to_nat l1 * 8 + 8) ;;
       hbh_loop fuel data 0)%res.
