(* Model/MiscHopByHop.v — layer_ip6.go:93-175: HopByHopExtensionHeader.IsValid,
   Len, Data, ParseHopByHopExtensions.  Termination / panic-freedom only. *)
From PV Require Import Base.Prelude Base.Slice.
Open Scope N_scope.

(* IsValid (:97) *)
Definition hbh_is_valid (p : slice) : bool :=
  if Nat.ltb (len p) 2 then false
  else if Nat.ltb (len p) (N.to_nat (nth 1 (arr p) 0) * 8 + 8 + 2) then false
  else true.

(* one option of the loop body (as repaired: RFC 8200 4.2, the option type is the whole octet):
   new position or error *)
Definition hbh_option (buffer : slice) (pos : nat) : res nat :=
  (t <- idx buffer 0 ;;
   if t =? 0 then Ok (pos + 1)%nat                                   (* Pad1 *)
   else if t =? 1 then                                               (* PadN *)
     (if Nat.ltb (len buffer) 2 then Err EParseFrame
      else b1 <- idx buffer 1 ;; Ok (pos + N.to_nat b1 + 2)%nat)
   else if t =? 5 then                                               (* router alert: length 2 *)
     (if Nat.ltb (len buffer) 4 then Err EParseFrame
      else b1 <- idx buffer 1 ;;
           if negb (b1 =? 2) then Err EParseFrame
           else _ <- sl buffer 2 4 ;; Ok (pos + 4)%nat)
   else if t =? 194 then                                             (* jumbo payload: length 4 *)
     (if Nat.ltb (len buffer) 6 then Err EParseFrame
      else b1 <- idx buffer 1 ;;
           if negb (b1 =? 4) then Err EParseFrame else Ok (pos + 6)%nat)
   else                                                              (* unrecognised option *)
     (if Nat.ltb (len buffer) 2 then Err EParseFrame
      else if negb (N.shiftr t 6 =? 0) then Err EParseFrame           (* action bits: discard *)
      else b1 <- idx buffer 1 ;; Ok (pos + N.to_nat b1 + 2)%nat))%res.

Fixpoint hbh_loop (fuel : nat) (data : slice) (pos : nat) : res unit :=
  match fuel with
  | O => Fuel
  | S f =>
      (buffer <- slfrom data pos ;;
       if Nat.ltb (len buffer) 1 then Err EParseFrame
       else
         pos' <- hbh_option buffer pos ;;
         if Nat.ltb (len data) pos' then Err EParseFrame          (* the option runs past the area *)
         else if Nat.eqb pos' (len data) then Ok tt
         else hbh_loop f data pos')%res
  end.

(* ParseHopByHopExtensions (:113, with the length guard added by the repair):
   len(p) < 2 || len(p) < p.Len() -> ErrParseFrame; data := p[2:p.Len()], Len() = int(p[1])*8+8 *)
Definition hbh_parse (fuel : nat) (p : slice) : res unit :=
  if Nat.ltb (len p) 2 then Err EParseFrame
  else
    (l1 <- idx p 1 ;;
     if Nat.ltb (len p) (N.to_nat l1 * 8 + 8) then Err EParseFrame
     else
       data <- sl p 2 (N.to_nat l1 * 8 + 8) ;;
       hbh_loop fuel data 0)%res.
