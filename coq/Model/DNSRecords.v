(* Model/DNSRecords.v — DNSEntry.decodeRRs / DecodeAnswers (layer_dns.go:173-262),
   DNSHandler.ProcessDNS and DNSFind (handlers/dns_naming/dns.go, dnstable.go),
   line by line, with Go maps as insertion-ordered association lists
   (observations sort them by key). *)
From PV Require Export Base.Prelude Base.Slice Model.DNS Model.DNSMerge.
Open Scope N_scope.
Open Scope res_scope.

Record ip_rr := mkIPRR { ir_name : bytes; ir_ip : bytes; ir_ttl : N }.
Record name_rr := mkNRR { nr_name : bytes; nr_cname : bytes; nr_ttl : N }.

Record dns_entry := mkDE {
  de_name : bytes;
  de_ip4 : list ip_rr;      (* map[netip.Addr] keyed by the 4 address bytes *)
  de_ip6 : list ip_rr;      (* keyed by the 16 address bytes *)
  de_cname : list name_rr;  (* keyed by the owner name *)
  de_ptr : list ip_rr }.    (* keyed by the PTR target name *)

Definition new_entry (name : bytes) : dns_entry := mkDE name [] [] [] [].

(* if _, found := m[k]; !found { m[k] = r; updated = true } *)
Definition ins_ip (key : ip_rr -> bytes) (r : ip_rr) (l : list ip_rr) : list ip_rr * bool :=
  if existsb (fun x => bytes_eqb (key x) (key r)) l then (l, false) else (l ++ [r], true).
Definition ins_name (r : name_rr) (l : list name_rr) : list name_rr * bool :=
  if existsb (fun x => bytes_eqb (nr_name x) (nr_name r)) l then (l, false) else (l ++ [r], true).

(* ------------------------------------------------------------------ *)
(* netip.ParseAddr(s) followed by Is4(), as decodeRRs uses it on a PTR owner (Go 1.23 stdlib,
   modelled at the level of its IPv4 grammar): the first of '.', ':', '%' selects the syntax, so a
   string is an IPv4 address iff it is exactly four '.'-separated fields, each one to three decimal
   digits without leading zero and at most 255.  Every other string (IPv6 text, including the
   IPv4-mapped form, which is Is4In6, not Is4; zones; garbage) is an error or not Is4. *)
Fixpoint split_dots (s : bytes) : list bytes :=
  match s with
  | [] => [[]]
  | c :: r =>
      if c =? 46 then [] :: split_dots r
      else match split_dots r with
           | f :: fs => (c :: f) :: fs
           | [] => [[c]]
           end
  end.

Fixpoint digits_val (s : bytes) (acc : N) : option N :=
  match s with
  | [] => Some acc
  | c :: r => if (48 <=? c) && (c <=? 57) then digits_val r (acc * 10 + (c - 48)) else None
  end.

Definition ip4_octet (s : bytes) : option N :=
  match s with
  | [] => None
  | [c] => digits_val s 0
  | c :: _ => if c =? 48 then None
              else if Nat.ltb 3 (length s) then None
              else match digits_val s 0 with
                   | Some v => if v <=? 255 then Some v else None
                   | None => None
                   end
  end.

Definition parse_ipv4 (s : bytes) : option (list N) :=
  match split_dots s with
  | [a; b; c; d] =>
      match ip4_octet a, ip4_octet b, ip4_octet c, ip4_octet d with
      | Some a', Some b', Some c', Some d' => Some [a'; b'; c'; d']
      | _, _, _, _ => None
      end
  | _ => None
  end.

(* strings.TrimSuffix(s, suffix) *)
Definition trim_suffix (s suffix : bytes) : bytes :=
  let n := length s in let m := length suffix in
  if Nat.leb m n && bytes_eqb (skipn (n - m) s) suffix then firstn (n - m) s else s.

(* ".in-addr.arpa" *)
Definition IN_ADDR_ARPA : bytes := [46; 105; 110; 45; 97; 100; 100; 114; 46; 97; 114; 112; 97].

(* s := strings.TrimSuffix(name, ".in-addr.arpa"); addr, err := netip.ParseAddr(s);
   len(s) == len(name) || err != nil || !addr.Is4()  =>  the record is ignored.
   Result: the octets [a; b; c; d] of the text a.b.c.d in front of the suffix. *)
Definition parse_ptr_owner (name : bytes) : option (list N) :=
  let s := trim_suffix name IN_ADDR_ARPA in
  if Nat.eqb (length s) (length name) then None else parse_ipv4 s.

(* ------------------------------------------------------------------ *)
(* one name decode of decodeRRs: tmpBuf = buffer; decodeName(p, off, &tmpBuf, 1).
   The returned name aliases the scratch buffer; every use below converts it to a
   string before the next decode (the CNAME owner since fix 3), so only its bytes matter. *)
Definition rr_decode_name (p : slice) (off : nat) (buffer : slice) : res (bytes * nat) :=
  r <- decodeName name_fuel p off (buf_of buffer) 1 ;;
  Ok (fst (fst r), snd (fst r)).

(* outcome of decodeRRs plus the entry as the call left it (the maps are updated in place,
   so records inserted before an error stay) *)
Definition rrs_out : Type := (res (Z * bool) * dns_entry)%type.

Definition rr_step (p : slice) (buffer : slice) (offset : nat) (e : dns_entry)
  : res (nat * bool * dns_entry) * dns_entry :=
  match rr_decode_name p offset buffer with
  | Err x => (Err x, e) | Panic => (Panic, e) | Fuel => (Fuel, e)
  | Ok (name, endq) =>
    if Nat.ltb (len p) (endq + 10) then (Err EOther, e) else
    match (t <- be16_at p endq ;; ttl <- be32_at p (endq + 4) ;; dl <- be16_at p (endq + 8) ;; Ok (t, ttl, dl)) with
    | Err x => (Err x, e) | Panic => (Panic, e) | Fuel => (Fuel, e)
    | Ok (t, ttl, dl) =>
      let offset' := (endq + 10 + N.to_nat dl)%nat in
      if Nat.ltb (len p) offset' then (Err EOther, e)
      else if t =? 1 then
        if negb (dl =? 4) then (Err EOther, e)
        else
          let ip := sub (arr p) (endq + 10) 4 in
          let '(l, u) := ins_ip ir_ip (mkIPRR name ip ttl) (de_ip4 e) in
          let e' := mkDE (de_name e) l (de_ip6 e) (de_cname e) (de_ptr e) in
          (Ok (offset', u, e'), e')
      else if t =? 28 then
        if negb (dl =? 16) then (Err EOther, e)
        else
          let ip := sub (arr p) (endq + 10) 16 in
          let '(l, u) := ins_ip ir_ip (mkIPRR name ip ttl) (de_ip6 e) in
          let e' := mkDE (de_name e) (de_ip4 e) l (de_cname e) (de_ptr e) in
          (Ok (offset', u, e'), e')
      else if t =? 5 then
        match rr_decode_name p (endq + 10) buffer with
        | Err x => (Err x, e) | Panic => (Panic, e) | Fuel => (Fuel, e)
        | Ok (cname, _) =>
            let '(l, u) := ins_name (mkNRR name cname ttl) (de_cname e) in
            let e' := mkDE (de_name e) (de_ip4 e) (de_ip6 e) l (de_ptr e) in
            (Ok (offset', u, e'), e')
        end
      else if t =? 12 then
        match parse_ptr_owner name with
        | Some [a; b; c; d] =>
            match rr_decode_name p (endq + 10) buffer with
            | Err x => (Err x, e) | Panic => (Panic, e) | Fuel => (Fuel, e)
            | Ok (ptr, _) =>
                let '(l, u) := ins_ip ir_name (mkIPRR ptr [d; c; b; a] ttl) (de_ptr e) in
                let e' := mkDE (de_name e) (de_ip4 e) (de_ip6 e) (de_cname e) l in
                (Ok (offset', u, e'), e')
            end
        | _ => (Ok (offset', false, e), e)   (* not an IPv4 reverse name: record ignored *)
        end
      else (Ok (offset', false, e), e)
    end
  end.

Fixpoint decodeRRs_loop (count : nat) (p buffer : slice) (offset : nat) (updated : bool)
         (e : dns_entry) : rrs_out :=
  match count with
  | O => (Ok (Z.of_nat offset, updated), e)
  | S c =>
      match rr_step p buffer offset e with
      | (Ok (offset', u, e'), _) => decodeRRs_loop c p buffer offset' (updated || u) e'
      | (Err x, e') => (Err x, e')
      | (Panic, e') => (Panic, e')
      | (Fuel, e') => (Fuel, e')
      end
  end.

(* decodeRRs(count, p, offset, buffer); a negative offset with count > 0 is rejected by decodeName *)
Definition decodeRRs (count : nat) (p : slice) (offset : Z) (buffer : slice) (e : dns_entry) : rrs_out :=
  match count with
  | O => (Ok (offset, false), e)
  | _ =>
      if (offset <? 0)%Z then (Err EParseFrame, e)
      else decodeRRs_loop count p buffer (Z.to_nat offset) false e
  end.

(* DecodeAnswers: count = p.ANCount() = BigEndian.Uint16(p[6:8]) *)
Definition decodeAnswers (p : slice) (offset : Z) (buffer : slice) (e : dns_entry) : rrs_out :=
  match be16_at p 6 with
  | Ok an => decodeRRs (N.to_nat an) p offset buffer e
  | Err x => (Err x, e) | Panic => (Panic, e) | Fuel => (Fuel, e)
  end.

(* ------------------------------------------------------------------ *)
(* DNSHandler: DNSTable map[string]DNSEntry *)
Definition dns_table : Type := list dns_entry.   (* keyed by de_name *)

Fixpoint tbl_find (name : bytes) (t : dns_table) : option dns_entry :=
  match t with
  | [] => None
  | e :: r => if bytes_eqb (de_name e) name then Some e else tbl_find name r
  end.

Fixpoint tbl_put (e : dns_entry) (t : dns_table) : dns_table :=
  match t with
  | [] => [e]
  | x :: r => if bytes_eqb (de_name x) (de_name e) then e :: r else x :: tbl_put e r
  end.

(* ProcessDNS(frame): p = frame.Payload(); returns (copy of the updated entry | empty entry) *)
Definition processDNS_buf (buffer : slice) (t : dns_table) (p : slice) : res (option dns_entry) * dns_table :=
  if Nat.ltb (len p) 12 then (Err EFrameLen, t)
  else
    match decodeQuestion p 12 buffer with
    | Err x => (Err x, t) | Panic => (Panic, t) | Fuel => (Fuel, t)
    | Ok (q, index) =>
        let found := tbl_find (q_name q) t in
        let e := match found with Some e => e | None => new_entry (q_name q) end in
        let '(r, e') := decodeAnswers p (Z.of_nat index) buffer e in
        (* the maps of a found entry are shared with the table: partial updates persist *)
        let t' := match found with Some _ => tbl_put e' t | None => t end in
        match r with
        | Ok (_, true) => (Ok (Some e'), tbl_put e' t)
        | Ok (_, false) => (Ok None, t')
        | Err x => (Err x, t') | Panic => (Panic, t') | Fuel => (Fuel, t')
        end
    end.

(* buffer := make([]byte, 0, 64) *)
Definition processDNS (t : dns_table) (p : slice) : res (option dns_entry) * dns_table :=
  processDNS_buf (mkSlice (repeat 0 64) 0) t p.

Definition dnsFind (t : dns_table) (name : bytes) : option dns_entry := tbl_find name t.
