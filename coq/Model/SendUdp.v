(* Model/SendUdp.v — the UDP send paths: dhcp4_spoofer (send.go sendDHCP4Packet,
   client.go SendDiscoverPacket / sendDeclineReleasePacket incl. EncodeDHCP4 of layer_dhcp4.go)
   and dns_naming (mdns.go sendMDNS both branches, nbns.go sendNBNS + EncodeDNSQuery +
   encodeNBNSName, ssdp.go SendSSDPSearch).  As is, defects included. *)
From PV Require Export Model.Send.
Open Scope N_scope.

(* layer_ip4.go EncodeUDP(p = b[o:], sport, dport) *)
Definition enc_udp (o : nat) (b : bytes) (sp dp : N) : bytes :=
  put16 (o + 6) 0 (put16 (o + 4) 0 (put16 (o + 2) dp (put16 o sp b))).

(* UDP.AppendPayload(payload) on p = b[o:o+8]; cap = to the end of the buffer. None = ErrPayloadTooBig *)
Definition udp_append_payload (o : nat) (b : bytes) (payload : bytes) : option bytes :=
  let n := List.length payload in
  if Nat.ltb (EthMaxSize - o - 8) n then None else
  let b := cpy (o + 8) n payload b in
  let b := put16 (o + 4) (u16 (8 + u16 (N.of_nat n))) b in
  Some (put16 (o + 6) 0 b).

(* UDP.SetPayload(payload already in place) *)
Definition udp_set_payload (o : nat) (b : bytes) (n : nat) : bytes :=
  put16 (o + 6) 0 (put16 (o + 4) (u16 (8 + u16 (N.of_nat n))) b).

(* the common shape of sendDHCP4Packet / sendNBNS / SendSSDPSearch / sendMDNS (IPv4 branch):
   EncodeEther(srcmac, dstmac); EncodeIP4(ttl); EncodeUDP; udp.AppendPayload(p); ip4.SetPayload(udp); ether.SetPayload *)
Definition udp4_send (smac dmac : bytes) (ttl : N) (sip dip : bytes) (sp dp : N) (p : bytes) (buf : bytes)
  : res (list bytes) :=
  let b := enc_ether buf 2048 smac dmac in
  let b := enc_ip4 14 b ttl sip dip in
  let b := enc_udp 34 b sp dp in
  match udp_append_payload 34 b p with
  | None => Ok []
  | Some b =>
      let n := (8 + List.length p)%nat in
      let b := ip4_set_payload 14 b n 17 in
      Ok [firstn (14 + 20 + n) b]
  end.

(* send.go:11 sendDHCP4Packet(conn, srcAddr, dstAddr, p) — Ethernet source is srcAddr.MAC *)
Definition send_dhcp4_packet (src dst : addr) (sp dp : N) (p : bytes) (junk : bytes) : res (list bytes) :=
  udp4_send (a_mac src) (a_mac dst) 50 (a_ip src) (a_ip dst) sp dp p junk.

(* dhcp4.go:303-316 reply of ProcessPacket: from the host (port 67) to the client or broadcast (port 68) *)
Definition send_dhcp4_reply (c : cfg) (dst : addr) (p : bytes) (junk : bytes) : res (list bytes) :=
  send_dhcp4_packet (host_mac c, host_ip4 c) dst 67 68 p junk.

(* ------------------------------------------------------------------ *)
(* layer_dhcp4.go:298 AppendOptions with order = nil: the codes 1, 33, 3 first when present, the rest in
   map iteration order.  [opts] is the option list in the order the map iteration delivered it (a
   parameter: the harness recovers it from the frame); the three ordered codes are pulled to the front. *)
Definition opt := (N * bytes)%type.
Fixpoint find_opt (code : N) (l : list opt) : option bytes :=
  match l with
  | [] => None
  | (c, v) :: r => if c =? code then Some v else find_opt code r
  end.
Definition without (code : N) (l : list opt) : list opt := filter (fun o => negb (fst o =? code)) l.
Definition enc_opt (o : opt) : bytes := [u8 (fst o); u8 (N.of_nat (List.length (snd o)))] ++ snd o.
Fixpoint ordered_opts (order : list N) (l : list opt) : bytes * list opt :=
  match order with
  | [] => ([], l)
  | c :: r => match find_opt c l with
              | Some v => let '(b, l') := ordered_opts r (without c l) in (enc_opt (c, v) ++ b, l')
              | None => ordered_opts r l
              end
  end.
Definition append_options (l : list opt) : bytes :=
  let '(b, rest) := ordered_opts [1; 33; 3] l in b ++ concat (map enc_opt rest).

(* layer_dhcp4.go:349 EncodeDHCP4 on the region p (from the slice start to the end of its capacity).
   xid / chaddr: None = nil (field keeps the previous bytes); ciaddr / yiaddr written only when Is4.
   [opts] already contains the message type option at the position map iteration gave it. *)
Definition enc_dhcp4 (p : bytes) (opcode : N) (chaddr : option bytes) (ciaddr yiaddr : bytes)
                     (xid : option bytes) (broadcast : bool) (opts : list opt) : option bytes :=
  if Nat.ltb (List.length p) 300 then None else
  let p := zero 34 202 p in
  let p := set_nth 0 (u8 opcode) p in
  let p := set_nth 1 1 p in
  let p := set_nth 2 6 p in
  let p := set_nth 3 0 p in
  let p := match xid with Some x => cpy 4 4 x p | None => p end in
  let p := put16 8 0 p in
  let p := put16 10 0 p in
  let p := cpy 236 4 [99; 130; 83; 99] p in
  let p := if is4 ciaddr then cpy 12 4 ciaddr p else p in
  let p := if is4 yiaddr then cpy 16 4 yiaddr p else p in
  let p := cpy 20 4 ipv4zero p in
  let p := cpy 24 4 ipv4zero p in
  let p := match chaddr with
           | Some a => set_nth 2 (u8 (N.of_nat (List.length a))) (cpy 28 16 a p)
           | None => p end in
  let p := if broadcast then set_nth 10 128 p else p in
  let ob := append_options opts in
  let p := cpy 240 (List.length p - 240) ob p in
  let n := (240 + List.length ob)%nat in
  let p := set_nth n 255 p in
  let n := S n in
  let p := if Nat.ltb n 300 then zero n (300 - n) p else p in
  Some (firstn (Nat.max n 300) p).

Definition str_discover_prl : bytes := [53; 1; 121; 3; 6; 15].

(* client.go:116 SendDiscoverPacket(chAddr, ciAddr, xid, name): DHCP built in place at offset 42.
   [opts] = {12: name (when non-empty), 55: parameter list, 53: [1]} in emitted order.
   Since fix 766f89c: a ciaddr that is not IPv4 is replaced by 0.0.0.0 and a nil xid by a random one
   (mustXID): [xid] is the effective transaction id. *)
Definition send_discover (c : cfg) (chaddr : option bytes) (ciaddr : bytes) (xid : bytes)
                         (opts : list opt) (junk : bytes) : res (list bytes) :=
  (* since fix bc82719 a chaddr that is not 6 bytes (nil included) is refused: ErrInvalidMAC *)
  if negb (match chaddr with Some a => Nat.eqb (List.length a) 6 | None => false end) then Ok [] else
  let ciaddr := if is4 ciaddr then ciaddr else ipv4zero in
  let b := enc_ether junk 2048 (host_mac c) (router_mac c) in
  let b := enc_ip4 14 b 50 (host_ip4 c) (router_ip4 c) in
  let b := enc_udp 34 b 68 67 in
  match enc_dhcp4 (skipn 42 b) 1 chaddr ciaddr ipv4zero (Some xid) false opts with
  | None => Panic
  | Some d =>
      let b := firstn 42 b ++ d ++ skipn (42 + List.length d) b in
      let n := (8 + List.length d)%nat in
      let b := udp_set_payload 34 b (List.length d) in
      let b := ip4_set_payload 14 b n 17 in
      Ok [firstn (14 + 20 + n) b]
  end.

(* client.go:103 sendDeclineReleasePacket: DHCP built at offset 0 of one pooled buffer (junk1),
   then sent by sendDHCP4Packet through a second one (junk2); host -> router, ports 68 -> 67 *)
Definition send_decline_release (c : cfg) (chaddr : option bytes) (ciaddr : bytes) (xid : bytes)
                                (opts : list opt) (junk1 junk2 : bytes) : res (list bytes) :=
  match enc_dhcp4 junk1 1 chaddr ciaddr ipv4zero (Some xid) false opts with
  | None => Panic
  | Some d => send_dhcp4_packet (host_mac c, host_ip4 c) (router_mac c, router_ip4 c) 68 67 d junk2
  end.

(* ------------------------------------------------------------------ *)
(* dns_naming *)

(* dnsmessage.Message.Pack of a single-question query: header (id 0, flags 0, QD 1) + name labels + type + class.
   [name] is the textual name ("a.b.local."), labels are split at '.' *)
Fixpoint labels_aux (s cur : bytes) : bytes :=
  match s with
  | [] => match cur with [] => [0] | _ => [N.of_nat (List.length cur)] ++ rev cur ++ [0] end
  | x :: r => if x =? 46 then [N.of_nat (List.length cur)] ++ rev cur ++ labels_aux r []
              else labels_aux r (x :: cur)
  end.
Definition dns_name (s : bytes) : bytes := labels_aux s [].
Definition dns_query (id flags : N) (encoded_name : bytes) (qtype qclass : N) : bytes :=
  [hi8 id; lo8 id; hi8 flags; lo8 flags; 0; 1; 0; 0; 0; 0; 0; 0] ++ encoded_name
  ++ [hi8 qtype; lo8 qtype; hi8 qclass; lo8 qclass].

(* group addresses with their RFC 1112 MACs (since fixes fcbed9b, df36fdf) *)
(* What dnsmessage accepts as a question name (x/net v0.34.0 NewName + Name.pack): at most 254 bytes, not empty,
   ending in '.', and either the root "." or segments of 1..63 bytes between the dots.  Anything else makes
   Pack (or, for more than 255 bytes, NewName — an error since fix 71d97b6, a panic before) fail: nothing is sent. *)
Fixpoint dot_segments (s cur : bytes) : list bytes :=
  match s with
  | [] => match cur with [] => [] | _ => [rev cur] end
  | x :: r => if x =? 46 then rev cur :: dot_segments r [] else dot_segments r (x :: cur)
  end.
Definition is_root (name : bytes) : bool := match name with [x] => x =? 46 | _ => false end.
Definition seg_ok (l : bytes) : bool := Nat.leb 1 (List.length l) && Nat.leb (List.length l) 63.
Definition dns_pack_ok (name : bytes) : bool :=
  Nat.leb (List.length name) 254 && negb (Nat.eqb (List.length name) 0) && (last name 0 =? 46)
  && (is_root name || forallb seg_ok (dot_segments name [])).
(* the root packs as the single zero byte *)
Definition dns_wire_name (name : bytes) : bytes := if is_root name then [0] else dns_name name.

Definition mdns_ip4_addr : addr := ([1; 0; 94; 0; 0; 251], [224; 0; 0; 251]).
Definition llmnr_ip4_addr : addr := ([1; 0; 94; 0; 0; 252], [224; 0; 0; 252]).
Definition ssdp_ip4_addr : addr := ([1; 0; 94; 127; 255; 250], [239; 255; 255; 250]).

(* pseudo header of the fix: src, dst, PutUint32(len), 0, 0, 0, 17 *)
Definition udp6_pseudo (src dst : bytes) (n : N) : bytes :=
  src ++ dst ++ [u8 (N.shiftr n 24); u8 (N.shiftr n 16); u8 (N.shiftr n 8); u8 n] ++ [0; 0; 0; 17].

Definition zero_buf : bytes := repeat 0 EthMaxSize.   (* sendMDNS uses make([]byte, EthMaxSize) *)

(* the IPv6 branch of sendMDNS over a buffer [b0]: EncodeEther; EncodeIP6(hop 255); EncodeUDP;
   udp.AppendPayload; ip6.SetPayload; since fix 94fb890 the UDP checksum over pseudo header + datagram
   (Checksum result 0 is sent as 0xffff) *)
Definition udp6_send (smac dmac sip dip : bytes) (sp dp : N) (p : bytes) (b0 : bytes) : res (list bytes) :=
  let b := enc_ether b0 34525 smac dmac in
  let b := enc_ip6 14 b 255 sip dip in
  let b := enc_udp 54 b sp dp in
  match udp_append_payload 54 b p with
  | None => Ok []
  | Some b =>
      let n := (8 + List.length p)%nat in
      let b := ip6_set_payload 14 b n 17 in
      let psh := udp6_pseudo (sub b 22 16) (sub b 38 16) (N.of_nat n) ++ sub b 54 n in
      let cs := checksum psh in
      let b := if cs =? 0 then set_nth 60 255 (set_nth 61 255 b)
               else set_nth 60 (u8 cs) (set_nth 61 (u8 (N.shiftr cs 8)) b) in
      Ok [firstn (14 + 40 + n) b]
  end.

(* mdns.go:118 sendMDNS(buf, srcAddr, dstAddr): IPv4 branch when src is IPv4, else IPv6; same port both ways;
   the frame is built in a freshly allocated (zero) buffer *)
Definition send_mdns (c : cfg) (buf : bytes) (src dst : addr) (port : N) : res (list bytes) :=
  if is4 (a_ip src) then
    udp4_send (host_mac c) (a_mac dst) 255 (a_ip src) (a_ip dst) port port buf zero_buf
  else
    udp6_send (host_mac c) (a_mac dst) (a_ip src) (a_ip dst) port port buf zero_buf.

(* mdns.go:78 SendMDNSQuery(name): type ALL(255) class ANY(255); :86 SendLLMNRQuery: type PTR(12)
   (sendMDNSQuery uses its mtype argument since fix fcbed9b) *)
Definition send_mdns_query (c : cfg) (name : bytes) : res (list bytes) :=
  if dns_pack_ok name
  then send_mdns c (dns_query 0 0 (dns_wire_name name) 255 255) (host_mac c, host_ip4 c) mdns_ip4_addr 5353
  else Ok [].
Definition send_llmnr_query (c : cfg) (name : bytes) : res (list bytes) :=
  if dns_pack_ok name
  then send_mdns c (dns_query 0 0 (dns_wire_name name) 12 255) (host_mac c, host_ip4 c) llmnr_ip4_addr 5355
  else Ok [].

(* nbns.go:50 encodeNBNSName *)
Definition nbns_pad (name : bytes) : bytes :=
  let name := if Nat.ltb 16 (List.length name) then firstn 15 name else name in
  name ++ repeat 32 (16 - List.length name).
Definition nbns_name (name : bytes) : bytes :=
  [32] ++ concat (map (fun ch => [u8 (65 + ch / 16); u8 (65 + N.land ch 15)]) (nbns_pad name)) ++ [0].

(* nbns.go:141 sendNBNS(srcAddr, dstAddr, p): Ethernet source is the NIC MAC (since fix 0948ecc) *)
Definition send_nbns (c : cfg) (src dst : addr) (p : bytes) (junk : bytes) : res (list bytes) :=
  udp4_send (host_mac c) (a_mac dst) 255 (a_ip src) (a_ip dst) 137 137 p junk.
(* nbns.go:122 SendNBNSQuery / :133 SendNBNSNodeStatus; seq = the package counter after ++ *)
(* since fix 6d50a23 a name of more than 16 bytes is refused (it was truncated to 15 bytes + space) *)
Definition send_nbns_query (c : cfg) (src dst : addr) (seq : N) (name : bytes) (junk : bytes) : res (list bytes) :=
  if Nat.ltb 16 (List.length name) then Ok [] else
  send_nbns c src dst (dns_query seq 0 (nbns_name name) 32 1) junk.
Definition nbns_star : bytes := [42] ++ repeat 32 15.
Definition send_nbns_node_status (c : cfg) (seq : N) (junk : bytes) : res (list bytes) :=
  send_nbns c (host_mac c, host_ip4 c) (eth_bcast, [255;255;255;255]) (dns_query seq 0 (nbns_name nbns_star) 33 1) junk.

(* ssdp.go:185 mSearchString (since fix f7b029e: request line first, CRLF line ends, empty line last) *)
Definition crlf : bytes := [13; 10].
Definition ascii_msearch : bytes :=
  [77;45;83;69;65;82;67;72;32;42;32;72;84;84;80;47;49;46;49] ++ crlf
  ++ [72;79;83;84;58;32;50;51;57;46;50;53;53;46;50;53;53;46;50;53;48;58;49;57;48;48] ++ crlf
  ++ [77;65;78;58;32;34;115;115;100;112;58;100;105;115;99;111;118;101;114;34] ++ crlf
  ++ [77;88;58;32;49] ++ crlf
  ++ [83;84;58;32;34;115;115;100;112;58;97;108;108;34] ++ crlf ++ crlf.
(* ssdp.go:199 SendSSDPSearch *)
Definition send_ssdp_search (c : cfg) (junk : bytes) : res (list bytes) :=
  udp4_send (host_mac c) (a_mac ssdp_ip4_addr) 255 (host_ip4 c) (a_ip ssdp_ip4_addr) 1900 1900 ascii_msearch junk.
