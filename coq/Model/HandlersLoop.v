(* Model/HandlersLoop.v — a Go `for { ... }` loop as iteration of a step function on
   explicit fuel, and the decidable walk that finds a fixed point of the step
   (a loop iteration that leaves the whole state unchanged: the loop spins forever). *)
From PV Require Import Base.Prelude.

Section Loop.
  Context {X R : Type}.

  Inductive lstep := Stop (r : res R) | Cont (x : X).

  Variable step : X -> lstep.

  Fixpoint iter (fuel : nat) (x : X) : res R :=
    match fuel with
    | O => Fuel
    | S f => match step x with
             | Stop r => r
             | Cont x' => iter f x'
             end
    end.

  Variable eqb : X -> X -> bool.

  (* Some x: the walk from the start reaches x with step x = Cont x *)
  Fixpoint spins (n : nat) (x : X) : option X :=
    match n with
    | O => None
    | S n' => match step x with
              | Stop _ => None
              | Cont x' => if eqb x x' then Some x else spins n' x'
              end
    end.
End Loop.
Arguments lstep : clear implicits.
