(* Model/LocksKnown.v — the recorded failing class of C09, spelled out: every (operation pair, field) data
   race and every (operation pair, panic class) that the faithful model of the UNCHANGED library exhibits.
   Each key is a line of /verif/known_findings.txt.  Proofs/LocksOps.v proves that the model's races are
   EXACTLY these (so a new unprotected access in the transcription, or a repaired one, breaks a theorem). *)
From PV Require Import Base.Prelude Base.Text Model.Locks Model.LocksOps.
Open Scope string_scope.

Definition known_C09_keys : list string :=
   ["panic:Notify/Close:send-on-closed-channel";
    "panic:Notify.dhcp/Close:send-on-closed-channel";
    "panic:purge/Close:send-on-closed-channel";
    "race:Close/Close:Session.closed";
    "panic:Close/Close:close-of-closed-channel";
    "race:arp.ProcessPacket/arp.Close:arp.closed";
    "race:arp.spoofLoop/arp.Close:arp.closed";
    "race:arp.Close/arp.Close:arp.closed";
    "panic:arp.Close/arp.Close:close-of-closed-channel";
    "race:icmp6.ProcessPacket.RA/icmp6.StartHunt:icmp6.huntList";
    "race:icmp6.ProcessPacket.RA/icmp6.StopHunt:icmp6.huntList";
    "race:icmp6.ProcessPacket.RA/icmp6.spoofLoop:icmp6.closeChan";
    "race:icmp6.ProcessPacket.RA/icmp6.Close:icmp6.closed";
    "race:icmp6.ProcessPacket.RA/icmp6.Close:icmp6.closeChan";
    "panic:icmp6.ProcessPacket.RA/icmp6.Close:close-of-closed-channel";
    "race:icmp6.spoofLoop/icmp6.Close:icmp6.closed";
    "race:icmp6.Close/icmp6.Close:icmp6.closed";
    "panic:icmp6.Close/icmp6.Close:close-of-closed-channel";
    "race:dhcp4.Close/dhcp4.Close:dhcp4.closed";
    "panic:dhcp4.Close/dhcp4.Close:close-of-closed-channel"].

Definition known_C09 (k : string) : bool := existsb (String.eqb k) known_C09_keys.
