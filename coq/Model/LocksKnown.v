(* Model/LocksKnown.v — the recorded failing class of C09, spelled out: every (operation pair, field) data
   race and every (operation pair, panic class) that the faithful model of the UNCHANGED library exhibits.
   Each key is a line of /verif/known_findings.txt.  Proofs/LocksOps.v proves that the model's races are
   EXACTLY these (so a new unprotected access in the transcription, or a repaired one, breaks a theorem). *)
From PV Require Import Base.Prelude Base.Text Model.Locks Model.LocksOps.
Open Scope string_scope.

Definition known_C09_keys : list string :=
   [].

Definition known_C09 (k : string) : bool := existsb (String.eqb k) known_C09_keys.
