(* Model/FastlogOps.v — a log line as a sequence of appender calls: the op
   type, the model interpreter (Model/Fastlog.v), the reference rendering of
   each op (Spec/TextSpec.v), the "fits" condition under which the property
   constrains the rendering, and the decidable classes of recorded defects. *)
From PV Require Export Base.Prelude Model.Fastlog Spec.TextSpec.
Open Scope N_scope.

Inductive op : Type :=
| OUint (name : bytes) (v : N)                   (* Uint8 / Uint16 / Uint32 *)
| OHex8 (name : bytes) (v : N)                   (* Uint8Hex *)
| OHex16 (name : bytes) (v : N)                  (* Uint16Hex *)
| OInt (name : bytes) (z : Z) (t : bytes)        (* Int; t = strconv.AppendInt text *)
| OBool (name : bytes) (v : bool)
| OMac (name : bytes) (m : bytes)
| OIPSlice (name : bytes) (v : option bytes)     (* net.IP; None = nil *)
| OIP (name : bytes) (a : option bytes) (t : bytes)  (* netip.Addr a (None = invalid); t = AppendTo text *)
| OString (name v : bytes)
| OBytes (name v : bytes)
| OLabel (name : bytes)
| OError (t : bytes)
| OStringer (t : option bytes)
| OText (name t : bytes)                         (* Duration / Time / Sprintf; t = stdlib text *)
| OLF
| OModule (m msg : bytes)
| OStrArr (name : bytes) (vs : list bytes)
| OIPArr (name : bytes) (vs : list (option bytes))
| OByteArr (name : bytes) (v : bytes).

Definition run_op (l : line) (o : op) : res line :=
  match o with
  | OUint n v => f_uint l n v
  | OHex8 n v => f_uint8hex l n v
  | OHex16 n v => f_uint16hex l n v
  | OInt n _ t => f_int l n t
  | OBool n v => f_bool l n v
  | OMac n m => f_mac l n m
  | OIPSlice n v => f_ipslice l n v
  | OIP n a t => f_ip l n (match a with Some _ => Some t | None => None end)
  | OString n v => f_string l n v
  | OBytes n v => f_bytes l n v
  | OLabel n => f_label l n
  | OError t => f_error l t
  | OStringer t => f_stringer l t
  | OText n t => f_text l n t
  | OLF => f_lf l
  | OModule m msg => f_module l m msg
  | OStrArr n vs => f_string_array l n vs
  | OIPArr n vs => f_ip_array l n vs
  | OByteArr n v => f_byte_array l n v
  end.

Fixpoint run_ops (l : line) (os : list op) : res line :=
  match os with
  | [] => Ok l
  | o :: r => (l <- run_op l o ;; run_ops l r)%res
  end.

(* ---------------------------------------------------------------- reference rendering *)

Definition SP : byte := 32.
Definition EQ : byte := 61.
Definition QUOTE : byte := 34.
Definition fld (name : bytes) (t : text) : text := SP :: name ++ EQ :: t.

(* net.IP / netip.Addr: an address is 4 or 16 bytes; the library prints "nil" for
   everything else (its documented convention for absent values) *)
Definition ipslice_text (v : option bytes) : text :=
  match v with
  | Some b => if Nat.eqb (List.length b) 4 || Nat.eqb (List.length b) 16 then netip_text b else NIL
  | None => NIL
  end.
Definition addr_text (a : option bytes) : text :=
  match a with
  | Some b => if Nat.eqb (List.length b) 4 then ip4_text b else ip6_text b
  | None => NIL
  end.

(* arrays have no standard-library rendering; the reference is the library's own
   convention, read off StringArray/IPArray/ByteArray and fastlog's tests:
     name=["a", "b",]    name=[1.2.3.4, fe80::1,]    name=[0a 0b 0c]    name=[] *)
Definition strarr_text (vs : list bytes) : text :=
  match vs with
  | [] => [91; 93]
  | _ => 91 :: removelast (concat (map (fun v => QUOTE :: v ++ [QUOTE; 44; SP]) vs)) ++ [93]
  end.
Definition iparr_elem (v : option bytes) : text :=
  match v with None => [] | Some _ => ipslice_text v end ++ [44; SP].
Definition iparr_text (vs : list (option bytes)) : text :=
  match vs with
  | [] => [91; 93]
  | _ => 91 :: removelast (concat (map iparr_elem vs)) ++ [93]
  end.
Definition bytearr_text (v : bytes) : text :=
  91 :: join [SP] (map hex2 v) ++ [93].

Definition spec_text (o : op) : text :=
  match o with
  | OUint n v => fld n (dec v)
  | OHex8 n v => fld n (hex2_0x v)
  | OHex16 n v => fld n (hex4_0x v)
  | OInt n z _ => fld n (dec_Z z)
  | OBool n v => fld n (bool_text v)
  | OMac n m => fld n (if Nat.eqb (List.length m) 6 then mac_text m else NIL)
  | OIPSlice n v => fld n (ipslice_text v)
  | OIP n a _ => fld n (addr_text a)
  | OString n v => fld n (QUOTE :: v ++ [QUOTE])
  | OBytes n v => fld n v
  | OLabel n => SP :: n
  | OError t => [32;101;114;114;111;114;61;91] ++ t ++ [93]
  | OStringer None => []
  | OStringer (Some t) => SP :: t
  | OText n t => fld n t
  | OLF => [10]
  | OModule m msg =>
      10 :: (match m with [] => [] | _ => module7 m end)
         ++ (match msg with [] => [] | _ => SP :: QUOTE :: msg ++ [QUOTE] end)
  | OStrArr n vs => fld n (strarr_text vs)
  | OIPArr n vs => fld n (iparr_text vs)
  | OByteArr n v => fld n (bytearr_text v)
  end.

(* ---------------------------------------------------------------- when the rendering is constrained *)

(* room the array guards insist on before an element (IPArray: "l.index+28+2 > cap") *)
Fixpoint iparr_room (idx : nat) (vs : list (option bytes)) : bool :=
  match vs with
  | [] => true
  | v :: r => Nat.leb (idx + IPARR_ROOM) BUFSZ && iparr_room (idx + List.length (iparr_elem v)) r
  end.

(* [op_fits idx o]: the reference text of o, written at index idx, fits the buffer.
   Scalars: exactly "text fits".  ByteArray keeps one spare byte ("rem <= len*3" truncates at
   equality); IPArray requires IPARR_ROOM bytes of room before each element, whatever its length
   (both are the library's documented conservative guards, see props/C20.json). *)
Definition op_fits (idx : nat) (o : op) : bool :=
  let n := List.length (spec_text o) in
  match o with
  | OByteArr _ (_ :: _) => Nat.leb (idx + n + 1) BUFSZ
  | OIPArr name vs => Nat.leb (idx + n) BUFSZ && iparr_room (idx + List.length name + 3) vs
  | _ => Nat.leb (idx + n) BUFSZ
  end.

Definition is_array (o : op) : bool :=
  match o with OStrArr _ _ | OIPArr _ _ | OByteArr _ _ => true | _ => false end.

(* ---------------------------------------------------------------- recorded defect classes *)

(* The five classes found on the code as it was (two-group zero run not compressed, transient ':'
   at an exact fit, IPArray's early return, IPArray's 28+2 guard, ByteArray's negative bound) were
   repaired in /repo (FIXLOG.md); their refutations are kept on the as-found functions in
   Proofs/FastlogAsFound.v.  No defect class is recognised on the current code: every deviation
   from the property is reported. *)
Inductive kkey : Set := KNone | KReserved.   (* KReserved: no class uses it *)
Definition known_key (idx : nat) (o : op) (panicked : bool) : kkey := KNone.

(* ---------------------------------------------------------------- vocabulary of the theorems *)

(* l' is l with exactly t appended to its text (what lies beyond the index is not constrained) *)
Definition extends (l : line) (t : bytes) (l' : line) : Prop :=
  wf l' /\ index l' = (index l + List.length t)%nat /\ text_of l' = text_of l ++ t.

(* the text t fits the line buffer after what l already holds *)
Definition fits (l : line) (t : bytes) : Prop := (index l + List.length t <= BUFSZ)%nat.

(* the call r succeeded and appended exactly t *)
Definition appended (l : line) (t : bytes) (r : res line) : Prop :=
  exists l', r = Ok l' /\ extends l t l'.

(* a fresh line: 2048 bytes of anything, index anywhere inside *)
Definition line_ok (l : line) : Prop := wf l /\ (index l <= BUFSZ)%nat.

(* value ranges of the Go argument types, and "the delegated standard-library text is the reference text" *)
Definition ipv_ok (v : option bytes) : Prop := match v with Some ip => bytes_ok ip | None => True end.
Definition op_ok (o : op) : Prop :=
  match o with
  | OUint _ v => v < 4294967296
  | OHex8 _ v => v < 256
  | OHex16 _ v => v < 65536
  | OInt _ z t => t = dec_Z z                       (* strconv.AppendInt *)
  | OMac _ m => bytes_ok m
  | OIPSlice _ v => ipv_ok v
  | OIP _ (Some b) t => t = addr_text (Some b)      (* netip.Addr.AppendTo *)
  | OIPArr _ vs => Forall ipv_ok vs
  | OByteArr _ v => bytes_ok v
  | _ => True
  end.

(* every op of the line fits after the reference text of the ops before it *)
Fixpoint line_fits (idx : nat) (os : list op) : bool :=
  match os with
  | [] => true
  | o :: r => op_fits idx o && line_fits (idx + List.length (spec_text o)) r
  end.
