(* Model/ViewsDispatch.v -- registry of the modelled view types and the text
   interpreter shared by Extract/D01v.v (C01: safety shape) and Extract/D02v.v
   (C02: values against the position specs).

   case lines
     g <Type> <Method> <spare-hex> <view-hex>   one zero-argument method on one view; the slice has
                                                 len = |view| and capacity |view| + |spare|
     m <Type>                                    names of the modelled zero-argument methods (the
                                                 harness answers with the reflected method set)
     types                                       names of the modelled view types *)
From PV Require Export Base.Text Model.ViewsShow Spec.Views Spec.Views2 Spec.ViewsNDP.
Open Scope string_scope.

Record vtype := mkVT {
  vt_name : string;
  vt_valid : slice -> res bool;
  vt_getters : gtable;
  vt_specs : stable;
  vt_known01 : list finding;
  vt_known02 : list finding;
  (* every exported method of the Go type as Name/arity, sorted (census kind "api"): the zero-argument ones are
     IsValid and exactly the names of vt_getters (checked inside Coq: Proofs/Views4.api_consistent); the others are
     setters / encoders (C03), FastLog (C20) and the accessors with an argument (LLDP.GetPDU: kind "ga";
     LLDP.Type / Capability: pure functions of their argument, not modelled) *)
  vt_api : list string }.

Definition vtypes : list vtype :=
  [ mkVT "ARP" ARP_IsValid ARP_getters ARP_specs [] []
      ["DstIP/0"; "DstMAC/0"; "FastLog/1"; "HLen/0"; "HType/0"; "IsValid/0"; "Operation/0"; "PLen/0"; "Proto/0"; "SrcIP/0"; "SrcMAC/0"; "String/0"];
    mkVT "DHCP4" DHCP4_IsValid DHCP4_getters DHCP4_specs [] []
      ["AppendOptions/2"; "Broadcast/0"; "CHAddr/0"; "CIAddr/0"; "Cookie/0"; "FastLog/1"; "File/0"; "Flags/0"; "GIAddr/0"; "HLen/0"; "HType/0"; "Hops/0"; "IsValid/0"; "OpCode/0"; "Options/0"; "ParseOptions/0"; "SIAddr/0"; "SName/0"; "Secs/0"; "SetBroadcast/1"; "SetCHAddr/1"; "SetCIAddr/1"; "SetCookie/1"; "SetFile/1"; "SetFlags/1"; "SetGIAddr/1"; "SetHLen/1"; "SetHType/1"; "SetHops/1"; "SetOpCode/1"; "SetSIAddr/1"; "SetSName/1"; "SetSecs/1"; "SetXId/1"; "SetYIAddr/1"; "String/0"; "XId/0"; "YIAddr/0"];
    mkVT "DNS" DNS_IsValid DNS_getters DNS_specs [] []
      ["AA/0"; "ANCount/0"; "ARCount/0"; "FastLog/1"; "IsValid/0"; "NSCount/0"; "OpCode/0"; "QDCount/0"; "QR/0"; "RA/0"; "RD/0"; "ResponseCode/0"; "String/0"; "TC/0"; "TransactionID/0"; "Z/0"];
    mkVT "Ether" Ether_IsValid Ether_getters Ether_specs Ether_findings Ether_findings
      ["AppendPayload/1"; "Dst/0"; "DstIP/0"; "EtherType/0"; "FastLog/1"; "HeaderLen/0"; "IsValid/0"; "Payload/0"; "SetPayload/1"; "Src/0"; "SrcIP/0"; "String/0"];
    mkVT "EthernetPause" Pause_IsValid Pause_getters Pause_specs [] []
      ["Duration/0"; "FastLog/1"; "IsValid/0"; "Opcode/0"; "Reserved/0"; "String/0"];
    mkVT "HopByHopExtensionHeader" HBH_IsValid HBH_getters HBH_specs [] []
      ["Data/0"; "IsValid/0"; "Len/0"; "NextHeader/0"; "ParseHopByHopExtensions/0"];
    mkVT "ICMP" ICMP_IsValid ICMP_getters ICMP_specs [] []
      ["Checksum/0"; "Code/0"; "FastLog/1"; "IsValid/0"; "Payload/0"; "RestOfHeader/0"; "SetChecksum/1"; "String/0"; "Type/0"];
    mkVT "ICMP4Redirect" R4_IsValid R4_getters R4_specs [] []
      ["AddrSize/0"; "Addrs/0"; "Checksum/0"; "Code/0"; "FastLog/1"; "IsValid/0"; "Lifetime/0"; "NumAddrs/0"; "String/0"; "Type/0"];
    mkVT "ICMP6NeighborAdvertisement" NA_IsValid NA_getters NA_specs [] []
      ["Checksum/0"; "Code/0"; "FastLog/1"; "IsValid/0"; "Override/0"; "Router/0"; "Solicited/0"; "String/0"; "TargetAddress/0"; "TargetLLA/0"; "Type/0"];
    mkVT "ICMP6NeighborSolicitation" NS_IsValid NS_getters NS_specs [] []
      ["Checksum/0"; "Code/0"; "FastLog/1"; "IsValid/0"; "SourceLLA/0"; "String/0"; "TargetAddress/0"; "Type/0"];
    mkVT "ICMP6Redirect" Redirect6_IsValid Redirect6_getters Redirect6_specs [] []
      ["Checksum/0"; "Code/0"; "DstAddress/0"; "IsValid/0"; "String/0"; "TargetAddress/0"; "TargetLinkLayerAddr/0"; "Type/0"];
    mkVT "ICMP6RouterAdvertisement" RA_IsValid RA_getters RA_specs [] []
      ["Checksum/0"; "Code/0"; "CurrentHopLimit/0"; "FastLog/1"; "Flags/0"; "HomeAgent/0"; "IsValid/0"; "Lifetime/0"; "ManagedConfiguration/0"; "Options/0"; "OtherConfiguration/0"; "Preference/0"; "ProxyFlag/0"; "ReachableTime/0"; "RetransmitTimer/0"; "String/0"; "Type/0"];
    mkVT "ICMP6RouterSolicitation" RS_IsValid RS_getters RS_specs [] []
      ["Checksum/0"; "Code/0"; "FastLog/1"; "IsValid/0"; "Options/0"; "SourceLLA/0"; "String/0"; "Type/0"];
    mkVT "ICMPEcho" ICMPEcho_IsValid ICMPEcho_getters ICMPEcho_specs [] []
      ["Checksum/0"; "Code/0"; "EchoData/0"; "EchoID/0"; "EchoSeq/0"; "FastLog/1"; "IsValid/0"; "String/0"; "Type/0"];
    mkVT "IEEE1905" IEEE1905_IsValid IEEE1905_getters IEEE1905_specs [] []
      ["FastLog/1"; "Flags/0"; "FragmentID/0"; "ID/0"; "IsValid/0"; "Reserved/0"; "String/0"; "TLV/0"; "Type/0"; "Version/0"];
    mkVT "IP4" IP4_IsValid IP4_getters IP4_specs [] []
      ["AppendPayload/2"; "CalculateChecksum/0"; "Checksum/0"; "Dst/0"; "FastLog/1"; "FlagDontFragment/0"; "FlagMoreFragments/0"; "Flags/0"; "Fragment/0"; "ID/0"; "IHL/0"; "IsValid/0"; "Payload/0"; "Protocol/0"; "SetPayload/2"; "Src/0"; "String/0"; "TOS/0"; "TTL/0"; "TotalLen/0"; "Version/0"];
    mkVT "IP6" IP6_IsValid IP6_getters IP6_specs [] []
      ["AppendPayload/2"; "Dst/0"; "FastLog/1"; "FlowLabel/0"; "HeaderLen/0"; "HopLimit/0"; "IsValid/0"; "NextHeader/0"; "Payload/0"; "PayloadLen/0"; "SetPayload/2"; "Src/0"; "String/0"; "TrafficClass/0"; "Version/0"];
    mkVT "LLC" LLC_IsValid LLC_getters LLC_specs [] []
      ["Control/0"; "DSAP/0"; "FastLog/1"; "IsValid/0"; "Payload/0"; "SSAP/0"; "String/0"; "Type/0"];
    mkVT "LLDP" LLDP_IsValid LLDP_getters LLDP_specs [] []
      ["Capability/1"; "ChassisID/0"; "FastLog/1"; "GetPDU/1"; "IsValid/0"; "PortID/0"; "String/0"; "Type/1"];
    mkVT "RRCP" RRCP_IsValid RRCP_getters RRCP_specs [] []
      ["AuthKey/0"; "FastLog/1"; "IsValid/0"; "OpCode/0"; "Protocol/0"; "RegisterAddr/0"; "RegisterData/0"; "Reply/0"; "SixBytes/0"; "String/0"; "Zeros/0"];
    mkVT "SNAP" SNAP_IsValid SNAP_getters SNAP_specs [] []
      ["Control/0"; "DSAP/0"; "EtherType/0"; "FastLog/1"; "IsValid/0"; "OrganisationID/0"; "Payload/0"; "SSAP/0"; "String/0"];
    mkVT "TCP" TCP_IsValid TCP_getters TCP_specs [] []
      ["ACK/0"; "Ack/0"; "CWR/0"; "Checksum/0"; "DstPort/0"; "ECE/0"; "FIN/0"; "HeaderLen/0"; "IsValid/0"; "NS/0"; "PSH/0"; "Payload/0"; "RST/0"; "SYN/0"; "Seq/0"; "SrcPort/0"; "URG/0"; "Urgent/0"; "Window/0"];
    mkVT "UDP" UDP_IsValid UDP_getters UDP_specs [] []
      ["AppendPayload/1"; "Checksum/0"; "DstPort/0"; "FastLog/1"; "HeaderLen/0"; "IsValid/0"; "Len/0"; "Payload/0"; "SetPayload/1"; "SrcPort/0"; "String/0"];
    mkVT "Unknown880a" U880a_IsValid U880a_getters U880a_specs [] []
      ["IsValid/0"] ].

(* LLDP.Type(t): names of the TLV types 0..8, otherwise strconv.Itoa(t) (layer_ethernet.go) *)
Definition LLDP_Type_name (t : N) : string :=
  if N.eqb t 0 then "endpdu" else if N.eqb t 1 then "chassisID" else if N.eqb t 2 then "port" else if N.eqb t 3 then "ttl"
  else if N.eqb t 4 then "portdesc" else if N.eqb t 5 then "name" else if N.eqb t 6 then "description"
  else if N.eqb t 7 then "capabilities" else if N.eqb t 8 then "mngntaddr" else dec_of_N t.
Definition LLDP_Type_arg (t : N) : getter := fun _ => Ok (VS (LLDP_Type_name t)).
(* LLDP.Capability(v): len(v) < 2 -> ""; names for the bits 0x01 .. 0x80 of v[1] in that order, comma separated
   (repaired bf5afdb: the masks were mirrored, 0x80 other ... 0x01 station) *)
Definition cap_names_code : list (N * string) :=
  [(1%N, "other"); (2%N, "repeater"); (4%N, "bridge"); (8%N, "AP"); (16%N, "router"); (32%N, "phone"); (64%N, "docsis"); (128%N, "station")].
Definition LLDP_Capability_s (v : bytes) : string :=
  match v with
  | _ :: b :: _ => join "," (map snd (filter (fun mn => N.eqb (N.land b (fst mn)) (fst mn)) cap_names_code))
  | _ => ""
  end.

(* accessors with one integer argument *)
Definition arg_getters : list (string * (N -> getter)) := [("LLDP.GetPDU", LLDP_GetPDU); ("LLDP.Type", LLDP_Type_arg)].

(* source census (kind "caps", go/ast in the harness): for every getter / decoder whose result can alias the view,
   the number of two-index / three-index slice expressions in its body.  Every one is n/0: NO getter clips the
   capacity of what it returns (p[a:b] without a third index), so for each of them append() on the returned slice
   by a caller would write into the bytes of the frame that follow.  The model's VR off n carries only the length. *)
Definition slice_census : string :=
  "ARP.DstMAC:1/0,ARP.SrcMAC:1/0,DHCP4.CHAddr:1/0,DHCP4.Cookie:1/0,DHCP4.File:1/0,DHCP4.Options:1/0,DHCP4.ParseOptions:3/0,DHCP4.SName:1/0,DHCP4.XId:1/0,Ether.Dst:1/0,Ether.Payload:2/0,Ether.Src:1/0,EthernetPause.Reserved:1/0,HopByHopExtensionHeader.Data:1/0,ICMP.Payload:1/0,ICMP.RestOfHeader:1/0,ICMP4Redirect.Addrs:2/0,ICMP6NeighborAdvertisement.TargetLLA:1/0,ICMP6NeighborSolicitation.SourceLLA:1/0,ICMP6Redirect.DstAddress:1/0,ICMP6Redirect.TargetAddress:1/0,ICMP6Redirect.TargetLinkLayerAddr:1/0,ICMP6RouterSolicitation.SourceLLA:1/0,ICMPEcho.EchoData:1/0,IEEE1905.TLV:1/0,IP4.Payload:1/0,IP6.Payload:1/0,LLC.Payload:2/0,LLDP.ChassisID:0/0,LLDP.GetPDU:0/0,LLDP.PortID:0/0,LLDP.getTLV:1/0,RRCP.SixBytes:1/0,RRCP.Zeros:1/0,SNAP.OrganisationID:1/0,SNAP.Payload:1/0,TCP.Payload:1/0,UDP.Payload:1/0,trimNull:1/0".

(* the exported layout constants of package packet on which the literal offsets of the model rest (kind "consts") *)
Definition model_consts : string :=
  "EthHeaderLen=14,EthAddrLen=6,EthMaxSize=1522,HeaderLen=20,UDPHeaderLen=8,IP6HeaderLen=40,ARPLen=28," ++
  "EthType8021AD=34984,ARPOperationRequest=1,ARPOperationReply=2,ICMP4TypeEchoReply=0,ICMP4TypeEchoRequest=8," ++
  "ICMP6TypeEchoRequest=128,ICMP6TypeEchoReply=129,DHCP4ServerPort=67,DHCP4ClientPort=68,DHCP4End=255,DHCP4Pad=0".

Fixpoint find_vt (name : string) (l : list vtype) : option vtype :=
  match l with
  | [] => None
  | t :: r => if String.eqb (vt_name t) name then Some t else find_vt name r
  end.

Definition TAB : string := String (ascii_of_N 9) EmptyString.
Definition out3 (m s k : string) : string := m ++ TAB ++ s ++ TAB ++ k.

Definition show_valid (r : res bool) : string := show_out show_bool r.
Definition is_valid (r : res bool) : bool := match r with Ok true => true | _ => false end.

(* C01 line: observation = shape; no spec column; key when a valid view's getter is unsafe or leaves the view *)
Definition line01 (t : vtype) (name : string) (v : slice) : string :=
  if String.eqb name "IsValid" then out3 (show_valid (vt_valid t v)) "-" "-" else
  match lookup name (vt_getters t) with
  | None => "nomodel"
  | Some g =>
      let r := g v in
      let key :=
        if is_valid (vt_valid t v) && negb (getter_okb v g) then
          match key_of (vt_known01 t) name v with
          | Some k => k
          | None => "unclassified-C01-" ++ vt_name t ++ "." ++ name
          end
        else "-" in
      out3 (show_out show_shape r) "-" key
  end.

(* C02 line: observation = value; spec column on valid views; key when they differ *)
Definition line02 (t : vtype) (name : string) (v : slice) : string :=
  if String.eqb name "IsValid" then out3 (show_valid (vt_valid t v)) "-" "-" else
  match lookup name (vt_getters t) with
  | None => "nomodel"
  | Some g =>
      let m := show_out show_value (g v) in
      if is_valid (vt_valid t v) then
        match lookup name (vt_specs t) with
        | None | Some None => out3 m "-" "-"
        | Some (Some s) =>
            let e := show_value (s (view v)) in
            let key :=
              if String.eqb m e then "-" else
              match key_of (vt_known02 t) name v with
              | Some k => k
              | None => "unclassified-C02-" ++ vt_name t ++ "." ++ name
              end in
            out3 m e key
        end
      else out3 m "-" "-"
  end.

Definition dispatch (c02 : bool) (line : vtype -> string -> slice -> string) (l : string) : string :=
  match words l with
  | ["g"; ty; name; sp; hx] =>
      match find_vt ty vtypes, bytes_of_tok sp, bytes_of_tok hx with
      | Some t, Some spare, Some b => line t name (of_bytes_cap b spare)
      | _, _, _ => BADARGS
      end
  | ["m"; ty] =>
      match find_vt ty vtypes with
      | Some t => out3 (join "," (map fst (vt_getters t))) "-" "-"
      | None => BADARGS
      end
  | ["api"; ty] =>
      match find_vt ty vtypes with
      | Some t => out3 (join "," (vt_api t)) "-" "-"
      | None => BADARGS
      end
  | ["ga"; ty; name; arg; sp; hx] =>
      match lookup (ty ++ "." ++ name) arg_getters, find_vt ty vtypes, N_of_dec arg, bytes_of_tok sp, bytes_of_tok hx with
      | Some g, Some t, Some a, Some spare, Some b => line (mkVT (vt_name t) (vt_valid t) [(name, g a)] [] [] [] []) name (of_bytes_cap b spare)
      | _, _, _, _, _ => BADARGS
      end
  | "consts" :: _ => out3 model_consts "-" "-"
  | "caps" :: _ => out3 slice_census "-" "-"
  | ["gb"; "LLDP"; "Capability"; hx] =>
      match bytes_of_tok hx with
      | Some b => if c02 then
                    out3 ("s:" ++ LLDP_Capability_s b) ("s:" ++ lldp_capability_spec b)
                         (if String.eqb (LLDP_Capability_s b) (lldp_capability_spec b) then "-" else "unclassified-C02-LLDP.Capability")
                  else out3 ("s:" ++ LLDP_Capability_s b) "-" "-"
      | None => BADARGS
      end
  | "types" :: _ => out3 (join "," (map vt_name vtypes)) "-" "-"
  | _ => BADARGS
  end.
