(* Model/ViewsDispatch.v -- registry of the modelled view types and the text
   interpreter shared by Extract/D01v.v (C01: safety shape) and Extract/D02v.v
   (C02: values against the position specs).

   case lines
     g <Type> <Method> <spare-hex> <view-hex>   one zero-argument method on one view; the slice has
                                                 len = |view| and capacity |view| + |spare|
     m <Type>                                    names of the modelled zero-argument methods (the
                                                 harness answers with the reflected method set)
     types                                       names of the modelled view types *)
From PV Require Export Base.Text Model.ViewsShow Spec.Views Spec.Views2 Spec.ViewsNDP.
Open Scope string_scope.

Record vtype := mkVT {
  vt_name : string;
  vt_valid : slice -> res bool;
  vt_getters : gtable;
  vt_specs : stable;
  vt_known01 : list finding;
  vt_known02 : list finding }.

Definition vtypes : list vtype :=
  [ mkVT "ARP" ARP_IsValid ARP_getters ARP_specs [] [];
    mkVT "DHCP4" DHCP4_IsValid DHCP4_getters DHCP4_specs [] [];
    mkVT "DNS" DNS_IsValid DNS_getters DNS_specs [] [];
    mkVT "Ether" Ether_IsValid Ether_getters Ether_specs Ether_findings Ether_findings;
    mkVT "EthernetPause" Pause_IsValid Pause_getters Pause_specs [] [];
    mkVT "HopByHopExtensionHeader" HBH_IsValid HBH_getters HBH_specs [] [];
    mkVT "ICMP" ICMP_IsValid ICMP_getters ICMP_specs [] [];
    mkVT "ICMP4Redirect" R4_IsValid R4_getters R4_specs [] [];
    mkVT "ICMP6NeighborAdvertisement" NA_IsValid NA_getters NA_specs [] [];
    mkVT "ICMP6NeighborSolicitation" NS_IsValid NS_getters NS_specs [] [];
    mkVT "ICMP6Redirect" Redirect6_IsValid Redirect6_getters Redirect6_specs [] [];
    mkVT "ICMP6RouterAdvertisement" RA_IsValid RA_getters RA_specs [] [];
    mkVT "ICMP6RouterSolicitation" RS_IsValid RS_getters RS_specs [] [];
    mkVT "ICMPEcho" ICMPEcho_IsValid ICMPEcho_getters ICMPEcho_specs [] [];
    mkVT "IEEE1905" IEEE1905_IsValid IEEE1905_getters IEEE1905_specs [] [];
    mkVT "IP4" IP4_IsValid IP4_getters IP4_specs [] [];
    mkVT "IP6" IP6_IsValid IP6_getters IP6_specs [] [];
    mkVT "LLC" LLC_IsValid LLC_getters LLC_specs [] [];
    mkVT "LLDP" LLDP_IsValid LLDP_getters LLDP_specs [] [];
    mkVT "RRCP" RRCP_IsValid RRCP_getters RRCP_specs [] [];
    mkVT "SNAP" SNAP_IsValid SNAP_getters SNAP_specs [] [];
    mkVT "TCP" TCP_IsValid TCP_getters TCP_specs [] [];
    mkVT "UDP" UDP_IsValid UDP_getters UDP_specs [] [];
    mkVT "Unknown880a" U880a_IsValid U880a_getters U880a_specs [] [] ].

Fixpoint find_vt (name : string) (l : list vtype) : option vtype :=
  match l with
  | [] => None
  | t :: r => if String.eqb (vt_name t) name then Some t else find_vt name r
  end.

Definition TAB : string := String (ascii_of_N 9) EmptyString.
Definition out3 (m s k : string) : string := m ++ TAB ++ s ++ TAB ++ k.

Definition show_valid (r : res bool) : string := show_out show_bool r.
Definition is_valid (r : res bool) : bool := match r with Ok true => true | _ => false end.

(* C01 line: observation = shape; no spec column; key when a valid view's getter is unsafe or leaves the view *)
Definition line01 (t : vtype) (name : string) (v : slice) : string :=
  if String.eqb name "IsValid" then out3 (show_valid (vt_valid t v)) "-" "-" else
  match lookup name (vt_getters t) with
  | None => "nomodel"
  | Some g =>
      let r := g v in
      let key :=
        if is_valid (vt_valid t v) && negb (getter_okb v g) then
          match key_of (vt_known01 t) name v with
          | Some k => k
          | None => "unclassified-C01-" ++ vt_name t ++ "." ++ name
          end
        else "-" in
      out3 (show_out show_shape r) "-" key
  end.

(* C02 line: observation = value; spec column on valid views; key when they differ *)
Definition line02 (t : vtype) (name : string) (v : slice) : string :=
  if String.eqb name "IsValid" then out3 (show_valid (vt_valid t v)) "-" "-" else
  match lookup name (vt_getters t) with
  | None => "nomodel"
  | Some g =>
      let m := show_out show_value (g v) in
      if is_valid (vt_valid t v) then
        match lookup name (vt_specs t) with
        | None | Some None => out3 m "-" "-"
        | Some (Some s) =>
            let e := show_value (s (view v)) in
            let key :=
              if String.eqb m e then "-" else
              match key_of (vt_known02 t) name v with
              | Some k => k
              | None => "unclassified-C02-" ++ vt_name t ++ "." ++ name
              end in
            out3 m e key
        end
      else out3 m "-" "-"
  end.

Definition dispatch (line : vtype -> string -> slice -> string) (l : string) : string :=
  match words l with
  | ["g"; ty; name; sp; hx] =>
      match find_vt ty vtypes, bytes_of_tok sp, bytes_of_tok hx with
      | Some t, Some spare, Some b => line t name (of_bytes_cap b spare)
      | _, _, _ => BADARGS
      end
  | ["m"; ty] =>
      match find_vt ty vtypes with
      | Some t => out3 (join "," (map fst (vt_getters t))) "-" "-"
      | None => BADARGS
      end
  | "types" :: _ => out3 (join "," (map vt_name vtypes)) "-" "-"
  | _ => BADARGS
  end.
