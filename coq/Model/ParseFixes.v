(* Model/ParseFixes.v — which variant of IP4.IsValid / IP6.IsValid / TCP.IsValid the library under /repo has NOW.
   Read only by the dispatch modules (through Model/ParseShow.v); no theorem depends on it: every theorem of
   C01 / C02 / C16 is proved for all variants (the [c_fx] field of [cfg]).

   When FIXLOG.md announces the repair of one of the validators (VIEWS cluster), set its flag to [true] here and
   turn the matching `finding: property=C02 key=parse-...` line of known_findings.txt into `fixed:`:
     fx_ip4  ->  parse-ip4-ihl, parse-ip4-totallen
     fx_ip6  ->  parse-ip6-trailing
     fx_tcp  ->  parse-tcp-doff
   Nothing else has to change (the model, the known-class predicates and the proofs already cover the repaired
   variants as written in the header of Model/Parse.v; a repair written differently shows up as a broken
   correspondence and the variant in Model/Parse.v must then be adjusted). *)
From PV Require Export Model.Parse.

Definition current_fixes : fixes := mkFixes true true true.
