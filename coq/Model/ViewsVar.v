(* Model/ViewsVar.v -- data-dependent / looping accessors of the view types:
   DHCP4 (trimNull, validateOptions, ParseOptions), ICMP4Redirect (Addrs),
   LLDP (getTLV, ChassisID, PortID, String), HopByHopExtensionHeader
   (ParseHopByHopExtensions), ICMP6 RS/RA Options (newParseOptions: only
   whether it returns a value, an error, panics or spins).  Loops that provably
   consume input recurse on explicit fuel chosen from the length; a loop that
   does not advance returns Fuel for every fuel. *)
From PV Require Export Model.Views2.
Open Scope string_scope.
Open Scope N_scope.
Open Scope res_scope.

Definition lenL (p : lslice) : nat := len (lsl p).

(* ================================================================= *)
(* DHCP4 -- layer_dhcp4.go:145-146, 185-193, 259-296 *)

(* trimNull(d): for i, v := range d { if v == 0 { return d[:i] } }; return d *)
Fixpoint first_zero (l : bytes) : nat :=
  match l with
  | [] => 0%nat
  | b :: r => if b =? 0 then 0%nat else S (first_zero r)
  end.
(* trimNull(p[a:a+n]) *)
Definition trim_null (p : slice) (a n : nat) : res value :=
  s <- sl p a (a + n) ;; Ok (VR a (first_zero (firstn n (arr s)))).
Definition DHCP4_SName : getter := fun p => trim_null p 44 64.
Definition DHCP4_File : getter := fun p => trim_null p 108 128.

(* for len(opts) >= 2 && opts[0] != End { if opts[0] == Pad { opts = opts[1:]; continue }
     size := int(opts[1]); if len(opts) < 2+size { return ErrParseFrame }; opts = opts[2+size:] }; return nil *)
Fixpoint dhcp_validate (fuel : nat) (o : slice) : res bool :=
  match fuel with
  | O => Fuel
  | S f =>
      if Nat.ltb (len o) 2 then Ok true else
      b0 <- idx o 0 ;;
      if b0 =? 255 then Ok true else
      if b0 =? 0 then o' <- slfrom o 1 ;; dhcp_validate f o' else
      sz <- idx o 1 ;;
      if Nat.ltb (len o) (2 + N.to_nat sz) then Ok false else
      o' <- slfrom o (2 + N.to_nat sz) ;; dhcp_validate f o'
  end.
(* opts := p.Options(); if len(opts) < 2 { return ErrParseFrame }; loop *)
Definition DHCP4_validateOptions (p : slice) : res bool :=
  q <- DHCP4_Options_l p ;;
  let o := match q with Some l => lsl l | None => nil_slice end in
  if Nat.ltb (len o) 2 then Ok false else dhcp_validate (S (len o)) o.

(* len < 240; OpCode != 1 && != 2; HLen != 6; validateOptions *)
Definition DHCP4_IsValid (p : slice) : res bool :=
  if lenN p <? 240 then Ok false else
  op <- idx p 0 ;; op' <- idx p 0 ;;
  if negb (op =? 1) && negb (op' =? 2) then Ok false else
  hl <- idx p 2 ;; if negb (hl =? 6) then Ok false else
  DHCP4_validateOptions p.

(* the option map, as an association list sorted by code; a later option replaces an earlier one *)
Fixpoint opt_insert (c : N) (x : value) (m : list (N * value)) : list (N * value) :=
  match m with
  | [] => [(c, x)]
  | (c', y) :: r => if c =? c' then (c, x) :: r
                    else if c <? c' then (c, x) :: (c', y) :: r
                    else (c', y) :: opt_insert c x r
  end.
(* same loop; options[code] = opts[2:2+size]; a short option ends the loop *)
Fixpoint dhcp_parse (fuel : nat) (o : lslice) (m : list (N * value)) : res (list (N * value)) :=
  match fuel with
  | O => Fuel
  | S f =>
      if Nat.ltb (lenL o) 2 then Ok m else
      b0 <- idx (lsl o) 0 ;;
      if b0 =? 255 then Ok m else
      if b0 =? 0 then o' <- lfrom o 1 ;; dhcp_parse f o' m else
      sz <- idx (lsl o) 1 ;;
      if Nat.ltb (lenL o) (2 + N.to_nat sz) then Ok m else
      x <- lsub o 2 (2 + N.to_nat sz) ;;
      o' <- lfrom o (2 + N.to_nat sz) ;;
      dhcp_parse f o' (opt_insert b0 (lval x) m)
  end.
Definition DHCP4_ParseOptions : getter := fun p =>
  q <- DHCP4_Options_l p ;;
  let o := match q with Some l => l | None => mkL 0 nil_slice end in
  m <- dhcp_parse (S (lenL o)) o [] ;;
  Ok (VL (map (fun cx => VL [VN (fst cx); snd cx]) m)).

Definition DHCP4_getters : gtable :=
  [("Broadcast", DHCP4_Broadcast); ("CHAddr", DHCP4_CHAddr); ("CIAddr", DHCP4_CIAddr); ("Cookie", DHCP4_Cookie);
   ("File", DHCP4_File); ("Flags", DHCP4_Flags); ("GIAddr", DHCP4_GIAddr); ("HLen", DHCP4_HLen);
   ("HType", DHCP4_HType); ("Hops", DHCP4_Hops); ("OpCode", DHCP4_OpCode); ("Options", DHCP4_Options);
   ("ParseOptions", DHCP4_ParseOptions); ("SIAddr", DHCP4_SIAddr); ("SName", DHCP4_SName); ("Secs", DHCP4_Secs);
   ("String", DHCP4_String); ("XId", DHCP4_XId); ("YIAddr", DHCP4_YIAddr)].

(* ================================================================= *)
(* ICMP4Redirect -- layer_icmp.go:111-178 *)

Definition R4_NumAddrs : getter := fun p => rbyte p 4.
Definition R4_AddrSize : getter := fun p => rbyte p 5.
Definition R4_Lifetime : getter := fun p => rbe16 p 6.
(* for i := 0; i < int(p.NumAddrs()); i++ { pos := i*int(p.AddrSize())*4
     if p.AddrSize() == 4 { append(net.IP(p[pos:pos+4])) ; continue }; append(net.IP(p[pos:pos+16])) } *)
Fixpoint r4_addrs (p : slice) (a : N) (i cnt : nat) : res (list value) :=
  match cnt with
  | O => Ok []
  | S c =>
      let pos := (8 + i * N.to_nat a * 4)%nat in     (* repaired: entries follow the 8-byte header *)
      x <- (if a =? 4 then rsl p pos (pos + 4) else rsl p pos (pos + 16)) ;;
      r <- r4_addrs p a (S i) c ;; Ok (x :: r)
  end.
Definition R4_Addrs : getter := fun p =>
  n <- idx p 4 ;;
  if n =? 0 then Ok (VL []) else
  a <- idx p 5 ;; l <- r4_addrs p a 0 (N.to_nat n) ;; Ok (VL l).
(* FastLog: Type Code Checksum NumAddrs AddrSize Lifetime Lifetime Addrs *)
Definition R4_String : getter :=
  calls [ICMP_Type; ICMP_Code; ICMP_Checksum; R4_NumAddrs; R4_AddrSize; R4_Lifetime; R4_Lifetime; R4_Addrs].
(* len(p) < 8 || len(p) < 8+NumAddrs*AddrSize*4 -> err; p[0] != 137 -> err; AddrSize != 4 && != 10 -> err *)
Definition R4_IsValid (p : slice) : res bool :=
  c <- orr (Ok (lenN p <? 8)) (n <- idx p 4 ;; a <- idx p 5 ;; Ok (lenN p <? 8 + n * a * 4)) ;;
  if c then Ok false else
  t <- idx p 0 ;; if negb (t =? 137) then Ok false else
  a <- idx p 5 ;; a' <- idx p 5 ;; if negb (a =? 4) && negb (a' =? 10) then Ok false else Ok true.
Definition R4_getters : gtable :=
  [("AddrSize", R4_AddrSize); ("Addrs", R4_Addrs); ("Checksum", ICMP_Checksum); ("Code", ICMP_Code);
   ("Lifetime", R4_Lifetime); ("NumAddrs", R4_NumAddrs); ("String", R4_String); ("Type", ICMP_Type)].

(* ================================================================= *)
(* LLDP -- layer_ethernet.go:260-306, 375-397 *)

Definition LLDP_IsValid (p : slice) : res bool := Ok (6 <=? lenN p).
(* (t, l, v, err): if len(p) <= n+2 -> err; t = p[n]>>1; l = (p[n]&1)<<8 + p[n+1]; t==0&&l==0 -> (t,l,nil,nil);
   if len(p) >= n+2+l -> (t, l, p[n+2:n+2+l], nil); else err
   (repaired: the range was p[n+2:n+l], panicking for l < 2, and two more bytes were demanded after the value) *)
Record tlv := mkTLV { tlv_t : N; tlv_l : N; tlv_v : option (nat * nat); tlv_err : bool }.
Definition tlv_error : tlv := mkTLV 0 0 None true.
Definition lldp_getTLV (p : slice) (n : nat) : res tlv :=
  if Nat.leb (len p) (n + 2) then Ok tlv_error else
  b0 <- idx p n ;; b0' <- idx p n ;; b1 <- idx p (n + 1) ;;
  let t := N.shiftr b0 1 in
  let l := N.shiftl (N.land b0' 1) 8 + b1 in
  if (t =? 0) && (l =? 0) then Ok (mkTLV t l None false) else
  if Nat.leb (n + 2 + N.to_nat l) (len p) then
    s <- sl p (n + 2) (n + 2 + N.to_nat l) ;; Ok (mkTLV t l (Some ((n + 2)%nat, len s)) false)
  else Ok tlv_error.
(* the returned value; an empty value and nil are not distinguished *)
Definition tlv_value (x : tlv) : value := match tlv_v x with Some (o, n) => vr o n | None => VNil end.
Definition tlv_vlen (x : tlv) : nat := match tlv_v x with Some (_, n) => n | None => 0%nat end.
Definition LLDP_ChassisID : getter := fun p => x <- lldp_getTLV p 0 ;; Ok (tlv_value x).
(* c := p.ChassisID(); _, _, v, _ := p.getTLV(len(c) + 2) *)
Definition LLDP_PortID : getter := fun p =>
  c <- lldp_getTLV p 0 ;; x <- lldp_getTLV p (tlv_vlen c + 2) ;; Ok (tlv_value x).
(* FastLog: pos := 0; for { t,l,v,err := getTLV(pos); if err != nil || t == 0 { break }; print v; pos = pos + l + 2 } *)
Fixpoint lldp_walk (fuel : nat) (p : slice) (pos : nat) : res value :=
  match fuel with
  | O => Fuel
  | S f =>
      x <- lldp_getTLV p pos ;;
      if tlv_err x then Ok VU else
      if tlv_t x =? 0 then Ok VU else
      lldp_walk f p (pos + N.to_nat (tlv_l x) + 2)
  end.
Definition LLDP_String : getter := fun p => lldp_walk (S (len p)) p 0.
(* GetPDU(pduType): pos := 0; for { t,l,v,err := getTLV(pos); if err != nil { return nil }
                                     if t == pduType || t == 0 { return v }; pos = pos + l + 2 }
   the one TLV accessor that takes an argument (not in the zero-argument table; case kind "ga") *)
Fixpoint lldp_get_pdu (fuel : nat) (p : slice) (ty : N) (pos : nat) : res value :=
  match fuel with
  | O => Fuel
  | S f =>
      x <- lldp_getTLV p pos ;;
      if tlv_err x then Ok VNil else
      if (tlv_t x =? ty) || (tlv_t x =? 0) then Ok (tlv_value x) else
      lldp_get_pdu f p ty (pos + N.to_nat (tlv_l x) + 2)
  end.
Definition LLDP_GetPDU (ty : N) : getter := fun p => lldp_get_pdu (S (len p)) p ty 0.
Definition LLDP_getters : gtable :=
  [("ChassisID", LLDP_ChassisID); ("PortID", LLDP_PortID); ("String", LLDP_String)].

(* ================================================================= *)
(* HopByHopExtensionHeader.ParseHopByHopExtensions -- layer_ip6.go:114-172 *)

(* data := p.Data(); pos := 0; for { buffer := data[pos:]; if len(buffer) < 1 -> err
     t := buffer[0]   (repairs ddd494c, 3430bd4: the whole type octet; was buffer[0] & 0x1f)
     0: pos++; 1: len<2 -> err, pos += buffer[1]+2; 5: len<4 || buffer[1] != 2 -> err, buffer[2:4], pos += 4;
     194: len<6 || buffer[1] != 4 -> err, pos += 6; default: len<2 -> err, t>>6 != 0 -> err, pos += buffer[1]+2
     if pos > len(data) -> err; if pos == len(data) break } *)
Fixpoint hbh_walk (fuel : nat) (data : slice) (pos : nat) : res value :=
  match fuel with
  | O => Fuel
  | S f =>
      b <- slfrom data pos ;;
      if Nat.ltb (len b) 1 then Ok VE else
      t <- idx b 0 ;;
      r <- (if t =? 0 then Ok (Some (pos + 1)%nat)
            else if t =? 1 then
              if Nat.ltb (len b) 2 then Ok None else b1 <- idx b 1 ;; Ok (Some (pos + N.to_nat b1 + 2)%nat)
            else if t =? 5 then
              c <- orr (Ok (Nat.ltb (len b) 4)) (b1 <- idx b 1 ;; Ok (negb (b1 =? 2))) ;;
              if c then Ok None else _ <- sl b 2 4 ;; Ok (Some (pos + 4)%nat)
            else if t =? 194 then
              c <- orr (Ok (Nat.ltb (len b) 6)) (b1 <- idx b 1 ;; Ok (negb (b1 =? 4))) ;;
              if c then Ok None else Ok (Some (pos + 6)%nat)
            else
              if Nat.ltb (len b) 2 then Ok None else
              if negb (N.shiftr t 6 =? 0) then Ok None else
              b1 <- idx b 1 ;; Ok (Some (pos + N.to_nat b1 + 2)%nat)) ;;
      match r with
      | None => Ok VE
      | Some pos' => if Nat.ltb (len data) pos' then Ok VE
                     else if Nat.eqb pos' (len data) then Ok VU else hbh_walk f data pos'
      end
  end.
(* if len(p) < 2 || len(p) < p.Len() { return nil, ErrParseFrame }   (repair 3cfc04d) *)
Definition HBH_Parse : getter := fun p =>
  c <- orr (Ok (lenN p <? 2)) (n <- HBH_Len_n p ;; Ok (lenN p <? n)) ;;
  if c then Ok VE else
  d <- HBH_Data_l p ;; hbh_walk (S (lenL d)) (lsl d) 0.
Definition HBH_getters : gtable :=
  [("Data", HBH_Data); ("Len", HBH_Len); ("NextHeader", HBH_NextHeader); ("ParseHopByHopExtensions", HBH_Parse)].

(* ================================================================= *)
(* ICMP6 RS / RA Options -- layer_icmp.go:205,265 + newParseOptions (layer_icmp6_options.go:677-741).
   Only the outcome class is modelled: value (VU), error (VE), panic, spin.
   for i := 0; len(b[i:]) != 0; { if len(b[i:]) < 2 -> err; t := b[i]; l := int(b[i+1])*8
     if l == 0 -> err; if l > len(b[i:]) -> err; switch t { 1,2: LLA.unmarshal(b[i:i+l]); 5: MTU; 3: Prefix; 24: Route; 25: RDNSS;
     31: DNSSL; default: print }; i += l }
   unmarshal on x = b[i:i+l]:
     LLA:    x[0]; x[1] != 1 -> return err; CopyMAC(x[2:])
     MTU:    x[1]; wrong length -> logged, loop continues; x[4:8]
     Prefix: x[1] != 4 -> return err; 32 bytes read
     Route:  x[1], x[2]; every error is logged, loop continues; reads stay inside x for the accepted (l, prefix-length) pairs
     RDNSS:  x[2:]; value[2:6]; (l/8-1)/2 addresses of 16 bytes, inside x
     DNSSL:  RawOption.unmarshal: len(x) < 2 -> error logged; label walk stays inside its copy
   so for l >= 8 no decoder panics; l = 0 is rejected before the switch since repair f37ae93 (before it:
   panic for the decoded types, an endless loop for DNSSL and unknown types). *)
Fixpoint ndp_options (fuel : nat) (b : slice) (i : nat) : res value :=
  match fuel with
  | O => Fuel
  | S f =>
      r <- slfrom b i ;;
      if Nat.eqb (len r) 0 then Ok VU else
      if Nat.ltb (len r) 2 then Ok VE else
      t <- idx b i ;; l8 <- idx b (i + 1) ;;
      let l := (N.to_nat l8 * 8)%nat in
      if Nat.eqb l 0 then Ok VE else       (* repair f37ae93: a zero-length option is an error *)
      if Nat.ltb (len r) l then Ok VE else
      x <- sl b i (i + l) ;;
        b1 <- idx x 1 ;;
        if ((t =? 1) || (t =? 2)) && negb (b1 =? 1) then Ok VE else
        if (t =? 3) && negb (b1 =? 4) then Ok VE else
        b2 <- idx x 2 ;;
        if (t =? 3) && (128 <? b2) then Ok VE else      (* repair cb8b5b9: prefix length above 128 is an error *)
        ndp_options f b (i + l)
  end.
(* ---- the decoded NewOptions value.  [ndp_options] above establishes that every access of the decoders stays
   inside p[k:len]; the field values are therefore computed on that byte list (x = the bytes of one option,
   8*x[1] of them, at least 8).  One function per unmarshal, mirroring the code after the repairs 8afc7d0
   (MTU at 4..8), ade5692 (route prefix masked), c4022d7 (raw option length), cb8b5b9, 3a9dc1a, 0b179fd. ---- *)
Definition ob (x : bytes) (i : nat) : N := nth i x 0.
Definition ob32 (x : bytes) (i : nat) : N := be32 (ob x i) (ob x (i + 1)) (ob x (i + 2)) (ob x (i + 3)).
(* net.IP(addr).Mask(net.CIDRMask(pl, 128)) on 16 bytes *)
Definition mask_byte (pl : nat) (i : nat) (b : N) : N :=
  if Nat.leb (8 * (i + 1)) pl then b
  else if Nat.leb pl (8 * i) then 0
  else N.land b (256 - 2 ^ N.of_nat (8 - (pl - 8 * i))).
Fixpoint mask_from (pl : nat) (i : nat) (l : bytes) : bytes :=
  match l with [] => [] | b :: r => mask_byte pl i b :: mask_from pl (S i) r end.
Definition mask16 (pl : nat) (l : bytes) : bytes := mask_from pl 0 l.
(* copy(prefix16, src): src padded with zeros to 16 bytes *)
Definition pad16 (l : bytes) : bytes := firstn 16 (l ++ repeat 0 16)%list.

(* DNSSL (RawOption copy V = x[2:]): label walk from i = 6; None = errDNSSLBadDomains *)
Definition is_ascii (l : bytes) : bool := forallb (fun c => c <? 128) l.
Definition has_dot_or_space (l : bytes) : bool := existsb (fun c => (c =? 46) || (c =? 32)) l.
Fixpoint join_dot (ls : list bytes) : bytes :=
  match ls with [] => [] | [a] => a | a :: r => (a ++ 46 :: join_dot r)%list end.
Fixpoint dnssl_walk (fuel : nat) (V : bytes) (i : nat) (labels : list bytes) (domains : list bytes) : option (list bytes) :=
  match fuel with
  | O => None
  | S f =>
      let rem := (List.length V - i)%nat in
      if Nat.ltb rem 2 then None else
      let length := N.to_nat (nth i V 0) in
      if Nat.leb (rem - 1) length then None else
      if Nat.eqb length 0 then Some domains else
      let label := sub V (i + 1) length in
      if negb (is_ascii label) then None else
      if has_dot_or_space label then None else
      let labels' := (labels ++ [label])%list in
      let i' := (i + 1 + length)%nat in
      if nth i' V 0 =? 0 then
        let domains' := (domains ++ [join_dot labels'])%list in
        let i'' := S i' in
        let rem' := (List.length V - i'')%nat in
        if Nat.eqb rem' 0 || (Nat.eqb rem' 1 && (nth i'' V 0 =? 0)) then Some domains'
        else dnssl_walk f V i'' [] domains'
      else dnssl_walk f V i' labels' domains
  end.

(* one option; None = newParseOptions returns an error for the whole block *)
Definition ndp_apply (x : bytes) (st : ndp_st) : option ndp_st :=
  let t := ob x 0 in let l8 := ob x 1 in
  if (t =? 1) || (t =? 2) then
    if negb (l8 =? 1) then None else
    let mac := sub x 2 6 in
    Some (if t =? 1 then mkSt (st_mtu st) (st_prefixes st) (st_rdnss_lt st) (st_servers st) mac (st_tlla st) (st_dnssl_lt st) (st_domains st) (st_route st)
          else mkSt (st_mtu st) (st_prefixes st) (st_rdnss_lt st) (st_servers st) (st_slla st) mac (st_dnssl_lt st) (st_domains st) (st_route st))
  else if t =? 5 then
    if negb (l8 =? 1) then Some st else
    Some (mkSt (ob32 x 4) (st_prefixes st) (st_rdnss_lt st) (st_servers st) (st_slla st) (st_tlla st) (st_dnssl_lt st) (st_domains st) (st_route st))
  else if t =? 3 then
    if negb (l8 =? 4) then None else
    if 128 <? ob x 2 then None else
    let pl := ob x 2 in
    let p := VL [VN pl; VB (negb (N.land (ob x 3) 128 =? 0)); VB (negb (N.land (ob x 3) 64 =? 0));
                 VN (ob32 x 4); VN (ob32 x 8); VX (mask16 (N.to_nat pl) (sub x 16 16))] in
    Some (mkSt (st_mtu st) (st_prefixes st ++ [p])%list (st_rdnss_lt st) (st_servers st) (st_slla st) (st_tlla st) (st_dnssl_lt st) (st_domains st) (st_route st))
  else if t =? 24 then
    let pl := ob x 2 in
    let okl := if pl =? 0 then (1 <=? l8) && (l8 <=? 3)
               else if pl <? 65 then (l8 =? 2) || (l8 =? 3)
               else if pl <? 129 then l8 =? 3 else false in
    if negb okl then Some st else
    let prf := N.shiftr (N.land (ob x 3) 24) 3 in
    if prf =? 2 then Some st else
    let prefix := mask16 (N.to_nat pl) (pad16 (sub x 8 ((N.to_nat pl + 7) / 8))) in
    Some (mkSt (st_mtu st) (st_prefixes st) (st_rdnss_lt st) (st_servers st) (st_slla st) (st_tlla st) (st_dnssl_lt st) (st_domains st)
               (pl, prf, ob32 x 4, prefix))
  else if t =? 25 then
    let dividend := (l8 - 1) * 8 in
    if negb (dividend mod 16 =? 0) then Some st else
    let count := N.to_nat (dividend / 16) in
    if Nat.eqb count 0 then Some st else
    let servers := map (fun i => sub x (8 + 16 * i) 16) (seq 0 count) in
    Some (mkSt (st_mtu st) (st_prefixes st) (ob32 x 4) (st_servers st ++ servers)%list (st_slla st) (st_tlla st) (st_dnssl_lt st) (st_domains st) (st_route st))
  else if t =? 31 then
    let V := skipn 2 x in
    match dnssl_walk (S (List.length V)) V 6 [] [] with
    | None => Some st
    | Some [] => Some st
    | Some ds => Some (mkSt (st_mtu st) (st_prefixes st) (st_rdnss_lt st) (st_servers st) (st_slla st) (st_tlla st) (ob32 x 4) ds (st_route st))
    end
  else Some st.

Fixpoint ndp_decode (fuel : nat) (b : bytes) (st : ndp_st) : option ndp_st :=
  match fuel with
  | O => None
  | S f =>
      match b with
      | [] => Some st
      | [_] => None
      | _ :: l8 :: _ =>
          let l := (N.to_nat l8 * 8)%nat in
          if Nat.eqb l 0 then None else
          if Nat.ltb (List.length b) l then None else
          match ndp_apply (firstn l b) st with
          | None => None
          | Some st' => ndp_decode f (skipn l b) st'
          end
      end
  end.

Definition ndp_value (b : bytes) : value :=
  match ndp_decode (S (List.length b)) b st0 with Some st => ndp_show st | None => VE end.

(* if len(p) <= k { return NewOptions{}, nil }; return newParseOptions(p[k:]) *)
Definition ndp_options_at (k : nat) : getter := fun p =>
  if Nat.leb (len p) k then Ok (ndp_show st0) else
  b <- slfrom p k ;; _ <- ndp_options (S (len b)) b 0 ;;       (* panics / termination: the slice-level walk *)
  Ok (ndp_value (firstn (len b) (arr b))).                      (* value or error: the decoders on the bytes *)
Definition RS_Options : getter := ndp_options_at 8.    (* repaired: was 24 *)
Definition RA_Options : getter := ndp_options_at 16.

Definition RS_getters : gtable :=
  [("Checksum", ICMP_Checksum); ("Code", ICMP_Code); ("Options", RS_Options); ("SourceLLA", RS_SourceLLA);
   ("String", RS_String); ("Type", ICMP_Type)].
Definition RA_getters : gtable :=
  [("Checksum", ICMP_Checksum); ("Code", ICMP_Code); ("CurrentHopLimit", RA_CurrentHopLimit); ("Flags", RA_Flags);
   ("HomeAgent", RA_HomeAgent); ("Lifetime", RA_Lifetime); ("ManagedConfiguration", RA_ManagedConfiguration);
   ("Options", RA_Options); ("OtherConfiguration", RA_OtherConfiguration); ("Preference", RA_Preference);
   ("ProxyFlag", RA_ProxyFlag); ("ReachableTime", RA_ReachableTime); ("RetransmitTimer", RA_RetransmitTimer);
   ("String", RA_String); ("Type", ICMP_Type)].

(* unfold hints for the proof tactics (generated from the definitions above) *)
#[global] Hint Unfold DHCP4_SName DHCP4_File DHCP4_ParseOptions R4_NumAddrs R4_AddrSize R4_Lifetime R4_Addrs R4_String LLDP_ChassisID LLDP_PortID LLDP_String HBH_Parse RS_Options RA_Options : vg.
