(* Model/TablesShow.v — text protocol of the TABLES cluster (C04 C05 C06):
   parsing of history lines and canonical printing of states. Executable only. *)
From PV Require Import Base.Text Base.Slice Model.Tables Model.TablesGlue.
Open Scope string_scope.
Open Scope N_scope.

(* ---------- numbers <-> fixed-width hex ---------- *)
Fixpoint N_of_bytes_acc (l : bytes) (acc : N) : N :=
  match l with [] => acc | b :: r => N_of_bytes_acc r (acc * 256 + b) end.
Definition N_of_bytes (l : bytes) : N := N_of_bytes_acc l 0.

Fixpoint bytes_of_N_acc (len : nat) (n : N) (acc : bytes) : bytes :=
  match len with O => acc | S k => bytes_of_N_acc k (n / 256) (n mod 256 :: acc) end.
Definition bytes_of_N (len : nat) (n : N) : bytes := bytes_of_N_acc len n [].

Definition show_mac (m : mac) : string := hex_of_bytes (bytes_of_N 6 m).
Definition show_ip (i : ip) : string :=
  match i with
  | IPnone => "-"
  | IP4 a => hex_of_bytes (bytes_of_N 4 a)
  | IP6 a => if a =? 0 then "::" else hex_of_bytes (bytes_of_N 16 a)
  end.

Definition mac_of_tok (s : string) : option mac :=
  match bytes_of_hex s with
  | Some l => if Nat.eqb (List.length l) 6 then Some (N_of_bytes l) else None
  | None => None
  end.
Definition ip_of_tok (s : string) : option ip :=
  if String.eqb s "-" then Some IPnone else
  if String.eqb s "::" then Some (IP6 0) else
  match bytes_of_hex s with
  | Some l => if Nat.eqb (List.length l) 4 then Some (IP4 (N_of_bytes l))
              else if Nat.eqb (List.length l) 16 then Some (IP6 (N_of_bytes l)) else None
  | None => None
  end.

Definition commas (s : string) : list string := Text.split ","%char s.

(* ---------- order on addresses (netip.Addr.Compare: bit length, then value) ---------- *)
Definition ip_leb (x y : ip) : bool :=
  match x, y with
  | IPnone, _ => true
  | IP4 _, IPnone => false
  | IP4 a, IP4 b => a <=? b
  | IP4 _, IP6 _ => true
  | IP6 a, IP6 b => a <=? b
  | IP6 _, _ => false
  end.

Fixpoint insert_by {A} (leb : A -> A -> bool) (x : A) (l : list A) : list A :=
  match l with
  | [] => [x]
  | y :: r => if leb x y then x :: l else y :: insert_by leb x r
  end.
Definition sort_by {A} (leb : A -> A -> bool) (l : list A) : list A := fold_right (insert_by leb) [] l.

Definition sorted_hosts (s : state) : list (ip * host) :=
  sort_by (fun a b => ip_leb (fst a) (fst b)) (hosts s).
Definition sorted_keys (s : state) : list ip := map fst (sorted_hosts s).

(* ---------- parsing ---------- *)
(* own MAC, own IPv4, own LLA, router MAC, router IPv4, LAN base, LAN bits, OfflineDeadline, PurgeDeadline [, ProbeDeadline [, env]]
   (seconds; without the tenth field the probe deadline is the default of 120 s) *)
Definition cfg_of_fields (om oi ol rm ri lb lbits od pd pr : string) : option cfg :=
  match mac_of_tok om, ip_of_tok oi, ip_of_tok ol, mac_of_tok rm, ip_of_tok ri,
        ip_of_tok lb, N_of_dec lbits, Z_of_dec od, Z_of_dec pd, Z_of_dec pr with
  | Some om, Some oi, Some ol, Some rm, Some ri, Some (IP4 lb), Some lbits, Some od, Some pd, Some pr =>
      Some {| own_mac := om; own_ip4 := oi; own_lla := ol; rt_mac := rm; rt_ip4 := ri;
              lan_base := lb; lan_bits := lbits; offline_dl := od; purge_dl := pd; probe_dl := pr |}
  | _, _, _, _, _, _, _, _, _, _ => None
  end.
Definition cfg_of_tok (s : string) : option cfg :=
  match commas s with
  | [om; oi; ol; rm; ri; lb; lbits; od; pd] => cfg_of_fields om oi ol rm ri lb lbits od pd "120"
  | [om; oi; ol; rm; ri; lb; lbits; od; pd; pr] => cfg_of_fields om oi ol rm ri lb lbits od pd pr
  (* eleventh field: the rest of NICInfo (HostGUA, RouterGUA, RouterLLA, RouterPrefix: set / unset / prefix length), which
     the harness installs and NO rule of the model or of the reference reads *)
  | [om; oi; ol; rm; ri; lb; lbits; od; pd; pr; _env] => cfg_of_fields om oi ol rm ri lb lbits od pd pr
  | _ => None
  end.

Definition class_of_tok (s : string) : option fclass :=
  if String.eqb s "4" then Some FIP4 else if String.eqb s "6" then Some FIP6
  else if String.eqb s "a" then Some FARP else if String.eqb s "o" then Some FOther
  else if String.eqb s "x" then Some FInvalid else None.

Definition kind_of_tok (s : string) : option nkind :=
  if String.eqb s "0" then Some KDhcp else if String.eqb s "1" then Some KMdns
  else if String.eqb s "2" then Some KSsdp else if String.eqb s "3" then Some KLlmnr
  else if String.eqb s "4" then Some KNbns else None.

(* parsed op; Purge's order is supplied by the interpreter (sorted keys of the current state) *)
Inductive pop : Set := POp (o : op) | PPurge (now : Z) | PBytes (b : bytes) (now : Z)
  | PStage (k : ip) (st : N).   (* the APPLICATION writes Host.HuntStage of FindIP(k): not a step of the library *)

(* raw frames are turned into Rx ops as soon as the configuration is known *)
Definition debyte (c : cfg) (p : pop) : pop :=
  match p with
  | PBytes b now => POp (Rx (summary_of (pcfg_of c) (of_bytes b)) now)
  | _ => p
  end.

Definition nent_of_N (n : N) : nent :=
  {| ne_name := n mod 10; ne_model := (n / 10) mod 10; ne_os := (n / 100) mod 10; ne_manuf := (n / 1000) mod 10 |}.
Definition nent_of_dec (s : string) : option nent :=
  match N_of_dec s with Some n => Some (nent_of_N n) | None => None end.

Definition op_of_tok (s : string) : option pop :=
  match commas s with
  | ["R"; src; cls; i; am; dh; now; _variant] =>   (* the variant selects the concrete frame the harness builds *)
      match mac_of_tok src, class_of_tok cls, ip_of_tok i, mac_of_tok am, bool_of_tok dh, Z_of_dec now with
      | Some src, Some cls, Some i, Some am, Some dh, Some now =>
          Some (POp (Rx {| f_src := src; f_class := cls; f_ip := i; f_arpmac := am; f_dhcp4 := dh |} now))
      | _, _, _, _, _, _ => None
      end
  | ["N"] => Some (POp Notify)
  | ["U"; m; i; nm; now] =>
      match mac_of_tok m, ip_of_tok i, nent_of_dec nm, Z_of_dec now with
      | Some m, Some i, Some nm, Some now => Some (POp (DHCPv4Update m i nm now))
      | _, _, _, _ => None
      end
  | ["O"; m; i; nm] =>
      match mac_of_tok m, ip_of_tok i, nent_of_dec nm with
      | Some m, Some i, Some nm => Some (POp (SetOffer m i nm))
      | _, _, _ => None
      end
  | ["C"; m] => option_map (fun m => POp (Capture m)) (mac_of_tok m)
  | ["L"; m] => option_map (fun m => POp (Release m)) (mac_of_tok m)
  | ["P"; now] => option_map PPurge (Z_of_dec now)
  | ["M"; kd; i; nm] =>
      match kind_of_tok kd, ip_of_tok i, nent_of_dec nm with
      | Some kd, Some i, Some nm => Some (POp (NameUpdate kd i nm))
      | _, _, _ => None
      end
  | ["D"] => Some (POp Drain)
  | ["H"; i; st] =>
      match ip_of_tok i, N_of_dec st with
      | Some i, Some st => Some (PStage i st)
      | _, _ => None
      end
  | ["B"; hex; now] =>     (* a received frame as RAW BYTES: the summary is computed by Model/TablesGlue.v *)
      match bytes_of_tok hex, Z_of_dec now with
      | Some b, Some now => Some (PBytes b now)
      | _, _ => None
      end
  | _ => None
  end.

Fixpoint ops_of_toks (l : list string) : option (list pop) :=
  match l with
  | [] => Some []
  | t :: r => match op_of_tok t, ops_of_toks r with
              | Some o, Some os => Some (o :: os)
              | _, _ => None
              end
  end.

Definition resolve (s : state) (p : pop) : op :=
  match p with
  | POp o => o
  | PPurge now => Purge now (sorted_keys s)
  | PBytes _ _ => Drain      (* not reached: the dispatch applies [debyte] first *)
  | PStage _ _ => Drain      (* not reached: the dispatch applies [pstep] *)
  end.

(* one token of a history: a library step, or the application writing an exported field it owns *)
Definition pstep (c : cfg) (s : state) (p : pop) : state * out :=
  match p with
  | PStage k st => (upd_host k (set_hstage st) s, ONone)
  | _ => step c s (resolve s p)
  end.

(* ---------- printing ---------- *)
Definition b01 (b : bool) : string := if b then "1" else "0".

(* one NameEntry as a decimal: Name + 10*Model + 100*OS + 1000*Manufacturer (attribute values 0..9, 0 = "") *)
Definition show_nent (e : nent) : string :=
  dec_of_N (ne_name e + 10 * ne_model e + 100 * ne_os e + 1000 * ne_manuf e).
Definition show_names (n : names) : string :=
  show_nent (n_dhcp n) ++ "." ++ show_nent (n_mdns n) ++ "." ++ show_nent (n_ssdp n) ++ "." ++
  show_nent (n_llmnr n) ++ "." ++ show_nent (n_nbns n).

Definition show_host (e : ip * host) : string :=
  (* key / Host.Addr.IP / MACEntry.MAC / Host.Addr.MAC (one value in the model: the two Go slices must stay equal) *)
  show_ip (fst e) ++ "/" ++ show_ip (h_ip (snd e)) ++ "/" ++ show_mac (h_mac (snd e)) ++ "/" ++ show_mac (h_mac (snd e)) ++ "/" ++
  b01 (h_online (snd e)) ++ b01 (h_dirty (snd e)) ++ "/" ++ dec_of_Z (h_last (snd e)) ++ "/" ++
  show_names (h_names (snd e)) ++
  (* Host.HuntStage: set to normal when the record is created, afterwards written by the application only (op H) and read
     by no step; Host.Manufacturer: the OUI lookup at creation, empty for the MACs of the universe *)
  "/" ++ (if h_stage (snd e) =? 1 then "normal" else if h_stage (snd e) =? 2 then "hunt"
          else if h_stage (snd e) =? 3 then "redirected" else "noop") ++ "/".

Definition show_macent (e : macent) : string :=
  show_mac (m_mac e) ++ "/" ++ b01 (m_online e) ++ b01 (m_captured e) ++ b01 (m_router e) ++ "/" ++
  show_ip (m_ip4 e) ++ "/" ++ show_ip (m_offer e) ++ "/" ++ show_ip (m_gua e) ++ "/" ++ show_ip (m_lla e) ++
  "/[" ++ join "+" (map show_ip (m_hosts e)) ++ "]/" ++ show_names (m_names e) ++ "/".   (* MACEntry.Manufacturer: as above *)

Definition show_tables (s : state) : string :=
  "H:" ++ join "," (map show_host (sorted_hosts s)) ++ "|M:" ++ join "," (map show_macent (macs s)).

Definition show_notif (n : notif) : string :=
  show_ip (nt_ip n) ++ "/" ++ show_mac (nt_mac n) ++ "/" ++ b01 (nt_online n) ++ b01 (nt_router n) ++ "/" ++
  show_names (nt_names n).

Definition show_terr (e : terr) : string :=
  match e with TInvalidIP => "e:InvalidIP" | TIsRouter => "e:IsRouter" end.

Definition show_frame (f : frame) : string :=
  "f:" ++ match fr_host f with Some k => show_ip k | None => "nil" end ++ "/" ++ b01 (fr_online f).

Definition show_out (o : out) : string :=
  match o with
  | ONone => "ok"
  | OFrame f => show_frame f
  | OErr e => show_terr e
  | ONotifs l => "n:" ++ join "," (map show_notif l)
  | OStale => "stale"
  | OPanic => "panic"
  end.

(* the (MAC, IP, online) triples the property talks about *)
Definition show_triple (e : ip * host) : string :=
  show_mac (h_mac (snd e)) ++ "/" ++ show_ip (fst e) ++ "/" ++ b01 (h_online (snd e)).

(* ---------- kind rt: REAL-TIME histories ----------
   The library reads the clock itself (findOrCreateHostWithLock: time.Now() for LastSeen; NewSession).  The harness runs a
   schedule with real sleeps, records time.Now() before and after every call (milliseconds since the start of the
   session; the deadlines of the configuration are milliseconds too) and hands the model TWO time assignments:
     B: every call that stamps LastSeen at the START of its interval, every purge at the END  (most ageing)
     C: every call that stamps LastSeen at the END of its interval, every purge at the START  (least ageing)
   All comparisons of the model are of the form  last < now - deadline, monotone in now - last, so when the two runs give
   the same transcript every choice of instants inside the intervals does.  Otherwise the case is "timing-ambiguous".
   Transcript per step: GetHosts triples | addresses ordered by LastSeen (an ORDER, not values) | drained notifications. *)
Definition last_leb (a b : ip * host) : bool :=
  (h_last (snd a) <? h_last (snd b))%Z || ((h_last (snd a) =? h_last (snd b))%Z && ip_leb (fst a) (fst b)).

Definition show_rt (s : state) (em : list notif) : string :=
  "G:" ++ join "," (map show_triple (sorted_hosts s)) ++
  "|ord=" ++ join "<" (map (fun e => show_ip (fst e)) (sort_by last_leb (sorted_hosts s))) ++
  "|n:" ++ join "," (map (fun n => show_ip (nt_ip n) ++ "/" ++ b01 (nt_online n)) em).

Fixpoint run_rt (c : cfg) (s : state) (ops : list pop) : list string :=
  match ops with
  | [] => []
  | p :: r =>
      let s1 := fst (step c s (resolve s p)) in
      let em := match p with
                | PPurge _ => sort_by (fun a b => ip_leb (nt_ip a) (nt_ip b)) (chan s1)
                | _ => chan s1 end in
      let s2 := set_chan [] s1 in
      show_rt s2 em :: run_rt c s2 r
  end.

Definition rt_transcript (c : cfg) (t0 : Z) (ops : list pop) : option string :=
  match new_session c t0 with
  | Ok s0 => Some (join ";" (show_rt s0 [] :: run_rt c s0 (map (debyte c) ops)))
  | _ => None
  end.

(* args: <cfg> <recorded observation> <t0 B> <t0 C> <ops B ...> <ops C ...> (two halves of equal length) *)
Definition rt_model (args : list string) : string :=
  match args with
  | ctok :: _obs :: tb :: tc :: rest =>
      let n := Nat.div2 (List.length rest) in
      match cfg_of_tok ctok, Z_of_dec tb, Z_of_dec tc, ops_of_toks (firstn n rest), ops_of_toks (skipn n rest) with
      | Some c, Some tb, Some tc, Some opsB, Some opsC =>
          match rt_transcript c tb opsB, rt_transcript c tc opsC with
          | Some x, Some y => if String.eqb x y then x else "timing-ambiguous"
          | _, _ => "panic"
          end
      | _, _, _, _, _ => BADARGS
      end
  | _ => BADARGS
  end.
