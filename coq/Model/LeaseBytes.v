(* Model/LeaseBytes.v — the lease file as BYTES and as a file-system object (round 7).

   1. The byte-level front end of loadConfig/loadByteArray and the back end of saveConfig
      (subnet_lease.go): the integrity line "checksum: <hex sha256 of the rest>\n" is recognised, split and compared
      ON BYTES inside the model.  Two library functions stay parameters — as FUNCTIONS, not as hypotheses:
        sha256hex : bytes -> bytes      fmt.Sprintf("%x", sha256.Sum256(b))
        marshal   : doc -> bytes        yaml.Marshal of the table struct
        unmarshal : bytes -> option doc yaml.Unmarshal into the table struct (None = error)
      What is assumed of them is stated where it is used (Proofs/LeaseBytes.v) and tested differentially by the
      harness (kinds sumline, yamlshort and the random-bytes stream).
   2. saveConfig as a sequence of file-system steps on {lease file, lease file + ".tmp"}:
        create/truncate the temporary file; write the bytes (a crash leaves ANY prefix); rename over the lease file.
      [crash_states] enumerates the file system at every crash point.  loadConfig reads the lease file only.
   Executable; no proofs here. *)
From PV Require Import Base.Prelude Model.LeaseBase Model.Lease.
Open Scope N_scope.

(* "checksum: " *)
Definition sum_key : bytes := [99; 104; 101; 99; 107; 115; 117; 109; 58; 32].
(* the suffix of the temporary file name, ".tmp" (compared with the source on every run: kind consts) *)
Definition tmp_suffix : bytes := [46; 116; 109; 112].

Fixpoint has_prefix (p b : bytes) : bool :=
  match p, b with
  | [], _ => true
  | x :: p', y :: b' => (x =? y) && has_prefix p' b'
  | _ :: _, [] => false
  end.

(* bytes.IndexByte(b, '\n'): the part before the first newline and the part after it *)
Fixpoint split_nl (b : bytes) : option (bytes * bytes) :=
  match b with
  | [] => None
  | x :: r => if x =? 10 then Some ([], r)
              else match split_nl r with
                   | Some (l, rest) => Some (x :: l, rest)
                   | None => None
                   end
  end.

Section Bytes.
  Variable sha256hex : bytes -> bytes.
  Variable marshal : doc -> bytes.
  Variable unmarshal : bytes -> option doc.

  (* loadByteArray, integrity check *)
  Definition sum_verdict (b : bytes) : sumstate :=
    if has_prefix sum_key b then
      match split_nl b with
      | None => SumBad                                                   (* n < 0 *)
      | Some (line, rest) =>
          if bytes_eqb (skipn 10 line) (sha256hex rest) then SumOk else SumBad
      end
    else SumAbsent.

  (* loadConfig on the bytes of an existing file: the checksum error comes before yaml.Unmarshal is called *)
  Definition read_bytes (b : bytes) : input :=
    match sum_verdict b with
    | SumBad => Doc SumBad {| d_net1 := None; d_net2 := None; d_leases := [] |}
    | st => match unmarshal b with
            | Some d => Doc st d
            | None => ReadErr
            end
    end.

  (* saveConfig: the bytes written *)
  Definition write_bytes (d : doc) : bytes :=
    let body := marshal d in sum_key ++ sha256hex body ++ [10] ++ body.

  (* the constructor on a lease file with content b (None: the file does not exist) *)
  Definition new_bytes (c : cfg) (captured : sess) (f : option bytes) : res dstate :=
    new c captured (match f with Some b => read_bytes b | None => ReadErr end).
End Bytes.

(* ---------------------------------------------------------------- *)
(* the two files saveConfig touches *)
Record fsys : Type := { f_lease : option bytes; f_tmp : option bytes }.

(* saveConfig(new content) from ANY file system [fs] (the directory is part of the initial state: the temporary
   file may be absent, or be whatever an earlier, interrupted save left there), step by step.
   ioutil.WriteFile(tmp, ...) = OpenFile(tmp, O_WRONLY|O_CREATE|O_TRUNC) + Write + Close; the open flags are explicit:
   [trunc] = O_TRUNC present (compared with the source on every run: kind consts). *)
Definition tmp_content (fs : fsys) : bytes := match f_tmp fs with Some o => o | None => [] end.
(* write at offset 0 over the existing content: what is beyond the written bytes stays *)
Definition overwrite (written old : bytes) : bytes := written ++ skipn (List.length written) old.

Definition fs_open_tmp (trunc : bool) (fs : fsys) : fsys :=
  {| f_lease := f_lease fs; f_tmp := Some (if trunc then [] else tmp_content fs) |}.
Definition fs_write_tmp (n : nat) (content : bytes) (fs : fsys) : fsys :=
  {| f_lease := f_lease fs; f_tmp := Some (overwrite (firstn n content) (tmp_content fs)) |}.
Definition fs_rename (fs : fsys) : fsys := {| f_lease := f_tmp fs; f_tmp := None |}.

Definition save_fs_flags (trunc : bool) (content : bytes) (fs : fsys) : fsys :=
  fs_rename (fs_write_tmp (List.length content) content (fs_open_tmp trunc fs)).
(* saveConfig as it is: create-or-TRUNCATE, write, rename *)
Definition save_fs (content : bytes) (fs : fsys) : fsys := save_fs_flags true content fs.

(* every file system a crash during saveConfig can leave behind: before the first step, after the open of the
   temporary file, after any prefix of the write, after the complete write, after the rename *)
Definition crash_states (content : bytes) (fs : fsys) : list fsys :=
  fs :: fs_open_tmp true fs
     :: map (fun n => fs_write_tmp n content (fs_open_tmp true fs)) (seq 0 (S (List.length content)))
     ++ [save_fs content fs].
