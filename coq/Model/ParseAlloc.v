(* Model/ParseAlloc.v — allocation-counter model of Session.Parse (C16, cost half).

   The counter mirrors the Go allocation sites on each path of Parse and of the host-table calls
   it makes (hosttable.go:111-155, layer_frame.go:415-465):
     * fmt.Errorf in every IsValid failure (Ether, IP4, IP6, UDP, TCP, ICMP)            1 site
     * ErrParseFrame (ARP) and the bare ErrFrameLen of a tagged header longer than the frame are sentinels  0
     * findOrCreateHostWithLock, fast path (host in table, same MAC): two time stores    0
     * findOrCreateHostWithLock, slow path: &Host{}, CopyMAC / &MACEntry{} when the MAC is new,
       append to MACTable.Table / HostList, map insert                                  >= 2 sites
     * onlineTransition of a host that is not online: Logger.Msg(..) line (pooled buffer, but
       Struct(host.Addr) boxes the Addr into the FastLog interface)                     1 site
     * the Frame is returned by value, the statistics array is preallocated, time.Now does not allocate.
   Whether a site really allocates is decided by the Go compiler (escape analysis, inlining); the
   harness compares the counter's zero / non-zero verdict with testing.AllocsPerRun. *)
From PV Require Export Base.Prelude Base.Slice Model.Parse.
Open Scope N_scope.

(* what the host table holds for the key Parse looks up *)
Inductive hstate := Untracked | TrackedOffline | TrackedOnline.

Definition host_allocs (h : hstate) : nat :=
  match h with
  | TrackedOnline => 0     (* read-locked fast path, host already online *)
  | TrackedOffline => 1    (* fast path, then onlineTransition logs *)
  | Untracked => 3         (* &Host{}, MAC entry / list growth, map insert; then onlineTransition *)
  end.

(* [st] : state of the host table for a given (MAC, IP) key *)
Definition parse_allocs (c : cfg) (st : bytes * bytes -> hstate) (s : slice) : res nat :=
  match parse c s with
  | Ok f => Ok (match f_host f with None => 0%nat | Some k => host_allocs (st k) end)
  | Err EParseFrame => Ok 0%nat
  | Err _ =>
      (* the only ErrFrameLen returned without fmt.Errorf: 14 <= len < HeaderLen() *)
      match ether_header_len s with
      | Ok hl => if Nat.leb 14 (len s) && Nat.ltb (len s) hl then Ok 0%nat else Ok 1%nat
      | _ => Ok 1%nat
      end
  | Panic => Panic
  | Fuel => Fuel
  end.

(* ---- the log level is a mode of the cost.  The log statements on Parse's path (Model/ParseCalls.v parse_logs,
   re-derived from the source): "IP is online" / "IP is offline" in onlineTransition are built under IsInfo; the
   duplicate-IP line of findOrCreateHostWithLock's slow path is unconditional; nothing is guarded by IsDebug. *)
Inductive loglevel := LError | LInfo | LDebug.

Definition host_allocs_lvl (lvl : loglevel) (h : hstate) : nat :=
  match h, lvl with
  | TrackedOnline, _ => 0
  | TrackedOffline, LError => 0       (* the transition happens, its log line is not built *)
  | TrackedOffline, _ => 1
  | Untracked, _ => 3                 (* the host record is allocated at every level *)
  end.

Definition parse_allocs_lvl (lvl : loglevel) (c : cfg) (st : bytes * bytes -> hstate) (s : slice) : res nat :=
  match parse c s with
  | Ok f => Ok (match f_host f with None => 0%nat | Some k => host_allocs_lvl lvl (st k) end)
  | _ => parse_allocs c st s
  end.
