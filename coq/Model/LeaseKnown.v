(* Model/LeaseKnown.v — decidable predicates characterising the recorded defect classes of C18
   (column 3 of the dispatch output; hypotheses of the _partial theorems). *)
From PV Require Import Base.Prelude Model.LeaseBase Model.Lease.
Open Scope N_scope.

(* The three panic classes of the unrepaired code (nil net1 / nil net2 dereference in loadByteArray, IPv6 lan in
   newSubnet) were removed by fix commits in /repo (DESIGN 11 #23); no panic class is left: C18_new_total. *)

(* the loaded net1 is wider than the configured home LAN (configChanged compares LAN.Addr() only,
   not the prefix length), so a binding outside the home LAN passes [net1.LAN.Contains] *)
Definition known_C18_bits (c : cfg) (i : input) : bool :=
  match i with
  | Doc d => match d_net1 d with
             | Some n => pbits (s_lan n) <? pbits (c_home c)
             | None => false
             end
  | _ => false
  end.

(* tables whose Allocated leases do not all survive loadByteArray's validation: an acknowledged lease with
   (a) an empty client id (a client sending option 61 with length 0: still reachable, finding
       restart-drops-empty-clientid), or
   (b) an address outside net1 (was reachable through DESIGN 11 #22 until /repo 7baf630, which makes allocIPOffer
       take a requested address only inside the lease's subnet; kept because the theorem quantifies over ALL
       tables, not only the reachable ones) *)
Definition known_C18_restart (s1 : subnet) (t : table) : bool :=
  existsb (fun l => allocated l &&
                    negb (avalid (r_ip (l_rec l)) && contains (s_lan (n_cfg s1)) (r_ip (l_rec l))
                          && negb (bytes_eqb (r_cid (l_rec l)) []))) t.
