(* Model/LeaseKnown.v — decidable predicates characterising the recorded defect classes of C18
   (column 3 of the dispatch output; hypotheses of the _partial theorems). *)
From PV Require Import Base.Prelude Model.LeaseBase Model.Lease.
Open Scope N_scope.

(* a valid prefix that is not IPv4: newSubnet panics (As4 on an IPv6 address / nil CIDRMask) *)
Definition lan_v6 (o : option subnetcfg) : bool :=
  match o with
  | Some c => pvalid (s_lan c) && negb (is4 (paddr (s_lan c)))
  | None => false
  end.

(* does the validation loop of loadByteArray reach [net1.LAN] / [net2.LAN] with a nil subnet?
   [n1lan]/[n2lan]: the LAN of the validated subnets when present.  Returns 0 (no), 2 (nil net1), 3 (nil net2). *)
Fixpoint nil_deref (captured : sess) (n1lan n2lan : option prefix) (rs : list lease_rec) : N :=
  match rs with
  | [] => 0
  | v :: rest =>
      if negb (r_state v =? 2)%Z || negb (avalid (r_ip v)) then nil_deref captured n1lan n2lan rest
      else match n1lan with
      | None => 2
      | Some l1 =>
          if negb (contains l1 (r_ip v)) then nil_deref captured n1lan n2lan rest
          else match r_cid v with
          | [] => nil_deref captured n1lan n2lan rest
          | _ => if captured (r_mac v)
                 then match n2lan with None => 3 | Some _ => nil_deref captured n1lan n2lan rest end
                 else nil_deref captured n1lan n2lan rest
          end
      end
  end.

Definition lan_of (o : option subnetcfg) : option prefix :=
  match o with
  | Some c => Some (pmasked (s_lan c))
  | None => None
  end.

(* 0: no panic class; 1: IPv6 LAN in the file; 2: leases but no net1; 3: captured lease but no net2.
   Classes 2/3 are only reached when both newSubnet calls returned without error. *)
Definition panic_class (captured : sess) (d : doc) : N :=
  match opt_subnet (d_net1 d) with
  | Panic => 1
  | Ok _ =>
      match opt_subnet (d_net2 d) with
      | Panic => 1
      | Ok _ => nil_deref captured (lan_of (d_net1 d)) (lan_of (d_net2 d)) (d_leases d)
      | _ => 0
      end
  | _ => 0
  end.

Definition known_C18_panic (captured : sess) (i : input) : N :=
  match i with
  | Doc d => panic_class captured d
  | _ => 0
  end.

(* the loaded net1 is wider than the configured home LAN (configChanged compares LAN.Addr() only,
   not the prefix length), so a binding outside the home LAN passes [net1.LAN.Contains] *)
Definition known_C18_bits (c : cfg) (i : input) : bool :=
  match i with
  | Doc d => match d_net1 d with
             | Some n => pbits (s_lan n) <? pbits (c_home c)
             | None => false
             end
  | _ => false
  end.

(* tables whose Allocated leases do not all survive loadByteArray's validation:
   an acknowledged lease with an empty client id or an address outside net1 (reachable through
   DESIGN section 11 #22: the requested address of a DISCOVER is not checked against the subnet) *)
Definition known_C18_restart (s1 : subnet) (t : table) : bool :=
  existsb (fun l => allocated l &&
                    negb (avalid (r_ip (l_rec l)) && contains (s_lan (n_cfg s1)) (r_ip (l_rec l))
                          && negb (bytes_eqb (r_cid (l_rec l)) []))) t.
