(* Model/LeaseKnown.v — predicates used as hypotheses of the C18 theorems.
   No recorded defect class of C18 is left: the three panic classes (nil net1 / nil net2 / IPv6 lan), the in-place
   rewrite, the seven corruption classes (no integrity line), the unchecked prefix length in configChanged, the
   off-subnet leases and the empty client id were all repaired in /repo (known_findings.txt "fixed:" lines). *)
From PV Require Import Base.Prelude Model.LeaseBase Model.Lease.
Open Scope N_scope.

(* A state invariant of the DHCP server (cluster C11/C12), not a defect class: every acknowledged lease can be
   written to and read back from the lease file, i.e. it has a non-empty client id (getClientID falls back to
   chaddr for an absent or zero-length option 61: /repo ec7166b) and a valid address inside net1 (allocIPOffer
   takes a requested address only inside the lease's subnet: /repo 7baf630; net2 lies inside net1 when the
   netfilter prefix does).  It is a hypothesis of C18_restart because that theorem quantifies over ALL tables,
   reachable or not; C18_restart_needs_invariant shows that neither half can be dropped. *)
Definition persistable (s1 : subnet) (t : table) : bool :=
  forallb (fun l => negb (allocated l)
                    || (avalid (r_ip (l_rec l)) && contains (s_lan (n_cfg s1)) (r_ip (l_rec l))
                        && negb (bytes_eqb (r_cid (l_rec l)) []))) t.
