(* Model/LeaseKnown.v — decidable predicates characterising the recorded defect classes of C18
   (column 3 of the dispatch output; hypotheses of the _partial theorems). *)
From PV Require Import Base.Prelude Model.LeaseBase Model.Lease.
Open Scope N_scope.

(* The three panic classes of the unrepaired code (nil net1 / nil net2 dereference in loadByteArray, IPv6 lan in
   newSubnet) were removed by fix commits in /repo (DESIGN 11 #23); no panic class is left: C18_new_total. *)

(* the loaded net1 is wider than the configured home LAN (configChanged compares LAN.Addr() only,
   not the prefix length), so a binding outside the home LAN passes [net1.LAN.Contains] *)
Definition known_C18_bits (c : cfg) (i : input) : bool :=
  match i with
  | Doc _ d => match d_net1 d with
             | Some n => pbits (s_lan n) <? pbits (c_home c)
             | None => false
             end
  | _ => false
  end.

(* Which Allocated leases of a table are dropped by loadByteArray's validation at the next restart. *)

(* the recorded class (finding restart-drops-empty-clientid): an acknowledged lease with an empty client id — a
   client sending option 61 with length 0 is ACKed under the empty id, saveConfig omits it, the load drops it *)
Definition known_C18_restart (t : table) : bool :=
  existsb (fun l => allocated l && bytes_eqb (r_cid (l_rec l)) []) t.

(* a state invariant of the DHCP server, not a defect class: every acknowledged address is a valid address inside
   net1.  Since /repo 7baf630 (allocIPOffer takes a requested address only inside the lease's subnet; C11) no
   reachable table violates it when net2 lies inside net1; before, it was the finding restart-drops-offsubnet-lease.
   It is a hypothesis of C18_restart because that theorem quantifies over ALL tables, reachable or not. *)
Definition alloc_in_net1 (s1 : subnet) (t : table) : bool :=
  forallb (fun l => negb (allocated l)
                    || (avalid (r_ip (l_rec l)) && contains (s_lan (n_cfg s1)) (r_ip (l_rec l)))) t.
