(* Model/ParseAlias.v — the views handed out by Parse as positions inside the caller's buffer (C16).

   In the model an accessor returns [mkSlice (skipn off (arr s)) n]: the storage of the view IS the
   storage of the input from [off] on.  A write through a view is therefore a write into the input's
   storage at [off + i], and conversely; [write_view] / [write_buf] spell that out on the list model and
   Proofs/ParseAlias.v proves that they commute with taking the view. *)
From PV Require Export Base.Prelude Base.Slice Model.Parse.
Open Scope N_scope.

Inductive vname := VE | V4 | V6 | VU | VT | VP | VS | VD.

Definition lift_some (r : res slice) : res (option slice) :=
  match r with Ok x => Ok (Some x) | Err e => Err e | Panic => Panic | Fuel => Fuel end.

(* offset of the view inside the input *)
Definition view_off (f : frame) (w : vname) : nat :=
  match w with
  | VE => 0 | V4 => f_off4 f | V6 => f_off6 f | VU => f_offU f | VT => f_offT f | VP => f_offP f
  | VS => 6 | VD => 0
  end%nat.

(* the view itself; VS / VD are frame.SrcAddr.MAC = p[6:12], frame.DstAddr.MAC = p[:6] *)
Definition view_get (s : slice) (f : frame) (w : vname) : res (option slice) :=
  match w with
  | VE => frame_ether s f | V4 => frame_ip4 s f | V6 => frame_ip6 s f
  | VU => frame_udp s f | VT => frame_tcp s f | VP => frame_payload s f
  | VS => lift_some (sl s 6 12) | VD => lift_some (sl s 0 6)
  end.

(* a view of [n] bytes at [off] of the memory [mem] *)
Definition view_at (mem : bytes) (off n : nat) : slice := mkSlice (skipn off mem) n.

(* memory after view[i] := v, where the view sits at [off] *)
Definition write_view (mem : bytes) (off i : nat) (v : byte) : bytes :=
  (firstn off mem ++ set_nth i v (skipn off mem))%list.
(* memory after buf[j] := v *)
Definition write_buf (mem : bytes) (j : nat) (v : byte) : bytes := set_nth j v mem.

(* indices at which two memories differ *)
Fixpoint diff_at (k : nat) (a b : bytes) : list nat :=
  match a, b with
  | x :: a', y :: b' => if x =? y then diff_at (S k) a' b' else k :: diff_at (S k) a' b'
  | _, _ => []
  end.
