(* Model/LocksStatic.v — projection of the templates to what a syntactic pass over the Go source can
   extract (harness/cmd/c09/static.go): for a set of operations (the paths of one entry function),
   * the set of ACQUIRE CONTEXTS  "<held classes>[>]<class>:<mode>", channel sends/closes with their held
     context, and the goroutines started;
   * the set of tracked fields accessed with no lock held, and written under read locks only.
   Sets are rendered sorted (byte order) and comma-joined: the same canonical text is produced from the AST. *)
From PV Require Import Base.Prelude Base.Text Model.Locks Model.LocksOps.
From Coq Require Import Bool Arith.
Open Scope string_scope.

Definition lockc_name (c : lockc) : string :=
  match c with LSess => "Sess" | LRow => "Row" | LArp => "Arp" | LIcmp6 => "Icmp6" | LDhcp => "Dhcp" | LDns => "Dns" | LPing => "Ping" end.
Definition mode_name (m : mode) : string := match m with MR => "R" | MW => "W" end.
Definition chan_name (c : chan) : string :=
  match c with
  | CNotify => "Session.C" | CSessClose => "Session.closeChan" | CArpClose => "arp.closeChan"
  | CI6Close => "icmp6.closeChan" | CDhcpClose => "dhcp4.closeChan" | CDnsClose => "dns.closeChan"
  end.

Fixpoint insert_str (s : string) (l : list string) : list string :=
  match l with
  | [] => [s]
  | x :: r => if String.eqb s x then l else if String.leb s x then s :: l else x :: insert_str s r
  end.
Definition sort_strs (l : list string) : list string := fold_right insert_str [] l.

Definition held_text (h : list (lockc * mode)) : string :=
  match h with
  | [] => "-"
  | _ => join "+" (fold_right (fun p acc =>
           (* insertion keeping duplicates, byte order *)
           (fix ins (s : string) (l : list string) : list string :=
              match l with [] => [s] | x :: r => if String.leb s x then s :: l else x :: ins s r end)
           (lockc_name (fst p) ++ ":" ++ mode_name (snd p)) acc) [] h)
  end.

Definition no_W (h : list (lockc * mode)) : bool := forallb (fun p => negb (is_W (snd p))) h.

(* events of a tact list walked from held set h *)
Fixpoint sevents (h : list (lockc * mode)) (acts : list (tact op)) : list string * list string :=
  match acts with
  | [] => ([], [])
  | a :: r =>
      match a with
      | TAcq c m =>
          let '(l, f) := sevents ((c, m) :: h) r in
          ((held_text h ++ ">" ++ lockc_name c ++ ":" ++ mode_name m) :: l, f)
      | TRel c => sevents (cremove c h) r
      | TSend c => let '(l, f) := sevents h r in ((held_text h ++ ">send:" ++ chan_name c) :: l, f)
      | TCloseCh c => let '(l, f) := sevents h r in ((held_text h ++ ">close:" ++ chan_name c) :: l, f)
      | TWake c => let '(l, f) := sevents h r in ((held_text h ++ ">close:" ++ chan_name c) :: l, f)
      | TSendIfOpen _ c => let '(l, f) := sevents h r in ((held_text h ++ ">trysend:" ++ chan_name c) :: l, f)
      | TRecv c | TExitIfClosed c => let '(l, f) := sevents h r in ((held_text h ++ ">recv:" ++ chan_name c) :: l, f)
      | TSpawn o => let '(l, f) := sevents h r in (("go:" ++ op_name o) :: l, f)
      | TRd x =>
          let '(l, f) := sevents h r in
          (l, match h with [] => (field_name x ++ ":r") :: f | _ => f end)
      | TWr x =>
          let '(l, f) := sevents h r in
          (l, if no_W h then (field_name x ++ ":w" ++ match h with [] => "" | _ => "@" ++ held_text h end) :: f else f)
      | _ => sevents h r
      end
  end.

Definition show_set (l : list string) : string :=
  match sort_strs l with [] => "none" | s => join "," s end.

Definition ops_of_names (s : string) : option (list op) :=
  fold_right (fun n acc => match op_of_name n, acc with Some o, Some l => Some (o :: l) | _, _ => None end)
             (Some []) (split ","%char s).

(* all writes of tracked fields with the lock classes held *)
Definition swrites (acts : list (tact op)) : list string :=
  flat_map (fun a => match a with
     | (f, true, h) => [field_name f ++ ":w@" ++ held_text h]
     | _ => [] end) (taccs op [] acts).
Definition static_writes (ops : list op) : string :=
  show_set (flat_map (fun o => swrites (flat op (template o))) ops).
Definition static_gocensus : string :=
  show_set (map op_name go_census ++ go_outside_pattern).

Definition static_locks (ops : list op) : string :=
  show_set (flat_map (fun o => fst (sevents [] (flat op (template o)))) ops).
Definition static_unlocked (ops : list op) : string :=
  show_set (flat_map (fun o => snd (sevents [] (flat op (template o)))) ops).
