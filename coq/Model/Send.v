(* Model/Send.v — the send paths of Session (session.go, layer_icmp.go,
   layer_icmp6_ndp.go), one pure function per path:
     send_X : cfg -> args -> junk -> res (list bytes)
   [junk] is the previous content of the pooled buffer (arbitrary, 1522 bytes).
   Result: Ok [frame] = one frame handed to Conn.WriteTo; Ok [] = the function
   returned an error before writing; Panic = the Go code panics.
   The model mirrors the code AS IS (defects included). *)
From PV Require Export Base.Prelude Model.Checksum Model.SendBase.
Open Scope N_scope.

(* ------------------------------------------------------------------ *)
(* session.go:363 arpRequest (purge probe).
   ether := b[0:42]; EncodeEther; arp := ether.Payload() = b[14:cap]
   PutUint16(arp[0:2],1); PutUint16(arp[2:4],0x0800); arp[4]=6; arp[5]=4  (since fix 9359b10)
   PutUint16(arp[6:8],1); copies; WriteTo(ether[:42]) *)
Definition send_arp_request (c : cfg) (dst : bytes) (sender target : addr) (junk : bytes) : res (list bytes) :=
  let b := enc_ether junk 2054 (host_mac c) dst in
  let b := put16 14 1 b in
  let b := put16 16 2048 b in
  let b := set_nth 18 6 b in
  let b := set_nth 19 4 b in
  let b := put16 20 1 b in
  let b := cpy 22 6 (a_mac sender) b in
  let b := cpy 28 4 (a_ip sender) b in
  let b := cpy 32 6 (a_mac target) b in
  let b := cpy 38 4 (a_ip target) b in
  Ok [firstn 42 b].

(* session.go:322 the IPv4 probe of purge *)
Definition send_purge_arp (c : cfg) (ip : bytes) (junk : bytes) : res (list bytes) :=
  send_arp_request c eth_bcast (host_mac c, host_ip4 c) (eth_bcast, ip) junk.

(* ------------------------------------------------------------------ *)
(* layer_ip4.go:66 EncodeIP4(p = b[o:], ttl, src, dst) *)
Definition enc_ip4 (o : nat) (b : bytes) (ttl : N) (src dst : bytes) : bytes :=
  let src := if is4 src then src else ipv4zero in
  let dst := if is4 dst then dst else ipv4zero in
  let b := set_nth o 69 b in
  let b := set_nth (o + 1) 192 b in
  let b := put16 (o + 2) 20 b in
  let b := put16 (o + 4) 0 b in
  let b := put16 (o + 6) 0 b in
  let b := set_nth (o + 8) (u8 ttl) b in
  let b := set_nth (o + 9) 0 b in
  let b := put16 (o + 10) 0 b in
  let b := cpy (o + 12) 4 src b in
  cpy (o + 16) 4 dst b.

(* checksum := p.CalculateChecksum(); p[11] = byte(checksum >> 8); p[10] = byte(checksum)   (p = b[o:]) *)
Definition ip4_write_checksum (o : nat) (b : bytes) : bytes :=
  let c := ip4_calc_checksum (sub b o 20) in
  set_nth (o + 10) (u8 c) (set_nth (o + 11) (u8 (N.shiftr c 8)) b).

(* IP4.AppendPayload(payload, proto) on p = b[o:o+20] with capacity to the end of the buffer.
   None = ErrPayloadTooBig. *)
Definition ip4_append_payload (o : nat) (b : bytes) (payload : bytes) (proto : N) : option bytes :=
  let n := List.length payload in
  if Nat.ltb (EthMaxSize - o - 20) n then None else
  let b := put16 (o + 2) (u16 (20 + N.of_nat n)) b in
  let b := cpy (o + 20) n payload b in
  let b := set_nth (o + 9) (u8 proto) b in
  Some (ip4_write_checksum o b).

(* IP4.SetPayload(payload already in place behind the header, proto) *)
Definition ip4_set_payload (o : nat) (b : bytes) (n : nat) (proto : N) : bytes :=
  let b := set_nth (o + 9) (u8 proto) b in
  let b := put16 (o + 2) (u16 (20 + N.of_nat n)) b in
  ip4_write_checksum o b.

(* layer_icmp.go:82 EncodeICMPEcho on a fresh buffer *)
Definition enc_icmp_echo (t code id seq : N) (data : bytes) : bytes :=
  [u8 t; u8 code; 0; 0; hi8 id; lo8 id; hi8 seq; lo8 seq] ++ data.

Definition hello : bytes := [72;69;76;76;79;45;78;69;84;70;73;76;84;69;82].   (* "HELLO-NETFILTER" *)

(* layer_icmp.go:430 icmp4SendPacket *)
Definition icmp4_send_packet (c : cfg) (src dst : addr) (p : bytes) (junk : bytes) : res (list bytes) :=
  let b := enc_ether junk 2048 (host_mac c) (a_mac dst) in
  let b := enc_ip4 14 b 50 (a_ip src) (a_ip dst) in
  let p := icmp_set_checksum p (checksum p) in
  match ip4_append_payload 14 b p 1 with
  | None => Ok []
  | Some b => Ok [firstn (14 + 20 + List.length p) b]
  end.

(* layer_icmp.go:415 ICMP4SendEchoRequest *)
Definition send_echo4 (c : cfg) (src dst : addr) (id seq : N) (junk : bytes) : res (list bytes) :=
  if negb (is4 (a_ip src)) || negb (is4 (a_ip dst)) then Ok [] else
  icmp4_send_packet c src dst (enc_icmp_echo 8 0 id seq hello) junk.

(* ------------------------------------------------------------------ *)
(* layer_ip6.go:54 EncodeIP6 *)
Definition enc_ip6 (o : nat) (b : bytes) (hop : N) (src dst : bytes) : bytes :=
  let b := set_nth o 96 b in
  let b := set_nth (o + 1) 0 b in
  let b := set_nth (o + 2) 0 b in
  let b := set_nth (o + 3) 0 b in
  let b := put16 (o + 4) 0 b in
  let b := set_nth (o + 6) 59 b in
  let b := set_nth (o + 7) (u8 hop) b in
  let b := cpy (o + 8) 16 (as16 src) b in
  cpy (o + 24) 16 (as16 dst) b.

(* IP6.AppendPayload(payload, nextHeader); None = ErrPayloadTooBig *)
Definition ip6_append_payload (o : nat) (b : bytes) (payload : bytes) (nh : N) : option bytes :=
  let n := List.length payload in
  if Nat.ltb (EthMaxSize - o - 40) n then None else
  let b := cpy (o + 40) n payload b in
  let b := put16 (o + 4) (u16 (N.of_nat n)) b in
  Some (set_nth (o + 6) (u8 nh) b).

(* IP6.SetPayload(payload already in place, nextHeader) *)
Definition ip6_set_payload (o : nat) (b : bytes) (n : nat) (nh : N) : bytes :=
  set_nth (o + 6) (u8 nh) (put16 (o + 4) (u16 (N.of_nat n)) b).

(* layer_icmp.go:464 icmp6SendPacket.  A message that does not fit the buffer: the ErrPayloadTooBig of
   IP6.AppendPayload is returned and nothing is sent (since fix d618c5a; the error was dropped and ip6.Src()
   panicked on the nil packet). *)
(* len(b) > 0 && b[0] >= 133 && b[0] <= 137: a Neighbor Discovery message (RS, RA, NS, NA, Redirect) *)
Definition nd_message (p : bytes) : bool := (133 <=? nth 0 p 0) && (nth 0 p 0 <=? 137).

(* hop limit 255 towards link-local destinations and, since fix 5a5618d, for every Neighbor Discovery message *)
Definition icmp6_send_packet (c : cfg) (src dst : addr) (p : bytes) (junk : bytes) : res (list bytes) :=
  let hop := if ll_unicast (a_ip dst) || ll_multicast (a_ip dst) || nd_message p then 255 else 64 in
  let b := enc_ether junk 34525 (host_mac c) (a_mac dst) in
  let b := enc_ip6 14 b hop (a_ip src) (a_ip dst) in
  match ip6_append_payload 14 b p 58 with
  | None => Ok []
  | Some b =>
      if Nat.ltb (List.length p) 4 then Panic else
      let psh := icmp6_pseudo (sub b 22 16) (sub b 38 16) (N.of_nat (List.length p)) ++ p in
      let cs := checksum psh in
      let b := set_nth 56 (u8 cs) (set_nth 57 (u8 (N.shiftr cs 8)) b) in
      Ok [firstn (54 + List.length p) b]
  end.

(* layer_icmp.go:450 ICMP6SendEchoRequest *)
Definition send_echo6 (c : cfg) (src dst : addr) (id seq : N) (junk : bytes) : res (list bytes) :=
  if negb (is6 (a_ip src)) || negb (is6 (a_ip dst)) then Ok [] else
  icmp6_send_packet c src dst (enc_icmp_echo 128 0 id seq hello) junk.

(* layer_icmp.go:376 ICMP6NeighborSolicitationMarshal(target, sourceLLA):
   b := make(32); b[0]=135; copy(b[8:], target.AsSlice()); b[24]=1; b[25]=1; copy(b[26:], lla)
   (option type 1 since fix 6b9f9d7) *)
Definition ns_marshal (target lla : bytes) : bytes :=
  let b := repeat 0 32 in
  let b := set_nth 0 135 b in
  let b := cpy 8 24 target b in
  let b := set_nth 24 1 b in
  let b := set_nth 25 1 b in
  cpy 26 6 lla b.

(* layer_icmp.go:319 ICMP6NeighborAdvertisementMarshal(router, solicited, override, targetAddr) *)
Definition na_marshal (router solicited override : bool) (target : addr) : bytes :=
  let b := repeat 0 32 in
  let b := set_nth 0 136 b in
  let fl := (if router then 128 else 0) + (if solicited then 64 else 0) + (if override then 32 else 0) in
  let b := set_nth 4 fl b in
  let b := cpy 8 24 (as16 (a_ip target)) b in
  let b := set_nth 24 2 b in
  let b := set_nth 25 1 b in
  cpy 26 6 (a_mac target) b.

(* layer_icmp6_ndp.go:298 ICMP6SendNeighbourSolicitation *)
Definition send_ns (c : cfg) (src dst : addr) (target : bytes) (junk : bytes) : res (list bytes) :=
  icmp6_send_packet c src dst (ns_marshal target (host_mac c)) junk.

(* layer_icmp6_ndp.go:291 ICMP6SendNeighborAdvertisement.  srcAddr.MAC is not used (Ethernet source = NIC MAC);
   targetAddr.MAC is the TLLA option: since fix 1cf31e2 a target MAC that is not 6 bytes is refused (ErrInvalidMAC) *)
Definition send_na (c : cfg) (src dst target : addr) (junk : bytes) : res (list bytes) :=
  if negb (Nat.eqb (List.length (a_mac target)) 6) then Ok [] else
  icmp6_send_packet c src dst (na_marshal false false true target) junk.
