(* Model/ParseCalls.v — which functions each branch of Session.Parse calls, and which of them can allocate (C16, cost
   half).  The table is the source the allocation counter of Model/ParseAlloc.v was written from; the harness
   (harness/cmd/c16/calls.go) re-derives it from layer_frame.go with go/ast on every run and compares branch by
   branch (dispatch kind "calls"): a call added to a branch is a disagreement even when no measurement notices it.

   Branch names: "top" = Parse outside its two switches; "et:N" = case N of the EtherType switch; "proto:N" = case N of
   the protocol switch (the UDP port switch included).  Callee names: ".M" = method M (receiver dropped), "pkg.F",
   identifiers for package functions.  Left out on both sides (inert: cannot allocate by construction, and a
   behaviour-preserving refactoring may add or drop them): the builtins len / cap, type conversions (IP4(..), ICMP(..),
   net.HardwareAddr(..), parenthesised array-pointer conversions) and the field getter Frame.Ether().  Each branch is a set. *)
From PV Require Export Base.Text.
Open Scope string_scope.

Inductive alloc_kind :=
| NoAlloc      (* field reads, re-slicing, conversions, netip value operations, atomics, mutex-guarded map lookup *)
| OnError      (* allocates only on its error path: fmt.Errorf inside a failing IsValid *)
| HostPath     (* findOrCreateHostWithLock: zero on the read-locked fast path, allocates when the host is new *)
| LogPath.     (* hostOnline: zero when the host is already online, logs (allocates) on the transition *)

Definition callee_kind (name : string) : alloc_kind :=
  if String.eqb name ".IsValid" then OnError
  else if String.eqb name ".findOrCreateHostWithLock" then HostPath
  else if String.eqb name ".hostOnline" then LogPath
  else NoAlloc.

Definition leaf_calls : list string := [".HeaderLen"].

Definition parse_calls : list (string * list string) :=
  [ ("et:2048", [".Contains"; ".Dst"; ".IHL"; ".IsValid"; ".Payload"; ".Protocol"; ".Src"; ".findOrCreateHostWithLock";
                 ".hostOnline"; ".markOnlineTransition"; "atomic.StoreUint32"; "bytes.Equal"])
  ; ("et:2054", [".Contains"; ".Payload"; ".findOrCreateHostWithLock"; ".hostOnline"; ".markOnlineTransition";
                 "bytes.Equal"; "netip.AddrFrom4"])
  ; ("et:26992", leaf_calls)
  ; ("et:34525", [".Dst"; ".HeaderLen"; ".IsGlobalUnicast"; ".IsLinkLocalUnicast"; ".IsValid"; ".NextHeader"; ".Payload";
                  ".Src"; ".findOrCreateHostWithLock"; ".hostOnline"; ".markOnlineTransition";
                  "atomic.StoreUint32"; "bytes.Equal"])
  ; ("et:34824", leaf_calls) ; ("et:34826", leaf_calls) ; ("et:34969", leaf_calls) ; ("et:35020", leaf_calls)
  ; ("et:35085", leaf_calls) ; ("et:35130", leaf_calls)
  ; ("et:default", [])
  (* the helpers on Parse's steady-state path, as LEAF sets: callees that are functions / methods of package packet are
     expanded transitively, what is listed are builtins and calls into other packages - so extracting or inlining a
     package-local helper does not change a set *)
  ; ("fn:echoNotify", [".Lock"; ".Unlock"; "close"; "delete"])
  ; ("fn:findOrCreateHostWithLock", [".IP"; ".IsDebug"; ".Lock"; ".Msg"; ".RLock"; ".RUnlock"; ".Struct"; ".Unlock"; ".Write"; "append";
                                     "bytes.Equal"; "copy"; "delete"; "fmt.Sprintf"; "make"; "panic"; "string"; "time.Now"])
  ; ("fn:hostOnline", [".IP"; ".Is4"; ".IsGlobalUnicast"; ".IsInfo"; ".IsLinkLocalUnicast"; ".Lock"; ".Msg"; ".Struct"; ".Unlock"; ".Write"])
  ; ("proto:1", [".EchoID"; ".IP4"; ".IsValid"; ".Payload"; ".Type"; ".Version"; "echoNotify"])
  ; ("proto:17", [".DstPort"; ".HeaderLen"; ".IsValid"; ".Payload"; ".SrcPort"])
  ; ("proto:2", [])
  ; ("proto:58", [".EchoID"; ".IP6"; ".IsValid"; ".Payload"; ".Type"; ".Version"; "echoNotify"])
  ; ("proto:6", [".DstPort"; ".IsValid"; ".Payload"; ".SrcPort"])
  ; ("top", [".Dst"; ".EtherType"; ".HeaderLen"; ".IsValid"; ".Src"; "IsUnicastMAC"]) ].


Fixpoint calls_of (b : string) (t : list (string * list string)) : option (list string) :=
  match t with
  | [] => None
  | (n, l) :: r => if String.eqb n b then Some l else calls_of b r
  end.

Definition show_calls (b : string) : option string :=
  if String.eqb b "branches" then Some (join "," (map fst parse_calls))
  else option_map (fun l => match l with [] => "-" | _ => join "," l end) (calls_of b parse_calls).

(* inside the helpers: what can allocate there.  Building a log line (Msg .. Write; Struct boxes its argument), growing
   the tables (append, make, copy into a fresh slice, string conversion, fmt.Sprintf).  Mutex operations, close / delete
   on a map, bytes.Equal, time.Now, the level tests and the netip predicates do not. *)
Definition helper_may_alloc (name : string) : bool :=
  existsb (String.eqb name) [".Msg"; ".Struct"; ".IP"; ".Write"; "append"; "make"; "copy"; "string"; "fmt.Sprintf"; "panic"].
Definition helper_alloc_free (b : string) : bool :=
  match calls_of b parse_calls with
  | Some l => forallb (fun n => negb (helper_may_alloc n)) l
  | None => false
  end.

(* does a branch call something of this kind? *)
Definition is_kind (k : alloc_kind) (name : string) : bool :=
  match callee_kind name, k with
  | NoAlloc, NoAlloc | OnError, OnError | HostPath, HostPath | LogPath, LogPath => true
  | _, _ => false
  end.
Definition branch_has (k : alloc_kind) (b : string * list string) : bool := existsb (is_kind k) (snd b).
Definition branches_with (k : alloc_kind) : list string := map fst (filter (branch_has k) parse_calls).

(* the log statements on Parse's path with the level that guards them: per function the multiset of guards (the message
   text is not part of the property and is not compared); kind "logs" *)
Definition parse_logs : list (string * string) :=
  [ ("findOrCreateHostWithLock", "always")
  ; ("onlineTransition", "info")
  ; ("onlineTransition", "info") ].
Definition show_logs : string := join "," (map (fun r => fst r ++ ":" ++ snd r) parse_logs).
