(* Model/EncodeBase.v — write primitives on Go slices used by the encoders
   (C03).  Every primitive has Go's exact panic rule: index expressions
   check the LENGTH, slice expressions check the CAPACITY.  A slice is the
   storage from its start to the end of its capacity (Base/Slice.v), so a
   sub-slice p[n:] / p[n:cap(p)] is a suffix of the parent's storage and a
   write through it is written back with [writeback]. *)
From PV Require Export Base.Prelude Base.Slice.
Open Scope N_scope.

Definition hi8 (v : N) : byte := (v / 256) mod 256.
Definition lo8 (v : N) : byte := v mod 256.

(* p[i] = v *)
Definition seti (s : slice) (i : nat) (v : byte) : res slice :=
  if Nat.ltb i (len s) then Ok (mkSlice (set_nth i v (arr s)) (len s)) else Panic.

(* binary.BigEndian.PutUint16(p[a:a+2], v) *)
Definition put16 (s : slice) (a : nat) (v : N) : res slice :=
  if Nat.leb (a + 2) (cap s)
  then Ok (mkSlice (set_nth a (hi8 v) (set_nth (a + 1) (lo8 v) (arr s))) (len s))
  else Panic.

(* binary.BigEndian.PutUint16(p[a:], v): p[a:] checks a <= len, PutUint16 needs 2 bytes of LENGTH *)
Definition put16_from (s : slice) (a : nat) (v : N) : res slice :=
  if Nat.leb (a + 2) (len s)
  then Ok (mkSlice (set_nth a (hi8 v) (set_nth (a + 1) (lo8 v) (arr s))) (len s))
  else Panic.

(* copy(p[a:b], src): the slice expression checks a <= b <= cap, copy truncates to b-a *)
Definition copyto (s : slice) (a b : nat) (src : bytes) : res slice :=
  if Nat.leb a b && Nat.leb b (cap s)
  then Ok (mkSlice (blit a (firstn (b - a) src) (arr s)) (len s))
  else Panic.

(* copy(p[a:], src): checks a <= len, copy truncates to len-a *)
Definition copyfrom (s : slice) (a : nat) (src : bytes) : res slice :=
  if Nat.leb a (len s)
  then Ok (mkSlice (blit a (firstn (len s - a) src) (arr s)) (len s))
  else Panic.

(* p[:n] *)
Definition reslice (s : slice) (n : nat) : res slice :=
  if Nat.leb n (cap s) then Ok (mkSlice (arr s) n) else Panic.

(* the nil slice *)
Definition nil_slice : slice := mkSlice [] 0.

(* a child slice that is a suffix of p's storage was written: put it back *)
Definition writeback (p : slice) (child_arr : bytes) : slice :=
  mkSlice (firstn (cap p - List.length child_arr) (arr p) ++ child_arr) (len p).

(* netip.Addr as the byte string AsSlice() returns: 0 bytes (zero Addr),
   4 bytes (Is4) or 16 bytes (Is6, including 4-in-6 mapped). *)
Definition is4 (a : bytes) : bool := Nat.eqb (List.length a) 4.
Definition is16 (a : bytes) : bool := Nat.eqb (List.length a) 16.
Definition ipv4zero : bytes := [0; 0; 0; 0].
(* Addr.As16(): v4 -> ::ffff:a.b.c.d ; zero Addr -> 16 zero bytes *)
Definition as16 (a : bytes) : bytes :=
  if is4 a then [0;0;0;0;0;0;0;0;0;0;255;255] ++ a
  else if is16 a then a else repeat 0 16.

(* ---------------------------------------------------------------- *)
(* Test buffers of the correspondence: capacity, length and a poison
   pattern determined by a seed, so that case lines stay short. *)
Fixpoint poison_from (i seed : N) (n : nat) : bytes :=
  match n with
  | O => []
  | S k => ((seed + 73 * i + i / 251) mod 256) :: poison_from (i + 1) seed k
  end.
Definition poison (seed : N) (n : nat) : bytes := poison_from 0 seed n.

(* smallest window [off, off+|w|) outside of which two equally long lists agree *)
Fixpoint drop_common (a b : bytes) (off : nat) : nat * bytes * bytes :=
  match a, b with
  | x :: a', y :: b' => if x =? y then drop_common a' b' (S off) else (off, a, b)
  | _, _ => (off, a, b)
  end.
Definition diff_hull (old new : bytes) : option (nat * bytes) :=
  match drop_common old new 0 with
  | (off, a, b) =>
      match drop_common (rev a) (rev b) 0 with
      | (_, _, rb) => match rb with [] => None | _ => Some (off, rev rb) end
      end
  end.

(* ---------------------------------------------------------------- *)
(* Cheap poison for volume runs: a ramp of period 251 (no alignment with
   powers of two, adjacent bytes differ) starting at [seed mod 251]. *)
Fixpoint ramp_from (b : N) (n : nat) : bytes :=
  match n with
  | O => []
  | S k => b :: ramp_from (if b =? 250 then 0 else N.succ b) k
  end.
Definition ramp (seed : N) (n : nat) : bytes := ramp_from (seed mod 251) n.
Definition mkbuf (cap len : nat) (seed : N) : slice := mkSlice (ramp seed cap) len.

(* the same window computed in one linear pass (List.rev is quadratic):
   first and last index at which the two lists differ *)
Fixpoint diff_span (a b : bytes) (i : nat) (acc : option (nat * nat)) : option (nat * nat) :=
  match a, b with
  | x :: a', y :: b' =>
      diff_span a' b' (S i)
        (if x =? y then acc
         else match acc with None => Some (i, i) | Some (f, _) => Some (f, i) end)
  | _, _ => acc
  end.
Definition diff_window (old new : bytes) : option (nat * bytes) :=
  match diff_span old new 0 None with
  | None => None
  | Some (f, l) => Some (f, sub new f (l - f + 1))
  end.
