(* Model/LeaseBase.v — the part of net/netip the lease-file code uses
   (Addr, Prefix, IsValid, Is4, IsUnspecified, Masked, Contains, Next, ==),
   re-stated from the Go 1.23 stdlib source.  Executable; no proofs here.
   Owned by the LEASE cluster (C18). *)
From PV Require Import Base.Prelude.
Open Scope N_scope.

(* netip.Addr: the zero Addr (invalid), an IPv4 address (32-bit value), or an
   IPv6 address (128-bit value, zone).  IPv4-mapped IPv6 addresses are A6. *)
Inductive addr : Type :=
| AInv
| A4 (n : N)
| A6 (v : N) (zone : bytes).

Fixpoint bytes_eqb (a b : bytes) : bool :=
  match a, b with
  | [], [] => true
  | x :: a', y :: b' => (x =? y) && bytes_eqb a' b'
  | _, _ => false
  end.

Definition addr_eqb (a b : addr) : bool :=
  match a, b with
  | AInv, AInv => true
  | A4 n, A4 m => n =? m
  | A6 v z, A6 w y => (v =? w) && bytes_eqb z y
  | _, _ => false
  end.

Definition avalid (a : addr) : bool := match a with AInv => false | _ => true end.
Definition is4 (a : addr) : bool := match a with A4 _ => true | _ => false end.
(* ip == IPv4Unspecified() || ip == IPv6Unspecified() *)
Definition is_unspec (a : addr) : bool :=
  match a with
  | A4 n => n =? 0
  | A6 v z => (v =? 0) && bytes_eqb z []
  | AInv => false
  end.

(* Addr.Next: the zero Addr on wrap-around *)
Definition anext (a : addr) : addr :=
  match a with
  | AInv => AInv
  | A4 n => if n + 1 <? 2 ^ 32 then A4 (n + 1) else AInv
  | A6 v z => if v + 1 <? 2 ^ 128 then A6 (v + 1) z else AInv
  end.

(* a.Less(b) on valid IPv4 addresses (bit length first, then value) *)
Definition aless (a b : addr) : bool :=
  match a, b with
  | AInv, AInv => false
  | AInv, _ => true
  | A4 _, AInv => false
  | A4 n, A4 m => n <? m
  | A4 _, A6 _ _ => true
  | A6 _ _, A6 _ _ => false (* not used on this path *)
  | A6 _ _, _ => false
  end.

(* netip.Prefix: the zero Prefix, or address + bits as produced by ParsePrefix/PrefixFrom
   (no zone; bits within the family's width). *)
Inductive prefix : Type :=
| PInv
| P (a : addr) (bits : N).

Definition paddr (p : prefix) : addr := match p with PInv => AInv | P a _ => a end.
Definition pbits (p : prefix) : N := match p with PInv => 0 | P _ b => b end.

Definition pvalid (p : prefix) : bool :=
  match p with
  | PInv => false
  | P AInv _ => false
  | P (A4 _) b => b <=? 32
  | P (A6 _ _) b => b <=? 128
  end.

Definition maskw (w bits n : N) : N := (n / 2 ^ (w - bits)) * 2 ^ (w - bits).
Definition mask4 (bits n : N) : N := maskw 32 bits n.

(* Prefix.Masked *)
Definition pmasked (p : prefix) : prefix :=
  match p with
  | P (A4 n) b => P (A4 (mask4 b n)) b
  | P (A6 v z) b => P (A6 (maskw 128 b v) []) b
  | _ => p
  end.

(* Prefix.Contains: false for an invalid prefix, a zoned address, or different families *)
Definition contains (p : prefix) (ip : addr) : bool :=
  pvalid p &&
  match p, ip with
  | P (A4 n) b, A4 m => (n / 2 ^ (32 - b)) =? (m / 2 ^ (32 - b))
  | P (A6 v _) b, A6 w [] => (v / 2 ^ (128 - b)) =? (w / 2 ^ (128 - b))
  | _, _ => false
  end.

Definition prefix_eqb (p q : prefix) : bool :=
  match p, q with
  | PInv, PInv => true
  | P a b, P c d => addr_eqb a c && (b =? d)
  | _, _ => false
  end.
