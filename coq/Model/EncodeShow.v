(* Model/EncodeShow.v — canonical text of the observations compared by the
   C03 correspondence: what an encoder did to the caller's buffer (result
   length/capacity and the smallest window of the buffer that changed), and
   what the library's getters read back from the result. *)
From PV Require Export Base.Text Model.Encode Model.EncodeCompose Spec.OnesComplement.
Open Scope string_scope.
Open Scope N_scope.

Definition sp (a b : string) : string := a ++ " " ++ b.
Definition kv (k v : string) : string := k ++ "=" ++ v.
Definition dn (n : nat) : string := dec_of_nat n.

(* smallest changed window of the buffer: "-" or "off:hex" *)
Definition show_hull (old new : bytes) : string :=
  match diff_window old new with
  | None => "-"
  | Some (off, w) => dn off ++ ":" ++ hex_of_bytes w
  end.

(* result of an encoder writing into the buffer whose storage was [old] *)
Definition show_enc (old : bytes) (r : res slice) : string :=
  match r with
  | Ok s => sp (sp (sp "ok" (dn (len s))) (dn (cap s))) (show_hull old (arr s))
  | Err e => sp ("err:" ++ show_err e) "-"
  | Panic => "panic"
  | Fuel => "fuel"
  end.

(* a sub-slice [c] of [p] (suffix of p's storage): "off+len", or "empty" when it has no capacity *)
Definition show_win (p c : slice) : string :=
  if Nat.eqb (cap c) 0 then "empty" else dn (cap p - cap c) ++ "+" ++ dn (len c).

Definition rN (r : res N) : string := show_res dec_of_N r.
Definition rNat (r : res nat) : string := show_res dn r.
Definition rB (r : res bytes) : string := show_res tok_of_bytes r.
Definition rT (r : res bool) : string := show_res show_bool r.
Definition rW (p : slice) (r : res slice) : string := show_res (show_win p) r.

(* ---- Ether ---- *)
Definition fmt_ether (d s t hl pl : string) : string :=
  sp (sp (sp (sp (kv "d" d) (kv "s" s)) (kv "t" t)) (kv "hl" hl)) (kv "pl" pl).
Definition rb_ether (e : slice) : string :=
  fmt_ether (rB (ether_dst e)) (rB (ether_src e)) (rN (ether_type e)) (rNat (ether_hlen e))
            (rW e (ether_payload e)).

(* ---- IPv4 ---- *)
Definition fmt_ip4 (v ihl tos tl id fl ttl pr s d ok cv pl : string) : string :=
  sp (sp (sp (sp (sp (sp (sp (sp (sp (sp (sp (sp (kv "v" v) (kv "ihl" ihl)) (kv "tos" tos)) (kv "tl" tl))
     (kv "id" id)) (kv "fl" fl)) (kv "ttl" ttl)) (kv "pr" pr)) (kv "s" s)) (kv "d" d)) (kv "ok" ok))
     (kv "cv" cv)) (kv "pl" pl).
(* cv: do the first 20 bytes verify as an RFC 1071 checksummed header *)
Definition ip4_hdr_verifies (p : slice) : string :=
  if Nat.leb 20 (len p) then show_bool (verifiesb (firstn 20 (arr p))) else "short".
Definition rb_ip4 (p : slice) : string :=
  fmt_ip4 (rN (ip4_version p)) (rNat (ip4_ihl p)) (rN (ip4_tos p)) (rNat (ip4_totlen p)) (rN (ip4_id p))
          (rN (ip4_flags p)) (rN (ip4_ttl p)) (rN (ip4_protocol p)) (rB (ip4_src p)) (rB (ip4_dst p))
          (rT (ip4_is_valid p)) (ip4_hdr_verifies p) (rW p (ip4_payload p)).

(* ---- UDP ---- *)
Definition fmt_udp (s d ln ck ok pl : string) : string :=
  sp (sp (sp (sp (sp (kv "sp" s) (kv "dp" d)) (kv "ln" ln)) (kv "ck" ck)) (kv "ok" ok)) (kv "pl" pl).
Definition rb_udp (p : slice) : string :=
  fmt_udp (rN (udp_srcport p)) (rN (udp_dstport p)) (rN (udp_len p)) (rN (udp_checksum p))
          (show_bool (udp_is_valid p)) (rW p (udp_payload p)).

(* ---- Parse classification ---- *)
Definition show_class (r : res (N * bool)) : string :=
  show_res (fun x => dec_of_N (fst x) ++ "/" ++ show_bool (snd x)) r.

(* ---- IPv6 ---- *)
Definition fmt_ip6 (v pl nh hop s d ok w : string) : string :=
  sp (sp (sp (sp (sp (sp (sp (kv "v" v) (kv "plen" pl)) (kv "nh" nh)) (kv "hop" hop)) (kv "s" s)) (kv "d" d))
     (kv "ok" ok)) (kv "pl" w).
Definition rb_ip6 (p : slice) : string :=
  fmt_ip6 (rN (ip6_version p)) (rN (ip6_payloadlen p)) (rN (ip6_nextheader p)) (rN (ip6_hoplimit p))
          (rB (ip6_src p)) (rB (ip6_dst p)) (rT (ip6_is_valid p)) (rW p (ip6_payload p)).

(* ---- ARP ---- *)
Definition fmt_arp (ht pr hl pl op sm si dm di ok : string) : string :=
  sp (sp (sp (sp (sp (sp (sp (sp (sp (kv "ht" ht) (kv "pr" pr)) (kv "hl" hl)) (kv "pl" pl)) (kv "op" op))
     (kv "sm" sm)) (kv "si" si)) (kv "dm" dm)) (kv "di" di)) (kv "ok" ok).
Definition rb_arp (p : slice) : string :=
  fmt_arp (rN (arp_htype p)) (rN (arp_proto p)) (rN (arp_hlen p)) (rN (arp_plen p)) (rN (arp_op p))
          (rB (arp_srcmac p)) (rB (arp_srcip p)) (rB (arp_dstmac p)) (rB (arp_dstip p)) (rT (arp_is_valid p)).

(* ---- ICMP echo ---- *)
Definition fmt_echo (t c ck id sq ok w : string) : string :=
  sp (sp (sp (sp (sp (sp (kv "t" t) (kv "c" c)) (kv "ck" ck)) (kv "id" id)) (kv "seq" sq)) (kv "ok" ok)) (kv "data" w).
Definition rb_echo (p : slice) : string :=
  fmt_echo (rN (icmp_type p)) (rN (icmp_code p)) (rN (icmp_checksum p)) (rN (echo_id p)) (rN (echo_seq p))
           (show_bool (echo_is_valid p)) (rW p (echo_data p)).

(* ---- NDP NS / NA: the marshal functions return a fresh 32-byte slice: full bytes are shown ---- *)
Definition show_olla (r : res (option bytes)) : string :=
  show_res (fun o => match o with Some m => tok_of_bytes m | None => "nil" end) r.
Definition fmt_na (t c r s o tg lla ok : string) : string :=
  sp (sp (sp (sp (sp (sp (sp (kv "t" t) (kv "c" c)) (kv "R" r)) (kv "S" s)) (kv "O" o)) (kv "tgt" tg))
     (kv "lla" lla)) (kv "ok" ok).
Definition rb_na (p : slice) : string :=
  fmt_na (rN (icmp_type p)) (rN (icmp_code p)) (rT (na_router p)) (rT (na_solicited p)) (rT (na_override p))
         (rB (nd_target p)) (show_olla (na_target_lla p)) (show_bool (nd_is_valid p)).
Definition fmt_ns (t c tg lla ok : string) : string :=
  sp (sp (sp (sp (kv "t" t) (kv "c" c)) (kv "tgt" tg)) (kv "lla" lla)) (kv "ok" ok).
Definition rb_ns (p : slice) : string :=
  fmt_ns (rN (icmp_type p)) (rN (icmp_code p)) (rB (nd_target p)) (show_olla (ns_source_lla p))
         (show_bool (nd_is_valid p)).
(* a freshly allocated result: length, capacity, all bytes *)
Definition show_fresh (r : res slice) : string :=
  match r with
  | Ok s => sp (sp (sp "ok" (dn (len s))) (dn (cap s))) (tok_of_bytes (view s))
  | Err e => "err:" ++ show_err e
  | Panic => "panic"
  | Fuel => "fuel"
  end.

(* ---- DNS query ---- *)
Fixpoint join_labels (ls : list bytes) : bytes :=
  match ls with
  | [] => []
  | [l] => l
  | l :: r => ((l ++ [46]) ++ join_labels r)%list
  end.
Definition show_question (r : res dns_question) : string :=
  match r with
  | Ok q => sp (sp (sp (kv "name" (tok_of_bytes (join_labels (q_labels q)))) (kv "qt" (dec_of_N (q_type q))))
               (kv "qc" (dec_of_N (q_class q)))) (kv "end" (dn (q_end q)))
  | Err ENotFound => "unmodelled"
  | Err e => "err:" ++ show_err e
  | Panic => "panic"
  | Fuel => "fuel"
  end.
Definition fmt_dns (id fl qd an ns ar q : string) : string :=
  sp (sp (sp (sp (sp (sp (kv "id" id) (kv "fl" fl)) (kv "qd" qd)) (kv "an" an)) (kv "ns" ns)) (kv "ar" ar)) q.
Definition rb_dns (p : slice) : string :=
  fmt_dns (rN (dns_tranid p)) (rN (dns_flags p)) (rN (dns_qdcount p)) (rN (dns_ancount p)) (rN (dns_nscount p))
          (rN (dns_arcount p)) (show_question (dns_decode_question p)).
