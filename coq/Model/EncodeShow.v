(* Model/EncodeShow.v — canonical text of the observations compared by the
   C03 correspondence: what an encoder did to the caller's buffer (result
   length/capacity and the smallest window of the buffer that changed), and
   what the library's getters read back from the result. *)
From PV Require Export Base.Text Model.Encode Model.EncodeCompose Spec.OnesComplement.
Open Scope string_scope.
Open Scope N_scope.

Definition sp (a b : string) : string := a ++ " " ++ b.
Definition kv (k v : string) : string := k ++ "=" ++ v.
Definition dn (n : nat) : string := dec_of_nat n.

(* smallest changed window of the buffer: "-" or "off:hex" *)
Definition show_hull (old new : bytes) : string :=
  match diff_window old new with
  | None => "-"
  | Some (off, w) => dn off ++ ":" ++ hex_of_bytes w
  end.

(* result of an encoder writing into the buffer whose storage was [old] *)
Definition show_enc (old : bytes) (r : res slice) : string :=
  match r with
  | Ok s => sp (sp (sp "ok" (dn (len s))) (dn (cap s))) (show_hull old (arr s))
  | Err e => sp ("err:" ++ show_err e) "-"
  | Panic => "panic"
  | Fuel => "fuel"
  end.

(* a sub-slice [c] of [p] (suffix of p's storage): "off+len", or "empty" when it has no capacity *)
Definition show_win (p c : slice) : string :=
  if Nat.eqb (cap c) 0 then "empty" else dn (cap p - cap c) ++ "+" ++ dn (len c).

Definition rN (r : res N) : string := show_res dec_of_N r.
Definition rNat (r : res nat) : string := show_res dn r.
Definition rB (r : res bytes) : string := show_res tok_of_bytes r.
Definition rT (r : res bool) : string := show_res show_bool r.
Definition rW (p : slice) (r : res slice) : string := show_res (show_win p) r.

(* ---- Ether ---- *)
Definition fmt_ether (d s t hl pl : string) : string :=
  sp (sp (sp (sp (kv "d" d) (kv "s" s)) (kv "t" t)) (kv "hl" hl)) (kv "pl" pl).
Definition rb_ether (e : slice) : string :=
  fmt_ether (rB (ether_dst e)) (rB (ether_src e)) (rN (ether_type e)) (rNat (ether_hlen e))
            (rW e (ether_payload e)).

(* ---- IPv4 ---- *)
Definition fmt_ip4 (v ihl tos tl id fl ttl pr s d ok cv pl : string) : string :=
  sp (sp (sp (sp (sp (sp (sp (sp (sp (sp (sp (sp (kv "v" v) (kv "ihl" ihl)) (kv "tos" tos)) (kv "tl" tl))
     (kv "id" id)) (kv "fl" fl)) (kv "ttl" ttl)) (kv "pr" pr)) (kv "s" s)) (kv "d" d)) (kv "ok" ok))
     (kv "cv" cv)) (kv "pl" pl).
(* cv: do the first 20 bytes verify as an RFC 1071 checksummed header *)
Definition ip4_hdr_verifies (p : slice) : string :=
  if Nat.leb 20 (len p) then show_bool (verifiesb (firstn 20 (arr p))) else "short".
Definition rb_ip4 (p : slice) : string :=
  fmt_ip4 (rN (ip4_version p)) (rNat (ip4_ihl p)) (rN (ip4_tos p)) (rNat (ip4_totlen p)) (rN (ip4_id p))
          (rN (ip4_flags p)) (rN (ip4_ttl p)) (rN (ip4_protocol p)) (rB (ip4_src p)) (rB (ip4_dst p))
          (rT (ip4_is_valid p)) (ip4_hdr_verifies p) (rW p (ip4_payload p)).

(* ---- UDP ---- *)
Definition fmt_udp (s d ln ck ok pl : string) : string :=
  sp (sp (sp (sp (sp (kv "sp" s) (kv "dp" d)) (kv "ln" ln)) (kv "ck" ck)) (kv "ok" ok)) (kv "pl" pl).
Definition rb_udp (p : slice) : string :=
  fmt_udp (rN (udp_srcport p)) (rN (udp_dstport p)) (rN (udp_len p)) (rN (udp_checksum p))
          (show_bool (udp_is_valid p)) (rW p (udp_payload p)).

(* ---- Parse classification ---- *)
Definition show_class (r : res (N * bool)) : string :=
  show_res (fun x => dec_of_N (fst x) ++ "/" ++ show_bool (snd x)) r.
