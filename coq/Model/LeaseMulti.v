(* Model/LeaseMulti.v — several handler instances over ONE lease file (round 10).
   Nothing in the library forbids two handlers on one file (a handler being replaced: h2 := New(same file) while h1
   still exists).  The file is shared state, each handler has its own table; the file is written by SPECIFIC
   operations only.  [writes_file] makes that set explicit; it is tied to the source (kind writers: the exported API
   functions of the package that transitively reach saveConfig, from go/ast) and to the behaviour (after every API
   call the harness checks through the inode whether the file was rewritten).
   The table is abstract here (a list of client labels, serialised as itself); what a handler operation does to its
   own table is the DHCP model's business (Model/DHCP.v), only WHO writes WHEN matters.  Executable; no proofs. *)
From PV Require Import Base.Prelude.
Open Scope N_scope.

(* the API of a handler, as far as the file is concerned *)
Inductive mkind : Type :=
| KNew            (* Config.New: loads the file, then saves *)
| KAck            (* ProcessPacket ending in an ACK (handleRequest success path) *)
| KDrop           (* ProcessPacket / MinuteTicker dropping a binding: DECLINE, SELECT for another server, replaced
                     lease, expired leases freed, lease deleted on an exhausted pool (/repo 9517ed8) *)
| KQuiet          (* ProcessPacket / MinuteTicker that neither acknowledges nor drops: DISCOVER/OFFER, NAK, RELEASE *)
| KClose          (* Handler.Close *)
| KOther.         (* StartHunt, StopHunt, PrintTable, Mode, SetMode *)

Definition writes_file (k : mkind) : bool :=
  match k with KNew | KAck | KDrop => true | KQuiet | KClose | KOther => false end.


Definition mtable := list N.              (* labels of the acknowledged clients *)
Record mstate : Type := { m_file : mtable; m_tables : list (N * mtable) }.   (* handler id -> table *)

Fixpoint tbl_get (h : N) (ts : list (N * mtable)) : mtable :=
  match ts with
  | [] => []
  | (h', t) :: r => if h' =? h then t else tbl_get h r
  end.
Fixpoint tbl_set (h : N) (t : mtable) (ts : list (N * mtable)) : list (N * mtable) :=
  match ts with
  | [] => [(h, t)]
  | (h', t') :: r => if h' =? h then (h, t) :: r else (h', t') :: tbl_set h t r
  end.

(* an operation of handler h: its kind and what it makes of the handler's table *)
Record mop : Type := { o_h : N; o_kind : mkind; o_eff : mtable -> mtable }.

Definition mstep (s : mstate) (o : mop) : mstate :=
  let t0 := match o_kind o with KNew => m_file s | _ => tbl_get (o_h o) (m_tables s) end in  (* New loads the file *)
  let t1 := o_eff o t0 in
  {| m_file := if writes_file (o_kind o) then t1 else m_file s;
     m_tables := tbl_set (o_h o) t1 (m_tables s) |}.

Definition mrun (s : mstate) (ops : list mop) : mstate := fold_left mstep ops s.

(* the table of the last writing operation, as it was right after that operation (None: nobody wrote) *)
Fixpoint last_written (s : mstate) (ops : list mop) (acc : option mtable) : option mtable :=
  match ops with
  | [] => acc
  | o :: r => let s1 := mstep s o in
              last_written s1 r (if writes_file (o_kind o) then Some (tbl_get (o_h o) (m_tables s1)) else acc)
  end.
