(* Model/PingScript.v — the scenario scripts exchanged with the harness, as model events.

   A scenario is what the harness DID, linearised (see harness/cmd/c19):
     b p ok     call p of Ping/Ping6 was started, registered its waiter and its send returned
                (the echo request is on the wire, or the call returned the send error), with
                nothing else happening in between
     q p        call p registered its waiter and is INSIDE its send (the scripted connection's
                WriteTo is running); z p ok: that WriteTo returned
     x n        n calls with an address of the wrong family, one after the other
     r f        the frame f was handed to Session.Parse, which returned
     w p        the harness waited until call p returned: the model event(s) are
                [Timeout p] if the call was not woken (only the timer can end it), then [End p]
     t p / e p  explicit Timeout / End (used by hand-written cases)
     s          the harness read the size of the waiter table (hook VerifPingWaiters)
   The observation is the result of every call, its identifier, the size of the waiter table
   at every snapshot and at the end, and the final next-id. *)
From PV Require Import Base.Prelude Model.Ping Model.PingFrame.
Open Scope N_scope.

Inductive tok : Set :=
| TBegin (p : pid) (tmo : Z) (ok : bool) (shows_id : bool)   (* registration and send, nothing in between *)
| TReg (p : pid) (tmo : Z)                                   (* registration only: the call is inside its send *)
| TSent (p : pid) (ok : bool)                      (* that send returned *)
| TBulk (n : N)                                    (* n address-error calls, one after the other *)
| TFrame (f : bytes)
| TWait (p : pid)
| TTimeout (p : pid)
| TEnd (p : pid)
| TSnap
| TUse (k : nat)                                    (* the following steps are made on session k *)
| TClose (k : nat)                                  (* Session.Close of session k was called *).

(* what handing the frame f to Session.Parse means for the waiter table *)
Definition frame_event (f : bytes) : event :=
  match parse_notify f with Ok (Some i) => Notify i | _ => Skip end.

(* the events a token stands for in state s; None = Parse panics in the model *)
Definition events_of (classify : bytes -> res (option N)) (s : state) (t : tok) : res (list event) :=
  match t with
  | TBegin p tmo ok _ => Ok [Begin p tmo; Sent p ok]
  | TReg p tmo => Ok [Begin p tmo]
  | TSent p ok => Ok [Sent p ok]
  | TBulk n => Ok [BulkFail n]
  | TFrame f =>
      match classify f with
      | Ok (Some i) => Ok [Notify i]
      | Ok None => Ok [Skip]
      | Err e => Err e
      | Panic => Panic
      | Fuel => Fuel
      end
  | TWait p =>
      match pget (pings s) p with
      | Some pg =>
          if p_closed pg || p_fired pg then Ok [End p]
          else (* nothing but its timer can end the call: time passes until the timer is due *)
            Ok [Tick (Z.max (clock s) (t_armed (p_time pg) + t_eff (p_time pg))); Timeout p; End p]
      | None => Ok [End p]
      end
  | TTimeout p => Ok [Timeout p]
  | TEnd p => Ok [End p]
  | TSnap => Ok []
  | TUse _ => Ok []
  | TClose k => Ok [CloseSession k]
  end.

(* run a script; returns the final state and the table size at every snapshot token (in order) *)
Fixpoint run_script (fix24 : bool) (classify : bytes -> res (option N)) (s : state) (ts : list tok)
  : res (state * list nat) :=
  match ts with
  | [] => Ok (s, [])
  | t :: r =>
      (evs <- events_of classify s t ;;
       s' <- run fix24 s evs ;;
       '(sf, sizes) <- run_script fix24 classify s' r ;;
       Ok (sf, match t with TSnap => size s' :: sizes | _ => sizes end))%res
  end.

(* the flat event list of a script (for the theorems: a script run is a model run) *)
Fixpoint script_events (fix24 : bool) (classify : bytes -> res (option N)) (s : state) (ts : list tok)
  : res (list event) :=
  match ts with
  | [] => Ok []
  | t :: r =>
      (evs <- events_of classify s t ;;
       s' <- run fix24 s evs ;;
       rest <- script_events fix24 classify s' r ;;
       Ok (evs ++ rest)%list)%res
  end.

(* calls in order of their Begin token *)
Fixpoint begun (ts : list tok) : list (pid * bool) :=
  match ts with
  | [] => []
  | TBegin p _ _ sh :: r => (p, sh) :: begun r
  | TReg p _ :: r => (p, true) :: begun r
  | _ :: r => begun r
  end.
