(* Model/PingVDR.v — Session.ValidateDefaultRouter (layer_icmp.go): the decision it takes from the
   results of its pings.  Ping(addr, 2 s) first; if that fails: ErrTimeout (whatever the error was).
   Then the internal ping with the ROUTER's IP as source, at most twice (2 s each): nil as soon as one
   completes, ErrNotRedirected when both fail. *)
From PV Require Import Base.Prelude Model.Ping.

Inductive vdr_out : Set := VNil | VTimeout | VNotRedirected.

(* r0: result of Ping; r1, r2: results the two router-source pings have / would have.
   Returns the outcome and how many pings were made. *)
Definition vdr (r0 r1 r2 : result) : vdr_out * nat :=
  match r0 with
  | RNil => match r1 with
            | RNil => (VNil, 2%nat)
            | _ => match r2 with RNil => (VNil, 3%nat) | _ => (VNotRedirected, 3%nat) end
            end
  | _ => (VTimeout, 1%nat)
  end.
