(* Model/ParseShow.v — canonical one-line observations of the Parse model and of the
   reference decoder (shared by the dispatch modules D01, D02, D16), and the decidable
   classifiers of the recorded defect classes. *)
From PV Require Export Base.Text Base.Slice Model.Parse Model.ParseFixes Spec.RFC.
Open Scope string_scope.
Open Scope N_scope.

Definition sp (a b : string) : string := a ++ " " ++ b.

(* a view inside the input: "off,len", "nil" for Go nil, "panic" *)
Definition show_view (off : nat) (r : res (option slice)) : string :=
  match r with
  | Ok (Some x) => dec_of_nat off ++ "," ++ dec_of_nat (len x)
  | Ok None => "nil"
  | Err _ => "err:any"
  | Panic => "panic"
  | Fuel => "fuel"
  end.

Definition show_addr (a : addr) : string :=
  sp (tok_of_bytes (a_mac a)) (sp (tok_of_bytes (a_ip a)) (dec_of_N (a_port a))).

(* everything the harness observes after a nil error: fields, then every accessor *)
Definition show_frame (s : slice) (f : frame) : string :=
  join " "
    [ "ok"; dec_of_N (f_id f); show_addr (f_src f); show_addr (f_dst f)
    ; "E:" ++ show_view 0 (frame_ether s f)
    ; "4:" ++ show_view (f_off4 f) (frame_ip4 s f)
    ; "6:" ++ show_view (f_off6 f) (frame_ip6 s f)
    ; "U:" ++ show_view (f_offU f) (frame_udp s f)
    ; "T:" ++ show_view (f_offT f) (frame_tcp s f)
    ; "P:" ++ show_view (f_offP f) (frame_payload s f)
    ; "H:" ++ show_bool (frame_has_ip f) ].

(* error class of a Parse error: the sentinel it wraps (never the text) *)
Definition show_errclass (e : err) : string := "err:" ++ show_err e.
Definition show_rerr (e : rerr) : string := match e with RLen => "err:EFrameLen" | RParse => "err:EParseFrame" end.

Definition show_host (h : option (bytes * bytes)) : string :=
  match h with
  | Some (m, ip) => "host:" ++ tok_of_bytes m ++ "/" ++ tok_of_bytes ip
  | None => "nohost"
  end.

(* C02 observation: the projection the property constrains *)
Definition show_parse (c : cfg) (s : slice) : string :=
  match parse c s with
  | Ok f => show_frame s f
  | Err e => show_errclass e
  | Panic => "panic"
  | Fuel => "fuel"
  end.

(* C01 observation: the same plus the position of the two MAC slices (fixed) and the host key *)
Definition show_parse_full (c : cfg) (s : slice) : string :=
  match parse c s with
  | Ok f => join " " [ show_frame s f; "sm:6,6"; "dm:0,6"; show_host (f_host f)
                     ; "L:" ++ (match frame_log s f with Ok _ => "ok" | _ => "panic" end) ]
  | Err e => show_errclass e
  | Panic => "panic"
  | Fuel => "fuel"
  end.

(* does the observation contain a panic (of Parse or of an accessor)? *)
Definition obs_panics (c : cfg) (s : slice) : bool :=
  match parse c s with
  | Ok f => is_panic (frame_ip4 s f) || is_panic (frame_ip6 s f) || is_panic (frame_udp s f)
            || is_panic (frame_tcp s f) || is_panic (frame_payload s f) || is_panic (frame_log s f)
  | Err _ => false
  | Panic => true
  | Fuel => true
  end.

(* cfg from four tokens: host MAC, router MAC, LAN address, prefix bits *)
Definition cfg_of_toks (hm rm lan bits : string) : option cfg :=
  match bytes_of_tok hm, bytes_of_tok rm, bytes_of_tok lan, N_of_dec bits with
  | Some a, Some b, Some l, Some n => Some (mkCfg a b l n current_fixes)
  | _, _, _, _ => None
  end.

(* the same line as the reference decoder expects it for a frame of [n] bytes *)
Definition show_ref_view (n : nat) (o : option nat) : string :=
  match o with
  | Some off => dec_of_nat off ++ "," ++ dec_of_nat (n - off)
  | None => "nil"
  end.

Definition show_ref (n : nat) (r : ref_result) : string :=
  match r with
  | RErr e => show_rerr e
  | ROk r =>
      join " "
        [ "ok"; dec_of_N (r_id r)
        ; tok_of_bytes (r_smac r); tok_of_bytes (r_sip r); dec_of_N (r_sport r)
        ; tok_of_bytes (r_dmac r); tok_of_bytes (r_dip r); dec_of_N (r_dport r)
        ; "E:" ++ show_ref_view n (Some 0%nat)
        ; "4:" ++ show_ref_view n (r_ip4 r)
        ; "6:" ++ show_ref_view n (r_ip6 r)
        ; "U:" ++ show_ref_view n (r_udp r)
        ; "T:" ++ show_ref_view n (r_tcp r)
        ; "P:" ++ show_ref_view n (Some (r_pay r))
        ; "H:" ++ show_bool (match r_ip4 r, r_ip6 r with None, None => false | _, _ => true end) ]
  end.

Definition show_spec (b : bytes) : string := show_ref (List.length b) (ref_decode b).

(* pointer-level observation for C16: start offset of every non-nil view (and of the two
   MAC slices) relative to the buffer, and how far it extends *)
Definition show_alias (c : cfg) (s : slice) : string :=
  match parse c s with
  | Ok f => join " " [ "ok"; "sm@6"; "dm@0"
                     ; "E:" ++ show_view 0 (frame_ether s f)
                     ; "4:" ++ show_view (f_off4 f) (frame_ip4 s f)
                     ; "6:" ++ show_view (f_off6 f) (frame_ip6 s f)
                     ; "U:" ++ show_view (f_offU f) (frame_udp s f)
                     ; "T:" ++ show_view (f_offT f) (frame_tcp s f)
                     ; "P:" ++ show_view (f_offP f) (frame_payload s f) ]
  | Err e => show_errclass e
  | Panic => "panic"
  | Fuel => "fuel"
  end.

Definition show_alias_ref (b : bytes) : string :=
  let n := List.length b in
  match ref_decode b with
  | RErr e => show_rerr e
  | ROk r => join " " [ "ok"; "sm@6"; "dm@0"
                      ; "E:" ++ show_ref_view n (Some 0%nat)
                      ; "4:" ++ show_ref_view n (r_ip4 r)
                      ; "6:" ++ show_ref_view n (r_ip6 r)
                      ; "U:" ++ show_ref_view n (r_udp r)
                      ; "T:" ++ show_ref_view n (r_tcp r)
                      ; "P:" ++ show_ref_view n (Some (r_pay r)) ]
  end.

(* ---------------------------------------------------------------- *)
(* Canonical text of the classification tables (dispatch kind "table"): the harness extracts the same text from
   layer_frame.go with go/ast. *)
Definition payload_ids : list (N * string) :=
  [ (PayloadEther, "PayloadEther"); (Payload8023, "Payload8023"); (PayloadARP, "PayloadARP"); (PayloadIP4, "PayloadIP4")
  ; (PayloadIP6, "PayloadIP6"); (PayloadICMP4, "PayloadICMP4"); (PayloadICMP6, "PayloadICMP6"); (PayloadUDP, "PayloadUDP")
  ; (PayloadTCP, "PayloadTCP"); (PayloadDHCP4, "PayloadDHCP4"); (PayloadDHCP6, "PayloadDHCP6"); (PayloadDNS, "PayloadDNS")
  ; (PayloadMDNS, "PayloadMDNS"); (PayloadSSL, "PayloadSSL"); (PayloadNTP, "PayloadNTP"); (PayloadSSDP, "PayloadSSDP")
  ; (PayloadWSDP, "PayloadWSDP"); (PayloadNBNS, "PayloadNBNS"); (PayloadPlex, "PayloadPlex"); (PayloadUbiquiti, "PayloadUbiquiti")
  ; (PayloadLLMNR, "PayloadLLMNR"); (PayloadIGMP, "PayloadIGMP"); (PayloadEthernetPause, "PayloadEthernetPause")
  ; (PayloadRRCP, "PayloadRRCP"); (PayloadLLDP, "PayloadLLDP"); (Payload802_11r, "Payload802_11r")
  ; (PayloadIEEE1905, "PayloadIEEE1905"); (PayloadSonos, "PayloadSonos"); (Payload880a, "Payload880a") ].

(* The rows of a switch over constants form a set (Go forbids duplicate constant cases: the order of the cases means
   nothing), so both sides compare the rows SORTED BY KEY; the tagless UDP port switch, where the first matching case
   wins, is compared in source order. *)
Fixpoint insert_row {A} (r : N * A) (l : list (N * A)) : list (N * A) :=
  match l with
  | [] => [r]
  | x :: xs => if fst r <=? fst x then r :: l else x :: insert_row r xs
  end.
Definition sort_rows {A} (l : list (N * A)) : list (N * A) := fold_right insert_row [] l.

Definition show_row (r : N * N) : string := dec_of_N (fst r) ++ ">" ++ dec_of_N (snd r).
Definition show_port_row (r : port_side * list N * N) : string :=
  match r with
  | (side, ports, id) =>
      (match side with SrcOrDst => "e" | DstOnly => "d" end) ++ join "." (map dec_of_N (map fst (sort_rows (map (fun p => (p, tt)) ports)))) ++ ">" ++ dec_of_N id
  end.

Definition show_table (kind : string) : option string :=
  if String.eqb kind "payloadid" then
    Some (join "," (map (fun r => dec_of_N (fst r) ++ ":" ++ snd r) (sort_rows payload_ids)))
  else if String.eqb kind "ethertype" then
    (* the 802.3 length test in front of the switch, then the switch rows *)
    Some (join "," (("lt1536>" ++ dec_of_N Payload8023) :: map show_row (sort_rows ethertype_rows)))
  else if String.eqb kind "ipproto" then Some (join "," (map show_row (sort_rows ipproto_rows)))
  else if String.eqb kind "udpports" then Some (join "," (map show_port_row udp_port_rows))
  else None.

(* ---------------------------------------------------------------- *)
(* The exported surface of packet.Frame (dispatch kind "m"): Go signature and what covers it in the model.
   The harness obtains the same line by reflection; a method or exported field added to Frame makes them differ. *)
Definition frame_methods : list (string * string) :=
  [ ("Ether()packet.Ether", "frame_ether")
  ; ("HasIP()bool", "frame_has_ip (reads the two offsets)")
  ; ("IP4()packet.IP4", "frame_ip4")
  ; ("IP6()packet.IP6", "frame_ip6")
  ; ("Log(*fastlog.Line)*fastlog.Line", "frame_log (fields + len(Payload()))")
  ; ("Payload()[]uint8", "frame_payload")
  ; ("TCP()packet.TCP", "frame_tcp")
  ; ("UDP()packet.UDP", "frame_udp") ].
Definition frame_fields : list (string * string) :=
  [ ("DstAddr:packet.Addr", "f_dst (MAC = p[0:6], IP, Port)")
  ; ("Host:*packet.Host", "f_host (the key; the record belongs to the host table)")
  ; ("PayloadID:packet.PayloadID", "f_id")
  ; ("Session:*packet.Session", "back pointer, not modelled")
  ; ("SrcAddr:packet.Addr", "f_src (MAC = p[6:12], IP, Port)") ].
Definition frame_api : string :=
  "methods=" ++ join "," (map fst frame_methods) ++ " fields=" ++ join "," (map fst frame_fields).
