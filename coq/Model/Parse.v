(* Model/Parse.v — the pure part of Session.Parse (layer_frame.go:152-413) and the
   Frame accessors (layer_frame.go:85-135), branch by branch, as the code is.

   What is NOT here: the host table itself (findOrCreateHostWithLock, onlineTransition: owned by
   the TABLES cluster), the statistics counters, the heartbeat flag and the ping table.  What
   Parse hands to them is kept as side outputs: [f_host] is the (MAC, IP) key Parse looks up /
   creates in the host table (None when the session configuration gates the call off; in Go it
   is observable as frame.Host.Addr), [f_echo] the argument of echoNotify.  So "depends only on
   the bytes within the length" also covers what Parse passes on.

   The session configuration [cfg] (host MAC, router MAC, home LAN prefix) only gates the call
   to the host table.  The net/netip predicates used by the gate (Prefix.Contains on IPv4,
   IsLinkLocalUnicast, IsGlobalUnicast) are re-stated here from the Go 1.23 source. *)
From PV Require Export Base.Prelude Base.Slice.
Open Scope N_scope.
Open Scope res_scope.

(* ---------------------------------------------------------------- *)
(* PayloadID constants (layer_frame.go:17-47) *)

Definition PayloadEther : N := 1.
Definition Payload8023 : N := 2.
Definition PayloadARP : N := 3.
Definition PayloadIP4 : N := 4.
Definition PayloadIP6 : N := 5.
Definition PayloadICMP4 : N := 6.
Definition PayloadICMP6 : N := 7.
Definition PayloadUDP : N := 8.
Definition PayloadTCP : N := 9.
Definition PayloadDHCP4 : N := 10.
Definition PayloadDHCP6 : N := 11.
Definition PayloadDNS : N := 12.
Definition PayloadMDNS : N := 13.
Definition PayloadSSL : N := 14.
Definition PayloadNTP : N := 15.
Definition PayloadSSDP : N := 16.
Definition PayloadWSDP : N := 17.
Definition PayloadNBNS : N := 18.
Definition PayloadPlex : N := 19.
Definition PayloadUbiquiti : N := 20.
Definition PayloadLLMNR : N := 21.
Definition PayloadIGMP : N := 22.
Definition PayloadEthernetPause : N := 23.
Definition PayloadRRCP : N := 24.
Definition PayloadLLDP : N := 25.
Definition Payload802_11r : N := 26.
Definition PayloadIEEE1905 : N := 27.
Definition PayloadSonos : N := 28.
Definition Payload880a : N := 29.

(* ---------------------------------------------------------------- *)
(* Session configuration read by Parse, and the net/netip predicates of the host-table gate *)

(* Which variant of the view validators Parse calls is in force.  IP4.IsValid, IP6.IsValid and TCP.IsValid belong
   to the VIEWS cluster; their recorded defects (DESIGN section 11 #3, #5, #9) are repaired there.  The model carries
   both variants of each, every theorem is proved for all of them, and Model/ParseFixes.v says which one /repo
   has at present (the dispatch modules read it; flip it when FIXLOG.md announces the repair).
     fx_ip4: n >= 20 && IHL >= 20 && n >= IHL && TotalLen >= IHL && n >= TotalLen     (was: n >= 20 && n >= IHL && n >= TotalLen)
     fx_ip6: n >= 40 && PayloadLen + 40 <= n                                          (was: uint16(PayloadLen + 40) == n)
     fx_tcp: n >= 20 && 4*DataOffset >= 20 && n >= 4*DataOffset                       (was: n >= 20) *)
Record fixes := mkFixes { fx_ip4 : bool; fx_ip6 : bool; fx_tcp : bool }.

Record cfg := mkCfg {
  c_hostmac : bytes;      (* h.NICInfo.HostAddr4.MAC *)
  c_routermac : bytes;    (* h.NICInfo.RouterAddr4.MAC *)
  c_lan : bytes;          (* h.NICInfo.HomeLAN4: the 4 address bytes ... *)
  c_bits : N;             (* ... and the prefix length (0..32; anything else: invalid prefix) *)
  c_fx : fixes            (* not session state: the variant of the validators compiled into the library *)
}.

(* bytes.Equal *)
Fixpoint bytes_eqb (a b : bytes) : bool :=
  match a, b with
  | [], [] => true
  | x :: a', y :: b' => (x =? y) && bytes_eqb a' b'
  | _, _ => false
  end.

Definition ip_be32 (ip : bytes) : N := be32 (nth 0 ip 0) (nth 1 ip 0) (nth 2 ip 0) (nth 3 ip 0).

(* netip.Prefix.Contains for an IPv4 prefix and an address made by AddrFrom4:
   uint32((ip ^ p.ip) >> (32 - bits)) == 0 *)
Definition lan_contains (c : cfg) (ip : bytes) : bool :=
  (c_bits c <=? 32) && Nat.eqb (List.length (c_lan c)) 4 &&
  (ip_be32 ip / 2 ^ (32 - c_bits c) =? ip_be32 (c_lan c) / 2 ^ (32 - c_bits c)).

(* predicates on an address made by AddrFrom16 (16 bytes, never the zero Addr) *)
Definition is_4in6 (ip : bytes) : bool :=
  forallb (fun b => b =? 0) (firstn 10 ip) && (nth 10 ip 0 =? 255) && (nth 11 ip 0 =? 255).
Definition ip6_is_llu (ip : bytes) : bool :=
  if is_4in6 ip then (nth 12 ip 0 =? 169) && (nth 13 ip 0 =? 254)
  else (nth 0 ip 0 =? 254) && (N.land (nth 1 ip 0) 192 =? 128).
Definition ip6_is_gu (ip : bytes) : bool :=
  if is_4in6 ip then
    let v4 := skipn 12 ip in
    negb (forallb (fun b => b =? 0) v4) && negb (forallb (fun b => b =? 255) v4) &&
    negb (nth 0 v4 0 =? 127) &&                       (* loopback *)
    negb (N.land (nth 0 v4 0) 240 =? 224) &&          (* multicast *)
    negb (ip6_is_llu ip)
  else
    negb (forallb (fun b => b =? 0) ip) &&            (* unspecified *)
    negb (forallb (fun b => b =? 0) (firstn 15 ip) && (nth 15 ip 0 =? 1)) &&   (* ::1 *)
    negb (nth 0 ip 0 =? 255) &&                       (* multicast *)
    negb (ip6_is_llu ip).

(* !bytes.Equal(src MAC, host MAC) && HomeLAN4.Contains(ip) *)
Definition gate4 (c : cfg) (smac ip : bytes) : bool :=
  negb (bytes_eqb smac (c_hostmac c)) && lan_contains c ip.
(* !bytes.Equal(src MAC, host MAC) && (ip.IsLinkLocalUnicast() || (ip.IsGlobalUnicast() && !bytes.Equal(src MAC, router MAC))) *)
Definition gate6 (c : cfg) (smac ip : bytes) : bool :=
  negb (bytes_eqb smac (c_hostmac c)) &&
  (ip6_is_llu ip || (ip6_is_gu ip && negb (bytes_eqb smac (c_routermac c)))).

(* ---------------------------------------------------------------- *)
(* Addr and Frame *)

(* packet.Addr: MAC is a sub-slice of the buffer (6 bytes, value recorded here; its position
   is fixed: 6 for the source, 0 for the destination), IP is a copied netip.Addr
   ([] = the zero Addr, 4 or 16 bytes otherwise), Port 0 when absent. *)
Record addr := mkAddr { a_mac : bytes; a_ip : bytes; a_port : N }.

Record frame := mkFrame {
  f_off4 : nat;            (* offsetIP4 *)
  f_off6 : nat;            (* offsetIP6 *)
  f_offU : nat;            (* offsetUDP *)
  f_offT : nat;            (* offsetTCP *)
  f_offP : nat;            (* offsetPayload *)
  f_id : N;                (* PayloadID *)
  f_src : addr;            (* SrcAddr *)
  f_dst : addr;            (* DstAddr *)
  f_echo : option N;       (* side output: argument of echoNotify, if called *)
  f_host : option (bytes * bytes)
                           (* side output: (MAC, IP) key handed to findOrCreateHostWithLock
                              (None: the configuration gate is closed, frame.Host stays nil) *)
}.

Definition set_id (f : frame) (id : N) : frame :=
  mkFrame (f_off4 f) (f_off6 f) (f_offU f) (f_offT f) (f_offP f) id (f_src f) (f_dst f) (f_echo f) (f_host f).
Definition set_offP (f : frame) (o : nat) : frame :=
  mkFrame (f_off4 f) (f_off6 f) (f_offU f) (f_offT f) o (f_id f) (f_src f) (f_dst f) (f_echo f) (f_host f).
Definition set_offU (f : frame) (o : nat) : frame :=
  mkFrame (f_off4 f) (f_off6 f) o (f_offT f) (f_offP f) (f_id f) (f_src f) (f_dst f) (f_echo f) (f_host f).
Definition set_offT (f : frame) (o : nat) : frame :=
  mkFrame (f_off4 f) (f_off6 f) (f_offU f) o (f_offP f) (f_id f) (f_src f) (f_dst f) (f_echo f) (f_host f).
Definition set_ports (f : frame) (sp dp : N) : frame :=
  mkFrame (f_off4 f) (f_off6 f) (f_offU f) (f_offT f) (f_offP f) (f_id f)
          (mkAddr (a_mac (f_src f)) (a_ip (f_src f)) sp) (mkAddr (a_mac (f_dst f)) (a_ip (f_dst f)) dp)
          (f_echo f) (f_host f).
Definition set_echo (f : frame) (e : option N) : frame :=
  mkFrame (f_off4 f) (f_off6 f) (f_offU f) (f_offT f) (f_offP f) (f_id f) (f_src f) (f_dst f) e (f_host f).

(* ---------------------------------------------------------------- *)
(* The view functions Parse itself uses (private to this cluster). *)

Definition nil_slice : slice := mkSlice [] 0.

(* the bytes of p[a:b] (slice expression: capacity check) *)
Definition bytes_at (p : slice) (a b : nat) : res bytes :=
  x <- sl p a b ;; Ok (view x).

(* Ether (layer_ethernet.go:66-115) *)
Definition ether_is_valid (p : slice) : res unit :=
  if Nat.leb 14 (len p) then Ok tt else Err EFrameLen.
Definition ether_dst (p : slice) : res bytes := bytes_at p 0 6.
Definition ether_src (p : slice) : res bytes := bytes_at p 6 12.
Definition ether_type (p : slice) : res N := be16_at p 12.
Definition ether_header_len (p : slice) : res nat :=
  et <- ether_type p ;;
  Ok (if (et =? 2048) || (et =? 34525) || (et =? 2054) then 14%nat   (* ETH_P_IP, ETH_P_IPV6, ETH_P_ARP *)
      else if et =? 33024 then 18%nat                                 (* ETH_P_8021Q  0x8100 *)
      else if et =? 34984 then 22%nat                                 (* EthType8021AD 0x88a8 *)
      else 14%nat).

(* IsUnicastMAC: mac[0]&0x01 == 0x00 *)
Definition is_unicast_mac (mac : bytes) : bool := N.land (nth 0 mac 0) 1 =? 0.

(* IP4 (layer_ip4.go:21-48) *)
Definition ip4_ihl (p : slice) : res nat :=
  b <- idx p 0 ;; Ok (N.to_nat (N.shiftl (N.land b 15) 2)).
Definition ip4_totallen (p : slice) : res nat :=
  v <- be16_at p 2 ;; Ok (N.to_nat v).
(* if n := len(p); n >= 20 && n >= p.IHL() && n >= p.TotalLen() { return nil }; every other path: ErrFrameLen *)
Definition ip4_is_valid (fx : fixes) (p : slice) : res unit :=
  if Nat.leb 20 (len p) then
    ihl <- ip4_ihl p ;;
    if (if fx_ip4 fx then Nat.leb 20 ihl else true) && Nat.leb ihl (len p) then
      tl <- ip4_totallen p ;;
      if (if fx_ip4 fx then Nat.leb ihl tl else true) && Nat.leb tl (len p) then Ok tt else Err EFrameLen
    else Err EFrameLen
  else Err EFrameLen.
Definition ip4_protocol (p : slice) : res N := idx p 9.
Definition ip4_src (p : slice) : res bytes := bytes_at p 12 16.
Definition ip4_dst (p : slice) : res bytes := bytes_at p 16 20.

(* IP6 (layer_ip6.go:21-37): len(p) >= 40 && int(p.PayloadLen()+40) == len(p)   -- uint16 addition *)
Definition ip6_is_valid (fx : fixes) (p : slice) : res unit :=
  if Nat.leb 40 (len p) then
    pl <- be16_at p 4 ;;
    if (if fx_ip6 fx then Nat.leb (N.to_nat pl + 40) (len p) else u16 (pl + 40) =? N.of_nat (len p))
    then Ok tt else Err EFrameLen
  else Err EFrameLen.
Definition ip6_next_header (p : slice) : res N := idx p 6.
Definition ip6_src (p : slice) : res bytes := bytes_at p 8 24.
Definition ip6_dst (p : slice) : res bytes := bytes_at p 24 40.

(* UDP / TCP / ICMP (layer_ip4.go:163-234, layer_icmp.go:28-74) *)
Definition udp_is_valid (p : slice) : res unit := if Nat.leb 8 (len p) then Ok tt else Err EFrameLen.
(* TCP.HeaderLen (repaired) = int(p[12]>>4) * 4 *)
Definition tcp_is_valid (fx : fixes) (p : slice) : res unit :=
  if Nat.leb 20 (len p) then
    if fx_tcp fx then
      b <- idx p 12 ;;
      let hl := N.to_nat (4 * (b / 16)) in
      if Nat.leb 20 hl && Nat.leb hl (len p) then Ok tt else Err EFrameLen
    else Ok tt
  else Err EFrameLen.
Definition icmp_is_valid (p : slice) : res unit := if Nat.leb 8 (len p) then Ok tt else Err EFrameLen.
Definition src_port (p : slice) : res N := be16_at p 0.
Definition dst_port (p : slice) : res N := be16_at p 2.
Definition icmp_type (p : slice) : res N := idx p 0.
Definition echo_id (p : slice) : res N := be16_at p 4.

(* ---------------------------------------------------------------- *)
(* Frame accessors (layer_frame.go:85-135). None = Go nil. *)

Definition acc_at (s : slice) (off : nat) : res (option slice) :=
  if Nat.eqb off 0 then Ok None else x <- slfrom s off ;; Ok (Some x).

Definition frame_ether (s : slice) (f : frame) : res (option slice) := Ok (Some s).
Definition frame_ip4 (s : slice) (f : frame) := acc_at s (f_off4 f).
Definition frame_ip6 (s : slice) (f : frame) := acc_at s (f_off6 f).
Definition frame_udp (s : slice) (f : frame) := acc_at s (f_offU f).
Definition frame_tcp (s : slice) (f : frame) := acc_at s (f_offT f).
Definition frame_payload (s : slice) (f : frame) := acc_at s (f_offP f).
Definition frame_has_ip (f : frame) : bool := negb (Nat.eqb (f_off4 f) 0) || negb (Nat.eqb (f_off6 f) 0).

(* Frame.Log(line) (layer_frame.go:72-83): the only other exported method; besides Frame fields it evaluates
   len(frame.Payload()) (and frame.Host.MACEntry.Captured when the host pointer is set) *)
Definition frame_log (s : slice) (f : frame) : res unit := _ <- frame_payload s f ;; Ok tt.

(* X(frame.Payload()) : a nil payload converts to an empty view *)
Definition payload_view (s : slice) (f : frame) : res slice :=
  o <- frame_payload s f ;; Ok (match o with Some x => x | None => nil_slice end).

(* ---------------------------------------------------------------- *)
(* Session.Statistics: one ProtoStats per PayloadID, indexed BY the id (ids start at 1), sized by NewSession
   (session.go: make([]ProtoStats, 32)).  Parse does h.Statistics[id].Count++ on its way; an id >= this length would be
   an index-out-of-range panic.  The harness reads the length off a session built by the library's constructor on
   every run (kind "consts statslen"). *)
Definition stats_len : N := 32.

(* ---------------------------------------------------------------- *)
(* Classification tables of Session.Parse, as explicit lists in SOURCE ORDER.  The harness (harness/cmd/c02)
   extracts the same tables from layer_frame.go with go/ast on every run and compares them row by row with these
   lists (dispatch kind "table"), so an edit or a reordering of a switch in Go is a correspondence failure on the
   table itself.  The model's classification functions below are DEFINED from the lists. *)

Fixpoint lookup_row (k : N) (t : list (N * N)) : option N :=
  match t with
  | [] => None
  | (k', v) :: r => if k =? k' then Some v else lookup_row k r
  end.

(* switch frame.ether.EtherType() (layer_frame.go:178-305): case constant -> PayloadID set by the case *)
Definition ethertype_rows : list (N * N) :=
  [ (2048, PayloadIP4)              (* syscall.ETH_P_IP *)
  ; (34525, PayloadIP6)             (* syscall.ETH_P_IPV6 *)
  ; (2054, PayloadARP)              (* syscall.ETH_P_ARP *)
  ; (34824, PayloadEthernetPause)   (* 0x8808 *)
  ; (34969, PayloadRRCP)            (* 0x8899 *)
  ; (35020, PayloadLLDP)            (* 0x88cc *)
  ; (35085, Payload802_11r)         (* 0x890d *)
  ; (35130, PayloadIEEE1905)        (* 0x893a *)
  ; (26992, PayloadSonos)           (* 0x6970 *)
  ; (34826, Payload880a)            (* 0x880a *)
  ].

(* switch proto (layer_frame.go:307-412): case constant -> PayloadID set by the case *)
Definition ipproto_rows : list (N * N) :=
  [ (17, PayloadUDP) ; (6, PayloadTCP) ; (1, PayloadICMP4) ; (58, PayloadICMP6) ; (2, PayloadIGMP) ].

(* The UDP port switch (layer_frame.go:318-357), one row per case in source order:
   SrcOrDst [p]: frame.SrcAddr.Port == p || frame.DstAddr.Port == p;  DstOnly [p; q]: frame.DstAddr.Port == p || ... == q *)
Inductive port_side := SrcOrDst | DstOnly.
Definition udp_port_rows : list (port_side * list N * N) :=
  [ (SrcOrDst, [443], PayloadSSL)
  ; (DstOnly, [67; 68], PayloadDHCP4)
  ; (DstOnly, [546; 547], PayloadDHCP6)
  ; (SrcOrDst, [53], PayloadDNS)
  ; (SrcOrDst, [5353], PayloadMDNS)
  ; (SrcOrDst, [5355], PayloadLLMNR)
  ; (SrcOrDst, [123], PayloadNTP)
  ; (SrcOrDst, [1900], PayloadSSDP)
  ; (SrcOrDst, [3702], PayloadWSDP)
  ; (DstOnly, [137; 138], PayloadNBNS)
  ; (DstOnly, [32412; 32414], PayloadPlex)
  ; (SrcOrDst, [10001], PayloadUbiquiti)
  ].

Definition row_matches (side : port_side) (ports : list N) (sp dp : N) : bool :=
  existsb (fun p => match side with SrcOrDst => (sp =? p) || (dp =? p) | DstOnly => dp =? p end) ports.

Fixpoint first_row (sp dp : N) (t : list (port_side * list N * N)) : option N :=
  match t with
  | [] => None
  | (side, ports, id) :: r => if row_matches side ports sp dp then Some id else first_row sp dp r
  end.

(* first matching case in source order; [None] is the default branch (PayloadUDP, payload offset not advanced) *)
Definition udp_class (sp dp : N) : option N := first_row sp dp udp_port_rows.

(* the cases of switch proto (layer_frame.go:307-412) *)
Definition parse_udp (s : slice) (f : frame) : res frame :=
  let f := set_id f PayloadUDP in
  p <- payload_view s f ;;
  _ <- udp_is_valid p ;;
  sp <- src_port p ;;
  dp <- dst_port p ;;
  let f := set_ports (set_offU f (f_offP f)) sp dp in
  match udp_class sp dp with
  | None => Ok f
  | Some id => Ok (set_offP (set_id f id) (f_offP f + 8))
  end.

Definition parse_tcp (fx : fixes) (s : slice) (f : frame) : res frame :=
  let f := set_id f PayloadTCP in
  p <- payload_view s f ;;
  _ <- tcp_is_valid fx p ;;
  sp <- src_port p ;;
  dp <- dst_port p ;;
  Ok (set_ports (set_offT f (f_offP f)) sp dp).

(* The condition that guards echoNotify besides the ICMP type (layer_frame.go, after b8d5cb8 / 790e257 / b261543):
     IPPROTO_ICMP:    frame.offsetIP4 != 0 && len(frame.IP4().Payload()) >= 8 && frame.IP4().Version() == 4
     IPPROTO_ICMPV6:  frame.offsetIP6 != 0 && len(frame.IP6().Payload()) >= 8 && frame.IP6().Version() == 6
   with IP4.Payload() = ip4[IHL:TotalLen], IP6.Payload() = ip6[40:40+PayloadLen], Version() = p[0]>>4, evaluated left
   to right.  The case is only reached after IP4.IsValid / IP6.IsValid, so the header bytes read here lie within the
   length and the two slice expressions are in range for the repaired validators (IHL <= TotalLen <= len,
   40+PayloadLen <= len): the condition is a total function of the header bytes, [TotalLen - IHL] and [PayloadLen]
   being the lengths of the two payload slices.  (The combination "this condition with the ORIGINAL validators",
   where ip4[IHL:TotalLen] could panic, never existed in /repo: the validators were repaired first.) *)
Definition echo_gate (s : slice) (f : frame) (id : N) : bool :=
  if id =? PayloadICMP4 then
    let o := f_off4 f in
    let ihl := N.to_nat (N.shiftl (N.land (nth o (arr s) 0) 15) 2) in
    let tl := N.to_nat (be16 (nth (o + 2) (arr s) 0) (nth (o + 3) (arr s) 0)) in
    negb (Nat.eqb o 0) && Nat.leb 8 (tl - ihl) && (nth o (arr s) 0 / 16 =? 4)
  else
    let o := f_off6 f in
    let pl := N.to_nat (be16 (nth (o + 4) (arr s) 0) (nth (o + 5) (arr s) 0)) in
    negb (Nat.eqb o 0) && Nat.leb 8 pl && (nth o (arr s) 0 / 16 =? 6).

(* IPPROTO_ICMP (echo reply type 0, id PayloadICMP4) and IPPROTO_ICMPV6 (echo reply type 129, id PayloadICMP6) *)
Definition parse_icmp (s : slice) (f : frame) (reply : N) (id : N) : res frame :=
  p <- payload_view s f ;;
  _ <- icmp_is_valid p ;;
  t <- icmp_type p ;;
  f <- (if (t =? reply) && echo_gate s f id then
          _ <- icmp_is_valid p ;;                     (* ICMPEcho.IsValid: same test *)
          e <- echo_id p ;; Ok (set_echo f (Some e))  (* echoNotify(echo.EchoID()) *)
        else Ok f) ;;
  Ok (set_id f id).

(* switch proto: the case is selected through [ipproto_rows] *)
Definition parse_proto (fx : fixes) (s : slice) (f : frame) (proto : N) : res frame :=
  match lookup_row proto ipproto_rows with
  | Some id =>
      if id =? PayloadUDP then parse_udp s f
      else if id =? PayloadTCP then parse_tcp fx s f
      else if id =? PayloadICMP4 then parse_icmp s f 0 PayloadICMP4
      else if id =? PayloadICMP6 then parse_icmp s f 129 PayloadICMP6
      else Ok (set_id f id)                            (* IPPROTO_IGMP: PayloadID only *)
  | None => Ok f
  end.

(* case ETH_P_IP (layer_frame.go:179-201) *)
Definition parse_ip4 (c : cfg) (s : slice) (f : frame) : res frame :=
  let f := set_id f PayloadIP4 in
  p <- payload_view s f ;;
  _ <- ip4_is_valid (c_fx c) p ;;
  ihl <- ip4_ihl p ;;
  proto <- ip4_protocol p ;;
  sip <- ip4_src p ;;
  dip <- ip4_dst p ;;
  let smac := a_mac (f_src f) in
  let f := mkFrame (f_offP f) 0 0 0 (f_offP f + ihl) PayloadIP4
                   (mkAddr smac sip 0) (mkAddr (a_mac (f_dst f)) dip 0)
                   None (if gate4 c smac sip then Some (smac, sip) else None) in
  parse_proto (c_fx c) s f proto.

(* case ETH_P_IPV6 (layer_frame.go:202-234) *)
Definition parse_ip6 (c : cfg) (s : slice) (f : frame) : res frame :=
  let f := set_id f PayloadIP6 in
  p <- payload_view s f ;;
  _ <- ip6_is_valid (c_fx c) p ;;
  proto <- ip6_next_header p ;;
  sip <- ip6_src p ;;
  dip <- ip6_dst p ;;
  let smac := a_mac (f_src f) in
  let f := mkFrame 0 (f_offP f) 0 0 (f_offP f + 40) PayloadIP6
                   (mkAddr smac sip 0) (mkAddr (a_mac (f_dst f)) dip 0)
                   None (if gate6 c smac sip then Some (smac, sip) else None) in
  parse_proto (c_fx c) s f proto.

(* case ETH_P_ARP (layer_frame.go:235-259):
     if arp = frame.Payload(); len(arp) < 28 || arp[4] != 6 { return frame, ErrParseFrame }
     srcIP := netip.AddrFrom4 of the array conversion of arp[14:18]      -- slice expression: capacity check
     ... Addr{MAC: arp[8:14], IP: srcIP} offered to the host table *)
Definition parse_arp (c : cfg) (s : slice) (f : frame) : res frame :=
  let f := set_id f PayloadARP in
  arp <- payload_view s f ;;
  bad <- (if Nat.ltb (len arp) 28 then Ok true else b <- idx arp 4 ;; Ok (negb (b =? 6))) ;;
  if bad then Err EParseFrame else
  sip <- bytes_at arp 14 18 ;;
  host <- (if gate4 c (a_mac (f_src f)) sip
           then smac <- bytes_at arp 8 14 ;; Ok (Some (smac, sip))     (* key: the ARP sender MAC and IP *)
           else Ok None) ;;
  Ok (mkFrame (f_off4 f) (f_off6 f) (f_offU f) (f_offT f) (f_offP f) PayloadARP (f_src f) (f_dst f)
              None host).

(* case 0x8808, 0x8899, ... : PayloadID set, offsetPayload = frame.Ether().HeaderLen() *)
Definition parse_leaf (s : slice) (f : frame) (id : N) : res frame :=
  hl <- ether_header_len s ;;
  Ok (set_offP (set_id f id) hl).

(* Session.Parse *)
Definition parse (c : cfg) (s : slice) : res frame :=
  _ <- ether_is_valid s ;;
  smac <- ether_src s ;;
  dmac <- ether_dst s ;;
  hl <- ether_header_len s ;;
  if Nat.ltb (len s) hl then Err EFrameLen else        (* tagged header longer than the frame: ErrFrameLen (sentinel) *)
  let f := mkFrame 0 0 0 0 hl PayloadEther (mkAddr smac [] 0) (mkAddr dmac [] 0) None None in
  if negb (is_unicast_mac smac) then Ok f else
  et <- ether_type s ;;
  if et <? 1536 then Ok (set_id f Payload8023) else
  match lookup_row et ethertype_rows with               (* switch frame.ether.EtherType(), through [ethertype_rows] *)
  | Some id =>
      if id =? PayloadIP4 then parse_ip4 c s f
      else if id =? PayloadIP6 then parse_ip6 c s f
      else if id =? PayloadARP then parse_arp c s f
      else parse_leaf s f id                             (* 0x8808, 0x8899, 0x88cc, 0x890d, 0x893a, 0x6970, 0x880a *)
  | None => Ok f
  end.
