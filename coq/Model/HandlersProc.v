(* Model/HandlersProc.v — the byte-access skeleton of the protocol processors: every IsValid
   gate and every index / re-slice the processor performs on the payload Parse hands it,
   branch by branch.  State-dependent actions (table look-ups, replies sent, logging) do not
   touch the payload bytes and are omitted; their result (nil / error) is not observed:
   processors are compared on  ret | panic | fuel  only.
     ARP    handlers/arp_spoofer/arp.go:277        (layer_arp.go:25 IsValid + getters)
     ICMPv4 handlers/icmp_spoofer/icmp4_logger.go:35 (nested IPv4/UDP/TCP of dest. unreachable)
     ICMPv6 handlers/icmp_spoofer/icmp6.go:98       (per-type IsValid, NA TargetLLA, RA Options)
     DHCPv4 handlers/dhcp4_spoofer/dhcp4.go:247 / client.go:153 (IsValid, ParseOptions, type) *)
From PV Require Import Base.Prelude Base.Slice Model.NDPOptions Model.MiscDecoders.
Open Scope N_scope.

(* ---------------------------------------------------------------- ARP *)
Definition arp_process (p : slice) : res unit :=
  if Nat.ltb (len p) 28 then Err EFrameLen
  else
    (ht <- be16_at p 0 ;;
     if negb (ht =? 1) then Err EParseFrame else
     pr <- be16_at p 2 ;;
     if negb (pr =? 2048) then Err EParseFrame else
     hl <- idx p 4 ;;
     if negb (hl =? 6) then Err EOther else
     pl <- idx p 5 ;;
     if negb (pl =? 4) then Err EOther else
     (* SrcIP, DstIP, Operation, SrcMAC: fixed offsets below 28 *)
     _ <- sl p 14 18 ;; _ <- sl p 24 28 ;; _ <- be16_at p 6 ;; _ <- sl p 8 14 ;; _ <- sl p 18 24 ;;
     Ok tt)%res.

(* ---------------------------------------------------------------- ICMPv4 logger *)
(* IP4.IsValid (layer_ip4.go:40): n >= 20 && n >= IHL && n >= TotalLen *)
Definition ip4_ihl (p : slice) : res nat := (b <- idx p 0 ;; Ok (N.to_nat (N.land b 15) * 4)%nat)%res.
Definition ip4_totallen (p : slice) : res nat := (v <- be16_at p 2 ;; Ok (N.to_nat v))%res.

Definition ip4_is_valid (p : slice) : res bool :=
  if Nat.ltb (len p) 20 then Ok false
  else
    (ihl <- ip4_ihl p ;;
     if Nat.ltb (len p) ihl then Ok false
     else tl <- ip4_totallen p ;; Ok (negb (Nat.ltb (len p) tl)))%res.

(* IP4.Payload (:35): p[IHL:TotalLen] *)
Definition ip4_payload (p : slice) : res slice :=
  (ihl <- ip4_ihl p ;; tl <- ip4_totallen p ;; sl p ihl tl)%res.

Definition icmp4_process (p : slice) : res unit :=
  if Nat.ltb (len p) 8 then Err EFrameLen
  else
    (t <- idx p 0 ;;
     if t =? 3 then
       (_ <- idx p 1 ;;
        if Nat.ltb (len p) 28 then Err EParseFrame
        else
          ip <- slfrom p 8 ;;
          v <- ip4_is_valid ip ;;
          if negb v then Err EParseFrame
          else
            proto <- idx ip 9 ;;
            if proto =? 17 then
              (udp <- ip4_payload ip ;;
               if Nat.ltb (len udp) 8 then Err EFrameLen else _ <- be16_at udp 2 ;; Ok tt)
            else if proto =? 6 then
              (tcp <- ip4_payload ip ;;
               if Nat.ltb (len tcp) 20 then Err EParseFrame else _ <- be16_at tcp 2 ;; Ok tt)
            else Ok tt)
     else Ok tt)%res.

(* known class (DESIGN section 11 #3, reached through the ICMPv4 logger): the embedded IPv4
   header of a destination-unreachable message passes IsValid with TotalLen < IHL and
   Payload() = p[IHL:TotalLen] panics *)
Definition known_C08_icmp4_inner (p : slice) : bool :=
  Nat.leb 28 (len p) && (nth 0 (arr p) 0 =? 3) &&
  (let ihl := (N.to_nat (N.land (nth 8 (arr p) 0%N) 15%N) * 4)%nat in
   let tl := N.to_nat (be16 (nth 10 (arr p) 0) (nth 11 (arr p) 0)) in
   Nat.leb ihl (len p - 8) && Nat.leb tl (len p - 8) && Nat.ltb tl ihl &&
   ((nth 17 (arr p) 0 =? 17) || (nth 17 (arr p) 0 =? 6))).

(* ---------------------------------------------------------------- ICMPv6 *)
Section ICMP6.
  Variable lbl_ok : bytes -> bool.

  (* [ra_processed]: the RA rate limiter lets this one through and frame.Host is not nil *)
  Definition icmp6_process (fuel : nat) (ra_processed : bool) (p : slice) : res unit :=
    if Nat.ltb (len p) 8 then Err EFrameLen
    else
      (t <- idx p 0 ;;
       if t =? 136 then        (* neighbor advertisement *)
         (if Nat.ltb (len p) 24 then Err EFrameLen
          else
            f <- idx p 4 ;;
            if negb (N.land f 32 =? 0) && (N.land f 64 =? 0) then
              (* Override && !Solicited: TargetLLA() *)
              (if Nat.ltb (len p) 32 then Err EInvalidMAC
               else a <- idx p 24 ;; b <- idx p 25 ;;
                    if negb (a =? 2) || negb (b =? 1) then Err EInvalidMAC
                    else _ <- sl p 26 32 ;; Ok tt)
            else Ok tt)
       else if t =? 135 then   (* neighbor solicitation: TargetAddress p[8:24] *)
         (if Nat.ltb (len p) 24 then Err EFrameLen else _ <- sl p 8 24 ;; Ok tt)
       else if t =? 134 then   (* router advertisement *)
         (if Nat.ltb (len p) 16 then Err EFrameLen
          else if negb ra_processed then Ok tt
          else
            _ <- ra_options lbl_ok fuel p ;;
            _ <- idx p 5 ;; _ <- idx p 4 ;; _ <- be16_at p 6 ;; _ <- be32_at p 8 ;; _ <- be32_at p 12 ;;
            Ok tt)
       else if t =? 133 then (if Nat.ltb (len p) 8 then Err EFrameLen else Ok tt)
       else if t =? 129 then (if Nat.ltb (len p) 8 then Err EFrameLen else Ok tt)
       else if t =? 137 then (if Nat.ltb (len p) 40 then Err EFrameLen else Ok tt)
       else if (t =? 128) || (t =? 143) || (t =? 131) || (t =? 130) || (t =? 1) then Ok tt
       else Err EParseFrame)%res.
End ICMP6.

(* ---------------------------------------------------------------- DHCPv4 *)
(* ProcessPacket / processClientPacket: IsValid, ParseOptions; everything behind works on the
   option map (values are sub-slices used through len-checked conversions) *)
Definition dhcp4_process (fuel : nat) (p : slice) : res unit :=
  (_ <- dhcp_is_valid fuel p ;; dhcp_parse_options fuel p)%res.
