(* Model/HandlersProc.v — control flow of the protocol processors as far as it can index,
   slice, loop or call a decoder on the payload Parse hands over.  Branches that depend on
   table state (handler closed, host hunted / captured / known, DHCP offer pending, lease
   state deciding the kind of DHCP reply, log level) are BOOLEAN / ENUM PARAMETERS of the
   model ([*_env] records), universally quantified in the theorems; the harness drives them.
   Sending a reply builds a fresh frame in a pool buffer (C07); the one reply that is
   encoded INTO the request buffer (EncodeDHCP4(p, ...)) is modelled with its capacity rule.
   Processors are compared on  ret | panic | fuel.
     ARP    handlers/arp_spoofer/arp.go:277
     ICMPv4 handlers/icmp_spoofer/icmp4_logger.go:35
     ICMPv6 handlers/icmp_spoofer/icmp6.go:98
     DHCPv4 handlers/dhcp4_spoofer/dhcp4.go:247, client.go:153, discover.go, request.go,
            declinerelease.go; layer_dhcp4.go:355 EncodeDHCP4 *)
From PV Require Import Base.Prelude Base.Slice Model.NDPOptions Model.MiscDecoders.
Open Scope N_scope.

(* ---------------------------------------------------------------- ARP *)
Record arp_env := mkArpEnv {
  ae_closed : bool;         (* Close() was called *)
  ae_hunting : bool;        (* sender MAC is in the hunt list *)
  ae_offer_other : bool;    (* a DHCP offer is pending for the sender MAC and differs from the target IP *)
  ae_debug : bool
}.

Definition ip4_at (p : slice) (a : nat) : res bytes := (s <- sl p a (a + 4) ;; Ok (view s))%res.
Definition is_linklocal4 (ip : bytes) : bool := (nth 0 ip 0 =? 169) && (nth 1 ip 0 =? 254).
Definition is_zero4 (ip : bytes) : bool :=
  (nth 0 ip 0 =? 0) && (nth 1 ip 0 =? 0) && (nth 2 ip 0 =? 0) && (nth 3 ip 0 =? 0).
Fixpoint bytes_eqb' (a b : bytes) : bool :=
  match a, b with
  | [], [] => true
  | x :: a', y :: b' => (x =? y) && bytes_eqb' a' b'
  | _, _ => false
  end.

(* ARP.FastLog: Operation, SrcMAC, SrcIP, DstMAC, DstIP *)
Definition arp_fastlog (p : slice) : res unit :=
  (_ <- be16_at p 6 ;; _ <- sl p 8 14 ;; _ <- sl p 14 18 ;; _ <- sl p 18 24 ;; _ <- sl p 24 28 ;; Ok tt)%res.
Definition when (b : bool) (r : res unit) : res unit := if b then r else Ok tt.

Definition arp_process (e : arp_env) (router_ip : bytes) (lan_contains : bytes -> bool) (p : slice) : res unit :=
  if Nat.ltb (len p) 28 then Err EFrameLen
  else
    (ht <- be16_at p 0 ;;
     if negb (ht =? 1) then Err EParseFrame else
     pr <- be16_at p 2 ;;
     if negb (pr =? 2048) then Err EParseFrame else
     hl <- idx p 4 ;;
     if negb (hl =? 6) then Err EOther else
     pl <- idx p 5 ;;
     if negb (pl =? 4) then Err EOther else
     if ae_closed e then Ok tt else
     sip <- ip4_at p 14 ;;
     dip <- ip4_at p 24 ;;
     if is_linklocal4 sip || is_linklocal4 dip then when (ae_debug e) (arp_fastlog p)
     else
       op <- be16_at p 6 ;;
       if op =? 2 then when (ae_debug e) (arp_fastlog p)              (* reply / gratuitous *)
       else if op =? 1 then
         (if bytes_eqb' sip dip then when (ae_debug e) (arp_fastlog p) (* announcement *)
          else if is_zero4 sip then                                    (* ACD probe *)
            (_ <- when (ae_debug e) (arp_fastlog p) ;;
             _ <- sl p 8 14 ;;                                         (* DHCPv4IPOffer(SrcMAC) *)
             if ae_offer_other e && lan_contains dip && negb (bytes_eqb' dip router_ip)
             then _ <- sl p 8 14 ;; Ok tt                              (* Reply(SrcMAC, ...) *)
             else Ok tt)
          else                                                         (* request *)
            (_ <- when (ae_debug e) (arp_fastlog p) ;;
             _ <- sl p 8 14 ;;                                         (* huntList[SrcMAC] *)
             if ae_hunting e && bytes_eqb' dip router_ip
             then _ <- sl p 8 14 ;; _ <- sl p 14 18 ;; Ok tt           (* spoofed reply *)
             else Ok tt))
       else arp_fastlog p)%res.                                        (* "invalid operation" is logged *)

(* ---------------------------------------------------------------- ICMPv4 logger *)
(* IP4.IsValid (layer_ip4.go:40, as repaired by 38ef1da):
   n >= 20 && IHL >= 20 && n >= IHL && TotalLen >= IHL && n >= TotalLen *)
Definition ip4_ihl (p : slice) : res nat := (b <- idx p 0 ;; Ok (N.to_nat (N.land b 15) * 4)%nat)%res.
Definition ip4_totallen (p : slice) : res nat := (v <- be16_at p 2 ;; Ok (N.to_nat v))%res.

Definition ip4_is_valid (p : slice) : res bool :=
  if Nat.ltb (len p) 20 then Ok false
  else
    (ihl <- ip4_ihl p ;;
     if Nat.ltb ihl 20 then Ok false
     else if Nat.ltb (len p) ihl then Ok false
     else tl <- ip4_totallen p ;;
          if Nat.ltb tl ihl then Ok false else Ok (negb (Nat.ltb (len p) tl)))%res.

(* IP4.Payload (:35): p[IHL:TotalLen] *)
Definition ip4_payload (p : slice) : res slice :=
  (ihl <- ip4_ihl p ;; tl <- ip4_totallen p ;; sl p ihl tl)%res.

(* UDP.IsValid (len >= 8) and TCP.IsValid (as repaired by 3443f46:
   len >= 20 && 4*(p[12]>>4) >= 20 && len >= that) *)
Definition udp_is_valid (p : slice) : res bool := Ok (negb (Nat.ltb (len p) 8)).
Definition tcp_is_valid (p : slice) : res bool :=
  if Nat.ltb (len p) 20 then Ok false
  else (off <- idx p 12 ;;
        let hl := (N.to_nat (N.shiftr off 4) * 4)%nat in
        if Nat.ltb hl 20 then Ok false
        else off' <- idx p 12 ;;
             Ok (negb (Nat.ltb (len p) (N.to_nat (N.shiftr off' 4) * 4))))%res.

(* ICMPEcho.FastLog: checksum, id, seq, EchoData = p[8:] *)
Definition echo_fastlog (p : slice) : res unit :=
  (_ <- be16_at p 2 ;; _ <- be16_at p 4 ;; _ <- be16_at p 6 ;; _ <- slfrom p 8 ;; Ok tt)%res.

Definition icmp4_process (info : bool) (p : slice) : res unit :=
  if Nat.ltb (len p) 8 then Err EFrameLen
  else
    (t <- idx p 0 ;;
     if (t =? 0) || (t =? 8) then when info (echo_fastlog p)      (* echo reply (IsValid: len >= 8) / request *)
     else if t =? 3 then
       (_ <- idx p 1 ;;
        if Nat.ltb (len p) 28 then Err EParseFrame
        else
          ip <- slfrom p 8 ;;
          v <- ip4_is_valid ip ;;
          if negb v then Err EParseFrame
          else
            proto <- idx ip 9 ;;
            _ <- (if proto =? 17 then
                    (udp <- ip4_payload ip ;;
                     v <- udp_is_valid udp ;;
                     if negb v then Err EFrameLen else _ <- be16_at udp 2 ;; Ok tt)
                  else if proto =? 6 then
                    (tcp <- ip4_payload ip ;;
                     v <- tcp_is_valid tcp ;;
                     if negb v then Err EParseFrame else _ <- be16_at tcp 2 ;; Ok tt)
                  else Ok tt) ;;
            when info (_ <- idx p 1 ;; _ <- sl ip 16 20 ;; Ok tt))  (* code, originalIP4Frame.Dst() *)
     else Ok tt)%res.

(* ---------------------------------------------------------------- ICMPv6 *)
Record icmp6_env := mkIcmp6Env {
  ie_debug : bool;            (* Logger6.IsDebug(): the typed views are logged *)
  ie_ra_processed : bool;     (* the RA rate limiter lets this one through and frame.Host != nil *)
  ie_hunting : bool           (* non-empty hunt list: the RA wakes the spoof loops up *)
}.

(* NA / NS / Redirect option accessors: len-guarded fixed positions *)
Definition lla_option_at (p : slice) (off : nat) (ty : N) : res unit :=
  if Nat.ltb (len p) (off + 8) then Ok tt
  else (a <- idx p off ;; b <- idx p (off + 1) ;;
        if negb (a =? ty) || negb (b =? 1) then Ok tt
        else _ <- sl p (off + 2) (off + 8) ;; Ok tt)%res.

Definition is_global_unicast6 (a : bytes) : bool :=
  (* netip: not unspecified, loopback, multicast (ff..), link-local unicast (fe80::/10) *)
  negb (forallb (fun b => b =? 0) a) && negb (nth 0 a 0 =? 255) &&
  negb ((nth 0 a 0 =? 254) && (N.land (nth 1 a 0) 192 =? 128)) &&
  negb (forallb (fun b => b =? 0) (firstn 15 a) && (nth 15 a 0 =? 1)).

(* pkt.IP6(): nil unless the frame carries an IPv6 header (Parse classifies an IPv4 packet with
   protocol 58 as PayloadICMP6 too); IP6.IsValid (layer_ip6.go:21): len >= 40 && 40+PayloadLen <= len *)
Definition ip6_view (o : option slice) : slice := match o with Some v => v | None => mkSlice [] 0 end.
Definition ip6_is_valid (v : slice) : res bool :=
  if Nat.ltb (len v) 40 then Ok false
  else (pl <- be16_at v 4 ;; Ok (Nat.leb (N.to_nat pl + 40) (len v)))%res.
Definition ip6_src (v : slice) : res bytes := (s <- sl v 8 24 ;; Ok (view s))%res.
Definition ip6_dst (v : slice) : res bytes := (s <- sl v 24 40 ;; Ok (view s))%res.
Definition ip6_log (v : slice) : res unit := (_ <- ip6_src v ;; _ <- ip6_dst v ;; Ok tt)%res.

Section ICMP6.
  Variable lbl_ok : bytes -> bool.

  Definition icmp6_process (fuel : nat) (e : icmp6_env) (ip6 : option slice) (p : slice) : res unit :=
    let v := ip6_view ip6 in
    (ok6 <- ip6_is_valid v ;;          (* gate added by d9f9e28: no IPv6 header, no processing *)
     if negb ok6 then Err EFrameLen else
    if Nat.ltb (len p) 8 then Err EFrameLen
    else
      (t <- idx p 0 ;;
       _ <- when (ie_debug e && negb (t =? 134)) (ip6_log v) ;;
       if t =? 136 then        (* neighbor advertisement *)
         (if Nat.ltb (len p) 24 then Err EFrameLen
          else
            _ <- when (ie_debug e) (_ <- ip6_src v ;; _ <- idx p 1 ;; _ <- idx p 4 ;; _ <- sl p 8 24 ;; lla_option_at p 24 2) ;;
            f <- idx p 4 ;;
            if negb (N.land f 32 =? 0) && (N.land f 64 =? 0) then
              (* Override && !Solicited: TargetLLA() must be there *)
              (_ <- when (ie_debug e) (_ <- ip6_log v ;; _ <- sl p 8 24 ;; lla_option_at p 24 2) ;;
               if Nat.ltb (len p) 32 then Err EInvalidMAC
               else a <- idx p 24 ;; b <- idx p 25 ;;
                    if negb (a =? 2) || negb (b =? 1) then Err EInvalidMAC
                    else _ <- sl p 26 32 ;; Ok tt)
            else Ok tt)
       else if t =? 135 then   (* neighbor solicitation *)
         (if Nat.ltb (len p) 24 then Err EFrameLen
          else
            _ <- when (ie_debug e) (_ <- ip6_src v ;; _ <- idx p 1 ;; _ <- sl p 8 24 ;; lla_option_at p 24 1) ;;
            src <- ip6_src v ;;                                 (* ip6Frame.Src().IsUnspecified() *)
            if forallb (fun b => b =? 0) src then when (ie_debug e) (_ <- sl p 8 24 ;; ip6_log v)
            else
              tgt <- sl p 8 24 ;;
              if is_global_unicast6 (view tgt) then _ <- ip6_dst v ;; _ <- sl p 8 24 ;; Ok tt   (* ICMP6SendNeighbourSolicitation(target) *)
              else Ok tt)
       else if t =? 134 then   (* router advertisement *)
         (if Nat.ltb (len p) 16 then Err EFrameLen
          else if negb (ie_ra_processed e) then Ok tt
          else
            _ <- ra_options lbl_ok fuel p ;;
            _ <- ip6_src v ;;                                   (* findOrCreateRouter(mac, ip6Frame.Src()) *)
            _ <- when (ie_debug e) (ip6_log v) ;;
            _ <- idx p 5 ;; _ <- idx p 4 ;; _ <- be16_at p 6 ;; _ <- be32_at p 8 ;; _ <- be32_at p 12 ;;
            Ok tt)
       else if t =? 133 then   (* router solicitation: IsValid len >= 8 && type; debug: SourceLLA *)
         when (ie_debug e)
           (_ <- ip6_src v ;; _ <- idx p 1 ;; lla_option_at p 8 1)       (* SourceLLA as repaired by 24e521d: p[10:16] *)
       else if t =? 129 then when (ie_debug e) (_ <- ip6_src v ;; echo_fastlog p)
       else if t =? 128 then when (ie_debug e) (_ <- ip6_log v ;; echo_fastlog p)
       else if t =? 137 then   (* redirect: IsValid len >= 40; debug: String() *)
         (if Nat.ltb (len p) 40 then Err EFrameLen
          else when (ie_debug e) (_ <- ip6_src v ;; _ <- idx p 1 ;; _ <- sl p 8 24 ;; _ <- lla_option_at p 40 2 ;; _ <- sl p 24 40 ;; Ok tt))
       else if (t =? 143) || (t =? 131) || (t =? 130) then when (ie_debug e) (_ <- ip6_src v ;; Ok tt)
       else if t =? 1 then when (ie_debug e) (ip6_log v)
       else _ <- ip6_src v ;; Err EParseFrame))%res.    (* "type not implemented from ip=..." *)
End ICMP6.

(* ---------------------------------------------------------------- DHCPv4 *)
(* the option map of ParseOptions: the LAST occurrence of a code wins; [l] is the option area *)
Fixpoint dhcp_find (fuel : nat) (l : bytes) (code : N) (acc : option bytes) : option bytes :=
  match fuel with
  | O => acc
  | S f =>
      match l with
      | o0 :: o1 :: rest =>
          if o0 =? 255 then acc
          else if o0 =? 0 then dhcp_find f (o1 :: rest) code acc
          else
            let size := N.to_nat o1 in
            if Nat.ltb (List.length rest) size then acc
            else dhcp_find f (skipn size rest) code (if o0 =? code then Some (firstn size rest) else acc)
      | _ => acc
      end
  end.

Definition dhcp_opt (p : slice) (code : N) : option bytes :=
  let l := skipn 240 (view p) in dhcp_find (S (List.length l)) l code None.

Inductive dhcp_reply := RNone | RNak | ROther (pos : nat).

Record dhcp_env := mkDhcpEnv {
  de_client_port : bool;   (* destination port 68: processClientPacket *)
  de_reply : dhcp_reply;   (* what the lease table decides: nothing / NAK / OFFER or ACK whose
                              options (subnet configuration) take [pos] bytes *)
  de_info : bool
}.

(* EncodeDHCP4(p, ...) (layer_dhcp4.go:355, as repaired by 720d31a) re-uses the request buffer
   up to its CAPACITY: cap < 300 -> nil; header fields below 240 are rewritten; AppendOptions
   copies what fits into p[240:cap] and returns the untruncated option length pos;
   n = 240+pos >= cap -> nil; otherwise p[n] = End (idx on the slice extended to its capacity) *)
Definition encode_dhcp4_into (p : slice) (pos : nat) : res unit :=
  if Nat.ltb (cap p) 300 then Ok tt
  else if Nat.leb (cap p) (240 + pos) then Ok tt
  else (_ <- idx (mkSlice (arr p) (cap p)) (240 + pos) ;; Ok tt)%res.

Definition client_id (p : slice) : res bytes :=
  match dhcp_opt p 61 with
  | Some v => Ok v
  | None => (s <- sl p 28 34 ;; Ok (view s))%res     (* CHAddr *)
  end.

Definition dhcp4_process (fuel : nat) (e : dhcp_env) (p : slice) : res unit :=
  (_ <- dhcp_is_valid fuel p ;;
   _ <- (if de_client_port e then dhcp_is_valid fuel p else Ok tt) ;;   (* processClientPacket re-validates *)
   _ <- dhcp_parse_options fuel p ;;
   match dhcp_opt p 53 with
   | Some [mt] =>
       if de_client_port e then
         (* client.go:153: server id, chaddr[0:4], xid, yiaddr; forceDecline builds its own frame *)
         (cid <- client_id p ;;
          match dhcp_opt p 54 with
          | Some sid =>
              if negb (Nat.eqb (List.length sid) 4 || Nat.eqb (List.length sid) 16) then Err EParseFrame
              else _ <- sl p 28 34 ;; _ <- sl p 4 8 ;; _ <- sl p 16 20 ;; Ok tt
          | None => Err EParseFrame
          end)
       else if (mt <? 1) || (8 <? mt) then Err EParseFrame
       else
         (cid <- client_id p ;;
          _ <- sl p 4 8 ;; _ <- be16_at p 8 ;; _ <- sl p 12 16 ;; _ <- sl p 28 34 ;; _ <- be16_at p 10 ;;
          if (mt =? 1) || (mt =? 3) then
            match de_reply e with
            | RNone => Ok tt
            | RNak => encode_dhcp4_into p (3 + 6 + (2 + List.length cid))
            | ROther pos => encode_dhcp4_into p pos
            end
          else Ok tt)
   | _ => Err EParseFrame
   end)%res.

