(* Model/EncodeCompose.v — the way the library itself composes a UDP frame
   (handlers/dhcp4_spoofer/send.go, handlers/dns_naming/{mdns,nbns,ssdp}.go):

     ether := EncodeEther(b, ETH_P_IP, srcMAC, dstMAC)
     ip4   := EncodeIP4(ether.Payload(), ttl, src, dst)
     udp   := EncodeUDP(ip4.Payload(), sp, dp)
     udp, err = udp.AppendPayload(data)
     ip4   = ip4.SetPayload(udp, IPPROTO_UDP)
     ether, err = ether.SetPayload(ip4)

   and the part of Session.Parse (layer_frame.go) that classifies such a frame
   by its ports.  Child slices share storage with their parents: after a
   child has been written its storage is put back with [writeback]. *)
From PV Require Export Model.Encode.
Open Scope N_scope.

Definition IPPROTO_UDP : N := 17.

Definition compose_udp4 (b : slice) (smac dmac : bytes) (ttl : N) (sip dip : bytes)
           (sp dp : N) (data : bytes) : res slice :=
  (e <- encode_ether b ETH_P_IP smac dmac ;;
   pl <- ether_payload e ;;
   ip <- encode_ip4 pl ttl sip dip ;;
   ipl <- ip4_payload ip ;;
   u <- encode_udp ipl sp dp ;;
   u <- udp_append u data ;;
   let ip1 := writeback ip (arr u) in
   ip2 <- ip4_set_payload ip1 (len u) IPPROTO_UDP ;;
   let e1 := writeback e (arr ip2) in
   ether_set_payload e1 (len ip2))%res.

(* the IPv6 variant (handlers/dns_naming/mdns.go:152).  When the remaining
   capacity is below 40 EncodeIP6 allocates a fresh 40-byte buffer that does
   not alias the frame. *)
Definition compose_udp6 (b : slice) (smac dmac : bytes) (hop : N) (sip dip : bytes)
           (sp dp : N) (data : bytes) : res slice :=
  (e <- encode_ether b ETH_P_IPV6 smac dmac ;;
   pl <- ether_payload e ;;
   '(ip, fresh) <- encode_ip6 pl hop sip dip ;;
   ipl <- ip6_payload ip ;;
   u <- encode_udp ipl sp dp ;;
   u <- udp_append u data ;;
   let ip1 := writeback ip (arr u) in
   ip2 <- ip6_set_payload ip1 (len u) IPPROTO_UDP ;;
   let e1 := if fresh then e else writeback e (arr ip2) in
   ether_set_payload e1 (len ip2))%res.

(* ---------------------------------------------------------------- *)
(* A small IPv4 packet built in its own exact-size buffer and then handed to Ether.AppendPayload,
   which pads the frame to the 60-byte minimum: the Ethernet payload then carries bytes beyond
   the inner length fields, and the inner layers must be found through TotalLen / UDP length. *)
Definition IPPROTO_ICMP : N := 1.

Definition packet_udp4 (ttl : N) (sip dip : bytes) (sp dp : N) (data : bytes) : res slice :=
  let n := (28 + List.length data)%nat in
  (ip <- encode_ip4 (mkSlice (repeat 0 n) n) ttl sip dip ;;
   ipl <- ip4_payload ip ;;
   u <- encode_udp ipl sp dp ;;
   u <- udp_append u data ;;
   ip4_set_payload (writeback ip (arr u)) (len u) IPPROTO_UDP)%res.

Definition packet_echo4 (ttl : N) (sip dip : bytes) (t code id sq : N) (data : bytes) : res slice :=
  let n := (28 + List.length data)%nat in
  (ip <- encode_ip4 (mkSlice (repeat 0 n) n) ttl sip dip ;;
   ipl <- ip4_payload ip ;;
   ec <- encode_icmp_echo ipl t code id sq data ;;
   ip4_set_payload (writeback ip (arr ec)) (len ec) IPPROTO_ICMP)%res.

(* ether := EncodeEther(b, ETH_P_IP, ..); ether.AppendPayload(packet) *)
Definition ether_wrap4 (b : slice) (smac dmac : bytes) (pk : res slice) : res slice :=
  (e <- encode_ether b ETH_P_IP smac dmac ;;
   p <- pk ;;
   ether_append e (view p) (cap p))%res.

(* ---------------------------------------------------------------- *)
(* Session.Parse on a frame whose EtherType is IPv4 or IPv6 and whose IP
   protocol is UDP: PayloadID and whether an error is returned.  Other
   EtherTypes / protocols are outside this fragment ([Err ENotFound]). *)
Definition PayloadEther : N := 1.
Definition Payload8023 : N := 2.
Definition PayloadIP4 : N := 4.
Definition PayloadIP6 : N := 5.
Definition PayloadICMP4 : N := 6.
Definition PayloadUDP : N := 8.
Definition PayloadDHCP4 : N := 10.
Definition PayloadDHCP6 : N := 11.
Definition PayloadDNS : N := 12.
Definition PayloadMDNS : N := 13.
Definition PayloadSSL : N := 14.
Definition PayloadNTP : N := 15.
Definition PayloadSSDP : N := 16.
Definition PayloadWSDP : N := 17.
Definition PayloadNBNS : N := 18.
Definition PayloadPlex : N := 19.
Definition PayloadUbiquiti : N := 20.
Definition PayloadLLMNR : N := 21.

(* the switch of layer_frame.go:318-357, first match wins *)
Definition class_of_ports (sp dp : N) : N :=
  if (sp =? 443) || (dp =? 443) then PayloadSSL
  else if (dp =? 67) || (dp =? 68) then PayloadDHCP4
  else if (dp =? 546) || (dp =? 547) then PayloadDHCP6
  else if (sp =? 53) || (dp =? 53) then PayloadDNS
  else if (sp =? 5353) || (dp =? 5353) then PayloadMDNS
  else if (sp =? 5355) || (dp =? 5355) then PayloadLLMNR
  else if (sp =? 123) || (dp =? 123) then PayloadNTP
  else if (sp =? 1900) || (dp =? 1900) then PayloadSSDP
  else if (sp =? 3702) || (dp =? 3702) then PayloadWSDP
  else if (dp =? 137) || (dp =? 138) then PayloadNBNS
  else if (dp =? 32412) || (dp =? 32414) then PayloadPlex
  else if (sp =? 10001) || (dp =? 10001) then PayloadUbiquiti
  else PayloadUDP.

(* result: (PayloadID, error returned?) *)
Definition parse_udp_at (f : slice) (off : nat) : res (N * bool) :=
  (u <- slfrom f off ;;
   if negb (udp_is_valid u) then Ok (PayloadUDP, true) else
   sp <- udp_srcport u ;;
   dp <- udp_dstport u ;;
   Ok (class_of_ports sp dp, false))%res.

Definition parse_class (f : slice) : res (N * bool) :=
  if negb (ether_is_valid f) then Ok (0, true) else
  (smac <- ether_src f ;;
   if negb (N.land (nth 0 smac 0) 1 =? 0) then Ok (PayloadEther, false) else
   t <- ether_type f ;;
   if t <? 1536 then Ok (Payload8023, false) else
   hl <- ether_hlen f ;;
   if t =? ETH_P_IP then
     (ip <- slfrom f hl ;;
      v <- ip4_is_valid ip ;;
      if negb v then Ok (PayloadIP4, true) else
      ihl <- ip4_ihl ip ;;
      pr <- ip4_protocol ip ;;
      if pr =? IPPROTO_UDP then parse_udp_at f (hl + ihl)
      else if pr =? IPPROTO_ICMP then
        (* ICMP(frame.Payload()).IsValid(): at least 8 bytes, else the error is returned with PayloadIP4 *)
        (ic <- slfrom f (hl + ihl) ;; Ok (if Nat.leb 8 (len ic) then (PayloadICMP4, false) else (PayloadIP4, true)))
      else Err ENotFound)
   else if t =? ETH_P_IPV6 then
     (ip <- slfrom f hl ;;
      v <- ip6_is_valid ip ;;
      if negb v then Ok (PayloadIP6, true) else
      pr <- ip6_nextheader ip ;;
      if pr =? IPPROTO_UDP then parse_udp_at f (hl + 40) else Err ENotFound)
   else Err ENotFound)%res.
