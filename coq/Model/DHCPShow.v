(* Model/DHCPShow.v — text protocol of the DHCP histories (C11, C12):
   parsing of a case line into configuration + ops, printing of the
   observation (per-step reply summary or silence, then the lease table).

   line   : hist MODE HOSTIP HOSTMAC ROUTERIP ROUTERMAC HOMEIP HOMEBITS NFIP NFBITS DNS op op ...
   op     : D|R|X|L,chaddr,xid,ciaddr,cid,req,sid,b,src,prl   (X decline, L release)
            C,mac   U,mac   T,seconds   E,clientid,seconds (lease expiry rewritten through the verif hook)
   cid    : ~ absent, - empty, else hex;   req/sid : ~ absent, else 8 hex;   prl : - or hex
   Handler ops run at now = 0 (the harness leaves the real clock alone; a lease
   lasts 4 h), T gives MinuteTicker's argument in seconds relative to that clock. *)
From PV Require Import Base.Text Model.DHCP.
Open Scope string_scope.
Open Scope N_scope.

Definition N_of_bytes (l : bytes) : N := fold_left (fun a b => a * 256 + b) l 0.
Definition N_of_hex (s : string) : option N := option_map N_of_bytes (bytes_of_hex s).
Definition cid_of_bytes (l : bytes) : cid := fold_left (fun a b => a * 256 + b) l 1.

Fixpoint be_bytes (n : nat) (x : N) : bytes :=
  match n with
  | O => []
  | S k => (be_bytes k (x / 256) ++ [x mod 256])%list
  end.
Definition hexw (n : nat) (x : N) : string := hex_of_bytes (be_bytes n x).

Fixpoint bytes_of_cid_aux (fuel : nat) (n : N) (acc : bytes) : bytes :=
  match fuel with
  | O => acc
  | S f => if n <=? 1 then acc else bytes_of_cid_aux f (n / 256) (n mod 256 :: acc)
  end.
Definition bytes_of_cid (k : cid) : bytes := bytes_of_cid_aux (S (N.to_nat (N.size k))) k [].

Definition opt_tok {A} (f : string -> option A) (s : string) : option (option A) :=
  if String.eqb s "~" then Some None else option_map Some (f s).

Definition parse_msg9 (f : list string) : option dmsg :=
  match f with
  | [ch; xid; ci; k; rq; sd; b; src; prl] =>
      match N_of_hex ch, N_of_hex xid, N_of_hex ci,
            opt_tok (fun s => option_map cid_of_bytes (bytes_of_tok s)) k,
            opt_tok N_of_hex rq, opt_tok N_of_hex sd, bool_of_tok b, N_of_hex src, bytes_of_tok prl with
      | Some ch, Some xid, Some ci, Some k, Some rq, Some sd, Some b, Some src, Some prl =>
          Some (mkMsg ch xid ci k rq sd b src prl)
      | _, _, _, _, _, _, _, _, _ => None
      end
  | _ => None
  end.

(* a 10th field carries further client options as raw code/length/value bytes (requested lease
   time 51, maximum message size 57, host name 12, vendor class 60, ...): the server ignores them
   (the host name only names the lease), so the model checks the hex and drops them *)
Definition parse_msg (f : list string) : option dmsg :=
  match f with
  | [ch; xid; ci; k; rq; sd; b; src; prl; extra] =>
      match bytes_of_tok extra with
      | Some _ => parse_msg9 [ch; xid; ci; k; rq; sd; b; src; prl]
      | None => None
      end
  | _ => parse_msg9 f
  end.

Definition parse_op (s : string) : option op :=
  match split ","%char s with
  | k :: f =>
      if String.eqb k "D" then option_map (ODiscover 0%Z) (parse_msg f)
      else if String.eqb k "R" then option_map (ORequest 0%Z) (parse_msg f)
      else if String.eqb k "X" then option_map ODecline (parse_msg f)
      else if String.eqb k "L" then option_map ORelease (parse_msg f)
      else if String.eqb k "C" then match f with [m] => option_map OCapture (N_of_hex m) | _ => None end
      else if String.eqb k "U" then match f with [m] => option_map OUncapture (N_of_hex m) | _ => None end
      else if String.eqb k "E" then
        match f with
        | [i; t] => match bytes_of_tok i, Z_of_dec t with
                    | Some b, Some z => Some (OSetExp (cid_of_bytes b) z)
                    | _, _ => None
                    end
        | _ => None
        end
      else if String.eqb k "T" then match f with [t] => option_map OTick (Z_of_dec t) | _ => None end
      else None
  | [] => None
  end.

Fixpoint parse_ops (l : list string) : option (list op) :=
  match l with
  | [] => Some []
  | s :: r => match parse_op s, parse_ops r with
              | Some o, Some os => Some (o :: os)
              | _, _ => None
              end
  end.

(* DNS token: z = zero value, m<8 hex> = IPv4-mapped, v6 = another IPv6 address, <8 hex> = plain IPv4 *)
Definition parse_dns (s : string) : option dnsval :=
  if String.eqb s "z" then Some DnsZero
  else if String.eqb s "v6" then Some DnsV6
  else match s with
       | String "m"%char r => option_map DnsMapped (N_of_hex r)
       | _ => option_map DnsV4 (N_of_hex s)
       end.

Definition parse_raw (f : list string) : option (rawcfg * list string) :=
  match f with
  | md :: hip :: hmac :: rip :: rmac :: home :: hbits :: nf :: nbits :: dns :: rest =>
      match N_of_dec md, N_of_hex hip, N_of_hex hmac, N_of_hex rip, N_of_hex rmac,
            N_of_hex home, N_of_dec hbits, N_of_hex nf, N_of_dec nbits, parse_dns dns with
      | Some md, Some hip, Some hmac, Some rip, Some rmac, Some home, Some hbits, Some nf, Some nbits, Some dns =>
          Some (mkRaw md hip hmac rip rmac home hbits nf nbits dns, rest)
      | _, _, _, _, _, _, _, _, _, _ => None
      end
  | _ => None
  end.

(* the configuration in force, when (Config).New accepts the raw one *)
Definition parse_cfg (f : list string) : option (cfg * list string) :=
  match parse_raw f with
  | Some (r, rest) => match new_cfg r with Some c => Some (c, rest) | None => None end
  | None => None
  end.
(* well-formed tokens of a configuration that New rejects *)
Definition cfg_rejected (f : list string) : bool :=
  match parse_raw f with
  | Some (r, _) => match new_cfg r with Some _ => false | None => true end
  | None => false
  end.
Definition skip_cfg (f : list string) : list string := skipn 10 f.

(* ---------------------------------------------------------------- *)
(* printing *)

Definition constrained_code (k : N) : bool :=
  (k =? 1) || (k =? 3) || (k =? 6) || (k =? 51) || (k =? 53) || (k =? 54).

Definition show_opts (l : list (N * bytes)) : string :=
  join "." (map (fun p => dec_of_N (fst p) ++ "=" ++ tok_of_bytes (snd p))
                (filter (fun p => constrained_code (fst p)) l)).

Definition show_reply (r : option reply) : string :=
  match r with
  | None => "-"
  | Some r =>
      let tail := hexw 4 (r_xid r) ++ "," ++ hexw 6 (r_chaddr r) ++ "," ++ hexw 6 (r_dstmac r) ++ "," ++ hexw 4 (r_dstip r) in
      match r_type r with
      | RNak => "N," ++ tail
      | ROffer => "O," ++ hexw 4 (r_yi r) ++ "," ++ tail ++ "," ++ show_opts (r_opts r)
      | RAck => "A," ++ hexw 4 (r_yi r) ++ "," ++ tail ++ "," ++ show_opts (r_opts r)
      end
  end.

Definition show_oip (x : option ip) : string := match x with Some v => hexw 4 v | None => "-" end.
Definition show_state (s : lstate) : string :=
  match s with SFree => "F" | SDiscover => "D" | SAllocated => "A" end.
Definition show_lease (l : lease) : string :=
  tok_of_bytes (bytes_of_cid (l_cid l)) ++ "/" ++ show_state (l_state l) ++ "/" ++ hexw 6 (l_mac l) ++ "/"
  ++ show_oip (l_ip l) ++ "/" ++ show_oip (l_offer l) ++ "/" ++ show_oip (l_xid l) ++ "/"
  ++ (if l_net2 l then "net2" else "net1").

Fixpoint insert_lease (x : lease) (l : list lease) : list lease :=
  match l with
  | [] => [x]
  | y :: r => if l_cid x <=? l_cid y then x :: y :: r else y :: insert_lease x r
  end.
Definition sort_leases (l : list lease) : list lease := fold_right insert_lease [] l.
Definition show_table (t : list lease) : string := join ";" (map show_lease (sort_leases t)).

Definition show_run (s : dstate) (rs : list (option reply)) : string :=
  join " " (map show_reply rs) ++ " | " ++ show_table (tbl s).

(* the canonical oracle of the correspondence run: first match in table order *)
Definition ch0 : ip -> nat := fun _ => O.
Definition with_ch0 (ops : list op) : list ((ip -> nat) * op) := map (fun o => (ch0, o)) ops.
