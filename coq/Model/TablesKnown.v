(* Model/TablesKnown.v — decidable characterisation of the recorded defect classes of the TABLES cluster. *)
From PV Require Import Base.Prelude Model.Tables.
Open Scope N_scope.

(* C06, former finding c06-duplicate-dhcp-path-offline-offer (REPAIRED in /repo; the class is kept so that
   a regression is reported under its own name): Notify is called with a frame that has no host and is
   classified DHCPv4 (session.go:390-405: the host is looked up through the MAC's IP4Offer and the frame is
   marked as an online transition), the offered address is IPv4 and its host is offline with a notification
   pending.  Before the repair notify() put the host itself on its "previous IP is offline" list, makeOffline sent
   its notification, and notify() sent the same notification again. *)
Definition known_C06_dup (s : state) : bool :=
  match lastf s with
  | Some f =>
      match fr_host f with
      | Some _ => false
      | None =>
          fr_dhcp4 f &&
          match find_mac (fr_src f) (macs s) with
          | Some e =>
              match hlookup (m_offer e) (hosts s) with
              | Some h => is4 (h_ip h) && negb (h_online h) && h_dirty h
              | None => false
              end
          | None => false
          end
      end
  | None => false
  end.
