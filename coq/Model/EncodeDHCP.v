(* Model/EncodeDHCP.v — EncodeDHCP4 / DHCP4.AppendOptions / DHCP4.ParseOptions
   and the fixed-field getters (layer_dhcp4.go), byte-exact.

   The caller's option map is an association list with distinct keys; Go's
   map iteration order over the options NOT named in [order] is the
   parameter [perm] (a list of option codes, universally quantified in the
   theorems; the harness recovers it from the bytes produced). *)
From PV Require Export Base.Prelude Base.Slice Model.EncodeBase.
Open Scope N_scope.

Definition opts := list (N * bytes).

Fixpoint lookup_opt (k : N) (o : opts) : option bytes :=
  match o with
  | [] => None
  | (k', v) :: r => if k' =? k then Some v else lookup_opt k r
  end.
Fixpoint remove_opt (k : N) (o : opts) : opts :=
  match o with
  | [] => []
  | (k', v) :: r => if k' =? k then remove_opt k r else (k', v) :: remove_opt k r
  end.
(* options[k] = v *)
Definition set_opt (k : N) (v : bytes) (o : opts) : opts := (k, v) :: remove_opt k o.
Definition keys (o : opts) : list N := map fst o.

(* ---------------------------------------------------------------- *)
(* AppendOptions: the options are first assembled in a scratch buffer sized from the option map
   (repo commit 7c42d76; it was a fixed 1024 bytes and overran).  [acc] is buffer[:pos].
     buffer[pos] = code; buffer[pos+1] = byte(len(value)); pos += 2; pos += copy(buffer[pos:], value)
   pos never exceeds the size, so no index can fail and copy never truncates.  [emit] keeps the
   [res] type of the earlier model. *)
Definition emit (acc : bytes) (code : N) (value : bytes) : res bytes :=
  Ok (acc ++ [code; u8 (N.of_nat (List.length value))] ++ value).

(* first loop: for _, code := range order { if value, ok := options[code]; ok { emit; delete } } *)
Fixpoint emit_ordered (order : list N) (o : opts) (acc : bytes) : res (opts * bytes) :=
  match order with
  | [] => Ok (o, acc)
  | code :: r =>
      match lookup_opt code o with
      | Some v => (acc' <- emit acc code v ;; emit_ordered r (remove_opt code o) acc')%res
      | None => emit_ordered r o acc
      end
  end.

(* the order in which `for code, value := range options` visits what is left:
   the codes of [perm] that are present, in that order, then whatever [perm] does not name *)
Fixpoint tail_order (perm : list N) (o : opts) : opts :=
  match perm with
  | [] => o
  | k :: r =>
      match lookup_opt k o with
      | Some v => (k, v) :: tail_order r (remove_opt k o)
      | None => tail_order r o
      end
  end.

Fixpoint emit_all (l : opts) (acc : bytes) : res bytes :=
  match l with
  | [] => Ok acc
  | (k, v) :: r => (acc' <- emit acc k v ;; emit_all r acc')%res
  end.

(* optionsReplyParametersList appended to the caller's order: mask, static route, router *)
Definition reply_params : list N := [1; 33; 3].

(* repo commit 94e2701: the subnet mask (1) is inserted in front of the first router code (3)
   of the caller's order (RFC 2132 3.3: the mask MUST precede the router option) *)
Fixpoint insert_mask (order : list N) : list N :=
  match order with
  | [] => []
  | c :: r => if c =? 3 then 1 :: c :: r else c :: insert_mask r
  end.
Definition effective_order (order : list N) : list N := insert_mask order ++ reply_params.

Definition append_options_bytes (o : opts) (order perm : list N) : res bytes :=
  ('(rest, acc) <- emit_ordered (effective_order order) o [] ;;
   emit_all (tail_order perm rest) acc)%res.

(* ---------------------------------------------------------------- *)
(* EncodeDHCP4(b, opcode, mt, chaddr, ciaddr, yiaddr, xid, broadcast, options, order)
   chaddr / xid: None = nil (keep what the buffer holds).  ciaddr / yiaddr are written
   only when Is4().  All writes are on p = b[:cap(b)], cap >= 300. *)
Definition dhcp_fixed (a : bytes) (opcode : N) (chaddr : option bytes) (ciaddr yiaddr : bytes)
           (xid : option bytes) (broadcast : bool) : bytes :=
  let a := blit 34 (repeat 0 202) a in                          (* zeroes(p[34:236]) *)
  let a := set_nth 0 opcode a in
  let a := set_nth 1 1 a in
  let a := set_nth 2 6 a in
  let a := set_nth 3 0 a in
  let a := match xid with Some x => blit 4 (firstn 4 x) a | None => a end in
  let a := blit 8 [0; 0] a in                                   (* secs *)
  let a := blit 10 [0; 0] a in                                  (* flags *)
  let a := blit 236 [99; 130; 83; 99] a in                      (* cookie *)
  let a := if is4 ciaddr then blit 12 ciaddr a else a in
  let a := if is4 yiaddr then blit 16 yiaddr a else a in
  let a := blit 20 [0; 0; 0; 0] a in                            (* siaddr *)
  let a := blit 24 [0; 0; 0; 0] a in                            (* giaddr *)
  let a := match chaddr with
           | Some m => set_nth 2 (u8 (N.of_nat (List.length m))) (blit 28 (firstn 16 m) a)
           | None => a
           end in
  (* SetBroadcast: Flags() is 0 here, so the bit is set iff broadcast *)
  if broadcast then set_nth 10 128 a else a.

Definition encode_dhcp4 (b : slice) (opcode mt : N) (chaddr : option bytes) (ciaddr yiaddr : bytes)
           (xid : option bytes) (broadcast : bool) (options : opts) (order perm : list N) : res slice :=
  if Nat.ltb (cap b) 300 then Ok nil_slice else
  let a := dhcp_fixed (arr b) opcode chaddr ciaddr yiaddr xid broadcast in
  (ob <- append_options_bytes (set_opt 53 [mt] options) order perm ;;
   let pos := List.length ob in
   let a := blit 240 (firstn (cap b - 240) ob) a in              (* copy(p[240:cap(p)], buffer[:pos]) *)
   let n := (240 + pos)%nat in
   if Nat.leb (cap b) n then Ok nil_slice else                   (* repo commit 720d31a: n >= len(p) -> return nil (was: p[n] panicked) *)
   let a := set_nth n 255 a in
   let n1 := S n in
   let a := blit n1 (repeat 0 (300 - n1)) a in                   (* pad to 300 *)
   Ok (mkSlice a (Nat.max n1 300)))%res.

(* what the caller's buffer holds when EncodeDHCP4 returned nil: untouched below 300 bytes of
   capacity; otherwise header and the options that fitted have been written already *)
Definition dhcp4_nil_buffer (b : slice) (opcode mt : N) (chaddr : option bytes) (ciaddr yiaddr : bytes)
           (xid : option bytes) (broadcast : bool) (options : opts) (order perm : list N) : bytes :=
  if Nat.ltb (cap b) 300 then arr b else
  match append_options_bytes (set_opt 53 [mt] options) order perm with
  | Ok ob => blit 240 (firstn (cap b - 240) ob) (dhcp_fixed (arr b) opcode chaddr ciaddr yiaddr xid broadcast)
  | _ => arr b
  end.

(* ---------------------------------------------------------------- *)
(* getters *)
Definition dhcp_opcode (p : slice) : res N := idx p 0.
Definition dhcp_htype (p : slice) : res N := idx p 1.
Definition dhcp_hlen (p : slice) : res N := idx p 2.
Definition dhcp_hops (p : slice) : res N := idx p 3.
Definition dhcp_xid (p : slice) : res bytes := (s <- sl p 4 8 ;; Ok (view s))%res.
Definition dhcp_secs (p : slice) : res N := be16_at p 8.
Definition dhcp_flags (p : slice) : res N := be16_at p 10.
Definition dhcp_ciaddr (p : slice) : res bytes := (s <- sl p 12 16 ;; Ok (view s))%res.
Definition dhcp_yiaddr (p : slice) : res bytes := (s <- sl p 16 20 ;; Ok (view s))%res.
Definition dhcp_siaddr (p : slice) : res bytes := (s <- sl p 20 24 ;; Ok (view s))%res.
Definition dhcp_giaddr (p : slice) : res bytes := (s <- sl p 24 28 ;; Ok (view s))%res.
Definition dhcp_chaddr (p : slice) : res bytes := (s <- sl p 28 34 ;; Ok (view s))%res.
Definition dhcp_cookie (p : slice) : res bytes := (s <- sl p 236 240 ;; Ok (view s))%res.
(* Options(): len(p) > 240 -> p[240:] else nil *)
Definition dhcp_options (p : slice) : bytes := skipn 240 (view p).

(* ParseOptions on the option bytes: Pad skipped, End stops, a truncated option stops;
   later occurrences of a code replace earlier ones (Go map assignment). *)
Fixpoint parse_options (fuel : nat) (o : bytes) (acc : opts) : opts :=
  match fuel with
  | O => acc
  | S f =>
    match o with
    | c :: (l :: body) as tl =>
        if c =? 255 then acc
        else if c =? 0 then parse_options f tl acc
        else
          let size := N.to_nat l in
          if Nat.ltb (List.length body) size then acc
          else parse_options f (skipn size body) (set_opt c (firstn size body) acc)
    | _ => acc
    end
  end.
Definition dhcp_parse_options (p : slice) : opts :=
  let o := dhcp_options p in parse_options (S (List.length o)) o [].

(* validateOptions() == nil (part of IsValid) *)
Fixpoint validate_options (fuel : nat) (o : bytes) : bool :=
  match fuel with
  | O => true
  | S f =>
    match o with
    | c :: (l :: body) as tl =>
        if c =? 255 then true
        else if c =? 0 then validate_options f tl
        else
          let size := N.to_nat l in
          if Nat.ltb (List.length body) size then false
          else validate_options f (skipn size body)
    | _ => true
    end
  end.
(* IsValid() == nil *)
Definition dhcp_is_valid (p : slice) : res bool :=
  if Nat.ltb (len p) 240 then Ok false else
  (op <- dhcp_opcode p ;;
   if negb ((op =? 1) || (op =? 2)) then Ok false else
   hl <- dhcp_hlen p ;;
   if negb (hl =? 6) then Ok false else
   let o := dhcp_options p in
   if Nat.ltb (List.length o) 2 then Ok false else
   Ok (validate_options (S (List.length o)) o))%res.

(* insertion sort by key, for canonical display *)
Fixpoint insert_opt (x : N * bytes) (l : opts) : opts :=
  match l with
  | [] => [x]
  | y :: r => if fst x <=? fst y then x :: l else y :: insert_opt x r
  end.
Definition sort_opts (l : opts) : opts := fold_right insert_opt [] l.
