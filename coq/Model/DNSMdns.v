(* Model/DNSMdns.v — DNSHandler.ProcessMDNS (handlers/dns_naming/mdns.go:314-527) over the message
   as dnsmessage hands it over (Spec.RFC1035.mmsg: id, QR, question names, resources in section
   order with hdr.Name.String() and the typed body).  Only well-formed messages: every typed body
   parses (the paths that call SkipAnswer after a failed body parse belong to C08). *)
From PV Require Export Base.Prelude Model.DNSMerge Model.DNSRecords Spec.RFC1035.
Open Scope N_scope.

(* strings.HasSuffix / strings.Contains *)
Definition has_suffix (s suf : bytes) : bool :=
  Nat.leb (length suf) (length s) && bytes_eqb (skipn (length s - length suf) s) suf.

Fixpoint is_prefix (p s : bytes) : bool :=
  match p, s with
  | [], _ => true
  | x :: p', y :: s' => (x =? y) && is_prefix p' s'
  | _ :: _, [] => false
  end.
Fixpoint contains (s sub : bytes) : bool :=
  is_prefix sub s || match s with [] => false | _ :: r => contains r sub end.

Definition SLEEP_PROXY : bytes := [115; 108; 101; 101; 112; 45; 112; 114; 111; 120; 121].  (* "sleep-proxy" *)
Definition APPLE : bytes := [65; 112; 112; 108; 101].

(* strings.Split(v, "=") *)
Fixpoint split_eq (s : bytes) : list bytes :=
  match s with
  | [] => [[]]
  | c :: r =>
      if c =? 61 then [] :: split_eq r
      else match split_eq r with
           | f :: fs => (c :: f) :: fs
           | [] => [[c]]
           end
  end.

Definition K_MODEL : bytes := [109; 111; 100; 101; 108].
Definition K_TY : bytes := [116; 121].
Definition K_DVTY : bytes := [68; 118; 84; 121].
Definition K_MD : bytes := [109; 100].

(* strings.SplitN(v, "=", 2): key, value after the FIRST '=' (None: no '=') *)
Fixpoint cut_eq (s : bytes) : bytes * option bytes :=
  match s with
  | [] => ([], None)
  | c :: r => if c =? 61 then ([], Some r) else let '(k, v) := cut_eq r in (c :: k, v)
  end.

(* strings.ToLower on the ASCII letters (the four keys are ASCII) *)
Definition lower (s : bytes) : bytes := map (fun c => if (65 <=? c) && (c <=? 90) then c + 32 else c) s.
Definition K_DVTY_L : bytes := [100; 118; 116; 121].   (* "dvty" *)

(* parseTXT (mdnsService.go:53) *)
Fixpoint parseTXT_loop (txt : list bytes) : bytes :=
  match txt with
  | [] => []
  | v :: r =>
      match cut_eq v with
      | (k, Some val) =>
          let k' := lower k in
          if bytes_eqb k' K_MODEL || bytes_eqb k' K_TY || bytes_eqb k' K_DVTY_L || bytes_eqb k' K_MD then val
          else parseTXT_loop r
      | (_, None) => parseTXT_loop r
      end
  end.
Definition parseTXT (txt : list bytes) : bytes :=
  if Nat.leb (length txt) 2 then [] else parseTXT_loop txt.

(* packet.IPNameEntry: Addr.IP (empty = zero Addr), NameEntry.Name / Model / Manufacturer; Type is "mdns" *)
Record ipname := mkIPN { in_ip : bytes; in_name : bytes; in_model : bytes; in_manu : bytes }.

(* the query branch: for _, q := range questions { ... } *)
Fixpoint query_loop (qs : list bytes) (name manu : bytes) : bytes * bytes :=
  match qs with
  | [] => (name, manu)
  | q :: r =>
      let name' := if negb (has_suffix q TCP_LOCAL) && negb (has_suffix q UDP_LOCAL) && has_suffix q DOT_LOCAL_DOT
                   then trim_suffix q DOT_LOCAL_DOT else name in
      let manu' := if contains q SLEEP_PROXY then APPLE else manu in
      query_loop r name' manu'
  end.

(* the section loop of a response: ipv4, ipv6, model *)
Fixpoint resp_loop (rs : list mres) (v4 v6 : list ipname) (model : bytes) : list ipname * list ipname * bytes :=
  match rs with
  | [] => (v4, v6, model)
  | r :: rest =>
      match mr_body r with
      | MB_A ip => resp_loop rest (v4 ++ [mkIPN ip (trim_suffix (mr_name r) DOT_LOCAL_DOT) [] []]) v6 model
      | MB_AAAA ip => resp_loop rest v4 (v6 ++ [mkIPN ip (trim_suffix (mr_name r) DOT_LOCAL_DOT) [] []]) model
      | MB_TXT txt => let m := parseTXT txt in resp_loop rest v4 v6 (if nonempty m then m else model)
      | MB_other => resp_loop rest v4 v6 model
      end
  end.

Definition set_model (model : bytes) (l : list ipname) : list ipname :=
  if nonempty model then map (fun e => mkIPN (in_ip e) (in_name e) model (in_manu e)) l else l.

(* mdnsCache: key = source MAC ++ id; an answered (MAC, id) is not processed again (5 minutes) *)
Definition mcache : Type := list (bytes * N).
Definition in_cache (c : mcache) (mac : bytes) (id : N) : bool :=
  existsb (fun k => bytes_eqb (fst k) mac && (snd k =? id)) c.

Definition processMDNS (c : mcache) (mac : bytes) (m : mmsg) : (list ipname * list ipname) * mcache :=
  if negb (mm_response m) then
    let '(name, manu) := query_loop (mm_questions m) [] [] in
    if nonempty name || nonempty manu then (([mkIPN [] name [] manu], []), c) else (([], []), c)
  else if in_cache c mac (mm_id m) then (([], []), c)
  else
    let '(v4, v6, model) := resp_loop (mm_resources m) [] [] [] in
    ((set_model model v4, set_model model v6), (mac, mm_id m) :: c).

(* ------------------------------------------------------------------ *)
(* The same with the cache clock: getMDNSCache / putMDNSCache read time.Now(); [now] (seconds) is an
   argument.  An entry answers for (MAC, id) while its expiry is After(now); an expired entry is
   deleted by the lookup and the response is processed again; put stores now + 5 minutes. *)
Definition MDNS_CACHE_SECONDS : Z := 300.
Definition mcache_t : Type := list (bytes * N * Z).   (* MAC, id, expiry *)

Definition key_is (mac : bytes) (id : N) (k : bytes * N * Z) : bool :=
  bytes_eqb (fst (fst k)) mac && (snd (fst k) =? id).

Fixpoint cache_find (c : mcache_t) (mac : bytes) (id : N) : option Z :=
  match c with
  | [] => None
  | k :: r => if key_is mac id k then Some (snd k) else cache_find r mac id
  end.

Definition cache_delete (c : mcache_t) (mac : bytes) (id : N) : mcache_t :=
  filter (fun k => negb (key_is mac id k)) c.

(* h.mdnsCache[key] = cache{...}: Go map assignment replaces *)
Definition cache_put (c : mcache_t) (mac : bytes) (id : N) (expiry : Z) : mcache_t :=
  (mac, id, expiry) :: cache_delete c mac id.

Definition processMDNS_at (c : mcache_t) (mac : bytes) (now : Z) (m : mmsg)
  : (list ipname * list ipname) * mcache_t :=
  if negb (mm_response m) then
    let '(name, manu) := query_loop (mm_questions m) [] [] in
    if nonempty name || nonempty manu then (([mkIPN [] name [] manu], []), c) else (([], []), c)
  else
    let fresh := match cache_find c mac (mm_id m) with
                 | Some expiry => (now <? expiry)%Z      (* c.expiry.After(time.Now()) *)
                 | None => false
                 end in
    if fresh then (([], []), c)
    else
      let c1 := cache_delete c mac (mm_id m) in            (* delete(h.mdnsCache, key) when expired *)
      let '(v4, v6, model) := resp_loop (mm_resources m) [] [] [] in
      ((set_model model v4, set_model model v6), cache_put c1 mac (mm_id m) (now + MDNS_CACHE_SECONDS)%Z).
