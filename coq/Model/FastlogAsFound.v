(* Model/FastlogAsFound.v — the three functions of fastlog/logging.go that were repaired
   (DESIGN 11 #25), exactly as found at /repo commit 040c128, kept so that the refutations
   of the property on the code as found stay machine-checked (Proofs/FastlogAsFound.v).
   The current code is modelled in Model/Fastlog.v. *)
From PV Require Export Base.Prelude Model.Fastlog.
Open Scope N_scope.

(* ZERO_RUN_MIN: the comparison constant of "zeros := j - i; zeros > K".
   As found: K = 1, so only runs of THREE or more groups were compressed (DESIGN 11 #25).
   fix: K = 0 (a run of two groups has j - i = 1). *)
Definition ZERO_RUN_K_af : Z := 1%Z.

(* for ; j < 8; j++ { if nonzero { break }
     if zeros := j - i; zeros > K && zeros > endZ-startZ { startZ = i; endZ = j } } *)
Fixpoint ip6_inner_af (ip : bytes) (i : nat) (js : list nat) (se : Z * Z) : Z * Z :=
  match js with
  | [] => se
  | j :: r =>
      if gz ip j then
        let zeros := (Z.of_nat j - Z.of_nat i)%Z in
        let se' := if (ZERO_RUN_K_af <? zeros)%Z && (snd se - fst se <? zeros)%Z
                   then (Z.of_nat i, Z.of_nat j) else se in
        ip6_inner_af ip i r se'
      else se
  end.
(* for i := 0; i < 8; i++ { j := i; inner } *)
Fixpoint ip6_outer_af (ip : bytes) (is : list nat) (se : Z * Z) : Z * Z :=
  match is with
  | [] => se
  | i :: r => ip6_outer_af ip r (ip6_inner_af ip i (seq i (8 - i)) se)
  end.
(* startZ := -1; endZ := -1; loops; if endZ == startZ { startZ = 99 } *)
Definition ip6_search_af (ip : bytes) : Z * Z :=
  let se := ip6_outer_af ip (seq 0 8) ((-1)%Z, (-1)%Z) in
  if (snd se =? fst se)%Z then (99%Z, snd se) else se.

(* body of: for i := 0; i < 8; i++ {
     if i == startZ { if startZ == 0 { appendByte(':') }; appendByte(':'); continue }
     if i >= startZ && i <= endZ { continue }
     if ip[i*2] != 0 { writeHexNoleadingZeros(ip[i*2]); writeHex(ip[i*2+1]) }
     else { writeHexNoleadingZeros(ip[i*2+1]) }
     appendByte(':') } *)
Definition ip6_body_af (ip : bytes) (sZ eZ : Z) (i : nat) (l : line) : res line :=
  let zi := Z.of_nat i in
  if (zi =? sZ)%Z then
    (l <- (if (sZ =? 0)%Z then append_byte l 58 else Ok l) ;; append_byte l 58)%res
  else if (sZ <=? zi)%Z && (zi <=? eZ)%Z then Ok l
  else
    (l <- (if negb (at_ ip (2 * i) =? 0)
           then l <- write_hex_nlz l (at_ ip (2 * i)) ;; write_hex l (at_ ip (2 * i + 1))
           else write_hex_nlz l (at_ ip (2 * i + 1))) ;;
     append_byte l 58)%res.
Fixpoint ip6_emit_af (ip : bytes) (sZ eZ : Z) (is : list nat) (l : line) : res line :=
  match is with
  | [] => Ok l
  | i :: r => (l <- ip6_body_af ip sZ eZ i l ;; ip6_emit_af ip sZ eZ r l)%res
  end.

(* func (l *Line) appendIP6(ip net.IP):
     if len(ip) != 16 { copy "nil"; return } ; search ; emit ; if endZ < 7 { l.index-- } *)
Definition append_ip6_af (l : line) (ip : bytes) : res line :=
  if negb (Nat.eqb (List.length ip) 16) then copy_in l NIL
  else let '(sZ, eZ) := ip6_search_af ip in
       (l <- ip6_emit_af ip sZ eZ (seq 0 8) l ;;
        Ok (if (eZ <? 7)%Z then dec_index l else l))%res.


(* IPArray(name, value []net.IP): same frame;
     for _, v := range value {
       if l.index+28+2 > cap { break }
       if v != nil { if ip := v.To4(); ip != nil { dotted ; return l } ; l.appendIP6(v) }
       ',' ' ' }
     l.index-- ; ']'
   The loop result is (line, returned-early). IPARR_ROOM_af is the guard constant "28+2". *)
Definition IPARR_ROOM_af : nat := 30.
Fixpoint ia_loop_af (vs : list (option bytes)) (l : line) : res (line * bool) :=
  match vs with
  | [] => Ok (l, false)
  | v :: r =>
      if Nat.ltb BUFSZ (index l + IPARR_ROOM_af) then Ok (l, false)
      else
        match match v with Some ip => to4 ip | None => None end with
        | Some [a; b; c; d] => (l <- put_ip4 l a b c d ;; Ok (l, true))%res     (* return l *)
        | _ =>
            (l <- match v with Some ip => append_ip6_af l ip | None => Ok l end ;;
             l <- append_byte l 44 ;; l <- append_byte l 32 ;; ia_loop_af r l)%res
        end
  end.
Definition f_ip_array_af (l : line) (name : bytes) (vs : list (option bytes)) : res line :=
  if Nat.ltb BUFSZ (index l + List.length name + 4) then Ok l
  else (l <- field_open l name ;; l <- append_byte l 91 ;;
        match vs with
        | [] => append_byte l 93
        | _ => '(l, early) <- ia_loop_af vs l ;;
               if early then Ok l else append_byte (dec_index l) 93
        end)%res.


(* ByteArray(name, value):
     truncated := false
     rem := cap(l.buffer) - l.index - 1 - len(name) - 2
     if rem <= len(value)*3 {
       copy(l.buffer[cap-len("TRUNCATED "):], "TRUNCATED "); rem -= 10; value = value[:rem/3]; truncated = true }
     ' ' ; copy name ; copy "=[" ; for _, v := range value { writeHex(v); ' ' }
     if len(value) > 0 { l.index-- } ; ']' ; if truncated { l.index = cap - 1 }
   value[:rem/3] panics iff rem/3 < 0 (Go's / truncates toward zero: Z.quot); rem/3 <= len(value)
   always holds on this branch.  *)
Fixpoint ba_loop_af (vs : bytes) (l : line) : res line :=
  match vs with
  | [] => Ok l
  | v :: r => (l <- write_hex l v ;; l <- append_byte l 32 ;; ba_loop_af r l)%res
  end.
Definition f_byte_array_af (l : line) (name : bytes) (value : bytes) : res line :=
  let rem := (Z.of_nat BUFSZ - Z.of_nat (index l) - 1 - Z.of_nat (List.length name) - 2)%Z in
  let trunc := (rem <=? Z.of_nat (List.length value) * 3)%Z in
  let b1 := if trunc then write_at (buf l) (BUFSZ - 10) TRUNCATED else buf l in
  let hi := Z.quot (rem - 10) 3 in
  if trunc && (hi <? 0)%Z then Panic
  else
    let value' := if trunc then firstn (Z.to_nat hi) value else value in
    (l <- append_byte (mkLine b1 (index l)) 32 ;; l <- copy_in l name ;; l <- copy_in l [61; 91] ;;
     l <- ba_loop_af value' l ;;
     l <- append_byte (match value' with [] => l | _ => dec_index l end) 93 ;;
     Ok (if trunc then mkLine (buf l) (BUFSZ - 1) else l))%res.


(* IPSlice as found: same frame as Model/Fastlog.f_ipslice, printing through appendIP6 as found *)
Definition f_ipslice_af (l : line) (name : bytes) (v : option bytes) : res line :=
  (l <- field_open l name ;;
   match v with
   | Some ip => match to4 ip with
                | Some [a; b; c; d] => put_ip4 l a b c d
                | _ => append_ip6_af l ip
                end
   | None => copy_in l NIL
   end)%res.

(* IP as found: l.index = l.index + len(b) -- the index advanced by the whole text even when AppendTo had to
   reallocate, i.e. past byte 2048 *)
Definition f_ip_af (l : line) (name : bytes) (v : option bytes) : res line :=
  (l <- field_open l name ;;
   match v with
   | Some t =>
       if Nat.ltb BUFSZ (index l) then Panic
       else Ok (mkLine (write_at (buf l) (index l) (firstn (BUFSZ - index l) t)) (index l + List.length t))
   | None => copy_in l NIL
   end)%res.
