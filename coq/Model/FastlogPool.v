(* Model/FastlogPool.v — the writer and the pool as state.
   var lines = sync.Pool{New: func() interface{} { return new(Line) } }
   Logger.Msg:      l := lines.Get() asserted to *Line                      take a free buffer, or allocate
   Line.ToString:   str := string(l.buffer[:l.index]); poison; lines.Put(l)
   Line.Write:      DefaultIOWriter.Write(l.buffer[:l.index+1]) (its result does not change what follows);
                    poison; lines.Put(l)
   A history is a sequence of Msg / appender / Write / ToString calls on line handles, several lines alive
   at once.  The pool is the multiset [free] of free buffer ids; WRITE_PUTS / TOSTRING_PUTS say how many
   times the call returns its buffer (the discipline table, compared with the source by go/ast). *)
From PV Require Export Base.Prelude Model.Fastlog Model.FastlogOps.
Open Scope N_scope.

Inductive hop : Type :=
| HMsg (k : nat) (m s : bytes)         (* handle k := Logger(m).Msg(s) *)
| HApp (k : nat) (o : op)              (* an appender call on line k *)
| HWrite (k : nat) (failing : bool)    (* line k .Write(); failing: DefaultIOWriter returns an error *)
| HToString (k : nat).

(* a live line: handle, buffer id, and (ghost) how it was started and which calls it received *)
Record lv := mkLv { lv_k : nat; lv_id : nat; lv_m : bytes; lv_s : bytes; lv_ops : list op }.

Record pst := mkP { heap : nat -> res line; free : list nat; live : list lv; fresh : nat; outs : list (res bytes) }.

Definition upd (h : nat -> res line) (i : nat) (v : res line) : nat -> res line :=
  fun j => if Nat.eqb j i then v else h j.

Definition zero_line : line := mkLine (repeat 0 BUFSZ) 0.
Definition pinit : pst := mkP (fun _ => Ok zero_line) [] [] 0 [].

Fixpoint find_lv (k : nat) (l : list lv) : option lv :=
  match l with
  | [] => None
  | e :: r => if Nat.eqb (lv_k e) k then Some e else find_lv k r
  end.
Fixpoint remove_lv (k : nat) (l : list lv) : list lv :=
  match l with
  | [] => []
  | e :: r => if Nat.eqb (lv_k e) k then r else e :: remove_lv k r
  end.

(* how many times each finishing call Puts its line: the discipline (source: one lines.Put in each, no nested call) *)
Definition WRITE_PUTS : nat := 1.
Definition TOSTRING_PUTS : nat := 1.
Definition MSG_GETS : nat := 1.

(* l.index = copy(l.buffer[:], "invalid buffer freed via ...") *)
Definition POISON_W : bytes := [105;110;118;97;108;105;100;32;98;117;102;102;101;114;32;102;114;101;101;100;32;118;105;97;32;87;114;105;116;101;40;41].
Definition POISON_T : bytes := [105;110;118;97;108;105;100;32;98;117;102;102;101;114;32;102;114;101;101;100;32;118;105;97;32;84;111;83;116;114;105;110;103;40;41].
Definition poison (p : bytes) (l : line) : line := mkLine (write_at (buf l) 0 p) (List.length p).

Definition pstep (s : pst) (h : hop) : pst :=
  match h with
  | HMsg k m sg =>
      let '(id, free', fresh') := match free s with [] => (fresh s, [], S (fresh s)) | i :: r => (i, r, fresh s) end in
      let b0 := match heap s id with Ok l => buf l | _ => repeat 0 BUFSZ end in
      mkP (upd (heap s) id (msg_line b0 m sg)) free' (mkLv k id m sg [] :: live s) fresh' (outs s)
  | HApp k o =>
      match find_lv k (live s) with
      | Some e =>
          mkP (upd (heap s) (lv_id e) (l <- heap s (lv_id e) ;; run_op l o)%res) (free s)
              (mkLv k (lv_id e) (lv_m e) (lv_s e) (lv_ops e ++ [o]) :: remove_lv k (live s)) (fresh s) (outs s)
      | None => s
      end
  | HWrite k _ =>
      match find_lv k (live s) with
      | Some e =>
          mkP (upd (heap s) (lv_id e) (l <- heap s (lv_id e) ;; Ok (poison POISON_W l))%res)
              (repeat (lv_id e) WRITE_PUTS ++ free s) (remove_lv k (live s)) (fresh s)
              (outs s ++ [(l <- heap s (lv_id e) ;; write_out l)%res])
      | None => s
      end
  | HToString k =>
      match find_lv k (live s) with
      | Some e =>
          mkP (upd (heap s) (lv_id e) (l <- heap s (lv_id e) ;; Ok (poison POISON_T l))%res)
              (repeat (lv_id e) TOSTRING_PUTS ++ free s) (remove_lv k (live s)) (fresh s)
              (outs s ++ [(l <- heap s (lv_id e) ;; to_string l)%res])
      | None => s
      end
  end.

Definition prun (hs : list hop) : pst := fold_left pstep hs pinit.

(* a well-formed use of handles: Msg on an unused handle, everything else on a live one *)
Definition hop_ok (s : pst) (h : hop) : bool :=
  match h with
  | HMsg k _ _ => match find_lv k (live s) with None => true | Some _ => false end
  | HApp k _ | HWrite k _ | HToString k => match find_lv k (live s) with Some _ => true | None => false end
  end.
Fixpoint hist_ok (s : pst) (hs : list hop) : bool :=
  match hs with
  | [] => true
  | h :: r => hop_ok s h && hist_ok (pstep s h) r
  end.
