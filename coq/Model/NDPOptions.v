(* Model/NDPOptions.v — layer_icmp6_options.go: newParseOptions and every option
   unmarshal, branch by branch, over Go slices (Base/Slice.v: len AND cap).
   Only termination and panic-freedom are observed (C08): decoded field values
   are not carried; every index / re-slice of the Go code is present with its
   exact panic rule.  Logging calls (Logger.Msg(..).Write(), fmt.Println) are
   no-ops here.  The label validation of DNSSearchList.unmarshal (isASCII,
   strings.Contains, puny.ToUnicode) is a parameter [lbl_ok]: third-party code,
   the theorems hold for every such function. *)
From PV Require Import Base.Prelude Base.Slice.
Open Scope N_scope.

(* error swallowed by the caller (logged and ignored); panics / fuel propagate *)
Definition ign (r : res unit) : res unit :=
  match r with Err _ => Ok tt | x => x end.

(* LinkLayerAddress.unmarshal (layer_icmp6_options.go:95) *)
Definition lla_unmarshal (b : slice) : res unit :=
  (t <- idx b 0 ;;
   l <- idx b 1 ;;
   if negb (l =? 1) then Err EOther
   else if negb ((t =? 1) || (t =? 2)) then Err EOther
   else _ <- slfrom b 2 ;; Ok tt)%res.

(* MTU.unmarshal (:139, as repaired by 8afc7d0): int(b[1])*8 - 2, MTU field b[4:8] *)
Definition mtu_unmarshal (b : slice) : res unit :=
  (l1 <- idx b 1 ;;
   if negb (Z.eqb (Z.of_N l1 * 8 - 2) 6) then Err EOther
   else _ <- sl b 4 8 ;; Ok tt)%res.

(* PrefixInformation.unmarshal (:207) *)
Definition pi_unmarshal (b : slice) : res unit :=
  (l1 <- idx b 1 ;;
   if negb (l1 =? 4) then Err EOther
   else
     value <- slfrom b 2 ;;
     pl <- idx value 0 ;;
     if 128 <? pl then Err EOther else     (* prefix length above 128 rejected (cb8b5b9) *)
     _ <- idx value 1 ;;
     _ <- idx value 1 ;;
     _ <- sl value 2 6 ;;
     _ <- sl value 6 10 ;;
     a <- sl value 14 30 ;;
     (* netip.AddrFromSlice: ok iff len 4 or 16; Is6 iff len 16 *)
     if negb (Nat.eqb (len a) 16) then Err EInvalidIP
     else _ <- idx value 0 ;; Ok tt)%res.

(* RouteInformation.unmarshal (:299) *)
Definition ri_len_ok (l pl : N) : bool :=
  if pl =? 0 then negb ((l <? 1) || (3 <? l))
  else if pl <? 65 then (l =? 2) || (l =? 3)
  else if pl <? 129 then (l =? 3)
  else false.

Definition ri_unmarshal (b : slice) : res unit :=
  (l <- idx b 1 ;;
   pl <- idx b 2 ;;
   if negb (ri_len_ok l pl) then Err EOther
   else
     p3 <- idx b 3 ;;
     (* checkPreference((b[3] & 0x18) >> 3): 2 is the reserved value; checked before anything
        is assigned (3a9dc1a) *)
     if N.shiftr (N.land p3 24) 3 =? 2 then Err EOther
     (* b[8 : 8+(int(pl)+7)/8] (as repaired by ade5692) *)
     else _ <- sl b 4 8 ;; _ <- sl b 8 (8 + N.to_nat ((pl + 7) / 8)) ;; Ok tt)%res.

(* RecursiveDNSServer.unmarshal (:405) *)
Fixpoint rdnss_servers (n : nat) (i : nat) (value : slice) : res unit :=
  match n with
  | O => Ok tt
  | S n' => (_ <- sl value (6 + i * 16) (6 + 16 + i * 16) ;; rdnss_servers n' (S i) value)%res
  end.

Definition rdnss_unmarshal (b : slice) : res unit :=
  (value <- slfrom b 2 ;;
   l1 <- idx b 1 ;;
   let dividend := ((Z.of_N l1 - 1) * 8)%Z in
   if negb (Z.eqb (Z.rem dividend 16) 0) then Err EOther    (* dividend % net.IPv6len (0b179fd) *)
   else
     let count := Z.quot dividend 16 in
     if Z.eqb count 0 then Err EOther
     else _ <- sl value 2 6 ;; rdnss_servers (Z.to_nat count) 0 value)%res.

(* RawOption.unmarshal (:630): Value is a fresh slice (make: cap = len) *)
Definition raw_unmarshal (b : slice) : res slice :=
  if Nat.ltb (len b) 2 then Err EOther
  else
    (_ <- idx b 0 ;;
     l1 <- idx b 1 ;;
     let l := (Z.of_N l1 * 8 - 2)%Z in   (* int(r.Length)*8 - 2 (as repaired by c4022d7) *)
     tail <- slfrom b 2 ;;
     if negb (Z.eqb l (Z.of_nat (len tail))) then Err EOther
     else Ok (of_bytes (firstn (Z.to_nat l) (arr tail))))%res.

Section DNSSL.
  Variable lbl_ok : bytes -> bool.

  (* the label loop of DNSSearchList.unmarshal (:531); [have] = len(domains) > 0 *)
  Fixpoint dnssl_loop (fuel : nat) (v : slice) (i : nat) (have : bool) : res unit :=
    match fuel with
    | O => Fuel
    | S f =>
        (r <- slfrom v i ;;
         if Nat.ltb (len r) 2 then Err EOther
         else
           length <- idx v i ;;
           if Z.leb (Z.of_nat (len r) - 1) (Z.of_N length) then Err EOther
           else if length =? 0 then (if have then Ok tt else Err EOther)
           else
             let i1 := S i in
             label <- sl v i1 (i1 + N.to_nat length) ;;
             if negb (lbl_ok (view label)) then Err EOther
             else
               let i2 := (i1 + N.to_nat length)%nat in
               z <- idx v i2 ;;
               if z =? 0 then
                 let i3 := S i2 in
                 r2 <- slfrom v i3 ;;
                 if Nat.eqb (len r2) 0 then Ok tt
                 else
                   (if Nat.eqb (len r2) 1 then
                      (z3 <- idx v i3 ;;
                       if z3 =? 0 then Ok tt else dnssl_loop f v i3 true)
                    else dnssl_loop f v i3 true)
               else dnssl_loop f v i2 have)%res
    end.

  Definition dnssl_unmarshal (fuel : nat) (b : slice) : res unit :=
    (v <- raw_unmarshal b ;;
     _ <- sl v 2 6 ;;
     dnssl_loop fuel v 6 false)%res.

  (* newParseOptions (:677) *)
  Definition opt_step (fuel : nat) (t : N) (o : slice) : res unit :=
    if (t =? 1) || (t =? 2) then lla_unmarshal o
    else if t =? 5 then ign (mtu_unmarshal o)
    else if t =? 3 then pi_unmarshal o
    else if t =? 24 then ign (ri_unmarshal o)
    else if t =? 25 then ign (rdnss_unmarshal o)
    else if t =? 31 then ign (dnssl_unmarshal fuel o)
    else Ok tt.

  Fixpoint parse_opts (fuel : nat) (b : slice) (i : nat) : res unit :=
    match fuel with
    | O => Fuel
    | S f =>
        (r <- slfrom b i ;;
         if Nat.eqb (len r) 0 then Ok tt
         else if Nat.ltb (len r) 2 then Err EOther
         else
           t <- idx b i ;;
           l1 <- idx b (i + 1) ;;
           let l := (N.to_nat l1 * 8)%nat in
           (* RFC 4861 4.6 guard added by the #12 repair: a zero-length option is an error *)
           if Nat.eqb l 0 then Err EOther
           else if Nat.ltb (len r) l then Err EOther
           else
             o <- sl b i (i + l) ;;
             _ <- opt_step (len b) t o ;;
             parse_opts f b (i + l))%res
    end.

  Definition new_parse_options (fuel : nat) (b : slice) : res unit := parse_opts fuel b 0.

  (* ICMP6RouterAdvertisement.Options (layer_icmp.go:256) and
     ICMP6RouterSolicitation.Options (:205): the exported entry points *)
  Definition ra_options (fuel : nat) (p : slice) : res unit :=
    if Nat.leb (len p) 16 then Ok tt
    else (b <- slfrom p 16 ;; new_parse_options fuel b)%res.
  Definition rs_options (fuel : nat) (p : slice) : res unit :=
    if Nat.leb (len p) 8 then Ok tt       (* as repaired by 24e521d: options follow byte 8 *)
    else (b <- slfrom p 8 ;; new_parse_options fuel b)%res.
End DNSSL.

