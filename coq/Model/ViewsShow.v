(* Model/ViewsShow.v -- canonical text of a getter outcome (the observation the
   harness prints for the real method), and the registry of view types. *)
From PV Require Export Base.Text Model.ViewsBase Model.Views Model.Views2 Model.ViewsVar Model.ViewsKnown.
Open Scope string_scope.

(* full value (C02) *)
Fixpoint show_value (x : value) : string :=
  match x with
  | VN n => dec_of_N n
  | VB b => show_bool b
  | VR o n => match n with O => "e" | _ => "r" ++ dec_of_nat o ++ "+" ++ dec_of_nat n end
  | VNil => "e"
  | VX b => "x" ++ hex_of_bytes b
  | VS s => "s:" ++ s
  | VL l => "[" ++ join "," ((fix go (l : list value) : list string :=
                               match l with [] => [] | y :: r => show_value y :: go r end) l) ++ "]"
  | VU => "ok"
  | VE => "err"
  end.

(* what C01 constrains: returned or not, and where returned slices lie *)
Fixpoint show_shape_raw (x : value) : string :=
  match x with
  | VR o n => match n with O => "e" | _ => "r" ++ dec_of_nat o ++ "+" ++ dec_of_nat n end
  | VNil => "e"
  | VL l => "[" ++ join "," ((fix go (l : list value) : list string :=
                               match l with [] => [] | y :: r => show_shape_raw y :: go r end) l) ++ "]"
  | VE => "err"
  | _ => "ok"
  end.
(* a list (or map, or decoded struct) that holds no non-empty range into the view is just "ok" *)
Definition has_range (x : value) : bool := existsb (fun r => negb (Nat.eqb (snd r) 0)) (ranges x).
Definition show_shape (x : value) : string :=
  match x with
  | VL _ => if has_range x then show_shape_raw x else "ok"
  | _ => show_shape_raw x
  end.

Definition show_out {A} (f : A -> string) (r : res A) : string :=
  match r with Ok a => f a | Err _ => "err" | Panic => "panic" | Fuel => "fuel" end.
