(* Model/ParseKnown.v — decidable predicates characterising the input classes on which the
   UNCHANGED Session.Parse violates C01 / C02 (one per recorded finding in
   /verif/known_findings.txt).  They are functions of the bytes within the length only.
   The dispatch modules print the key of the class when (and only when) the model deviates
   from the specification on the case, so that a different deviation is still reported.
   The partial theorems are stated under "no class applies". *)
From PV Require Export Base.Text Model.Parse Spec.RFC.
Open Scope string_scope.
Open Scope N_scope.

Section Classes.
  Variable b : bytes.                       (* the frame: bytes within the length *)
  Let n := List.length b.
  Let et := word_at b 12.
  Let unicast := negb (N.odd (byte_at b 6)).
  Let l3len := (n - 14)%nat.                (* bytes after the 14-byte Ethernet header *)

  (* finding parse-arp-short (layer_frame.go:240, `len(arp) < 28 && arp[4] != 6`):
     the index arp[4] is evaluated on ARP bodies shorter than 5 bytes (panic) and a body
     shorter than 28 bytes with arp[4] == 6 is accepted; below 18 bytes the following
     slice expression arp[14:18] panics, or reads the spare capacity when there is some. *)
  Definition k_arp_trunc : bool :=
    Nat.leb 14 n && unicast && (et =? 2054) && Nat.ltb l3len 28 &&
    (Nat.leb l3len 4 || (byte_at b 18 =? 6)).
  (* the part of the class that is unsafe (panic / capacity dependent), C01 *)
  Definition k_arp_unsafe : bool := k_arp_trunc && Nat.ltb l3len 18.

  (* finding parse-arp-hlen: with 28 bytes or more the hardware length is not looked at *)
  Definition k_arp_hlen : bool :=
    Nat.leb 14 n && unicast && (et =? 2054) && Nat.leb 28 l3len && negb (byte_at b 18 =? 6).

  (* finding parse-vlan-short: EtherType 0x8100 / 0x88a8 and a frame shorter than the tagged
     header (18 / 22): Parse returns nil and Frame.Payload() slices beyond the length *)
  Definition k_vlan_short : bool :=
    Nat.leb 14 n && (((et =? 33024) && Nat.ltb n 18) || ((et =? 34984) && Nat.ltb n 22)).

  (* finding parse-ip4-ihl: IPv4 with IHL*4 < 20 accepted (the other tests of IsValid pass) *)
  Let ihl := N.to_nat (4 * (byte_at b 14 mod 16)).
  Let tl := N.to_nat (word_at b 16).
  Definition k_ip4_accepts : bool :=
    Nat.leb 14 n && unicast && (et =? 2048) && Nat.leb 20 l3len && Nat.leb ihl l3len && Nat.leb tl l3len.
  Definition k_ip4_ihl : bool := k_ip4_accepts && Nat.ltb ihl 20.
  (* finding parse-ip4-totallen: IHL fine, TotalLen < IHL*4 accepted *)
  Definition k_ip4_totallen : bool := k_ip4_accepts && Nat.leb 20 ihl && Nat.ltb tl ihl.

  (* finding parse-ip6-trailing: IPv6 whose payload length is consistent with the bytes
     present but followed by trailing bytes (padding, FCS) is rejected: `==` for `<=` *)
  Definition k_ip6_trailing : bool :=
    Nat.leb 14 n && unicast && (et =? 34525) && Nat.leb 40 l3len &&
    Nat.ltb (40 + N.to_nat (word_at b 18)) l3len.

  Definition known_C02 : option string :=
    if k_vlan_short then Some "parse-vlan-short"
    else if k_arp_trunc then Some "parse-arp-short"
    else if k_arp_hlen then Some "parse-arp-hlen"
    else if k_ip4_ihl then Some "parse-ip4-ihl"
    else if k_ip4_totallen then Some "parse-ip4-totallen"
    else if k_ip6_trailing then Some "parse-ip6-trailing"
    else None.

  Definition known_C01 : option string :=
    if k_vlan_short then Some "parse-vlan-short"
    else if k_arp_unsafe then Some "parse-arp-short"
    else None.
End Classes.
