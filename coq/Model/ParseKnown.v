(* Model/ParseKnown.v — decidable predicates characterising the input classes on which the
   UNCHANGED Session.Parse violates C01 / C02 (one per recorded finding in
   /verif/known_findings.txt).  They are functions of the bytes within the length only.
   The dispatch modules print the key of the class when (and only when) the model deviates
   from the specification on the case, so that a different deviation is still reported.
   The partial theorems are stated under "no class applies". *)
From PV Require Export Base.Text Model.Parse Spec.RFC.
Open Scope string_scope.
Open Scope N_scope.

Section Classes.
  Variable fx : fixes.                      (* the validator variants in force (Model/Parse.v) *)
  Variable b : bytes.                       (* the frame: bytes within the length *)
  Let n := List.length b.
  Let et := word_at b 12.
  Let unicast := negb (N.odd (byte_at b 6)).
  Let l3len := (n - 14)%nat.                (* bytes after the 14-byte Ethernet header *)

  (* The classes parse-arp-short / parse-arp-hlen (layer_frame.go:240, `&&` for `||`) and parse-vlan-short
     (tagged header longer than the frame) were repaired in /repo (see known_findings.txt "fixed:");
     the model follows the repaired code and no class is left for C01. *)

  (* finding parse-ip4-ihl: IPv4 with IHL*4 < 20 accepted (the other tests of IsValid pass) *)
  Let ihl := N.to_nat (4 * (byte_at b 14 mod 16)).
  Let tl := N.to_nat (word_at b 16).
  (* IP4.IsValid as it was *)
  Definition k_ip4_accepts : bool :=
    Nat.leb 14 n && unicast && (et =? 2048) && Nat.leb 20 l3len && Nat.leb ihl l3len && Nat.leb tl l3len.
  Definition k_ip4_ihl : bool := negb (fx_ip4 fx) && k_ip4_accepts && Nat.ltb ihl 20.
  (* finding parse-ip4-totallen: IHL fine, TotalLen < IHL*4 accepted *)
  Definition k_ip4_totallen : bool := negb (fx_ip4 fx) && k_ip4_accepts && Nat.leb 20 ihl && Nat.ltb tl ihl.

  (* finding parse-ip6-trailing: IPv6 whose payload length is consistent with the bytes
     present but followed by trailing bytes (padding, FCS) is rejected: `==` for `<=` *)
  Definition k_ip6_trailing : bool :=
    negb (fx_ip6 fx) &&
    Nat.leb 14 n && unicast && (et =? 34525) && Nat.leb 40 l3len &&
    Nat.ltb (40 + N.to_nat (word_at b 18)) l3len.

  (* finding parse-tcp-doff: Parse reaches the TCP case with 20 bytes or more and TCP.IsValid (len >= 20 only)
     accepts a data offset below 5 words or beyond the bytes present (length-inconsistent TCP header) *)
  Definition bad_doff (off : nat) : bool :=
    Nat.leb 20 (n - off) &&
    (let d := N.to_nat (4 * (byte_at b (off + 12) / 16)) in Nat.ltb d 20 || Nat.ltb (n - off) d).
  (* the IP layer in force lets the frame through *)
  Definition ip4_passes : bool :=
    Nat.leb 20 l3len && Nat.leb ihl l3len && Nat.leb tl l3len &&
    (if fx_ip4 fx then Nat.leb 20 ihl && Nat.leb ihl tl else true).
  Definition ip6_passes : bool :=
    Nat.leb 40 l3len &&
    (if fx_ip6 fx then Nat.leb (N.to_nat (word_at b 18) + 40) l3len
     else u16 (word_at b 18 + 40) =? N.of_nat l3len).
  Definition k_tcp_doff : bool :=
    negb (fx_tcp fx) && Nat.leb 14 n && unicast &&
    (((et =? 2048) && ip4_passes && (byte_at b 23 =? 6) && bad_doff (14 + ihl))
     || ((et =? 34525) && ip6_passes && (byte_at b 20 =? 6) && bad_doff 54)).

  Definition known_C02 : option string :=
    if k_ip4_ihl then Some "parse-ip4-ihl"
    else if k_ip4_totallen then Some "parse-ip4-totallen"
    else if k_ip6_trailing then Some "parse-ip6-trailing"
    else if k_tcp_doff then Some "parse-tcp-doff"
    else None.

End Classes.

(* no recorded class for C01 (Parse unit) any more *)
Definition known_C01 (b : bytes) : option string := None.
