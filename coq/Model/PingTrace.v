(* Model/PingTrace.v — vocabulary for statements about histories of the waiter-table model. *)
From PV Require Import Base.Prelude Model.Ping.
Open Scope N_scope.

(* P holds in every state the history passes through (first and last included) *)
Fixpoint always (fx : bool) (P : state -> Prop) (s : state) (tr : list event) : Prop :=
  P s /\ match tr with
         | [] => True
         | e :: r => match step fx s e with Ok s' => always fx P s' r | _ => True end
         end.

Definition is_notify (i : id) (e : event) : bool :=
  match e with Notify j => j =? i | _ => false end.
