(* Model/PingTrace.v — vocabulary for statements about histories of the waiter-table model. *)
From PV Require Import Base.Prelude Model.Ping.
Open Scope N_scope.

(* P holds in every state the history passes through (first and last included) *)
Fixpoint always (fx : bool) (P : state -> Prop) (s : state) (tr : list event) : Prop :=
  P s /\ match tr with
         | [] => True
         | e :: r => match step fx s e with Ok s' => always fx P s' r | _ => True end
         end.

(* No call is still outstanding (in its send or its select) once 65536 identifiers (its own
   included) have been handed out since it began.  Identifiers are handed out consecutively modulo 2^16 and the code does NOT look whether
   the identifier is still in the table, so this is the condition under which the identifiers of
   the calls that wait at the same time are distinct (Proofs/PingIff.v: ids_distinct, sharp by
   id_equal_iff). *)
Definition young (s : state) : Prop :=
  forall q pg, pget (pings s) q = Some pg -> outstanding pg = true -> cnt s - p_seq pg < 65536.

Definition youngb (s : state) : bool :=
  forallb (fun e : pid * ping => if outstanding (snd e) then cnt s - p_seq (snd e) <? 65536 else true)
          (pings s).

(* the recorded defect class "identifier reused while still waited for" (key ping_id_wrap_collision):
   a state that is not young *)
Definition known_C19_wrap (s : state) : bool := negb (youngb s).

Definition is_notify (i : id) (e : event) : bool :=
  match e with Notify j => j =? i | _ => false end.
