(* Model/SendPool.v — the shared frame-buffer pool (packet.EtherBufferPool, a sync.Pool) as state carried between
   sends.  The send functions of Model/Send*.v are pure: each takes the previous contents of "its" pooled buffer(s)
   as [junk] arguments, i.e. they assume that the buffers a send holds at the same time are different memory.  That
   is a property of the pool discipline of the code, stated and proved here: every send function Gets its buffer(s)
   and returns each exactly once, by a deferred Put, on every path (error paths included; the `pool` case of the
   harness reads this off the source).  Buffers are identities (nat); contents are the [junk] of the step. *)
From PV Require Export Model.SendHistory.
Close Scope N_scope.
Require Import List Arith.
Import ListNotations.

Record pool := mkPool { free : list nat; next : nat }.

(* sync.Pool.Get: a pooled buffer, or New *)
Definition pget (s : pool) : nat * pool :=
  match free s with
  | b :: r => (b, mkPool r (next s))
  | [] => (next s, mkPool [] (S (next s)))
  end.
Definition pput (b : nat) (s : pool) : pool := mkPool (b :: free s) (next s).

Fixpoint pget_n (k : nat) (s : pool) : list nat * pool :=
  match k with
  | O => ([], s)
  | S k' => let '(b, s1) := pget s in let '(l, s2) := pget_n k' s1 in (b :: l, s2)
  end.
(* deferred Puts run innermost first *)
Definition pput_all (held : list nat) (s : pool) : pool := fold_right pput s held.

(* number of pooled buffers a send path holds at the same time (sendDeclineReleasePacket: the DHCP message
   buffer and, inside sendDHCP4Packet, the frame buffer; the mDNS paths use a local array) *)
Definition buffers_of (ev : event) : nat :=
  match ev with
  | EvDeclineRelease _ _ _ _ => 2
  | EvMdnsQuery _ | EvLlmnrQuery _ | EvMdns _ _ _ _ => 0
  | _ => 1
  end.

Fixpoint nodupb (l : list nat) : bool :=
  match l with [] => true | x :: r => negb (existsb (Nat.eqb x) r) && nodupb r end.

(* one send against the pool: [None] when two buffers held at the same time are the same memory (then the pure
   send function does not describe the frame); [extra] = Puts beyond the deferred one (0 in the code as it
   is; 1 = the explicit Put on an error path next to the deferred one) *)
Definition pool_send (extra : nat) (k : nat) (s : pool) : option pool :=
  let '(held, s1) := pget_n k s in
  if nodupb held then Some (pput_all (concat (repeat held extra)) (pput_all held s1)) else None.

Fixpoint pool_run (shape : list (nat * nat)) (s : pool) : option pool :=
  match shape with
  | [] => Some s
  | (extra, k) :: r => match pool_send extra k s with Some s' => pool_run r s' | None => None end
  end.

(* the code as it is: no extra Put anywhere *)
Definition shape_of (h : list step) : list (nat * nat) := map (fun st => (0%nat, buffers_of (fst (fst st)))) h.

(* ------------------------------------------------------------------ *)
(* Modes that are not inputs of the send functions.

   Log level: the library logs through package-level loggers at error / info / debug.  The send functions of the
   model have no such parameter; [emit_at] makes that explicit: logging is an observer. *)
Inductive log_level := LError | LInfo | LDebug.
Definition emit_at (l : log_level) (c : cfg) (s : step) : res (list bytes) := emit c s.
Definition run_at (ls : list log_level) (c : cfg) (h : list step) : list bytes :=
  concat (map (fun p => frames_of (emit_at (fst p) c (snd p))) (combine ls h)).

(* Write errors: every send function hands its frame(s) to Conn.WriteTo once and returns the error of that call;
   none retries.  [conn_write fails frames] = (what reaches the wire, whether the error is returned). *)
Definition conn_write {A} (fails : bool) (frames : list A) : list A * bool :=
  match frames with
  | [] => ([], false)                      (* refused before any write: no write, not this error *)
  | _ => if fails then ([], true) else (frames, false)
  end.
Definition emit_conn (fails : bool) (c : cfg) (s : step) : list bytes * bool := conn_write fails (frames_of (emit c s)).
