(* Model/TablesGlue.v — C04/C05/C06 over RAW FRAME BYTES: the glue between the byte-level model of
   Session.Parse (Model/Parse.v, PARSE cluster, imported read-only) and the table state machine
   (Model/Tables.v), whose [Rx] op takes the abstract summary of a received frame.

   [summary_of pc s] computes that summary from the bytes alone, with the primitives of Model/Parse.v
   (validators, field readers, classification table, configuration gates), following Session.Parse up to
   the point where the host table is touched (layer 3).  It is NOT computed from the result of [parse]:
   Parse touches the host table before it validates layer 4, so a frame with a good IPv4/IPv6 header and
   a truncated UDP/TCP/ICMP header creates/refreshes its host and THEN returns an error — the [res frame]
   of Model/Parse.v cannot carry the host key in that case.  Proofs/TablesGlue.v shows that whenever
   [parse] returns a frame, its host key [f_host] and source are the ones read here.

   ARP: the sender hardware/protocol addresses are read at their RFC 826 offsets (8..14, 14..18 of the
   ARP packet) whether or not the configuration gate is open, because the table model evaluates the gate
   itself. *)
From PV Require Import Base.Prelude Base.Slice Model.Parse Model.ParseFixes Model.Tables.
Open Scope N_scope.

(* ---------- bytes <-> numbers (big endian; every byte taken mod 256) ---------- *)
Fixpoint nob_acc (l : bytes) (acc : N) : N :=
  match l with [] => acc | b :: r => nob_acc r (acc * 256 + b mod 256) end.
Definition nob (l : bytes) : N := nob_acc l 0.

Fixpoint bon_acc (len : nat) (n : N) (acc : bytes) : bytes :=
  match len with O => acc | S k => bon_acc k (n / 256) (n mod 256 :: acc) end.
Definition bon (len : nat) (n : N) : bytes := bon_acc len n [].

(* netip.AddrFrom4 / AddrFrom16 of the bytes Parse read *)
Definition ip_of (l : bytes) : ip :=
  if Nat.eqb (List.length l) 4 then IP4 (nob l)
  else if Nat.eqb (List.length l) 16 then IP6 (nob l) else IPnone.

(* the Parse configuration of a table configuration *)
Definition pcfg_of (c : Tables.cfg) : Parse.cfg :=
  mkCfg (bon 6 (own_mac c)) (bon 6 (rt_mac c)) (bon 4 (lan_base c)) (lan_bits c) current_fixes.

(* ---------- layer 3 of Session.Parse ---------- *)
Record l3info : Set := {
  l_src : bytes;                    (* frame.SrcAddr.MAC *)
  l_class : fclass;
  l_ip : bytes;                     (* IPv4/IPv6 source, ARP sender protocol address *)
  l_arpmac : bytes;                 (* ARP sender hardware address *)
  l_key : option (bytes * bytes) }. (* the (MAC, IP) handed to findOrCreateHostWithLock, if the gate is open *)

Definition l3_other (smac : bytes) : res l3info :=
  Ok {| l_src := smac; l_class := FOther; l_ip := []; l_arpmac := []; l_key := None |}.

Definition l3_of (c : Parse.cfg) (s : slice) : res l3info :=
  (_ <- ether_is_valid s ;;
   smac <- ether_src s ;;
   dmac <- ether_dst s ;;
   hl <- ether_header_len s ;;
   if Nat.ltb (len s) hl then Err EFrameLen else
   let f := mkFrame 0 0 0 0 hl PayloadEther (mkAddr smac [] 0) (mkAddr dmac [] 0) None None in
   if negb (is_unicast_mac smac) then l3_other smac else
   et <- ether_type s ;;
   if et <? 1536 then l3_other smac else
   match lookup_row et ethertype_rows with
   | Some id =>
       if id =? PayloadIP4 then
         p <- payload_view s (set_id f PayloadIP4) ;;
         _ <- ip4_is_valid (c_fx c) p ;;
         _ <- ip4_ihl p ;;
         _ <- ip4_protocol p ;;
         sip <- ip4_src p ;;
         _ <- ip4_dst p ;;
         Ok {| l_src := smac; l_class := FIP4; l_ip := sip; l_arpmac := [];
               l_key := if gate4 c smac sip then Some (smac, sip) else None |}
       else if id =? PayloadIP6 then
         p <- payload_view s (set_id f PayloadIP6) ;;
         _ <- ip6_is_valid (c_fx c) p ;;
         _ <- ip6_next_header p ;;
         sip <- ip6_src p ;;
         _ <- ip6_dst p ;;
         Ok {| l_src := smac; l_class := FIP6; l_ip := sip; l_arpmac := [];
               l_key := if gate6 c smac sip then Some (smac, sip) else None |}
       else if id =? PayloadARP then
         arp <- payload_view s (set_id f PayloadARP) ;;
         bad <- (if Nat.ltb (len arp) 28 then Ok true else b <- idx arp 4 ;; Ok (negb (b =? 6))) ;;
         if bad then Err EParseFrame else
         sip <- bytes_at arp 14 18 ;;
         am <- bytes_at arp 8 14 ;;
         Ok {| l_src := smac; l_class := FARP; l_ip := sip; l_arpmac := am;
               l_key := if gate4 c smac sip then Some (am, sip) else None |}
       else l3_other smac
   | None => l3_other smac
   end)%res.

(* Parse ended with PayloadID == PayloadDHCP4 (what the DHCP path of Notify tests) *)
Definition dhcp4_of (c : Parse.cfg) (s : slice) : bool :=
  match parse c s with Ok f => f_id f =? PayloadDHCP4 | _ => false end.

Definition invalid_summary : fsum :=
  {| Tables.f_src := 0; f_class := FInvalid; f_ip := IPnone; f_arpmac := 0; f_dhcp4 := false |}.

(* the abstract summary of a received frame, from its bytes *)
Definition summary_of (c : Parse.cfg) (s : slice) : fsum :=
  match l3_of c s with
  | Ok i =>
      let k := ip_of (l_ip i) in
      let cls := match l_class i, k with
                 | FIP4, IP4 _ => FIP4
                 | FARP, IP4 _ => FARP
                 | FIP6, IP6 _ => FIP6
                 | FOther, _ => FOther
                 | _, _ => FInvalid
                 end in
      {| Tables.f_src := nob (l_src i); f_class := cls; f_ip := k; f_arpmac := nob (l_arpmac i);
         f_dhcp4 := dhcp4_of c s |}
  | _ => invalid_summary
  end.

(* ---------- the table machine over raw bytes ---------- *)
Inductive bop : Type :=
| BRx (s : slice) (now : Z)     (* Session.Parse(s) at time now: any bytes, any capacity *)
| BOp (o : op).                 (* every other operation *)

Definition op_of_bop (c : Tables.cfg) (b : bop) : op :=
  match b with
  | BRx s now => Rx (summary_of (pcfg_of c) s) now
  | BOp o => o
  end.

Definition rx_bytes (c : Tables.cfg) (st : state) (s : slice) (now : Z) : state * out :=
  step c st (Rx (summary_of (pcfg_of c) s) now).

Definition bstep (c : Tables.cfg) (st : state) (b : bop) : state * out := step c st (op_of_bop c b).

Fixpoint brun (c : Tables.cfg) (st : state) (bs : list bop) : state :=
  match bs with
  | [] => st
  | b :: r => brun c (fst (bstep c st b)) r
  end.
