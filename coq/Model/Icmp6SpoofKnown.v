(* Model/Icmp6SpoofKnown.v — what "learned exactly" means for one router record, and the
   decidable classes of advertisements on which the library's data structure cannot be exact
   (recorded findings; used by the theorems and by the dispatch). *)
From PV Require Export Base.Prelude Model.Icmp6SpoofRA Spec.RFC4861.
Open Scope N_scope.

(* reference options as the record types of the library *)
Definition pi_of (o : ndopt) : prefix_info :=
  match o with OPrefix pl l a v p pfx => mkPI pl l a v p pfx | _ => mkPI 0 false false 0 0 [] end.
Definition ri_of (o : ndopt) : route_info :=
  match o with ORoute pl prf life pfx => mkRI pl prf life true pfx | _ => ri_zero end.
Definition rd_of (o : ndopt) : rdnss :=
  match o with ORdnss life srv => mkRD life srv | _ => mkRD 0 [] end.
Definition ds_of (o : ndopt) : dnssl :=
  match o with ODnssl life names => mkDS life names | _ => mkDS 0 [] end.

(* the single-valued fields of NewOptions read as lists *)
Definition model_routes (o : new_options) : list route_info := if ri_set (o_ri o) then [o_ri o] else [].
Definition model_rdnss (o : new_options) : list rdnss :=
  match rd_servers (o_rdnss o) with [] => [] | _ => [o_rdnss o] end.
Definition model_dnssl (o : new_options) : list dnssl :=
  match ds_names (o_dnssl o) with [] => [] | _ => [o_dnssl o] end.

(* header fields of the advertisement *)
Definition hdr_exact (r : router) (d : ra_info) : Prop :=
  r_managed r = ra_managed d /\ r_other r = ra_other d /\ r_prf r = ra_prf d /\ r_hop r = ra_hop d /\
  r_life r = ra_life d /\ r_reach r = ra_reach d /\ r_retrans r = ra_retrans d.

(* options with one value per advertisement (the last one read wins) and the prefix list *)
Definition opts_exact (r : router) (d : ra_info) : Prop :=
  o_slla (r_opts r) = last (sllas (ra_opts d)) [] /\
  r_mtu r = last (mtus (ra_opts d)) 0 /\
  o_mtu (r_opts r) = last (mtus (ra_opts d)) 0 /\
  r_prefixes r = map pi_of (prefixes (ra_opts d)) /\
  o_prefixes (r_opts r) = map pi_of (prefixes (ra_opts d)).

(* options that may occur several times, each with its own lifetime *)
Definition routes_exact (r : router) (d : ra_info) : Prop :=
  model_routes (r_opts r) = map ri_of (routes (ra_opts d)).
Definition rdnss_exact (r : router) (d : ra_info) : Prop :=
  model_rdnss (r_opts r) = map rd_of (rdnsses (ra_opts d)).
Definition dnssl_exact (r : router) (d : ra_info) : Prop :=
  model_dnssl (r_opts r) = map ds_of (dnssls (ra_opts d)).

(* recorded classes: two or more options of a kind the library keeps in a single struct *)
Definition known_ri_multiple (d : ra_info) : bool := (2 <=? List.length (routes (ra_opts d)))%nat.
Definition known_rdnss_multiple (d : ra_info) : bool := (2 <=? List.length (rdnsses (ra_opts d)))%nat.
Definition known_dnssl_multiple (d : ra_info) : bool := (2 <=? List.length (dnssls (ra_opts d)))%nat.
