(* Model/Icmp6SpoofKnown.v — what "learned exactly" means for one router record, and the
   decidable classes of advertisements on which the library's data structure cannot be exact
   (used by the theorems and by the dispatch). *)
From PV Require Export Base.Prelude Model.Icmp6SpoofRA Spec.RFC4861.
Open Scope N_scope.

(* reference options as the record types of the library *)
Definition pi_of (o : ndopt) : prefix_info :=
  match o with OPrefix pl l a v p pfx => mkPI pl l a v p pfx | _ => mkPI 0 false false 0 0 [] end.
Definition ri_of (o : ndopt) : route_info :=
  match o with ORoute pl prf life pfx => mkRI pl prf life true pfx | _ => ri_zero end.
Definition rd_of (o : ndopt) : rdnss :=
  match o with ORdnss life srv => mkRD life srv | _ => mkRD 0 [] end.
Definition ds_of (o : ndopt) : dnssl :=
  match o with ODnssl life names => mkDS life names | _ => mkDS 0 [] end.

(* header fields of the advertisement *)
Definition hdr_exact (r : router) (d : ra_info) : Prop :=
  r_managed r = ra_managed d /\ r_other r = ra_other d /\ r_prf r = ra_prf d /\ r_hop r = ra_hop d /\
  r_life r = ra_life d /\ r_reach r = ra_reach d /\ r_retrans r = ra_retrans d.

(* options with one value per advertisement (the last one read wins) and the prefix list *)
Definition opts_exact (r : router) (d : ra_info) : Prop :=
  o_slla (r_opts r) = last (sllas (ra_opts d)) [] /\
  r_mtu r = last (mtus (ra_opts d)) 0 /\
  o_mtu (r_opts r) = last (mtus (ra_opts d)) 0 /\
  r_prefixes r = map pi_of (prefixes (ra_opts d)) /\
  o_prefixes (r_opts r) = map pi_of (prefixes (ra_opts d)).

(* options that may occur several times, each with its own lifetime: every one, in packet order *)
Definition routes_exact (r : router) (d : ra_info) : Prop :=
  o_routes (r_opts r) = map ri_of (routes (ra_opts d)).
Definition rdnss_exact (r : router) (d : ra_info) : Prop :=
  o_rdnss_all (r_opts r) = map rd_of (rdnsses (ra_opts d)).
Definition dnssl_exact (r : router) (d : ra_info) : Prop :=
  o_dnssl_all (r_opts r) = map ds_of (dnssls (ra_opts d)).

(* the older single fields keep their documented meaning: last route, last DNSSL list, and the
   lifetime of the last RDNSS option over the servers of all of them *)
Definition rd_life_of (o : ndopt) : N := match o with ORdnss l _ => l | _ => 0 end.
Definition rd_srv_of (o : ndopt) : list bytes := match o with ORdnss _ s => s | _ => [] end.
Definition legacy_exact (r : router) (d : ra_info) : Prop :=
  o_ri (r_opts r) = last (map ri_of (routes (ra_opts d))) ri_zero /\
  o_dnssl (r_opts r) = last (map ds_of (dnssls (ra_opts d))) (mkDS 0 []) /\
  o_rdnss (r_opts r) = mkRD (last (map rd_life_of (rdnsses (ra_opts d))) 0)
                            (concat (map rd_srv_of (rdnsses (ra_opts d)))).
