(* Model/SendBase.v — buffer write primitives, addresses and configuration
   shared by the send-path models (C07).

   A send path takes a pooled *[EthMaxSize]byte whose previous contents are
   arbitrary ([junk], universally quantified in the theorems), writes the
   layers in place at fixed offsets and hands a prefix to Conn.WriteTo.  The
   buffer is a [bytes] of length 1522; a Go sub-slice p = buf[o:] is the
   offset [o] into it.  [copy] truncates to the shorter operand, as in Go. *)
From PV Require Export Base.Prelude.
Open Scope N_scope.

Definition hi8 (v : N) : byte := (v / 256) mod 256.
Definition lo8 (v : N) : byte := v mod 256.

(* binary.BigEndian.PutUint16(b[o:o+2], v) *)
Definition put16 (o : nat) (v : N) (b : bytes) : bytes :=
  set_nth o (hi8 v) (set_nth (S o) (lo8 v) b).

(* binary.BigEndian.PutUint32(b[o:o+4], v) *)
Definition put32 (o : nat) (v : N) (b : bytes) : bytes :=
  set_nth o ((v / 16777216) mod 256) (set_nth (o + 1) ((v / 65536) mod 256)
    (set_nth (o + 2) ((v / 256) mod 256) (set_nth (o + 3) (v mod 256) b))).

(* copy(b[o:o+n], src) *)
Definition cpy (o n : nat) (src : bytes) (b : bytes) : bytes := blit o (firstn n src) b.

(* zero b[o:o+n] *)
Definition zero (o n : nat) (b : bytes) : bytes := blit o (repeat 0 n) b.

Definition EthMaxSize : nat := 1522.

(* netip.Addr as the byte string AsSlice() returns: 0 bytes (zero Addr), 4 bytes (Is4), 16 bytes (Is6) *)
Definition is4 (a : bytes) : bool := Nat.eqb (List.length a) 4.
Definition is6 (a : bytes) : bool := Nat.eqb (List.length a) 16.
Definition ipv4zero : bytes := [0; 0; 0; 0].
Definition as16 (a : bytes) : bytes :=
  if is4 a then [0;0;0;0;0;0;0;0;0;0;255;255] ++ a
  else if is6 a then a else repeat 0 16.
(* Addr.Is4In6 / Unmap *)
Definition is4in6 (a : bytes) : bool :=
  is6 a && forallb (fun x => x =? 0) (firstn 10 a) && (nth 10 a 0 =? 255) && (nth 11 a 0 =? 255).
Definition unmap (a : bytes) : bytes := if is4in6 a then skipn 12 a else a.
(* net/netip (go1.23) IsLinkLocalUnicast / IsLinkLocalMulticast *)
Definition ll_unicast (a : bytes) : bool :=
  let a := unmap a in
  if is4 a then (nth 0 a 0 =? 169) && (nth 1 a 0 =? 254)
  else if is6 a then (nth 0 a 0 =? 254) && (N.land (nth 1 a 0) 192 =? 128)
  else false.
Definition ll_multicast (a : bytes) : bool :=
  let a := unmap a in
  if is4 a then (nth 0 a 0 =? 224) && (nth 1 a 0 =? 0) && (nth 2 a 0 =? 0)
  else if is6 a then (nth 0 a 0 =? 255) && (N.land (nth 1 a 0) 15 =? 2)
  else false.

(* packet.Addr{MAC, IP} (ports are passed separately where used) *)
Definition addr := (bytes * bytes)%type.
Definition a_mac (a : addr) : bytes := fst a.
Definition a_ip (a : addr) : bytes := snd a.

(* the fields of Session.NICInfo the send paths read *)
Record cfg := mkCfg {
  host_mac : bytes;      (* NICInfo.HostAddr4.MAC *)
  host_ip4 : bytes;      (* NICInfo.HostAddr4.IP *)
  host_lla : bytes;      (* NICInfo.HostLLA.Addr() *)
  router_mac : bytes;    (* NICInfo.RouterAddr4.MAC *)
  router_ip4 : bytes;    (* NICInfo.RouterAddr4.IP *)
  mtu : N                (* NICInfo.IFI.MTU *)
}.

Definition eth_bcast : bytes := [255;255;255;255;255;255].
Definition eth_zero : bytes := [0;0;0;0;0;0].

(* Poison pattern of the correspondence: the harness fills every pooled
   buffer with this pattern (seeded per case) before the library takes it. *)
Fixpoint poison_from (i seed : N) (n : nat) : bytes :=
  match n with
  | O => []
  | S k => ((seed + 73 * i + i / 251) mod 256) :: poison_from (i + 1) seed k
  end.
Definition poison (seed : N) : bytes := poison_from 0 seed EthMaxSize.

(* EncodeEther(b, hType, srcMAC, dstMAC): copy(b[0:6], dst); copy(b[6:12], src); PutUint16(b[12:14], hType) *)
Definition enc_ether (b : bytes) (et : N) (src dst : bytes) : bytes :=
  put16 12 et (cpy 6 6 src (cpy 0 6 dst b)).
