(* Model/AliasOut.v — C10, the way out: what the library hands back to the caller BY VALUE
   (a Notification on Session.C, the []Addr of FindByMAC / IPAddrs, the Router of FindRouter, the
   entries returned by ProcessMDNS, the DNSEntry of ProcessDNS / DNSFind) may contain byte slices.
   If such a slice is the table's own storage, a caller that overwrites "its" value (or a view write
   through it) changes the retained state, although no packet buffer is involved on the library side.

   Retained storage is a heap of cells; a getter at output point [k] on cell [i] returns either a
   copy of the cell or the cell itself ([OShare i]); the caller may write through whatever it
   received.  (Pointers handed out by contract - *Host, *MACEntry, Frame.Host, the exported maps -
   ARE the tables, with a documented locking protocol; they are not outputs in this sense.) *)
From PV Require Import Base.Prelude Base.Text.
Open Scope N_scope.
Open Scope list_scope.

Inductive opoint : Set :=
| OP_notification_mac   (* notification.go toNotification: Notification.Addr.MAC *)
| OP_gethosts           (* hosttable.go Session.GetHosts: the returned slice itself (its elements are pointers shared by contract) *)
| OP_findbymac_mac      (* hosttable.go Session.FindByMAC: Addr.MAC of every element *)
| OP_ipaddrs_mac        (* session.go Session.IPAddrs: Addr.MAC of every element *)
| OP_whois_mac          (* arp_spoofer arp.go Handler.WhoIs: Addr.MAC *)
| OP_findrouter         (* icmp_spoofer icmp6radv.go Handler6.FindRouter: Router.Addr.MAC, Options.* slices, Prefixes *)
| OP_mdns_entries       (* dns_naming mdns.go ProcessMDNS: the returned []IPNameEntry vs the cached ones (putMDNSCache) *)
| OP_dns_entry          (* dns_naming dns.go ProcessDNS, dnstable.go DNSFind: DNSEntry.Copy() *)
.

(* transcription of the Go code: does the output point copy?  As found in /repo the first six shared the
   tables' storage; repaired by 731d6b1 (toNotification), 2a8e70e (FindByMAC), 12c4150 (IPAddrs),
   66fd956 (FindRouter, NewOptions.Copy), 1fa6803 (putMDNSCache keeps its own copies), d9dd9af (WhoIs). *)
Definition out_copies (k : opoint) : bool :=
  match k with
  | OP_notification_mac => true    (* addr.MAC = CopyMAC(addr.MAC) *)
  | OP_gethosts => true            (* list = make([]*Host, 0, n): a fresh slice *)
  | OP_findbymac_mac => true       (* Addr{MAC: CopyMAC(v.MACEntry.MAC)} *)
  | OP_ipaddrs_mac => true         (* addr.MAC = CopyMAC(addr.MAC) *)
  | OP_whois_mac => true           (* Addr{MAC: CopyMAC(host.MACEntry.MAC)} (d9dd9af) *)
  | OP_findrouter => true          (* c.Options = r.Options.Copy(), c.Addr.MAC = CopyMAC(..) *)
  | OP_mdns_entries => true        (* the cache clones the entries and their MACs *)
  | OP_dns_entry => true           (* deep copy of the record maps *)
  end.

(* the code as found, kept for the refutation theorem *)
Definition out_copies_as_found (k : opoint) : bool :=
  match k with OP_dns_entry | OP_gethosts => true | _ => false end.

Definition heap := list bytes.
Inductive ov : Type := OCopy (b : bytes) | OShare (cell : nat).

Inductive cop : Type :=
| CGet (k : opoint) (cell : nat)        (* the caller obtains the value of a cell through output point k *)
| CWrite (handle : nat) (b : bytes).    (* the caller overwrites the handle-th value it has received *)

Definition cstep (oc : opoint -> bool) (w : heap * list ov) (o : cop) : heap * list ov :=
  match o with
  | CGet k i => (fst w, snd w ++ [if oc k then OCopy (nth i (fst w) []) else OShare i])
  | CWrite h b =>
      match nth_error (snd w) h with
      | Some (OShare i) => (set_nth i b (fst w), snd w)
      | _ => w                            (* writing into one's own copy *)
      end
  end.

Definition crun (oc : opoint -> bool) (ops : list cop) (hp : heap) : heap := fst (fold_left (cstep oc) ops (hp, [])).

(* the defect class: the caller writes through a value obtained at an output point that does not copy *)
Definition uses_only (good : opoint -> bool) (ops : list cop) : bool :=
  forallb (fun o => match o with CGet k _ => good k | CWrite _ _ => true end) ops.
