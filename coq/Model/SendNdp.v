(* Model/SendNdp.v — Router Solicitation / Router Advertisement (layer_icmp6_ndp.go,
   option marshalling of layer_icmp6_options.go), the IPv6 probes of purge (session.go:326-340)
   and the arp_spoofer send paths (handlers/arp_spoofer/arp.go).  As is, defects included. *)
From PV Require Export Model.Send.
Open Scope N_scope.

(* ------------------------------------------------------------------ *)
(* RawOption.marshal: l = int(Length)*8 (since fix 5a1aeef; was int(Length*8) in uint8 arithmetic, which
   wrapped for Length >= 32); error unless 2+len(Value) = l *)
Definition raw_option (ty len : N) (value : bytes) : option bytes :=
  let l := N.to_nat (8 * u8 len) in
  if Nat.eqb (2 + List.length value) l then Some ([u8 ty; u8 len] ++ value) else None.

(* LinkLayerAddress.marshal: direction 1/2, MAC must be 6 bytes *)
Definition lla_option (dir : N) (mac : bytes) : option bytes :=
  if Nat.eqb (List.length mac) 6 then raw_option dir 1 mac else None.

Definition b32 (v : N) : bytes := [(v / 16777216) mod 256; (v / 65536) mod 256; (v / 256) mod 256; v mod 256].

(* MTU.marshal *)
Definition mtu_option (m : N) : option bytes := raw_option 5 1 ([0; 0] ++ b32 (u32 m)).

(* net.CIDRMask(plen,128) applied to a 16-byte prefix *)
Fixpoint mask_bytes (plen : nat) (p : bytes) : bytes :=
  match p with
  | [] => []
  | x :: r => if Nat.leb 8 plen then x :: mask_bytes (plen - 8) r
              else (x / 2 ^ (8 - N.of_nat plen)) * 2 ^ (8 - N.of_nat plen) :: mask_bytes 0 r
  end.
Fixpoint beqb (a b : bytes) : bool :=
  match a, b with
  | [], [] => true
  | x :: a', y :: b' => (x =? y) && beqb a' b'
  | _, _ => false
  end.

(* PrefixInformation.marshal (prefix: 16 bytes). plen > 128: CIDRMask = nil -> error *)
Definition prefix_option (plen : N) (onlink auto : bool) (valid pref : N) (prefix : bytes) : option bytes :=
  if (128 <? plen) || negb (Nat.eqb (List.length prefix) 16) || negb (beqb (mask_bytes (N.to_nat plen) prefix) prefix) then None else
  raw_option 3 4 ([u8 plen; (if onlink then 128 else 0) + (if auto then 64 else 0)]
                  ++ b32 (u32 valid) ++ b32 (u32 pref) ++ [0;0;0;0] ++ firstn 16 (prefix ++ repeat 0 16)).

(* RecursiveDNSServer.marshal: servers are 16-byte addresses; no server -> error *)
Definition rdnss_option (lifetime : N) (servers : list bytes) : option bytes :=
  match servers with
  | [] => None
  | _ => let n := N.of_nat (List.length servers) in
         raw_option 25 (u8 (1 + u8 (n * 2)))
           ([0; 0] ++ b32 (u32 lifetime) ++ concat (map (fun s => firstn 16 (s ++ repeat 0 16)) servers))
  end.

(* DNSSearchList.marshal for the fixed search list ["lan"]: 6 + (1+3) + 1 = 11 bytes, padded to 14 *)
Definition dnssl_lan_option (lifetime : N) : option bytes :=
  raw_option 31 2 ([0; 0] ++ b32 (u32 lifetime) ++ [3; 108; 97; 110; 0] ++ [0; 0; 0]).

Fixpoint cat_opts (l : list (option bytes)) : option bytes :=
  match l with
  | [] => Some []
  | Some x :: r => match cat_opts r with Some y => Some (x ++ y) | None => None end
  | None :: _ => None
  end.

(* RouterSolicitation.marshal: ICMPv6 header (type 133, code 0, checksum 0) + 4 reserved bytes + options
   (header since fix 6efe826) *)
Definition rs_marshal (mac : bytes) : option bytes :=
  match lla_option 1 mac with Some o => Some ([133;0;0;0] ++ [0;0;0;0] ++ o) | None => None end.

Definition ip6_all_routers_addr : addr :=
  ([51;51;0;0;0;2], [255;2;0;0;0;0;0;0;0;0;0;0;0;0;0;2]).     (* session.go:43-45 (ff02::2 since fix 5d47cb2) *)
Definition ip6_all_nodes_addr : addr :=
  ([51;51;0;0;0;1], [255;2;0;0;0;0;0;0;0;0;0;0;0;0;0;1]).

(* layer_icmp6_ndp.go:274 ICMP6SendRouterSolicitation *)
Definition send_rs (c : cfg) (junk : bytes) : res (list bytes) :=
  match rs_marshal (host_mac c) with
  | None => Ok []
  | Some mb => icmp6_send_packet c (host_mac c, host_lla c) ip6_all_routers_addr mb junk
  end.

(* RouterAdvertisement.marshal with CurrentHopLimit 64, lifetime 1800 s, no flags:
   ICMPv6 header (type 134; since fix 6efe826) + 12-byte body (cur hop limit, flags, lifetime, reachable,
   retrans) + options *)
Definition ra_body (opts : bytes) : bytes := [134; 0; 0; 0] ++ [64; 0] ++ [hi8 1800; lo8 1800] ++ b32 0 ++ b32 0 ++ opts.

(* layer_icmp6_ndp.go:221 ICMP6SendRouterAdvertisement(prefixes, rdnss, dstAddr)
   prefixes : list (prefix length, prefix); rdnss : option (lifetime seconds, servers) *)
Definition send_ra (c : cfg) (prefixes : list (N * bytes)) (rdnss : option (N * list bytes)) (dst : addr)
                   (junk : bytes) : res (list bytes) :=
  match prefixes with
  | [] => Ok []
  | _ =>
    let o_rdnss := match rdnss with Some (lt, srv) => [rdnss_option lt srv] | None => [] end in
    let o_pref := map (fun p => prefix_option (u8 (fst p)) true true 7200 1800 (snd p)) prefixes in
    match cat_opts (o_rdnss ++ o_pref ++ [dnssl_lan_option 1200; mtu_option (u32 (mtu c)); lla_option 1 (host_mac c)]) with
    | None => Ok []
    | Some ob => icmp6_send_packet c (host_mac c, host_lla c) dst (ra_body ob) junk
    end
  end.

(* ------------------------------------------------------------------ *)
(* layer_ip6.go:172 IPv6SolicitedNode *)
Definition solicited_node (ip : bytes) : addr :=
  if is6 ip then ([51;51;255; nth 13 ip 0; nth 14 ip 0; nth 15 ip 0],
                  [255;2;0;0;0;0;0;0;0;0;0;1;255; nth 13 ip 0; nth 14 ip 0; nth 15 ip 0])
  else ([], []).

(* session.go:326-340 IPv6 probe of purge for host (mac, ip): NS to the solicited-node group
   for link-local addresses, echo request otherwise; nothing when the host has no IPv6 LLA *)
Definition send_purge_ip6 (c : cfg) (host : addr) (echo_id : N) (junk : bytes) : res (list bytes) :=
  if negb (is6 (host_lla c)) then Ok [] else
  let src := (host_mac c, host_lla c) in
  if ll_unicast (a_ip host) then send_ns c src (solicited_node (a_ip host)) (a_ip host) junk
  else send_echo6 c src host echo_id 0 junk.

(* ------------------------------------------------------------------ *)
(* layer_arp.go:67 EncodeARP on p = b[14:] *)
Definition enc_arp (b : bytes) (op : N) (sender target : addr) : bytes :=
  let b := put16 14 1 b in
  let b := put16 16 2048 b in
  let b := set_nth 18 6 b in
  let b := set_nth 19 4 b in
  let b := put16 20 op b in
  let b := cpy 22 6 (a_mac sender) b in
  let b := cpy 28 4 (a_ip sender) b in
  let b := cpy 32 6 (a_mac target) b in
  cpy 38 4 (a_ip target) b.

(* arp.go RequestRaw / reply.  Ethernet source = NIC MAC; the caller's sender / target MACs are ARP payload.
   Since fix 72c6830 (checkARPArgs) a destination, sender or target MAC that is not 6 bytes (ErrInvalidMAC) and a
   sender or target address that is not IPv4 (ErrInvalidIP) are refused. *)
Definition is_mac (m : bytes) : bool := Nat.eqb (List.length m) 6.
Definition arp_args_ok (dst : bytes) (sender target : addr) : bool :=
  is_mac dst && is_mac (a_mac sender) && is_mac (a_mac target) && is4 (a_ip sender) && is4 (a_ip target).
Definition send_arp (c : cfg) (op : N) (dst : bytes) (sender target : addr) (junk : bytes) : res (list bytes) :=
  if negb (arp_args_ok dst sender target) then Ok [] else
  let b := enc_ether junk 2054 (host_mac c) dst in
  Ok [firstn 42 (enc_arp b op sender target)].

Definition arp_request_raw c dst sender target junk := send_arp c 1 dst sender target junk.
Definition arp_reply c dst sender target junk := send_arp c 2 dst sender target junk.
(* arp.go:83 RequestTo / :94 Request: refuse a non-IPv4 target *)
Definition arp_request_to (c : cfg) (dst ip : bytes) (junk : bytes) : res (list bytes) :=
  if negb (is4 ip) then Ok [] else arp_request_raw c dst (host_mac c, host_ip4 c) (eth_bcast, ip) junk.
Definition arp_request (c : cfg) (ip : bytes) (junk : bytes) : res (list bytes) :=
  arp_request_to c eth_bcast ip junk.
(* arp.go:113 Probe *)
Definition arp_probe (c : cfg) (ip : bytes) (junk : bytes) : res (list bytes) :=
  arp_request_raw c eth_bcast (host_mac c, ipv4zero) (eth_zero, ip) junk.
(* arp.go:131 AnnounceTo *)
Definition arp_announce_to (c : cfg) (dst ip : bytes) (junk : bytes) : res (list bytes) :=
  arp_request_raw c dst (host_mac c, ip) (eth_bcast, ip) junk.
