(* Model/Fastlog.v — line-by-line model of /repo/fastlog/logging.go (property C20).
   A Line is the 2048-byte buffer and the write cursor.  Every Go statement that can
   panic (array index, slice expression) is a [Panic] outcome here.  Appenders that
   delegate the rendering to the standard library (netip AppendTo, strconv.AppendInt,
   Duration.String, Time.AppendFormat, fmt.Sprintf, error.Error, Stringer.String)
   take the rendered text as an argument.  The model follows the code AS IT IS
   (comments quote it); repaired defects are marked "fix:" with the /repo commit. *)
From PV Require Export Base.Prelude.
Open Scope N_scope.

Definition BUFSZ : nat := 2048.                       (* const bufSize = 2048 *)

(* type Line struct { buffer [bufSize]byte; index int } *)
Record line := mkLine { buf : list byte; index : nat }.

Definition wf (l : line) : Prop := List.length (buf l) = BUFSZ.
Definition wfb (l : line) : bool := Nat.eqb (List.length (buf l)) BUFSZ.

(* the bytes of [b] from position [i] replaced by [t] (never extends b) *)
Definition write_at (b : bytes) (i : nat) (t : bytes) : bytes :=
  firstn i b ++ t ++ skipn (i + List.length t) b.

(* the text written so far: buffer[:index] *)
Definition text_of (l : line) : bytes := firstn (index l) (buf l).

(* func (l *Line) appendByte(value byte) { l.buffer[l.index] = value; l.index++ }
   indexing the array panics iff index >= 2048 (index is never negative, see dec_index) *)
Definition append_byte (l : line) (v : byte) : res line :=
  if Nat.ltb (index l) BUFSZ
  then Ok (mkLine (set_nth (index l) v (buf l)) (S (index l)))
  else Panic.

(* l.index = l.index + copy(l.buffer[l.index:], s)
   the slice expression panics iff index > 2048; copy moves min(len(s), 2048-index) bytes *)
Definition copy_in (l : line) (s : bytes) : res line :=
  if Nat.ltb BUFSZ (index l) then Panic
  else let n := Nat.min (List.length s) (BUFSZ - index l) in
       Ok (mkLine (write_at (buf l) (index l) (firstn n s)) (index l + n)).

(* l.index--  (only executed after at least one byte was written, or when index >= 2048) *)
Definition dec_index (l : line) : line := mkLine (buf l) (Nat.pred (index l)).

(* l.appendByte(' '); l.index += copy(l.buffer[l.index:], name); l.appendByte('=')
   -- the common opening of the field appenders *)
Definition field_open (l : line) (name : bytes) : res line :=
  (l <- append_byte l 32 ;; l <- copy_in l name ;; append_byte l 61)%res.

(* var hexAscii = []byte{'0',...,'9','a',...,'f'} *)
Definition hex_ascii_tbl : list N := [48;49;50;51;52;53;54;55;56;57;97;98;99;100;101;102].
Definition hex_ascii (x : N) : res byte :=
  if x <? 16 then Ok (nth (N.to_nat x) hex_ascii_tbl 0) else Panic.

(* var byteAscii = []string{"0", ..., "255"}  (transcribed from the source by script) *)
Definition byte_ascii_tbl : list (list N) :=
  [[48]; [49]; [50]; [51]; [52]; [53]; [54]; [55];
   [56]; [57]; [49;48]; [49;49]; [49;50]; [49;51]; [49;52]; [49;53];
   [49;54]; [49;55]; [49;56]; [49;57]; [50;48]; [50;49]; [50;50]; [50;51];
   [50;52]; [50;53]; [50;54]; [50;55]; [50;56]; [50;57]; [51;48]; [51;49];
   [51;50]; [51;51]; [51;52]; [51;53]; [51;54]; [51;55]; [51;56]; [51;57];
   [52;48]; [52;49]; [52;50]; [52;51]; [52;52]; [52;53]; [52;54]; [52;55];
   [52;56]; [52;57]; [53;48]; [53;49]; [53;50]; [53;51]; [53;52]; [53;53];
   [53;54]; [53;55]; [53;56]; [53;57]; [54;48]; [54;49]; [54;50]; [54;51];
   [54;52]; [54;53]; [54;54]; [54;55]; [54;56]; [54;57]; [55;48]; [55;49];
   [55;50]; [55;51]; [55;52]; [55;53]; [55;54]; [55;55]; [55;56]; [55;57];
   [56;48]; [56;49]; [56;50]; [56;51]; [56;52]; [56;53]; [56;54]; [56;55];
   [56;56]; [56;57]; [57;48]; [57;49]; [57;50]; [57;51]; [57;52]; [57;53];
   [57;54]; [57;55]; [57;56]; [57;57]; [49;48;48]; [49;48;49]; [49;48;50]; [49;48;51];
   [49;48;52]; [49;48;53]; [49;48;54]; [49;48;55]; [49;48;56]; [49;48;57]; [49;49;48]; [49;49;49];
   [49;49;50]; [49;49;51]; [49;49;52]; [49;49;53]; [49;49;54]; [49;49;55]; [49;49;56]; [49;49;57];
   [49;50;48]; [49;50;49]; [49;50;50]; [49;50;51]; [49;50;52]; [49;50;53]; [49;50;54]; [49;50;55];
   [49;50;56]; [49;50;57]; [49;51;48]; [49;51;49]; [49;51;50]; [49;51;51]; [49;51;52]; [49;51;53];
   [49;51;54]; [49;51;55]; [49;51;56]; [49;51;57]; [49;52;48]; [49;52;49]; [49;52;50]; [49;52;51];
   [49;52;52]; [49;52;53]; [49;52;54]; [49;52;55]; [49;52;56]; [49;52;57]; [49;53;48]; [49;53;49];
   [49;53;50]; [49;53;51]; [49;53;52]; [49;53;53]; [49;53;54]; [49;53;55]; [49;53;56]; [49;53;57];
   [49;54;48]; [49;54;49]; [49;54;50]; [49;54;51]; [49;54;52]; [49;54;53]; [49;54;54]; [49;54;55];
   [49;54;56]; [49;54;57]; [49;55;48]; [49;55;49]; [49;55;50]; [49;55;51]; [49;55;52]; [49;55;53];
   [49;55;54]; [49;55;55]; [49;55;56]; [49;55;57]; [49;56;48]; [49;56;49]; [49;56;50]; [49;56;51];
   [49;56;52]; [49;56;53]; [49;56;54]; [49;56;55]; [49;56;56]; [49;56;57]; [49;57;48]; [49;57;49];
   [49;57;50]; [49;57;51]; [49;57;52]; [49;57;53]; [49;57;54]; [49;57;55]; [49;57;56]; [49;57;57];
   [50;48;48]; [50;48;49]; [50;48;50]; [50;48;51]; [50;48;52]; [50;48;53]; [50;48;54]; [50;48;55];
   [50;48;56]; [50;48;57]; [50;49;48]; [50;49;49]; [50;49;50]; [50;49;51]; [50;49;52]; [50;49;53];
   [50;49;54]; [50;49;55]; [50;49;56]; [50;49;57]; [50;50;48]; [50;50;49]; [50;50;50]; [50;50;51];
   [50;50;52]; [50;50;53]; [50;50;54]; [50;50;55]; [50;50;56]; [50;50;57]; [50;51;48]; [50;51;49];
   [50;51;50]; [50;51;51]; [50;51;52]; [50;51;53]; [50;51;54]; [50;51;55]; [50;51;56]; [50;51;57];
   [50;52;48]; [50;52;49]; [50;52;50]; [50;52;51]; [50;52;52]; [50;52;53]; [50;52;54]; [50;52;55];
   [50;52;56]; [50;52;57]; [50;53;48]; [50;53;49]; [50;53;50]; [50;53;51]; [50;53;52]; [50;53;53]].
Definition byte_ascii (b : N) : res bytes :=
  if b <? 256 then Ok (nth (N.to_nat b) byte_ascii_tbl []) else Panic.

(* func (l *Line) writeHex(value byte):
     if x := value >> 4; x < 10 { appendByte(x + '0') } else { appendByte(x%10 + 'a') }
     if x := value & 0x0f; x < 10 { ... same ... } *)
Definition nibble_char (x : N) : byte := if x <? 10 then x + 48 else x mod 10 + 97.
Definition write_hex (l : line) (v : byte) : res line :=
  (l <- append_byte l (nibble_char (N.shiftr v 4)) ;;
   append_byte l (nibble_char (N.land v 15)))%res.

(* func (l *Line) writeHexNoleadingZeros(value byte):
     if x := value >> 4; x != 0 { appendByte(hexAscii[x]) } ; appendByte(hexAscii[value&0x0f]) *)
Definition write_hex_nlz (l : line) (v : byte) : res line :=
  (l <- (if N.shiftr v 4 =? 0 then Ok l
         else c <- hex_ascii (N.shiftr v 4) ;; append_byte l c) ;;
   c <- hex_ascii (N.land v 15) ;; append_byte l c)%res.

(* func (l *Line) printInt(v uint32):
     if v == 0 { l.buffer[l.index] = '0'; l.index++ } else {
       i := 0; n := v; for n > 0 { i++; n /= 10 }
       l.index = l.index + i; i = l.index - 1
       for v > 0 { l.buffer[i] = byte(v%10) + '0'; i--; v /= 10 } }
   A uint32 has at most 10 digits: fuel 10 never runs out (proved: count_digits_fuel). *)
Fixpoint count_digits (fuel : nat) (n : N) : nat :=
  match fuel with
  | O => O
  | S f => if n =? 0 then O else S (count_digits f (n / 10))
  end.
Fixpoint put_digits (fuel : nat) (b : bytes) (i : nat) (v : N) : res bytes :=
  match fuel with
  | O => Ok b
  | S f => if v =? 0 then Ok b
           else if Nat.ltb i BUFSZ
                then put_digits f (set_nth i (v mod 10 + 48) b) (Nat.pred i) (v / 10)
                else Panic
  end.
Definition print_int (l : line) (v : N) : res line :=
  if v =? 0 then append_byte l 48
  else let i := count_digits 10 v in
       let idx := (index l + i)%nat in
       (b <- put_digits 10 (buf l) (Nat.pred idx) v ;; Ok (mkLine b idx))%res.

(* ---------------------------------------------------------------- scalar fields *)

(* Uint8 / Uint16 / Uint32: open; l.printInt(uint32(value)) *)
Definition f_uint (l : line) (name : bytes) (v : N) : res line :=
  (l <- field_open l name ;; print_int l v)%res.

(* Uint8Hex: open; '0' 'x' hexAscii[(value>>4)&0x0f] hexAscii[value&0x0f] *)
Definition f_uint8hex (l : line) (name : bytes) (v : N) : res line :=
  (l <- field_open l name ;; l <- append_byte l 48 ;; l <- append_byte l 120 ;;
   c <- hex_ascii (N.land (N.shiftr v 4) 15) ;; l <- append_byte l c ;;
   c <- hex_ascii (N.land v 15) ;; append_byte l c)%res.

(* Uint16Hex: open; '0' 'x' then nibbles >>12, >>8, >>4, >>0 through hexAscii *)
Definition f_uint16hex (l : line) (name : bytes) (v : N) : res line :=
  (l <- field_open l name ;; l <- append_byte l 48 ;; l <- append_byte l 120 ;;
   c <- hex_ascii (N.land (N.shiftr v 12) 15) ;; l <- append_byte l c ;;
   c <- hex_ascii (N.land (N.shiftr v 8) 15) ;; l <- append_byte l c ;;
   c <- hex_ascii (N.land (N.shiftr v 4) 15) ;; l <- append_byte l c ;;
   c <- hex_ascii (N.land v 15) ;; append_byte l c)%res.

(* Int: l.buffer[l.index] = ' '; l.index++; copy name; l.buffer[l.index] = '='; l.index++;
        tmp = strconv.AppendInt(tmp, int64(value), 10); copy tmp   -- [t] is tmp *)
Definition f_int (l : line) (name t : bytes) : res line :=
  (l <- field_open l name ;; copy_in l t)%res.

(* Bool: open; copy "true" / "false" *)
Definition f_bool (l : line) (name : bytes) (v : bool) : res line :=
  (l <- field_open l name ;;
   copy_in l (if v then [116;114;117;101] else [102;97;108;115;101]))%res.

Definition NIL : bytes := [110; 105; 108].            (* "nil" *)

(* MAC: open; if len(value) == 6 { writeHex(v[0]) ':' ... writeHex(v[5]) } else copy "nil" *)
Definition f_mac (l : line) (name : bytes) (m : bytes) : res line :=
  (l <- field_open l name ;;
   match m with
   | [a; b; c; d; e; f] =>
       l <- write_hex l a ;; l <- append_byte l 58 ;;
       l <- write_hex l b ;; l <- append_byte l 58 ;;
       l <- write_hex l c ;; l <- append_byte l 58 ;;
       l <- write_hex l d ;; l <- append_byte l 58 ;;
       l <- write_hex l e ;; l <- append_byte l 58 ;;
       write_hex l f
   | _ => copy_in l NIL
   end)%res.

(* net.IP.To4: len 4 -> itself; len 16 with 10 zero bytes and ff ff -> last four; else nil *)
Definition to4 (ip : bytes) : option bytes :=
  match ip with
  | [a; b; c; d] => Some [a; b; c; d]
  | [z0; z1; z2; z3; z4; z5; z6; z7; z8; z9; f0; f1; a; b; c; d] =>
      if forallb (N.eqb 0) [z0; z1; z2; z3; z4; z5; z6; z7; z8; z9] && (f0 =? 255) && (f1 =? 255)
      then Some [a; b; c; d] else None
  | _ => None
  end.

(* copy byteAscii[ip[0]] '.' copy byteAscii[ip[1]] '.' ... (IPSlice and IPArray) *)
Definition put_ip4 (l : line) (a b c d : byte) : res line :=
  (s <- byte_ascii a ;; l <- copy_in l s ;; l <- append_byte l 46 ;;
   s <- byte_ascii b ;; l <- copy_in l s ;; l <- append_byte l 46 ;;
   s <- byte_ascii c ;; l <- copy_in l s ;; l <- append_byte l 46 ;;
   s <- byte_ascii d ;; copy_in l s)%res.

(* ---------------------------------------------------------------- appendIP6 *)

Definition at_ (ip : bytes) (i : nat) : N := nth i ip 0.
(* group j is zero: not (ip[j*2] != 0x00 || ip[j*2+1] != 0x00) *)
Definition gz (ip : bytes) (j : nat) : bool := (at_ ip (2 * j) =? 0) && (at_ ip (2 * j + 1) =? 0).

(* ZERO_RUN_K: the comparison constant of "zeros := j - i; zeros > K".
   As found: K = 1, so only runs of THREE or more groups were compressed (DESIGN 11 #25).
   fix (/repo "fix: fastlog appendIP6 compresses a run of two zero groups"): K = 0. *)
Definition ZERO_RUN_K : Z := 0%Z.

(* for ; j < 8; j++ { if nonzero { break }
     if zeros := j - i; zeros > K && zeros > endZ-startZ { startZ = i; endZ = j } } *)
(* z j: "group j of ip is zero" (gz ip j below) *)
Fixpoint ip6_inner (z : nat -> bool) (i : nat) (js : list nat) (se : Z * Z) : Z * Z :=
  match js with
  | [] => se
  | j :: r =>
      if z j then
        let zeros := (Z.of_nat j - Z.of_nat i)%Z in
        let se' := if (ZERO_RUN_K <? zeros)%Z && (snd se - fst se <? zeros)%Z
                   then (Z.of_nat i, Z.of_nat j) else se in
        ip6_inner z i r se'
      else se
  end.
(* for i := 0; i < 8; i++ { j := i; inner } *)
Fixpoint ip6_outer (z : nat -> bool) (is : list nat) (se : Z * Z) : Z * Z :=
  match is with
  | [] => se
  | i :: r => ip6_outer z r (ip6_inner z i (seq i (8 - i)) se)
  end.
(* startZ := -1; endZ := -1; loops; if endZ == startZ { startZ = 99 } *)
Definition ip6_search_z (z : nat -> bool) : Z * Z :=
  let se := ip6_outer z (seq 0 8) ((-1)%Z, (-1)%Z) in
  if (snd se =? fst se)%Z then (99%Z, snd se) else se.
Definition ip6_search (ip : bytes) : Z * Z := ip6_search_z (gz ip).

(* body of: for i := 0; i < 8; i++ {
     if i == startZ { if startZ == 0 { appendByte(':') }; appendByte(':'); continue }
     if i >= startZ && i <= endZ { continue }
     if ip[i*2] != 0 { writeHexNoleadingZeros(ip[i*2]); writeHex(ip[i*2+1]) }
     else { writeHexNoleadingZeros(ip[i*2+1]) }
     if i < 7 { appendByte(':') } }
   (as found: appendByte(':') after every group and "if endZ < 7 { l.index-- }" after the loop,
    which panicked when the text ended exactly at byte 2048; fix: no separator after group 7) *)
Definition ip6_body (ip : bytes) (sZ eZ : Z) (i : nat) (l : line) : res line :=
  let zi := Z.of_nat i in
  if (zi =? sZ)%Z then
    (l <- (if (sZ =? 0)%Z then append_byte l 58 else Ok l) ;; append_byte l 58)%res
  else if (sZ <=? zi)%Z && (zi <=? eZ)%Z then Ok l
  else
    (l <- (if negb (at_ ip (2 * i) =? 0)
           then l <- write_hex_nlz l (at_ ip (2 * i)) ;; write_hex l (at_ ip (2 * i + 1))
           else write_hex_nlz l (at_ ip (2 * i + 1))) ;;
     if Nat.ltb i 7 then append_byte l 58 else Ok l)%res.
Fixpoint ip6_emit (ip : bytes) (sZ eZ : Z) (is : list nat) (l : line) : res line :=
  match is with
  | [] => Ok l
  | i :: r => (l <- ip6_body ip sZ eZ i l ;; ip6_emit ip sZ eZ r l)%res
  end.

(* func (l *Line) appendIP6(ip net.IP):
     if len(ip) != 16 { copy "nil"; return } ; search ; emit *)
Definition append_ip6 (l : line) (ip : bytes) : res line :=
  if negb (Nat.eqb (List.length ip) 16) then copy_in l NIL
  else let '(sZ, eZ) := ip6_search ip in
       ip6_emit ip sZ eZ (seq 0 8) l.

(* IPSlice(name, value net.IP): open;
     if value != nil { if ip := value.To4(); ip != nil { dotted; return }; appendIP6(value); return }
     copy "nil"
   [None] is the nil slice. *)
Definition f_ipslice (l : line) (name : bytes) (v : option bytes) : res line :=
  (l <- field_open l name ;;
   match v with
   | Some ip => match to4 ip with
                | Some [a; b; c; d] => put_ip4 l a b c d
                | _ => append_ip6 l ip
                end
   | None => copy_in l NIL
   end)%res.

(* IP(name, value netip.Addr): open;
     if value.IsValid() { b := value.AppendTo(l.buffer[l.index:l.index]); l.index += copy(l.buffer[l.index:], b) } else copy "nil"
   [Some t]: a valid address whose AppendTo text is t.  AppendTo appends byte-wise into the spare capacity
   2048-index: when t fits, b is the buffer itself and the copy is the identity; when it does not, append
   reallocated, the buffer holds the part that fitted and the copy writes that same prefix: in both cases
   this is copy(l.buffer[l.index:], t).
   (as found: l.index += len(b), which advanced the index past byte 2048 when the text did not fit, after
    which ToString panicked; repaired in /repo "fix: fastlog IP and Module never advance the index past the buffer") *)
Definition f_ip (l : line) (name : bytes) (v : option bytes) : res line :=
  (l <- field_open l name ;;
   match v with
   | Some t => copy_in l t
   | None => copy_in l NIL
   end)%res.

(* String(name, value): ' ' name '=' '"' value ; if l.index == cap(l.buffer) { l.index-- } ; '"' *)
Definition f_string (l : line) (name v : bytes) : res line :=
  (l <- field_open l name ;; l <- append_byte l 34 ;; l <- copy_in l v ;;
   append_byte (if Nat.eqb (index l) BUFSZ then dec_index l else l) 34)%res.

(* Bytes(name, value): open; copy value *)
Definition f_bytes (l : line) (name v : bytes) : res line :=
  (l <- field_open l name ;; copy_in l v)%res.

(* Label(name): ' ' name *)
Definition f_label (l : line) (name : bytes) : res line :=
  (l <- append_byte l 32 ;; copy_in l name)%res.

(* Error(value): copy " error=["; copy value.Error(); ']' *)
Definition f_error (l : line) (t : bytes) : res line :=
  (l <- copy_in l [32;101;114;114;111;114;61;91] ;; l <- copy_in l t ;; append_byte l 93)%res.

(* Stringer(value): nil -> unchanged ; ' ' ; copy value.String() *)
Definition f_stringer (l : line) (v : option bytes) : res line :=
  match v with
  | None => Ok l
  | Some t => (l <- append_byte l 32 ;; copy_in l t)%res
  end.

(* Duration / Time / Sprintf: open; copy <stdlib text> *)
Definition f_text (l : line) (name t : bytes) : res line :=
  (l <- field_open l name ;; copy_in l t)%res.

(* LF: appendByte('\n') *)
Definition f_lf (l : line) : res line := append_byte l 10.

(* newLogger(module): copy(l.module[:], "      :"); if module != "" { copy(l.module[:6], module) } *)
Definition module7 (m : bytes) : bytes :=
  let m6 := firstn 6 m in m6 ++ repeat 32 (6 - List.length m6) ++ [58].

(* newModule(module, msg):
     if module != "" { n := copy(l.buffer[l.index:], "      :"); copy(l.buffer[l.index:l.index+6], module); l.index += n }
     if msg != "" { ' ' '"' copy msg '"' }
   l.buffer[l.index:l.index+6] panics iff index+6 > 2048; the index advances by what was copied
   (as found: by 7 unconditionally, i.e. to 2049 from 2042; repaired together with IP) *)
Definition new_module (l : line) (m msg : bytes) : res line :=
  (l <- match m with
        | [] => Ok l
        | _ =>
            if Nat.ltb BUFSZ (index l) then Panic
            else
              let n := Nat.min 7 (BUFSZ - index l) in
              let b1 := write_at (buf l) (index l) (firstn n [32;32;32;32;32;32;58]) in
              if Nat.ltb BUFSZ (index l + 6) then Panic
              else Ok (mkLine (write_at b1 (index l) (firstn 6 m)) (index l + n))
        end ;;
   match msg with
   | [] => Ok l
   | _ => l <- append_byte l 32 ;; l <- append_byte l 34 ;; l <- copy_in l msg ;; append_byte l 34
   end)%res.

(* Module(name, msg): appendByte('\n'); newModule(name, msg) *)
Definition f_module (l : line) (m msg : bytes) : res line :=
  (l <- append_byte l 10 ;; new_module l m msg)%res.

(* Logger.Msg(msg): l := pool line; copy(l.buffer[0:7], logger.module[:]); l.index = 7;
     if msg != "" { ' ' '"' copy msg '"' }       [b0] is the pooled buffer as found *)
Definition msg_line (b0 : bytes) (m msg : bytes) : res line :=
  let l := mkLine (write_at b0 0 (module7 m)) 7 in
  match msg with
  | [] => Ok l
  | _ => (l <- append_byte l 32 ;; l <- append_byte l 34 ;; l <- copy_in l msg ;; append_byte l 34)%res
  end.

(* ---------------------------------------------------------------- arrays *)

(* StringArray(name, value):
     if l.index+len(name)+4 > cap(l.buffer) { return l }
     ' ' name '=' '[' ; if len(value) <= 0 { ']'; return }
     for _, v := range value { if l.index+len(v)+4 > cap { break } ; '"' v '"' ',' ' ' }
     l.index-- ; ']' *)
Fixpoint sa_loop (vs : list bytes) (l : line) : res line :=
  match vs with
  | [] => Ok l
  | v :: r =>
      if Nat.ltb BUFSZ (index l + List.length v + 4) then Ok l
      else (l <- append_byte l 34 ;; l <- copy_in l v ;; l <- append_byte l 34 ;;
            l <- append_byte l 44 ;; l <- append_byte l 32 ;; sa_loop r l)%res
  end.
Definition f_string_array (l : line) (name : bytes) (vs : list bytes) : res line :=
  if Nat.ltb BUFSZ (index l + List.length name + 4) then Ok l
  else (l <- field_open l name ;; l <- append_byte l 91 ;;
        match vs with
        | [] => append_byte l 93
        | _ => l <- sa_loop vs l ;; append_byte (dec_index l) 93
        end)%res.

(* IPArray(name, value []net.IP): same frame;
     for _, v := range value {
       if l.index+39+2 > cap { break }
       if v != nil { if ip := v.To4(); ip != nil { dotted } else { l.appendIP6(v) } }
       ',' ' ' }
     l.index-- ; ']'
   IPARR_ROOM is the guard constant "39+2": the longest address text plus ", ".
   (as found: 28+2, too small for a full IPv6 address, and "return l" after a dotted element;
    both repaired, see Model/FastlogAsFound.v) *)
Definition IPARR_ROOM : nat := 41.
Fixpoint ia_loop (vs : list (option bytes)) (l : line) : res line :=
  match vs with
  | [] => Ok l
  | v :: r =>
      if Nat.ltb BUFSZ (index l + IPARR_ROOM) then Ok l
      else
        (l <- match v with
              | Some ip => match to4 ip with
                           | Some [a; b; c; d] => put_ip4 l a b c d
                           | _ => append_ip6 l ip
                           end
              | None => Ok l
              end ;;
         l <- append_byte l 44 ;; l <- append_byte l 32 ;; ia_loop r l)%res
  end.
Definition f_ip_array (l : line) (name : bytes) (vs : list (option bytes)) : res line :=
  if Nat.ltb BUFSZ (index l + List.length name + 4) then Ok l
  else (l <- field_open l name ;; l <- append_byte l 91 ;;
        match vs with
        | [] => append_byte l 93
        | _ => l <- ia_loop vs l ;; append_byte (dec_index l) 93
        end)%res.

(* ByteArray(name, value):
     truncated := false
     rem := cap(l.buffer) - l.index - 1 - len(name) - 2
     if rem <= len(value)*3 {
       if rem <= len("TRUNCATED ") { return l }       -- fix: no room for the marker after "name=[]", drop the field
       copy(l.buffer[cap-len("TRUNCATED "):], "TRUNCATED "); rem -= 10; value = value[:rem/3]; truncated = true }
     ' ' ; copy name ; copy "=[" ; for _, v := range value { writeHex(v); ' ' }
     if len(value) > 0 { l.index-- } ; ']' ;
     if truncated { for l.index < cap-len("TRUNCATED ") { appendByte(' ') } ; l.index = cap - 1 }
       -- fix (/repo "fastlog ByteArray blanks the gap"): as found the 0-2 bytes between ']' and the marker
          kept what a pooled line held before, and at rem = 10 the ']' overwrote the marker's 'T' 
   value[:rem/3] panics iff rem/3 < 0 (Go's / truncates toward zero: Z.quot); rem/3 <= len(value)
   always holds on this branch.  *)
Definition TRUNCATED : bytes := [84;82;85;78;67;65;84;69;68;32].
Fixpoint ba_loop (vs : bytes) (l : line) : res line :=
  match vs with
  | [] => Ok l
  | v :: r => (l <- write_hex l v ;; l <- append_byte l 32 ;; ba_loop r l)%res
  end.
(* for l.index < k+index { appendByte(' ') } *)
Fixpoint fill_spaces (k : nat) (l : line) : res line :=
  match k with
  | O => Ok l
  | S k' => (l <- append_byte l 32 ;; fill_spaces k' l)%res
  end.
Definition f_byte_array (l : line) (name : bytes) (value : bytes) : res line :=
  let rem := (Z.of_nat BUFSZ - Z.of_nat (index l) - 1 - Z.of_nat (List.length name) - 2)%Z in
  let trunc := (rem <=? Z.of_nat (List.length value) * 3)%Z in
  let b1 := if trunc then write_at (buf l) (BUFSZ - 10) TRUNCATED else buf l in
  let hi := Z.quot (rem - 10) 3 in
  if trunc && (rem <=? 10)%Z then Ok l
  else if trunc && (hi <? 0)%Z then Panic
  else
    let value' := if trunc then firstn (Z.to_nat hi) value else value in
    (l <- append_byte (mkLine b1 (index l)) 32 ;; l <- copy_in l name ;; l <- copy_in l [61; 91] ;;
     l <- ba_loop value' l ;;
     l <- append_byte (match value' with [] => l | _ => dec_index l end) 93 ;;
     if trunc then (l <- fill_spaces (BUFSZ - 10 - index l) l ;; Ok (mkLine (buf l) (BUFSZ - 1)))
     else Ok l)%res.

(* ---------------------------------------------------------------- finishing a line *)

(* ToString: str := string(l.buffer[:l.index])   -- panics iff index > 2048 *)
Definition to_string (l : line) : res bytes :=
  if Nat.ltb BUFSZ (index l) then Panic else Ok (text_of l).

(* Write: if l.index >= len(l.buffer) { l.index-- } ; l.buffer[l.index] = '\n' ;
          DefaultIOWriter.Write(l.buffer[:l.index+1]) *)
Definition write_out (l : line) : res bytes :=
  let l := if Nat.leb BUFSZ (index l) then dec_index l else l in
  if Nat.ltb (index l) BUFSZ then Ok (firstn (S (index l)) (set_nth (index l) 10 (buf l))) else Panic.
