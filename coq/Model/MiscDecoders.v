(* Model/MiscDecoders.v — payload-level decoders:
   DHCP4.IsValid / validateOptions / ParseOptions (layer_dhcp4.go:148-296),
   LLDP.getTLV / GetPDU (layer_ethernet.go:267-299),
   Process8023Frame gates (layer_802_3.go:107-151),
   SSDP CACHE-CONTROL parsing (handlers/dns_naming/ssdp.go:66-76) and processSSDP* over a
   structured view of the net/http result.  Termination / panic-freedom only. *)
From PV Require Import Base.Prelude Base.Slice.
Open Scope N_scope.

(* ---------------------------------------------------------------- DHCP4 options *)
(* the option walk re-slices opts; [strict]: validateOptions returns an error where
   ParseOptions breaks out; ParseOptions additionally takes opts[2:2+size] *)
Fixpoint dhcp_walk (strict : bool) (fuel : nat) (opts : slice) : res unit :=
  match fuel with
  | O => Fuel
  | S f =>
      if Nat.ltb (len opts) 2 then Ok tt
      else
        (o0 <- idx opts 0 ;;
         if o0 =? 255 then Ok tt
         else if o0 =? 0 then (r <- slfrom opts 1 ;; dhcp_walk strict f r)
         else
           o1 <- idx opts 1 ;;
           let size := N.to_nat o1 in
           if Nat.ltb (len opts) (2 + size) then (if strict then Err EParseFrame else Ok tt)
           else
             _ <- (if strict then Ok opts else sl opts 2 (2 + size)) ;;
             r <- slfrom opts (2 + size) ;;
             dhcp_walk strict f r)%res
  end.

(* DHCP4.Options: p[240:] when len(p) > 240, else nil *)
Definition dhcp_options (p : slice) : res slice :=
  if Nat.ltb 240 (len p) then slfrom p 240 else Ok (mkSlice [] 0).

Definition dhcp_parse_options (fuel : nat) (p : slice) : res unit :=
  (opts <- dhcp_options p ;; dhcp_walk false fuel opts)%res.

Definition dhcp_is_valid (fuel : nat) (p : slice) : res unit :=
  if Nat.ltb (len p) 240 then Err EFrameLen
  else
    (op <- idx p 0 ;;
     if negb ((op =? 1) || (op =? 2)) then Err EParseFrame
     else
       hl <- idx p 2 ;;
       if negb (hl =? 6) then Err EInvalidMAC
       else
         opts <- dhcp_options p ;;
         if Nat.ltb (len opts) 2 then Err EParseFrame
         else dhcp_walk true fuel opts)%res.

(* ---------------------------------------------------------------- LLDP *)
Inductive tlv := TlvErr | TlvEnd | TlvVal (t l : nat).

Definition lldp_get_tlv (p : slice) (n : nat) : res tlv :=
  if Nat.leb (len p) (n + 2) then Ok TlvErr
  else
    (a <- idx p n ;;
     b <- idx p (n + 1) ;;
     let t := N.to_nat (N.shiftr a 1) in
     let l := N.to_nat (N.shiftl (N.land a 1) 8 + b) in
     if Nat.eqb t 0 && Nat.eqb l 0 then Ok TlvEnd
     else if Nat.leb (n + 2 + l) (len p) then      (* as repaired by 5551427: p[n+2 : n+2+l] *)
       (_ <- sl p (n + 2) (n + 2 + l) ;; Ok (TlvVal t l))
     else Ok TlvErr)%res.

Fixpoint lldp_get_pdu (fuel : nat) (p : slice) (pdu : nat) (pos : nat) : res unit :=
  match fuel with
  | O => Fuel
  | S f =>
      (r <- lldp_get_tlv p pos ;;
       match r with
       | TlvErr => Ok tt
       | TlvEnd => Ok tt
       | TlvVal t l => if Nat.eqb t pdu || Nat.eqb t 0 then Ok tt
                       else lldp_get_pdu f p pdu (pos + l + 2)
       end)%res
  end.

(* ---------------------------------------------------------------- 802.3 / LLC / SNAP *)
Definition process_8023 (payload : slice) : res unit :=
  if Nat.ltb (len payload) 3 then Err EFrameLen
  else
    (d <- idx payload 0 ;;
     s <- idx payload 1 ;;
     c <- idx payload 2 ;;     (* llc.FastLog: Type() reads p[2], p[0], p[1] *)
     if (d =? 66) && (s =? 66) then Ok tt
     else if (d =? 170) && (s =? 170) && (c =? 3) then
       (if Nat.ltb (len payload) 9 then Err EFrameLen
        else _ <- sl payload 3 6 ;; _ <- sl payload 6 8 ;; Ok tt)
     else Ok tt)%res.

(* ---------------------------------------------------------------- SSDP *)
Definition lower (b : N) : N := if (65 <=? b) && (b <=? 90) then b + 32 else b.
Definition max_age : bytes := [109; 97; 120; 45; 97; 103; 101].
Fixpoint bytes_eqb (a b : bytes) : bool :=
  match a, b with
  | [], [] => true
  | x :: a', y :: b' => (x =? y) && bytes_eqb a' b'
  | _, _ => false
  end.
Definition is_max_age (s : bytes) : bool := bytes_eqb (map lower s) max_age.

(* strings.Split(v, "=") *)
Fixpoint split_eq (l cur : bytes) : list bytes :=
  match l with
  | [] => [rev cur]
  | x :: r => if x =? 61 then rev cur :: split_eq r [] else split_eq r (x :: cur)
  end.

(* as repaired (#21):
   if len(options)%2 == 0 { for i := 0; i+1 < len(options); i += 2 {
     if lower(options[i]) == "max-age" { options[i+1]; break } } }
   [n] bounds the number of iterations (never exhausted: i grows by 2) *)
Fixpoint cc_pairs (n : nat) (all : list bytes) (i : nat) : res unit :=
  match n with
  | O => Ok tt
  | S n' =>
      if Nat.ltb (i + 1) (List.length all) then
        match nth_error all i with
        | None => Panic
        | Some k =>
            if is_max_age k then
              match nth_error all (i + 1) with None => Panic | Some _ => Ok tt end
            else cc_pairs n' all (i + 2)
        end
      else Ok tt
  end.

Definition cache_control (v : bytes) : res unit :=
  let options := split_eq v [] in
  if Nat.eqb (Nat.modulo (List.length options) 2) 0
  then cc_pairs (List.length options) options 0 else Ok tt.

Record ssdp_view := mkSsdp {
  sv_kind : N;          (* 0: "NOTIFY " prefix, 1: "M-SEARCH " prefix, 2: anything else (response) *)
  sv_http_ok : bool;    (* http.ReadRequest / ReadResponse succeeded *)
  sv_nts : N;           (* 0 ssdp:alive, 1 ssdp:byebye, 2 other *)
  sv_method_notify : bool;
  sv_cc : bytes;        (* CACHE-CONTROL header value as net/http delivers it *)
  sv_man_ok : bool;     (* MAN == "ssdp:discover" (quoted) *)
  sv_status_ok : bool   (* response status 200 *)
}.

Definition process_ssdp (v : ssdp_view) : res unit :=
  if negb (sv_http_ok v) then Err EOther
  else if sv_kind v =? 0 then
    (if sv_nts v =? 0 then
       (if negb (sv_method_notify v) then Err EParseFrame
        else (_ <- cache_control (sv_cc v) ;; Ok tt)%res)
     else if sv_nts v =? 1 then Ok tt
     else Err EParseFrame)
  else if sv_kind v =? 1 then (if sv_man_ok v then Ok tt else Err EParseFrame)
  else (if sv_status_ok v then Ok tt else Err EParseFrame).


(* ---------------------------------------------------------------- UPNP (upnp.go:80) *)
(* UPNPServiceDiscovery over the outcome of the third-party steps: the HTTP exchange
   (http.NewRequest / client.Do / status / ReadAll) and encoding/xml.Unmarshal *)
Definition upnp_discovery (fetch_ok xml_ok : bool) : res unit :=
  if negb fetch_ok then Err EOther else if negb xml_ok then Err EOther else Ok tt.

(* LLDP frames through the dispatcher: IsValid (len >= 6) then GetPDU *)
Definition lldp_process (fuel : nat) (p : slice) (pdu : nat) : res unit :=
  if Nat.ltb (len p) 6 then Err EFrameLen else lldp_get_pdu fuel p pdu 0.

(* ---------------------------------------------------------------- mDNS TXT (mdnsService.go:53) *)
(* parseTXT(txt []string): len(txt) <= 2 -> ""; for each string: a := strings.Split(v, "=");
   len(a) < 2 -> continue; switch a[0] { "model", "ty", "DvTy", "md": return a[1] }.
   Returns whether a model string was found; a[0], a[1] are indexed behind the length test. *)
Definition txt_keys : list bytes :=
  [[109; 111; 100; 101; 108]; [116; 121]; [68; 118; 84; 121]; [109; 100]].   (* model ty DvTy md *)
Fixpoint parse_txt_loop (txt : list bytes) : res bool :=
  match txt with
  | [] => Ok false
  | v :: rest =>
      let a := split_eq v [] in
      if Nat.ltb (List.length a) 2 then parse_txt_loop rest
      else match nth_error a 0, nth_error a 1 with
           | Some k, Some _ => if existsb (bytes_eqb k) txt_keys then Ok true else parse_txt_loop rest
           | _, _ => Panic
           end
  end.
Definition parse_txt (txt : list bytes) : res bool :=
  if Nat.leb (List.length txt) 2 then Ok false else parse_txt_loop txt.
