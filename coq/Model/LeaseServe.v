(* Model/LeaseServe.v — the part of the DHCP server that decides whether a restored binding keeps being
   served (C18 "keeps acknowledging their renewals and does not offer those addresses to others"):
     lease.go    findOrCreate, findByIP, allocIPOffer
     request.go  handleRequest, RENEWING branch (no server id, no requested address, unicast)
     discover.go handleDiscover, choice of the offered address
   As repaired in /repo by 7baf630, c9f204c, d6f86b5 (DHCP cluster).
   PARTIAL transcription: names, XIDs, offer expiry, the reply bytes and the other REQUEST branches are not
   modelled (they belong to C11/C12); a lease in state discover is assumed to see a NEW transaction id.
   Executable; no proofs here. *)
From PV Require Import Base.Prelude Model.LeaseBase Model.Lease.
Open Scope N_scope.

Definition tfind (cid : bytes) (t : table) : option lease :=
  find (fun l => bytes_eqb (l_cid l) cid) t.

Definition the_subnet (n1 n2 : subnet) (k : N) : subnet := if k =? 2 then n2 else n1.

Definition zero_time : Z := (-62135596800000000000)%Z.

Definition fresh_lease (cid mac : bytes) (k : N) : lease :=
  {| l_rec := {| r_cid := cid; r_state := 0%Z; r_mac := mac; r_ip := AInv; r_expiry := zero_time |}; l_sub := k |}.

(* findOrCreate (lease.go:86): the existing lease when its subnet and MAC still match, else a new free lease
   stored under the client id *)
Definition findOrCreate (captured : sess) (n1 n2 : subnet) (t : table) (cid mac : bytes) : lease * table :=
  let want := if captured mac then 2 else 1 in
  let create := let l := fresh_lease cid mac want in (l, tinsert l t) in
  match tfind cid t with
  | Some l =>
      if (l_sub l =? want) && bytes_eqb (r_mac (l_rec l)) mac     (* lease.subnet == subnet (pointer) && MAC *)
      then (l, t) else create
  | None => create
  end.

Inductive reply : Type := RNone | RNak | RAck (yiaddr : addr) | ROffer (yiaddr : addr).

Definition with_state (l : lease) (st : Z) (ip : addr) (ex : Z) : lease :=
  {| l_rec := {| r_cid := r_cid (l_rec l); r_state := st; r_mac := r_mac (l_rec l); r_ip := ip; r_expiry := ex |};
     l_sub := l_sub l |}.

(* the session's host table as far as the server looks at it: FindIP(a) = the MAC of the tracked host *)
Definition hostsT := addr -> option bytes.

(* taken (lease.go): acknowledged to another client id, or tracked by the session for another MAC.
   Table keys are distinct, so "another lease" is "another client id". *)
Definition taken (hosts : hostsT) (t : table) (l : lease) (a : addr) : bool :=
  existsb (fun v => negb (bytes_eqb (l_cid v) (l_cid l)) && allocated v && addr_eqb (r_ip (l_rec v)) a) t
  || match hosts a with Some m => negb (bytes_eqb m (r_mac (l_rec l))) | None => false end.

(* handleRequest, RENEWING: reqIP = ciaddr *)
Definition renew (captured : sess) (hosts : hostsT) (n1 n2 : subnet) (now : Z) (t : table) (cid mac : bytes) (ciaddr : addr)
  : reply * table :=
  if negb (avalid ciaddr) || is_unspec ciaddr then (RNone, t)      (* invalid request IP: no reply *)
  else
    let '(l, t1) := findOrCreate captured n1 n2 t cid mac in
    if negb (allocated l) || taken hosts t1 l ciaddr
       || negb (addr_eqb (r_ip (l_rec l)) ciaddr) || negb (bytes_eqb (r_mac (l_rec l)) mac)
       || (r_expiry (l_rec l) <? now)%Z
    then (RNak, t1)
    else
      let ex := (now + s_dur (n_cfg (the_subnet n1 n2 (l_sub l))))%Z in
      (RAck (r_ip (l_rec l)), tinsert (with_state l 2%Z (r_ip (l_rec l)) ex) t1).

(* ---------------------------------------------------------------- *)
(* address allocation *)

(* findByIP: first lease with that address in map iteration order [ord] *)
Definition findByIP (ord : table) (a : addr) : option lease :=
  find (fun l => addr_eqb (r_ip (l_rec l)) a) ord.

Definition free_or_none (o : option lease) : bool :=
  match o with None => true | Some l => (r_state (l_rec l) =? 0)%Z end.

(* one scan loop of allocIPOffer: from [next] up to (excluding) the broadcast address.
   Returns the address found (if any) and the new nextIP. *)
Definition tracked (hosts : hostsT) (a : addr) : bool := match hosts a with Some _ => true | None => false end.

Fixpoint scan (fuel : nat) (ord : table) (hosts : hostsT) (bcast next : addr) : res (option addr * addr) :=
  match fuel with
  | O => Fuel
  | S f =>
      if aless next bcast then
        if free_or_none (findByIP ord next) && negb (tracked hosts next) then Ok (Some next, anext next)
        else scan f ord hosts bcast (anext next)
      else Ok (None, next)
  end.

(* allocIPOffer (lease.go:125).  [next]: lease.subnet.nextIP.  Returns the offered address and the new nextIP;
   Err = "exhausted all ips". *)
Definition allocIPOffer (fuel : nat) (ord : table) (hosts : hostsT) (sn : subnet) (next : addr)
                        (cid : bytes) (reqIP : addr) : res (addr * addr) :=
  let same_client o := match o with Some l => bytes_eqb (l_cid l) cid | None => false end in
  if is4 reqIP && contains (s_lan (n_cfg sn)) reqIP                       (* a host address of the lease's subnet *)
     && negb (addr_eqb reqIP (paddr (s_lan (n_cfg sn)))) && negb (addr_eqb reqIP (n_bcast sn))
     && (free_or_none (findByIP ord reqIP) || same_client (findByIP ord reqIP)) && negb (tracked hosts reqIP)
  then Ok (reqIP, next)
  else
    (* first loop.  With nextIP the zero Addr (fresh handler) the loop ends at once with an invalid address
       (Addr{}.Next() is a non-zero invalid Addr that no lease and no host carries), so the second loop runs. *)
    let first := if avalid next then scan fuel ord hosts (n_bcast sn) next else Ok (None, next) in
    match first with
    | Ok (Some a, nx) => Ok (a, nx)
    | Ok (None, _) =>
        match scan fuel ord hosts (n_bcast sn) (s_first (n_cfg sn)) with
        | Ok (Some a, nx) => Ok (a, nx)
        | Ok (None, _) => Err EOther
        | Err e => Err e | Panic => Panic | Fuel => Fuel
        end
    | Err e => Err e | Panic => Panic | Fuel => Fuel
    end.

(* handleDiscover: which address is offered.  [ordf]: the map iteration order of a table.
   [next]: nextIP of the subnet the lease hangs on. *)
Definition discover (fuel : nat) (ordf : table -> table) (captured : sess) (hosts : hostsT)
                    (n1 n2 : subnet) (next : addr) (now : Z) (t : table) (cid mac : bytes) (reqIP : addr)
  : res (reply * table) :=
  let '(l, t1) := findOrCreate captured n1 n2 t cid mac in
  let keep0 := if allocated l then (if (r_expiry (l_rec l) <? now)%Z then AInv else r_ip (l_rec l)) else AInv in
  let keep := if avalid keep0 && taken hosts t1 l keep0 then AInv else keep0 in   (* given to somebody else meanwhile *)
  if avalid keep then Ok (ROffer keep, tinsert (with_state l 1%Z (r_ip (l_rec l)) (r_expiry (l_rec l))) t1)
  else
    match allocIPOffer fuel (ordf t1) hosts (the_subnet n1 n2 (l_sub l)) next cid reqIP with
    | Ok (a, _) => Ok (ROffer a, tinsert (with_state l 1%Z (r_ip (l_rec l)) (r_expiry (l_rec l))) t1)
    | Err _ => Ok (RNone, filter (fun x => negb (bytes_eqb (l_cid x) cid)) t1)      (* h.delete(lease) *)
    | Panic => Panic
    | Fuel => Fuel
    end.
