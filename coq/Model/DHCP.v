(* Model/DHCP.v — the DHCPv4 spoofing server of handlers/dhcp4_spoofer as a
   lease-table state machine, transcribed statement by statement from
   lease.go, discover.go, request.go, declinerelease.go, dhcp4.go (ProcessPacket,
   MinuteTicker, New), subnet_lease.go (newSubnet, appendRouteOptions) and
   layer_dhcp4.go (AppendOptions ordering).  The session facts the handlers
   consult (FindIP, IsCaptured) and change (DHCPv4Update, Parse's host
   creation, Capture, Release) are part of the state.

   Conventions
   * ip, mac : N (32/48-bit values).  A Go netip.Addr that can be the zero
     Addr{} is [option ip].  A client identifier (arbitrary bytes) is the N
     whose base-256 digits are 1 :: bytes (injective; chaddr fallback is
     2^48 + mac).
   * time : Z seconds; every time.Now() read is the [now] argument of the op.
     The zero time.Time is [zero_time].
   * Go map iteration in findByIP (first match in map order) is the oracle
     [ch : ip -> nat] (index among the matching leases), a parameter of every
     step and universally quantified in the theorems.
   * nat is used only for the size of a pool scan, never for an address. *)
From PV Require Import Base.Prelude.
Open Scope N_scope.

Definition ip := N.
Definition mac := N.
Definition cid := N.

Definition oeqb (a b : option N) : bool :=
  match a, b with
  | Some x, Some y => x =? y
  | None, None => true
  | _, _ => false
  end.
Definition is_some {A} (o : option A) : bool := match o with Some _ => true | None => false end.

(* ---------------------------------------------------------------- *)
(* association lists keyed by N *)

Fixpoint alookup {A} (k : N) (l : list (N * A)) : option A :=
  match l with
  | [] => None
  | (k', v) :: r => if k' =? k then Some v else alookup k r
  end.
Fixpoint aremove {A} (k : N) (l : list (N * A)) : list (N * A) :=
  match l with
  | [] => []
  | (k', v) :: r => if k' =? k then aremove k r else (k', v) :: aremove k r
  end.
Definition aset {A} (k : N) (v : A) (l : list (N * A)) : list (N * A) := (k, v) :: aremove k l.

(* ---------------------------------------------------------------- *)
(* configuration: NICInfo + Config of (Config).New *)

(* the parameters of the two dhcpSubnet values a handler holds (what the lease file stores of them):
   LAN (an address of it and the prefix length), default gateway, DNS server, DHCP server id *)
Record subcfg := mkSub {
  f_addr1 : ip; f_bits1 : N; f_gw1 : ip; f_dns1 : ip; f_srv1 : ip;      (* net1, home *)
  f_addr2 : ip; f_bits2 : N; f_gw2 : ip; f_dns2 : ip; f_srv2 : ip       (* net2, netfilter *)
}.

Record cfg := mkCfg {
  c_mode : N;                 (* 1 primary, 2 secondary, 3 secondary-nice *)
  c_hostip : ip; c_hostmac : mac;
  c_routerip : ip; c_routermac : mac;
  c_homeip : ip; c_homebits : N;      (* NICInfo.HomeLAN4 *)
  c_nfip : ip; c_nfbits : N;          (* Config.NetfilterIP *)
  c_dns : ip;                         (* Config.DNSServer *)
  c_sub : subcfg                      (* the subnets in force: built by New from the fields above, or kept from the lease file *)
}.

Definition cloudflare_family1 : ip := 16843011.   (* 1.1.1.3 *)

(* homeSubnet / netfilterSubnet of (Config).New *)
Definition wanted (c : cfg) : subcfg :=
  mkSub (c_homeip c) (c_homebits c) (c_routerip c) (c_dns c) (c_hostip c)
        (c_nfip c) (c_nfbits c) (c_nfip c) cloudflare_family1 (c_hostip c).
Definition set_sub (c : cfg) (f : subcfg) : cfg :=
  mkCfg (c_mode c) (c_hostip c) (c_hostmac c) (c_routerip c) (c_routermac c) (c_homeip c) (c_homebits c)
        (c_nfip c) (c_nfbits c) (c_dns c) f.
(* a handler built with no lease file *)
Definition fresh_cfg (md hip hmac rip rmac home hb nf nb dns : N) : cfg :=
  let c0 := mkCfg md hip hmac rip rmac home hb nf nb dns (mkSub 0 0 0 0 0 0 0 0 0 0) in set_sub c0 (wanted c0).

Definition psize (bits : N) : N := 2 ^ (32 - bits).
Definition pnet (a : ip) (bits : N) : ip := (a / psize bits) * psize bits.      (* Prefix.Masked().Addr() *)
Definition pcontains (a : ip) (bits : N) (x : ip) : bool := x / psize bits =? a / psize bits.
Definition pmask (bits : N) : N := 4294967296 - psize bits.

Definition ip_bcast : ip := 4294967295.
Definition mac_bcast : mac := 281474976710655.
Definition lease_secs : Z := 14400%Z.              (* 4 * time.Hour *)
Definition zero_time : Z := (-70000000000)%Z.      (* time.Time{}: before every clock value *)

(* the two dhcpSubnet values; b = false is net1 (home), b = true is net2 (netfilter) *)
Definition n_bits (c : cfg) (b : bool) : N := if b then f_bits2 (c_sub c) else f_bits1 (c_sub c).
Definition n_lan (c : cfg) (b : bool) : ip :=
  if b then pnet (f_addr2 (c_sub c)) (f_bits2 (c_sub c)) else pnet (f_addr1 (c_sub c)) (f_bits1 (c_sub c)).
Definition n_gw (c : cfg) (b : bool) : ip := if b then f_gw2 (c_sub c) else f_gw1 (c_sub c).
Definition n_dns (c : cfg) (b : bool) : ip := if b then f_dns2 (c_sub c) else f_dns1 (c_sub c).
Definition n_server (c : cfg) (b : bool) : ip := if b then f_srv2 (c_sub c) else f_srv1 (c_sub c).
Definition n_first (c : cfg) (b : bool) : ip := n_lan c b + 1.
Definition n_bcast (c : cfg) (b : bool) : ip := n_lan c b + psize (n_bits c b) - 1.
Definition n_contains (c : cfg) (b : bool) (x : ip) : bool := pcontains (n_lan c b) (n_bits c b) x.
(* lease.subnet.LAN == subnet.LAN (netip.Prefix values) *)
Definition lan_same (c : cfg) (b1 b2 : bool) : bool :=
  (n_lan c b1 =? n_lan c b2) && (n_bits c b1 =? n_bits c b2).

Definition ipb (x : ip) : bytes := [x / 16777216 mod 256; x / 65536 mod 256; x / 256 mod 256; x mod 256].

(* newSubnet's option map, plus appendRouteOptions on net2 (static route 33,
   router discovery 31, classless route 121: the mask passed there is
   net.CIDRMask(ones, 32-ones) = nil, so the descriptor is width 0 + our gateway) *)
Definition n_options (c : cfg) (b : bool) : list (N * bytes) :=
  [(54, ipb (n_server c b)); (1, ipb (pmask (n_bits c b))); (3, ipb (n_gw c b)); (6, ipb (n_dns c b))]
  ++ (if b then [(31, [0]); (33, ipb (n_gw c false) ++ ipb (n_gw c true)); (121, 0 :: ipb (n_gw c true))]
      else []).

(* ---------------------------------------------------------------- *)
(* The constructor's value domain: dhcp4_spoofer.Config + NICInfo as the caller gives them, what
   (Config).New accepts and what it normalises.  Config.DNSServer is a netip.Addr in any of its forms. *)
Inductive dnsval :=
| DnsZero                 (* the zero Addr{}: field left unset *)
| DnsV4 (x : ip)          (* plain IPv4, 0.0.0.0 included *)
| DnsMapped (x : ip)      (* ::ffff:a.b.c.d (what AddrFromSlice of a 16-byte net.IP gives) *)
| DnsV6.                  (* any other IPv6 address, :: included *)

Record rawcfg := mkRaw {
  r_mode : N;                          (* Config.Mode, any int32 *)
  r_hostip : ip; r_hostmac : mac; r_routerip : ip; r_routermac : mac;
  r_homeip : ip; r_homebits : N;       (* NICInfo.HomeLAN4 *)
  r_nfip : ip; r_nfbits : N;           (* Config.NetfilterIP (an IPv4 prefix) *)
  r_dns : dnsval
}.

(* New: Mode outside {1,2,3} becomes 3 (secondary-nice) *)
Definition norm_mode (m : N) : N := if (m =? 1) || (m =? 2) || (m =? 3) then m else 3.
(* New (fix for the non-IPv4 forms: Unmap, then anything that is not IPv4 defaults like the zero value):
   the DNS server handed to non-captured clients *)
Definition norm_dns (router : ip) (d : dnsval) : ip :=
  match d with DnsZero => router | DnsV4 x => x | DnsMapped x => x | DnsV6 => router end.

(* New + newSubnet (x2): the configurations that are accepted, normalised.  Rejected: netfilter address outside
   the home LAN or netfilter prefix wider than the home LAN or longer than /32; a subnet whose first address
   (network address + 1) is not inside it (/32); the router outside the home LAN; DNS server 0.0.0.0 *)
Definition new_cfg (r : rawcfg) : option cfg :=
  let dns := norm_dns (r_routerip r) (r_dns r) in
  if pcontains (r_homeip r) (r_homebits r) (r_nfip r)
     && (r_homebits r <=? r_nfbits r) && (r_nfbits r <=? 32) && (r_homebits r <=? 32)
     && pcontains (r_homeip r) (r_homebits r) (pnet (r_homeip r) (r_homebits r) + 1)
     && pcontains (r_nfip r) (r_nfbits r) (pnet (r_nfip r) (r_nfbits r) + 1)
     && pcontains (r_homeip r) (r_homebits r) (r_routerip r)
     && negb (dns =? 0)
  then Some (fresh_cfg (norm_mode (r_mode r)) (r_hostip r) (r_hostmac r) (r_routerip r) (r_routermac r)
                       (r_homeip r) (r_homebits r) (r_nfip r) (r_nfbits r) dns)
  else None.

(* ---------------------------------------------------------------- *)
(* session side *)

Record sess := mkSess {
  hosts : list (ip * mac);              (* HostTable.Table: ip -> host (its MAC) *)
  macs : list (mac * (bool * bool))     (* MACTable: mac -> (Captured, IsRouter); absent = (false,false) *)
}.

Definition sess_find (s : sess) (x : ip) : option mac := alookup x (hosts s).
Definition mac_flags (s : sess) (m : mac) : bool * bool :=
  match alookup m (macs s) with Some f => f | None => (false, false) end.
Definition sess_captured (s : sess) (m : mac) : bool := fst (mac_flags s m).
Definition mac_has_host (hs : list (ip * mac)) (m : mac) : bool := existsb (fun p => snd p =? m) hs.

(* deleteHost: unlink, delete the MAC entry when it was its last host *)
Definition delete_host (s : sess) (x : ip) : sess :=
  match alookup x (hosts s) with
  | None => s
  | Some m => let hs := aremove x (hosts s) in
              mkSess hs (if mac_has_host hs m then macs s else aremove m (macs s))
  end.
Definition add_host (s : sess) (m : mac) (x : ip) : sess :=
  mkSess ((x, m) :: hosts s)
         (match alookup m (macs s) with Some _ => macs s | None => (m, (false, false)) :: macs s end).
(* findOrCreateHostWithLock *)
Definition sess_touch (s : sess) (m : mac) (x : ip) : sess :=
  match alookup x (hosts s) with
  | Some m' => if m' =? m then s else add_host (delete_host s x) m x
  | None => add_host s m x
  end.
(* DHCPv4Update: refuses the zero Addr and 0.0.0.0 *)
Definition dhcp_update (s : sess) (m : mac) (x : option ip) : sess :=
  match x with
  | Some v => if v =? 0 then s else sess_touch s m v
  | None => s
  end.
Definition sess_capture (s : sess) (m : mac) : sess :=
  let '(cap, rt) := mac_flags s m in
  if cap then s else if rt then s else mkSess (hosts s) (aset m (true, rt) (macs s)).
Definition sess_uncapture (s : sess) (m : mac) : sess :=
  match alookup m (macs s) with
  | Some (_, rt) => mkSess (hosts s) (aset m (false, rt) (macs s))
  | None => s
  end.
(* NewSession: own host and router entries *)
Definition sess_init (c : cfg) : sess :=
  let s0 := mkSess [] [] in
  let s1 := sess_touch s0 (c_hostmac c) (c_hostip c) in
  let s2 := sess_touch s1 (c_routermac c) (c_routerip c) in
  mkSess (hosts s2) (aset (c_routermac c) (fst (mac_flags s2 (c_routermac c)), true) (macs s2)).

(* ---------------------------------------------------------------- *)
(* leases *)

Inductive lstate := SFree | SDiscover | SAllocated.
Definition lstate_eqb (a b : lstate) : bool :=
  match a, b with
  | SFree, SFree | SDiscover, SDiscover | SAllocated, SAllocated => true
  | _, _ => false
  end.

Record lease := mkLease {
  l_cid : cid; l_state : lstate; l_mac : mac;
  l_ip : option ip;        (* Addr.IP *)
  l_offer : option ip;     (* IPOffer *)
  l_xid : option N;        (* XID (nil before the first DISCOVER) *)
  l_net2 : bool;           (* subnet pointer: false net1, true net2 *)
  l_exp : Z                (* DHCPExpiry *)
}.
Definition set_state (l : lease) (st : lstate) : lease :=
  mkLease (l_cid l) st (l_mac l) (l_ip l) (l_offer l) (l_xid l) (l_net2 l) (l_exp l).
Definition set_ip (l : lease) (x : option ip) : lease :=
  mkLease (l_cid l) (l_state l) (l_mac l) x (l_offer l) (l_xid l) (l_net2 l) (l_exp l).
Definition set_offer (l : lease) (x : option ip) : lease :=
  mkLease (l_cid l) (l_state l) (l_mac l) (l_ip l) x (l_xid l) (l_net2 l) (l_exp l).
Definition set_xid (l : lease) (x : option N) : lease :=
  mkLease (l_cid l) (l_state l) (l_mac l) (l_ip l) (l_offer l) x (l_net2 l) (l_exp l).
Definition set_exp (l : lease) (e : Z) : lease :=
  mkLease (l_cid l) (l_state l) (l_mac l) (l_ip l) (l_offer l) (l_xid l) (l_net2 l) e.

(* Handler.table: map client id -> *Lease *)
Fixpoint tget (k : cid) (t : list lease) : option lease :=
  match t with
  | [] => None
  | l :: r => if l_cid l =? k then Some l else tget k r
  end.
Definition tdel (k : cid) (t : list lease) : list lease := filter (fun l => negb (l_cid l =? k)) t.
Definition tset (l : lease) (t : list lease) : list lease := l :: tdel (l_cid l) t.

Record dstate := mkSt { tbl : list lease; next1 : ip; next2 : ip; ss : sess }.
Definition set_tbl (s : dstate) (t : list lease) : dstate := mkSt t (next1 s) (next2 s) (ss s).
Definition set_ss (s : dstate) (x : sess) : dstate := mkSt (tbl s) (next1 s) (next2 s) x.
Definition get_next (s : dstate) (b : bool) : ip := if b then next2 s else next1 s.
Definition set_next (s : dstate) (b : bool) (v : ip) : dstate :=
  if b then mkSt (tbl s) (next1 s) v (ss s) else mkSt (tbl s) v (next2 s) (ss s).
Definition put (s : dstate) (l : lease) : dstate := set_tbl s (tset l (tbl s)).

(* (Config).New with an absent lease file: empty table.  newSubnet never sets
   nextIP, so the cursor starts as the zero Addr{}: Addr{}.Less(broadcast) holds,
   the first scan "finds" an invalid address within two iterations (Addr{} or
   Addr{}.Next(), which no lease/host carries ... or skips it), ip.IsValid() fails
   and the wrap-around phase restarts at FirstIP.  A first scan from FirstIP
   followed (on failure) by the wrap-around scan from FirstIP is the same
   function of the state, so the model starts the cursor at FirstIP. *)
Definition init (c : cfg) : dstate := mkSt [] (n_first c false) (n_first c true) (sess_init c).

(* (Config).New on an existing lease file.  loadConfig rebuilds both subnets from the FILE's values
   (their option maps are built there, once); configChanged compares, per subnet, the masked LAN
   prefix, DefaultGW, DNSServer and DHCPServer of the configuration with the file's (Duration and
   FirstIP are zero in the configuration and not compared); if anything differs New resets: both
   subnets are rebuilt from the configuration and the lease table is emptied.  Mode, MAC addresses
   and the NIC data are never read from the file. *)
Definition sub_changed (w f : subcfg) : bool :=
  negb ((pnet (f_addr1 w) (f_bits1 w) =? pnet (f_addr1 f) (f_bits1 f)) && (f_bits1 w =? f_bits1 f)
        && (f_gw1 w =? f_gw1 f) && (f_dns1 w =? f_dns1 f) && (f_srv1 w =? f_srv1 f)
        && (pnet (f_addr2 w) (f_bits2 w) =? pnet (f_addr2 f) (f_bits2 f)) && (f_bits2 w =? f_bits2 f)
        && (f_gw2 w =? f_gw2 f) && (f_dns2 w =? f_dns2 f) && (f_srv2 w =? f_srv2 f)).
(* file = the subnets the previous handler held; cB = the new configuration *)
Definition loaded_cfg (file : subcfg) (cB : cfg) : cfg :=
  set_sub cB (if sub_changed (wanted cB) file then wanted cB else file).

(* findByIP: first lease in map order whose Addr.IP equals x *)
Definition findByIP (ch : nat) (t : list lease) (x : ip) : option lease :=
  let ms := filter (fun l => oeqb (l_ip l) (Some x)) t in
  nth_error ms (Nat.modulo ch (List.length ms)).

(* ---------------------------------------------------------------- *)
(* messages and replies *)

Record dmsg := mkMsg {
  m_chaddr : mac;          (* chaddr, also the Ethernet source of the frame *)
  m_xid : N;
  m_ciaddr : ip;
  m_cid : option cid;      (* option 61 *)
  m_req : option ip;       (* option 50 (4 bytes) *)
  m_sid : option ip;       (* option 54 (4 bytes) *)
  m_bflag : bool;          (* broadcast flag *)
  m_src : ip;              (* IP source of the frame *)
  m_prl : list N           (* option 55 *)
}.

Inductive op :=
| ODiscover (now : Z) (m : dmsg)
| ORequest (now : Z) (m : dmsg)
| ODecline (m : dmsg)
| ORelease (m : dmsg)
| OCapture (m : mac)
| OUncapture (m : mac)
| OTick (now : Z)
| OSetExp (k : cid) (t : Z).    (* verif hook VerifSetLeaseExpiry: DHCPExpiry of the lease under k := t *)

Inductive rtype := ROffer | RAck | RNak.
Record reply := mkReply {
  r_type : rtype; r_yi : ip; r_xid : N; r_chaddr : mac;
  r_opts : list (N * bytes);        (* in wire order; the map-ordered tail sorted by code *)
  r_dstmac : mac; r_dstip : ip
}.

(* getClientID: option 61, else (absent or zero-length, fix ec7166b) chaddr; the empty byte string is the N 1 *)
(* the fixed BOOTP header of a reply as EncodeDHCP4(p, BootReply, ...) leaves it in the request buffer:
   op htype hlen hops, secs, flags (cleared), ciaddr (kept from the request for OFFER/ACK: the call passes the
   zero Addr; set to 0.0.0.0 for NAK), siaddr, giaddr (zeroed), chaddr padding + sname + file zeroed, cookie *)
Record bootp_hdr := mkHdr {
  h_op : N; h_htype : N; h_hlen : N; h_hops : N; h_secs : N; h_flags : N;
  h_ciaddr : ip; h_siaddr : ip; h_giaddr : ip; h_zeroed : bool; h_cookie : N
}.
Definition reply_header (t : rtype) (m : dmsg) : bootp_hdr :=
  mkHdr 2 1 6 0 0 0 (match t with RNak => 0 | _ => m_ciaddr m end) 0 0 true 1669485411.

Definition getcid (m : dmsg) : cid :=
  match m_cid m with
  | Some k => if k =? 1 then 281474976710656 + m_chaddr m else k
  | None => 281474976710656 + m_chaddr m
  end.

(* AppendOptions: the codes of the effective order first (each at most once), then the rest
   (Go map order; canonical here: ascending code) *)
Fixpoint take_ordered (order : list N) (opts : list (N * bytes)) : list (N * bytes) * list (N * bytes) :=
  match order with
  | [] => ([], opts)
  | code :: r =>
      match alookup code opts with
      | Some v => let '(o, rest) := take_ordered r (aremove code opts) in ((code, v) :: o, rest)
      | None => take_ordered r opts
      end
  end.
Fixpoint insert_opt (x : N * bytes) (l : list (N * bytes)) : list (N * bytes) :=
  match l with
  | [] => [x]
  | y :: r => if fst x <=? fst y then x :: y :: r else y :: insert_opt x r
  end.
Definition sort_opts (l : list (N * bytes)) : list (N * bytes) := fold_right insert_opt [] l.
(* RFC 2132 3.3 (fix 94e2701): code 1 is inserted in front of the first 3 of the requested order *)
Fixpoint insert_mask (order : list N) : list N :=
  match order with
  | [] => []
  | x :: r => if x =? 3 then 1 :: x :: r else x :: insert_mask r
  end.
Definition append_options (opts : list (N * bytes)) (order : list N) : list (N * bytes) :=
  let '(o, rest) := take_ordered (insert_mask order ++ [1; 33; 3]) opts in o ++ sort_opts rest.

Definition lease_time_opt : N * bytes := (51, ipb (Z.to_N lease_secs)).

(* ProcessPacket: destination of the reply: broadcast when the frame had no IP source or the
   client set the broadcast flag (read before the reply is encoded into the request buffer,
   fix c6ea1f8; before, the flag was read from the reply and was always 0). *)
Definition reply_dst (m : dmsg) : mac * ip :=
  if (m_src m =? 0) || m_bflag m then (mac_bcast, ip_bcast) else (m_chaddr m, m_src m).

Definition mk_reply (c : cfg) (t : rtype) (m : dmsg) (yi : ip) (b : bool) : reply :=
  let tcode := match t with ROffer => 2 | RAck => 5 | RNak => 6 end in
  let opts := match t with
              | RNak => append_options [(54, ipb (n_server c b)); (53, [tcode])] []   (* + client id 61; NAK options are not compared *)
              | _ => append_options (n_options c b ++ [lease_time_opt; (53, [tcode])]) (m_prl m)
              end in
  mkReply t yi (m_xid m) (m_chaddr m) opts (fst (reply_dst m)) (snd (reply_dst m)).

(* ---------------------------------------------------------------- *)
(* lease.go *)

(* taken: ip is acknowledged to another client id, or tracked by the session for a MAC other
   than the lease's (the range over h.table is existential: map order does not matter) *)
Definition taken (s : dstate) (l : lease) (x : ip) : bool :=
  existsb (fun v => negb (l_cid v =? l_cid l) && lstate_eqb (l_state v) SAllocated && oeqb (l_ip v) (Some x)) (tbl s)
  || match sess_find (ss s) x with Some m' => negb (m' =? l_mac l) | None => false end.

Definition findOrCreate (c : cfg) (s : dstate) (k : cid) (mc : mac) : dstate * lease :=
  let b := sess_captured (ss s) mc in
  let fresh := mkLease k SFree mc None None None b zero_time in
  match tget k (tbl s) with
  | Some l => if Bool.eqb (l_net2 l) b && (l_mac l =? mc) then (s, l) else (put s fresh, fresh)
  | None => (put s fresh, fresh)
  end.

Definition free_or_none (o : option lease) : bool :=
  match o with None => true | Some l => lstate_eqb (l_state l) SFree end.
Definition avail (ch : ip -> nat) (s : dstate) (x : ip) : bool :=
  free_or_none (findByIP (ch x) (tbl s) x) && negb (is_some (sess_find (ss s) x)).
Definition avail_req (ch : ip -> nat) (s : dstate) (k : cid) (x : ip) : bool :=
  (match findByIP (ch x) (tbl s) x with
   | None => true
   | Some l => lstate_eqb (l_state l) SFree || (l_cid l =? k)
   end) && negb (is_some (sess_find (ss s) x)).
(* for nextIP.Less(broadcast) { if available {take; break}; nextIP = nextIP.Next() } *)
Definition scan (ch : ip -> nat) (s : dstate) (from bc : ip) : option ip :=
  find (avail ch s) (map (fun k => from + N.of_nat k) (seq 0 (N.to_nat (bc - from)))).

(* allocIPOffer, first phase: the requested address is taken when it is a host address of the
   lease's subnet, no lease of another client id holds it as acknowledged address (findByIP)
   and the session does not track it *)
Definition phase1 (c : cfg) (ch : ip -> nat) (s : dstate) (l : lease) (req : option ip) : option ip :=
  match req with
  | Some r => if n_contains c (l_net2 l) r && negb (r =? n_lan c (l_net2 l)) && negb (r =? n_bcast c (l_net2 l))
                 && avail_req ch s (l_cid l) r then Some r else None
  | None => None
  end.

(* allocIPOffer: the offer (None = "exhausted all ips") and the state with the cursor moved *)
Definition allocIPOffer (c : cfg) (ch : ip -> nat) (s : dstate) (l : lease) (req : option ip)
  : option ip * dstate :=
  let b := l_net2 l in
  match phase1 c ch s l req with
  | Some r => (Some r, s)
  | None =>
      let bc := n_bcast c b in
      match scan ch s (get_next s b) bc with
      | Some x => (Some x, set_next s b (x + 1))
      | None =>
          let f := n_first c b in
          match scan ch s f bc with
          | Some x => (Some x, set_next s b (x + 1))
          | None => (None, set_next s b (N.max f bc))
          end
      end
  end.

(* freeLeases *)
Definition freeLeases (now : Z) (t : list lease) : list lease :=
  map (fun l => if negb (lstate_eqb (l_state l) SFree) && (l_exp l <? now)%Z then set_state l SFree else l) t.

(* ---------------------------------------------------------------- *)
(* discover.go *)

(* the switch on lease.State: which previous offer is kept *)
Definition discover_reset (now : Z) (l : lease) (m : dmsg) : lease :=
  match l_state l with
  | SAllocated => set_offer l (if (l_exp l <? now)%Z then None else l_ip l)
  | SDiscover => if oeqb (l_xid l) (Some (m_xid m)) then l else set_offer l None
  | SFree => l
  end.

Definition handleDiscover (c : cfg) (ch : ip -> nat) (now : Z) (s : dstate) (m : dmsg)
  : dstate * option reply :=
  let k := getcid m in
  let '(s1, l) := findOrCreate c s k (m_chaddr m) in
  let l0 := discover_reset now l m in
  let l1 := match l_offer l0 with
            | Some x => if taken s1 l0 x then set_offer l0 None else l0
            | None => l0
            end in
  let s1' := put s1 l1 in
  let '(off, s2) := match l_offer l1 with
                    | Some x => (Some x, s1')
                    | None => allocIPOffer c ch s1' l1 (m_req m)
                    end in
  match off with
  | None => (set_tbl s2 (tdel k (tbl s2)), None)
  | Some x =>
      let l2 := set_xid (set_state (set_offer l1 (Some x)) SDiscover) (Some (m_xid m)) in
      (put s2 l2, Some (mk_reply c ROffer m x (l_net2 l2)))
  end.

(* ---------------------------------------------------------------- *)
(* request.go *)

Inductive reqop := Selecting | Renewing | Rebinding | Rebooting.

Definition attack_mode (c : cfg) (captured : bool) : bool :=
  (c_mode c =? 2) || ((c_mode c =? 3) && captured).

(* "successful request": the lease becomes Allocated, the session learns the address, ACK *)
Definition do_ack (c : cfg) (now : Z) (m : dmsg) (s : dstate) (l : lease) : dstate * option reply :=
  let l2 := match l_state l with
            | SDiscover => set_offer (set_ip l (l_offer l)) None
            | _ => l
            end in
  let l3 := set_exp (set_state l2 SAllocated) (now + lease_secs)%Z in
  let yi := match l_ip l3 with Some x => x | None => 0 end in
  let s' := put s l3 in
  (set_ss s' (dhcp_update (ss s') (l_mac l3) (l_ip l3)), Some (mk_reply c RAck m yi (l_net2 l3))).

(* the kind of REQUEST and the address it is about *)
Definition classify (m : dmsg) : reqop * ip :=
  let req0 := match m_req m with Some r => r | None => 0 end in
  let sid := match m_sid m with Some r => r | None => 0 end in
  if negb (sid =? 0) then (Selecting, req0)
  else if (req0 =? 0) && negb (m_src m =? ip_bcast) then (Renewing, m_ciaddr m)
  else if (req0 =? 0) then (Rebinding, m_ciaddr m)
  else (Rebooting, req0).

Definition handleRequest (c : cfg) (now : Z) (s : dstate) (m : dmsg) : dstate * option reply :=
  let k := getcid m in
  let sid := match m_sid m with Some r => r | None => 0 end in
  let '(oper, req) := classify m in
  if req =? 0 then (s, None) else
  let captured := sess_captured (ss s) (m_chaddr m) in
  let '(s1, l) := findOrCreate c s k (m_chaddr m) in
  let tk := taken s1 l req in     (* before the session learns req from this request *)
  let expired := lstate_eqb (l_state l) SAllocated && (l_exp l <? now)%Z in   (* fix 8b460ec *)
  let nak := Some (mk_reply c RNak m 0 captured) in
  let ack := do_ack c now m in
  match oper with
  | Selecting =>
      if negb (sid =? n_server c captured) then
        let l' := if lstate_eqb (l_state l) SDiscover then l else set_ip (set_state l SFree) None in
        let s2 := put s1 l' in
        if attack_mode c captured then (s2, nak)
        else (set_ss s2 (dhcp_update (ss s2) (m_chaddr m) (Some req)), None)
      else if lstate_eqb (l_state l) SFree || tk || expired || negb (l_mac l =? m_chaddr m)
              || (lstate_eqb (l_state l) SDiscover
                  && (negb (oeqb (l_xid l) (Some (m_xid m))) || negb (oeqb (l_offer l) (Some req))))
              || (lstate_eqb (l_state l) SAllocated && negb (oeqb (l_ip l) (Some req)))
      then (s1, nak)
      else ack s1 l
  | Renewing =>
      if negb (lstate_eqb (l_state l) SAllocated) || tk || negb (oeqb (l_ip l) (Some req))
         || negb (l_mac l =? m_chaddr m) || (l_exp l <? now)%Z
      then (s1, nak)
      else ack s1 l
  | Rebooting | Rebinding =>
      let s2 := set_ss s1 (dhcp_update (ss s1) (m_chaddr m) (Some req)) in
      if lstate_eqb (l_state l) SFree && attack_mode c captured then (s2, nak)
      else if negb (lstate_eqb (l_state l) SAllocated) || tk || expired || negb (oeqb (l_ip l) (Some req))
              || negb (l_mac l =? m_chaddr m)
              || negb (match l_ip l with Some x => n_contains c captured x | None => false end)
      then (s2, nak)
      else ack s2 l
  end.

(* ---------------------------------------------------------------- *)
(* declinerelease.go *)

Definition handleDecline (c : cfg) (s : dstate) (m : dmsg) : dstate * option reply :=
  let '(s1, l) := findOrCreate c s (getcid m) (m_chaddr m) in
  if negb (oeqb (Some (n_server c (l_net2 l))) (m_sid m)) then (s1, None)
  else if negb (oeqb (l_ip l) (m_req m)) || negb (l_mac l =? m_chaddr m) then (s1, None)
  else (put s1 (set_offer (set_ip (set_state l SFree) None) None), None).

Definition handleRelease (c : cfg) (s : dstate) (m : dmsg) : dstate * option reply :=
  let '(s1, l) := findOrCreate c s (getcid m) (m_chaddr m) in
  (s1, None).

(* ---------------------------------------------------------------- *)
(* Session.Parse on the client's frame, then Handler.ProcessPacket *)

Definition parse_effect (c : cfg) (s : dstate) (m : dmsg) : dstate :=
  if negb (m_chaddr m =? c_hostmac c) && pcontains (c_homeip c) (c_homebits c) (m_src m)
  then set_ss s (sess_touch (ss s) (m_chaddr m) (m_src m))
  else s.

Definition step (c : cfg) (ch : ip -> nat) (s : dstate) (o : op) : dstate * option reply :=
  match o with
  | ODiscover now m => handleDiscover c ch now (parse_effect c s m) m
  | ORequest now m => handleRequest c now (parse_effect c s m) m
  | ODecline m => handleDecline c (parse_effect c s m) m
  | ORelease m => handleRelease c (parse_effect c s m) m
  | OCapture x => (set_ss s (sess_capture (ss s) x), None)
  | OUncapture x => (set_ss s (sess_uncapture (ss s) x), None)
  | OTick now => (set_tbl s (freeLeases now (tbl s)), None)
  | OSetExp k t => (match tget k (tbl s) with Some l => put s (set_exp l t) | None => s end, None)
  end.

(* a history: each op with the map-order oracle in force during it *)
Fixpoint run (c : cfg) (s : dstate) (h : list ((ip -> nat) * op)) : dstate * list (option reply) :=
  match h with
  | [] => (s, [])
  | (ch, o) :: r =>
      let '(s1, rp) := step c ch s o in
      let '(s2, rps) := run c s1 r in
      (s2, rp :: rps)
  end.

(* ---------------------------------------------------------------- *)
(* restart on the lease file the previous handler left behind *)

(* saveConfig runs in New, at the end of every ACK and (fix 9517ed8) wherever a binding is dropped:
   findOrCreate replacing a lease, DISCOVER deleting the lease of an exhausted pool, SELECT for
   another server freeing the lease, DECLINE, MinuteTicker freeing a lease.  Between a save inside a
   handler and its end no lease enters or leaves state Allocated without another save, so the file
   holds the table as it was at the end of the last step that saved. *)
Definition replaces (c : cfg) (s0 : dstate) (m : dmsg) : bool :=
  match tget (getcid m) (tbl s0) with
  | Some l => negb (Bool.eqb (l_net2 l) (sess_captured (ss s0) (m_chaddr m)) && (l_mac l =? m_chaddr m))
  | None => false
  end.
Definition step_saves (c : cfg) (s : dstate) (o : op) (rp : option reply) : bool :=
  match o with
  | ODiscover _ m => replaces c (parse_effect c s m) m || match rp with None => true | Some _ => false end
  | ORequest _ m =>
      let s0 := parse_effect c s m in
      let '(oper, req) := classify m in
      if req =? 0 then false else
      replaces c s0 m
      || match rp with Some rr => match r_type rr with RAck => true | _ => false end | None => false end
      || match oper with
         | Selecting =>
             let sid := match m_sid m with Some r => r | None => 0 end in
             let '(_, l) := findOrCreate c s0 (getcid m) (m_chaddr m) in
             negb (sid =? n_server c (sess_captured (ss s0) (m_chaddr m))) && negb (lstate_eqb (l_state l) SDiscover)
         | _ => false
         end
  | ODecline m =>
      let s0 := parse_effect c s m in
      let '(_, l) := findOrCreate c s0 (getcid m) (m_chaddr m) in
      replaces c s0 m
      || (oeqb (Some (n_server c (l_net2 l))) (m_sid m) && oeqb (l_ip l) (m_req m) && (l_mac l =? m_chaddr m))
  | ORelease m => replaces c (parse_effect c s m) m
  | OTick now => existsb (fun l => negb (lstate_eqb (l_state l) SFree) && (l_exp l <? now)%Z) (tbl s)
  | _ => false
  end.

Fixpoint run_saving (c : cfg) (s : dstate) (saved : list lease) (h : list ((ip -> nat) * op))
  : dstate * list lease :=
  match h with
  | [] => (s, saved)
  | (ch, o) :: r =>
      let '(s1, rp) := step c ch s o in
      run_saving c s1 (if step_saves c s o rp then tbl s1 else saved) r
  end.

(* saveConfig writes the acknowledged leases; loadByteArray restores those whose address lies in the
   file's net1 and whose client id is not empty — each as an entry of its own —; a restored lease points
   at net1, or at net2 when its MAC is captured in the session AT LOAD TIME and its address is a usable host
   address of net2 (inside it, not its network or broadcast address: fix d15f9fe).
   The restored table is a function of (file, session capture state, configuration). *)
Definition restore (cL : cfg) (se : sess) (saved : list lease) : list lease :=
  map (fun l => mkLease (l_cid l) SAllocated (l_mac l) (l_ip l) (l_offer l) (l_xid l)
                        (sess_captured se (l_mac l)
                         && match l_ip l with
                            | Some x => n_contains cL true x && negb (x =? n_lan cL true) && negb (x =? n_bcast cL true)
                            | None => false
                            end)
                        (l_exp l))
      (filter (fun l => lstate_eqb (l_state l) SAllocated
                        && match l_ip l with Some x => n_contains cL false x | None => false end
                        && negb (l_cid l =? 1)) saved).

(* the session a handler is constructed on: NewSession plus the MACs captured before (Config).New *)
Definition sess_pre (c : cfg) (pre : list mac) : sess := fold_left sess_capture pre (sess_init c).

(* (Config).New of configuration cB on that file: configuration in force and initial state *)
Definition restart_state (file : subcfg) (cB : cfg) (pre : list mac) (saved : list lease) : dstate :=
  let cL := loaded_cfg file cB in
  if sub_changed (wanted cB) file then mkSt [] (n_first cL false) (n_first cL true) (sess_pre cL pre)
  else mkSt (restore cL (sess_pre cL pre) saved) (n_first cL false) (n_first cL true) (sess_pre cL pre).
