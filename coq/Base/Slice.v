(* Base/Slice.v — Go slice semantics: storage up to capacity, length,
   bounds-checked indexing and re-slicing with the same panic rules as Go. *)
From PV Require Export Base.Prelude.
Open Scope N_scope.

Record slice := mkSlice { arr : bytes; len : nat }.
Definition cap (s : slice) : nat := length (arr s).
Definition wf (s : slice) : Prop := (len s <= cap s)%nat.
Definition wfb (s : slice) : bool := Nat.leb (len s) (cap s).
Definition view (s : slice) : bytes := firstn (len s) (arr s).
Definition of_bytes (l : bytes) : slice := mkSlice l (length l).
Definition of_bytes_cap (l spare : bytes) : slice := mkSlice (l ++ spare) (length l).

(* s[i] *)
Definition idx (s : slice) (i : nat) : res byte :=
  if Nat.ltb i (len s) then Ok (nth i (arr s) 0) else Panic.

(* s[a:b] : Go checks 0 <= a <= b <= cap *)
Definition sl (s : slice) (a b : nat) : res slice :=
  if Nat.leb a b && Nat.leb b (cap s) then Ok (mkSlice (skipn a (arr s)) (b - a)) else Panic.

(* s[a:] : Go checks a <= len *)
Definition slfrom (s : slice) (a : nat) : res slice :=
  if Nat.leb a (len s) then Ok (mkSlice (skipn a (arr s)) (len s - a)) else Panic.

(* s[:b] *)
Definition slto (s : slice) (b : nat) : res slice := sl s 0 b.

(* binary.BigEndian.Uint16(s[a:a+2]) as used throughout the views *)
Definition be16_at (s : slice) (a : nat) : res N :=
  if Nat.leb (a + 2) (cap s) then
    (* the sub-slice s[a:a+2] has len 2; Uint16 reads both bytes *)
    Ok (be16 (nth a (arr s) 0) (nth (a + 1) (arr s) 0))
  else Panic.

Definition be32_at (s : slice) (a : nat) : res N :=
  if Nat.leb (a + 4) (cap s) then
    Ok (be32 (nth a (arr s) 0) (nth (a + 1) (arr s) 0) (nth (a + 2) (arr s) 0) (nth (a + 3) (arr s) 0))
  else Panic.

Lemma idx_ok s i : (i < len s)%nat -> idx s i = Ok (nth i (arr s) 0).
Proof. intros H. unfold idx. destruct (Nat.ltb_spec i (len s)); [reflexivity|lia]. Qed.

Lemma sl_ok s a b : (a <= b)%nat -> (b <= cap s)%nat -> sl s a b = Ok (mkSlice (skipn a (arr s)) (b - a)).
Proof.
  intros H1 H2. unfold sl. destruct (Nat.leb_spec a b); [|lia].
  destruct (Nat.leb_spec b (cap s)); [reflexivity|lia].
Qed.

Lemma slfrom_ok s a : (a <= len s)%nat -> slfrom s a = Ok (mkSlice (skipn a (arr s)) (len s - a)).
Proof. intros H. unfold slfrom. destruct (Nat.leb_spec a (len s)); [reflexivity|lia]. Qed.

Lemma be16_at_ok s a : (a + 2 <= cap s)%nat ->
  be16_at s a = Ok (be16 (nth a (arr s) 0) (nth (a + 1) (arr s) 0)).
Proof. intros H. unfold be16_at. destruct (Nat.leb_spec (a + 2) (cap s)); [reflexivity|lia]. Qed.

Lemma view_length s : wf s -> length (view s) = len s.
Proof. unfold wf, view, cap. intros H. rewrite firstn_length. lia. Qed.

Lemma view_nth s i : (i < len s)%nat -> nth i (view s) 0 = nth i (arr s) 0.
Proof.
  unfold view. intros H. revert i H. generalize (len s) as n. generalize (arr s) as l.
  induction l as [|x xs IH]; intros n i H.
  - rewrite firstn_nil. reflexivity.
  - destruct n as [|n]; [lia|]. destruct i as [|i]; simpl; [reflexivity|]. apply IH. lia.
Qed.
