(* Base/Text.v — text protocol between harness and model: hex <-> bytes,
   decimal printing, token splitting. Executable; used by both the
   extracted driver and in-kernel replay. *)
From Coq Require Export String Ascii.
From PV Require Export Base.Prelude.
Open Scope string_scope.
Open Scope N_scope.

Definition hexdigit (n : N) : ascii :=
  ascii_of_N (if n <? 10 then 48 + n else 87 + n).

Definition hexval (c : ascii) : option N :=
  let n := N_of_ascii c in
  if (48 <=? n) && (n <=? 57) then Some (n - 48)
  else if (97 <=? n) && (n <=? 102) then Some (n - 87)
  else if (65 <=? n) && (n <=? 70) then Some (n - 55)
  else None.

Fixpoint hex_of_bytes (l : bytes) : string :=
  match l with
  | [] => EmptyString
  | b :: r => String (hexdigit (b / 16)) (String (hexdigit (b mod 16)) (hex_of_bytes r))
  end.

Fixpoint bytes_of_hex (s : string) : option bytes :=
  match s with
  | EmptyString => Some []
  | String a (String b r) =>
      match hexval a, hexval b, bytes_of_hex r with
      | Some x, Some y, Some l => Some (x * 16 + y :: l)
      | _, _, _ => None
      end
  | _ => None
  end.

(* "-" denotes the empty byte string so that tokens are never empty *)
Definition bytes_of_tok (s : string) : option bytes :=
  if String.eqb s "-" then Some [] else bytes_of_hex s.
Definition tok_of_bytes (l : bytes) : string :=
  match l with [] => "-" | _ => hex_of_bytes l end.

(* decimal *)
Fixpoint dec_aux (fuel : nat) (n : N) (acc : string) : string :=
  match fuel with
  | O => acc
  | S f =>
      let acc' := String (ascii_of_N (48 + n mod 10)) acc in
      if n <? 10 then acc' else dec_aux f (n / 10) acc'
  end.
Definition dec_of_N (n : N) : string := dec_aux (S (N.to_nat (N.size n))) n EmptyString.
Definition dec_of_nat (n : nat) : string := dec_of_N (N.of_nat n).
Definition dec_of_Z (z : Z) : string :=
  match z with
  | Z0 => "0"
  | Zpos p => dec_of_N (Npos p)
  | Zneg p => "-" ++ dec_of_N (Npos p)
  end.

Fixpoint N_of_dec_aux (s : string) (acc : N) : option N :=
  match s with
  | EmptyString => Some acc
  | String c r =>
      let n := N_of_ascii c in
      if (48 <=? n) && (n <=? 57) then N_of_dec_aux r (acc * 10 + (n - 48)) else None
  end.
Definition N_of_dec (s : string) : option N :=
  match s with EmptyString => None | _ => N_of_dec_aux s 0 end.
Definition nat_of_dec (s : string) : option nat := option_map N.to_nat (N_of_dec s).
Definition Z_of_dec (s : string) : option Z :=
  match s with
  | String "-"%char r => option_map (fun n => Z.opp (Z.of_N n)) (N_of_dec r)
  | _ => option_map Z.of_N (N_of_dec s)
  end.

(* split on a single separator character (accumulator reversed: linear time) *)
Fixpoint rev_string (s acc : string) : string :=
  match s with
  | EmptyString => acc
  | String c r => rev_string r (String c acc)
  end.
Fixpoint split_aux (sep : ascii) (s : string) (cur : string) : list string :=
  match s with
  | EmptyString => [rev_string cur EmptyString]
  | String c r =>
      if Ascii.eqb c sep then rev_string cur EmptyString :: split_aux sep r EmptyString
      else split_aux sep r (String c cur)
  end.
Definition split (sep : ascii) (s : string) : list string := split_aux sep s EmptyString.
Definition words (s : string) : list string := split " "%char s.

Fixpoint join (sep : string) (l : list string) : string :=
  match l with
  | [] => EmptyString
  | [x] => x
  | x :: r => x ++ sep ++ join sep r
  end.

Definition show_bool (b : bool) : string := if b then "T" else "F".
Definition bool_of_tok (s : string) : option bool :=
  if String.eqb s "T" then Some true else if String.eqb s "F" then Some false else None.

Definition show_err (e : err) : string :=
  match e with
  | EFrameLen => "EFrameLen" | EParseFrame => "EParseFrame" | EInvalidIP => "EInvalidIP"
  | EPayloadTooBig => "EPayloadTooBig" | ETimeout => "ETimeout" | ENotFound => "ENotFound"
  | EInvalidMAC => "EInvalidMAC" | EOther => "EOther"
  end.

Definition show_res {A} (f : A -> string) (r : res A) : string :=
  match r with
  | Ok a => f a
  | Err e => "err:" ++ show_err e
  | Panic => "panic"
  | Fuel => "fuel"
  end.

Definition BADARGS : string := "badargs".
