(* Base/Prelude.v — shared conventions: bytes, outcomes, Go integer wraps.
   Stdlib only. No proofs of properties here; only definitions and
   small interface lemmas later proofs depend on. *)
From Coq Require Export List NArith ZArith Bool Lia Arith.
From Coq Require Export ZifyBool ZifyNat ZifyN.
Export ListNotations.

Ltac Zify.zify_post_hook ::= Z.div_mod_to_equations.

Global Arguments N.add : simpl never.
Global Arguments N.mul : simpl never.
Global Arguments N.sub : simpl never.
Global Arguments N.div : simpl never.
Global Arguments N.modulo : simpl never.
Global Arguments N.pow : simpl never.
Global Arguments N.shiftl : simpl never.
Global Arguments N.shiftr : simpl never.
Global Arguments N.land : simpl never.
Global Arguments N.lor : simpl never.
Global Arguments N.lxor : simpl never.
Global Arguments N.leb : simpl never.
Global Arguments N.ltb : simpl never.
Global Arguments N.eqb : simpl never.

Open Scope N_scope.

(* ---------------------------------------------------------------- *)
(* Bytes *)

Definition byte := N.
Definition bytes := list byte.

Definition byte_okb (b : byte) : bool := b <? 256.
Definition bytes_okb (l : bytes) : bool := forallb byte_okb l.
Definition bytes_ok (l : bytes) : Prop := Forall (fun b => b < 256) l.

Lemma bytes_okb_spec l : bytes_okb l = true <-> bytes_ok l.
Proof.
  unfold bytes_okb, bytes_ok, byte_okb. rewrite forallb_forall, Forall_forall.
  split; intros H x Hx; specialize (H x Hx); lia.
Qed.

Lemma bytes_ok_app a b : bytes_ok (a ++ b) <-> bytes_ok a /\ bytes_ok b.
Proof. unfold bytes_ok. apply Forall_app. Qed.

Lemma bytes_ok_nth l i : bytes_ok l -> nth i l 0 < 256.
Proof.
  unfold bytes_ok. intros H. destruct (Nat.lt_ge_cases i (length l)) as [Hi|Hi].
  - rewrite Forall_forall in H. apply H. apply nth_In. exact Hi.
  - rewrite nth_overflow by exact Hi. lia.
Qed.

Lemma bytes_ok_firstn n l : bytes_ok l -> bytes_ok (firstn n l).
Proof.
  unfold bytes_ok. revert n. induction l as [|x xs IH]; intros [|n] H; simpl; auto.
  inversion H; subst. constructor; auto.
Qed.

Lemma bytes_ok_skipn n l : bytes_ok l -> bytes_ok (skipn n l).
Proof.
  unfold bytes_ok. revert n. induction l as [|x xs IH]; intros [|n] H; simpl; auto.
  inversion H; subst. auto.
Qed.

Lemma bytes_ok_repeat b n : b < 256 -> bytes_ok (repeat b n).
Proof. intros Hb. unfold bytes_ok. induction n; simpl; constructor; auto. Qed.

(* ---------------------------------------------------------------- *)
(* Go fixed-width integers: wraps are written out explicitly. *)

Definition u8  (x : N) : N := x mod 256.
Definition u16 (x : N) : N := x mod 65536.
Definition u32 (x : N) : N := x mod 4294967296.

(* big-endian / little-endian 16-bit words from two bytes *)
Definition be16 (hi lo : byte) : N := hi * 256 + lo.
Definition be32 (a b c d : byte) : N := ((a * 256 + b) * 256 + c) * 256 + d.

(* ---------------------------------------------------------------- *)
(* Outcomes of a modelled Go call *)

Inductive err : Set :=
| EFrameLen | EParseFrame | EInvalidIP | EPayloadTooBig | ETimeout
| ENotFound | EInvalidMAC | EOther.

Inductive res (A : Type) : Type :=
| Ok (a : A)
| Err (e : err)
| Panic
| Fuel.
Arguments Ok {A} a.
Arguments Err {A} e.
Arguments Panic {A}.
Arguments Fuel {A}.

Definition bind {A B} (r : res A) (f : A -> res B) : res B :=
  match r with
  | Ok a => f a
  | Err e => Err e
  | Panic => Panic
  | Fuel => Fuel
  end.

Declare Scope res_scope.
Delimit Scope res_scope with res.
Notation "x <- e1 ;; e2" := (bind e1 (fun x => e2))
  (at level 61, e1 at next level, right associativity) : res_scope.
Notation "' pat <- e1 ;; e2" := (bind e1 (fun x => match x with pat => e2 end))
  (at level 61, pat pattern, e1 at next level, right associativity) : res_scope.

Definition is_ok {A} (r : res A) : bool := match r with Ok _ => true | _ => false end.
Definition is_panic {A} (r : res A) : bool := match r with Panic => true | _ => false end.
Definition is_fuel {A} (r : res A) : bool := match r with Fuel => true | _ => false end.
Definition safe {A} (r : res A) : Prop := r <> Panic /\ r <> Fuel.

Lemma safe_Ok {A} (a : A) : safe (Ok a).
Proof. split; discriminate. Qed.
Lemma safe_Err {A} e : safe (@Err A e).
Proof. split; discriminate. Qed.

(* ---------------------------------------------------------------- *)
(* list helpers *)

Fixpoint set_nth {A} (i : nat) (v : A) (l : list A) : list A :=
  match l, i with
  | [], _ => []
  | _ :: xs, O => v :: xs
  | x :: xs, S i' => x :: set_nth i' v xs
  end.

Lemma set_nth_length {A} i (v : A) l : length (set_nth i v l) = length l.
Proof. revert i; induction l as [|x xs IH]; intros [|i]; simpl; auto. Qed.

Lemma nth_set_nth_eq {A} i (v d : A) l : (i < length l)%nat -> nth i (set_nth i v l) d = v.
Proof. revert i; induction l as [|x xs IH]; intros [|i] H; simpl in *; try lia; auto. apply IH; lia. Qed.

Lemma nth_set_nth_neq {A} i j (v d : A) l : i <> j -> nth j (set_nth i v l) d = nth j l d.
Proof. revert i j; induction l as [|x xs IH]; intros [|i] [|j] H; simpl in *; try lia; auto. Qed.

(* overwrite l at offset off with src (as Go's copy(dst[off:], src), truncated to fit) *)
Fixpoint blit (off : nat) (src : bytes) (l : bytes) : bytes :=
  match off, l with
  | _, [] => []
  | S o, x :: xs => x :: blit o src xs
  | O, x :: xs => match src with
                  | [] => x :: xs
                  | s :: ss => s :: blit O ss xs
                  end
  end.

Lemma blit_length off src l : length (blit off src l) = length l.
Proof.
  revert off src; induction l as [|x xs IH]; intros [|o] src; simpl; auto.
  destruct src; simpl; auto.
Qed.

Definition sub {A} (l : list A) (off n : nat) : list A := firstn n (skipn off l).

Lemma sub_length {A} (l : list A) off n : (off + n <= length l)%nat -> length (sub l off n) = n.
Proof. intros H. unfold sub. rewrite firstn_length, skipn_length. lia. Qed.
