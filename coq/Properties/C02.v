(* Properties/C02.v — Parse decodes frames exactly as an RFC reference decoder (Parse half).
   Only statements, each closed by [exact] of a lemma proved in Proofs/ParseRef*.v.
   (The field getters of the views are in Properties/C02_views.v, VIEWS cluster.)

   Model: Model/Parse.v (Session.Parse as it is).  Reference decoder: Spec/RFC.v (ref_decode), written
   from the header layouts and the documented EtherType / IP protocol / UDP port tables.
   [agrees r e]: Parse returns an error exactly when the reference reports one, of the same class (the sentinel the
   error wraps: ErrFrameLen for a truncated / length-inconsistent header, ErrParseFrame for the hard-coded ARP
   validation; the error text is never modelled), and on success the
   projection (PayloadID, MACs, IPs, ports, presence and start of IPv4/IPv6/UDP/TCP, payload start) is equal. *)
From PV Require Import Base.Prelude Base.Slice Model.Parse Model.ParseFixes Spec.RFC Model.ParseKnown Proofs.Parse Proofs.ParseRef Proofs.ParseRefEq.
From Coq Require Import String.
Open Scope N_scope.

(* ==== The theorem for the code in force =====================================================================
   Model/ParseFixes.v: current_fixes = mkFixes true true true — IP4.IsValid, IP6.IsValid and TCP.IsValid of /repo are
   the repaired ones (38ef1da, 28b2fc9, 3443f46), layer_frame.go carries 9ef0c61 and a1ac9f8.  For this code Parse and
   the reference decoder agree UNCONDITIONALLY: for every well-formed slice (any capacity, any spare contents), every
   session configuration, bytes < 256, frame shorter than 65536 bytes: same error-or-not, same PayloadID, MACs, IPs,
   ports, presence/start of the IPv4 / IPv6 / UDP / TCP views, same payload start.  No recorded class is left. *)
Theorem C02_parse_eq_ref : forall c s,
  c_fx c = current_fixes ->
  wf s -> bytes_ok (view s) -> N.of_nat (len s) < 65536 ->
  agrees (parse c s) (ref_decode (view s)).
Proof. exact parse_eq_ref_current. Qed.
Print Assumptions C02_parse_eq_ref.

(* ... and for EVERY frame length: the 65536 bound above is needed only by the original IP6.IsValid (uint16 wrap of
   PayloadLen+40); with the repaired validator nothing but "bytes are < 256" and "len <= cap" is assumed. *)
Theorem C02_parse_eq_ref_full : forall c s,
  c_fx c = current_fixes -> wf s -> bytes_ok (view s) -> agrees (parse c s) (ref_decode (view s)).
Proof. exact parse_eq_ref_full. Qed.
Print Assumptions C02_parse_eq_ref_full.

(* ==== History and the variant machinery (kept: the model still carries the original validators) ============== *)
(* The full statement "forall c s, wf s -> agrees (parse c s) (ref_decode (view s))" is FALSE for the code
   as it is: one witness per recorded defect class (known_findings.txt, property C02).  The three classes
   of layer_frame.go itself (parse-arp-short, parse-arp-hlen, parse-vlan-short) were repaired by this cluster.
   The remaining four lie in the validators Parse calls, IP4.IsValid / IP6.IsValid / TCP.IsValid (VIEWS cluster's
   functions).  The model carries the original and the repaired variant of each ([c_fx], Model/Parse.v);
   Model/ParseFixes.v records which one /repo has.  The refutations below are about the ORIGINAL variants
   (the witnesses use [fx_old]); under the repaired variants the same inputs agree (C02_repaired_validators_agree). *)
Example C02_repaired_witnesses_agree :
  agreesb (parse cfg0 (of_bytes w_arp_short)) (ref_decode w_arp_short) = true /\
  agreesb (parse cfg0 (of_bytes w_arp_hlen)) (ref_decode w_arp_hlen) = true /\
  agreesb (parse cfg0 (of_bytes w_vlan16)) (ref_decode w_vlan16) = true.
Proof. exact fixed_witnesses_agree. Qed.
Print Assumptions C02_repaired_witnesses_agree.

Theorem C02_parse_eq_ref_refuted_ip4_ihl :
  exists c s, wf s /\ bytes_ok (arr s) /\ known_C02 (c_fx c) (view s) = Some "parse-ip4-ihl"%string /\
              ~ agrees (parse c s) (ref_decode (view s)).
Proof. exact eq_ref_refuted_ip4_ihl. Qed.
Print Assumptions C02_parse_eq_ref_refuted_ip4_ihl.

Theorem C02_parse_eq_ref_refuted_ip4_totallen :
  exists c s, wf s /\ bytes_ok (arr s) /\ known_C02 (c_fx c) (view s) = Some "parse-ip4-totallen"%string /\
              ~ agrees (parse c s) (ref_decode (view s)).
Proof. exact eq_ref_refuted_ip4_totallen. Qed.
Print Assumptions C02_parse_eq_ref_refuted_ip4_totallen.

Theorem C02_parse_eq_ref_refuted_ip6_trailing :
  exists c s, wf s /\ bytes_ok (arr s) /\ known_C02 (c_fx c) (view s) = Some "parse-ip6-trailing"%string /\
              ~ agrees (parse c s) (ref_decode (view s)).
Proof. exact eq_ref_refuted_ip6_trailing. Qed.
Print Assumptions C02_parse_eq_ref_refuted_ip6_trailing.

Theorem C02_parse_eq_ref_refuted_tcp_doff :
  exists c s, wf s /\ bytes_ok (arr s) /\ known_C02 (c_fx c) (view s) = Some "parse-tcp-doff"%string /\
              ~ agrees (parse c s) (ref_decode (view s)).
Proof. exact eq_ref_refuted_tcp_doff. Qed.
Print Assumptions C02_parse_eq_ref_refuted_tcp_doff.

Example C02_repaired_validators_agree :
  agreesb (parse cfg1 (of_bytes w_ip4_ihl)) (ref_decode w_ip4_ihl) = true /\
  agreesb (parse cfg1 (of_bytes w_ip4_tl)) (ref_decode w_ip4_tl) = true /\
  agreesb (parse cfg1 (of_bytes w_ip6_trail)) (ref_decode w_ip6_trail) = true /\
  agreesb (parse cfg1 (of_bytes w_tcp_doff)) (ref_decode w_tcp_doff) = true /\
  known_C02 fx_new w_ip4_ihl = None /\ known_C02 fx_new w_ip4_tl = None /\
  known_C02 fx_new w_ip6_trail = None /\ known_C02 fx_new w_tcp_doff = None.
Proof. exact repaired_validators_agree. Qed.
Print Assumptions C02_repaired_validators_agree.

(* Outside the classes of the validator variants in force (a decidable predicate on the bytes within the length;
   [known_C02 fx b]: with all three validators repaired it is constantly None, C02_no_class_when_repaired), for every
   well-formed slice of any capacity and spare contents, every session configuration, every combination of validator
   variants, bytes < 256 and a frame shorter than 65536 bytes (uint16 wrap of IPv6 PayloadLen+40 in the original
   IP6.IsValid): Parse reports an error exactly when the reference decoder does,
   and otherwise PayloadID, source/destination MAC, IP and port, presence and start offset of the IPv4 / IPv6 /
   UDP / TCP views and the payload start are those of the reference decoder. *)
Theorem C02_parse_eq_ref_partial : forall c s,
  wf s -> bytes_ok (view s) -> N.of_nat (len s) < 65536 -> known_C02 (c_fx c) (view s) = None ->
  agrees (parse c s) (ref_decode (view s)).
Proof. exact parse_eq_ref_partial. Qed.
Print Assumptions C02_parse_eq_ref_partial.

(* with the three validators repaired no class is left: the statement is then the full one *)
Theorem C02_no_class_when_repaired : forall b, known_C02 (mkFixes true true true) b = None.
Proof. exact known_none_when_repaired. Qed.
Print Assumptions C02_no_class_when_repaired.

Theorem C02_parse_eq_ref_repaired : forall c s,
  c_fx c = mkFixes true true true ->
  wf s -> bytes_ok (view s) -> N.of_nat (len s) < 65536 ->
  agrees (parse c s) (ref_decode (view s)).
Proof. exact parse_eq_ref_repaired. Qed.
Print Assumptions C02_parse_eq_ref_repaired.

(* The three switches of Parse are DEFINED in the model from explicit row lists in source order (Model/Parse.v:
   ethertype_rows, ipproto_rows, udp_port_rows); on every run the harness extracts the same rows from layer_frame.go
   with go/ast and compares them as text (dispatch kind "table").  These lists are the documented tables of the
   reference decoder, for every key / every port pair: *)
Theorem C02_udp_port_table : forall sp dp, first_row sp dp udp_port_rows = first_rule sp dp udp_rules.
Proof. exact udp_class_table. Qed.
Print Assumptions C02_udp_port_table.

Theorem C02_ethertype_table : forall et, lookup_row et ethertype_rows = option_map l3_id (lookup et ethertype_table).
Proof. exact ethertype_rows_table. Qed.
Print Assumptions C02_ethertype_table.

Theorem C02_ipproto_table : forall p, lookup_row p ipproto_rows = option_map l4_id (lookup p ipproto_table).
Proof. exact ipproto_rows_table. Qed.
Print Assumptions C02_ipproto_table.

Example C02_parse_eq_ref_nonvacuous :
  let s := of_bytes_cap ex_arp28 [170;170] in
  wf s /\ bytes_ok (view s) /\ N.of_nat (len s) < 65536 /\ known_C02 fx_old (view s) = None /\ known_C02 fx_new (view s) = None /\
  exists r, ref_decode (view s) = ROk r /\ r_id r = 3 /\ r_pay r = 14%nat.
Proof. exact parse_eq_ref_nonvacuous. Qed.
Print Assumptions C02_parse_eq_ref_nonvacuous.

Example C02_parse_eq_ref_nonvacuous_dns :
  known_C02 fx_old ex_dns = None /\ known_C02 fx_new ex_dns = None /\
  exists r, ref_decode ex_dns = ROk r /\ r_id r = 12 /\ r_ip4 r = Some 14%nat /\ r_udp r = Some 34%nat /\ r_pay r = 42%nat /\
            r_sport r = 51200 /\ r_dport r = 53.
Proof. exact parse_eq_ref_nonvacuous_dns. Qed.
Print Assumptions C02_parse_eq_ref_nonvacuous_dns.

Example C02_parse_eq_ref_nonvacuous_tcp6 :
  known_C02 fx_old ex_tcp6 = None /\ known_C02 fx_new ex_tcp6 = None /\
  exists r, ref_decode ex_tcp6 = ROk r /\ r_id r = 9 /\ r_ip6 r = Some 14%nat /\ r_tcp r = Some 54%nat /\ r_pay r = 54%nat /\
            r_sport r = 443 /\ r_dport r = 51201 /\
  exists f, parse cfg1 (of_bytes ex_tcp6) = Ok f /\ f_host f = Some ([2;17;17;17;17;17], [254;128;0;0;0;0;0;0;0;0;0;0;0;0;0;1]).
Proof. exact parse_eq_ref_nonvacuous_tcp6. Qed.
Print Assumptions C02_parse_eq_ref_nonvacuous_tcp6.
