(* Properties/C02.v — Parse decodes frames exactly as an RFC reference decoder (Parse half).
   Only statements, each closed by [exact] of a lemma proved in Proofs/ParseRef*.v.
   (The field getters of the views are in Properties/C02_views.v, VIEWS cluster.)

   Model: Model/Parse.v (Session.Parse as it is).  Reference decoder: Spec/RFC.v (ref_decode), written
   from the header layouts and the documented EtherType / IP protocol / UDP port tables.
   [agrees r e]: Parse returns an error exactly when the reference reports one, and on success the
   projection (PayloadID, MACs, IPs, ports, presence and start of IPv4/IPv6/UDP/TCP, payload start) is equal. *)
From PV Require Import Base.Prelude Base.Slice Model.Parse Spec.RFC Model.ParseKnown Proofs.Parse Proofs.ParseRef.
From Coq Require Import String.
Open Scope N_scope.

(* The full statement "forall c s, wf s -> agrees (parse c s) (ref_decode (view s))" is FALSE for the code
   as it is: one witness per recorded defect class (known_findings.txt, property C02). *)
Theorem C02_parse_eq_ref_refuted_arp_short :
  exists c s, wf s /\ bytes_ok (arr s) /\ known_C02 (view s) = Some "parse-arp-short"%string /\
              ~ agrees (parse c s) (ref_decode (view s)).
Proof. exact eq_ref_refuted_arp_short. Qed.
Print Assumptions C02_parse_eq_ref_refuted_arp_short.

Theorem C02_parse_eq_ref_refuted_arp_hlen :
  exists c s, wf s /\ bytes_ok (arr s) /\ known_C02 (view s) = Some "parse-arp-hlen"%string /\
              ~ agrees (parse c s) (ref_decode (view s)).
Proof. exact eq_ref_refuted_arp_hlen. Qed.
Print Assumptions C02_parse_eq_ref_refuted_arp_hlen.

Theorem C02_parse_eq_ref_refuted_vlan_short :
  exists c s, wf s /\ bytes_ok (arr s) /\ known_C02 (view s) = Some "parse-vlan-short"%string /\
              ~ agrees (parse c s) (ref_decode (view s)).
Proof. exact eq_ref_refuted_vlan_short. Qed.
Print Assumptions C02_parse_eq_ref_refuted_vlan_short.

Theorem C02_parse_eq_ref_refuted_ip4_ihl :
  exists c s, wf s /\ bytes_ok (arr s) /\ known_C02 (view s) = Some "parse-ip4-ihl"%string /\
              ~ agrees (parse c s) (ref_decode (view s)).
Proof. exact eq_ref_refuted_ip4_ihl. Qed.
Print Assumptions C02_parse_eq_ref_refuted_ip4_ihl.

Theorem C02_parse_eq_ref_refuted_ip4_totallen :
  exists c s, wf s /\ bytes_ok (arr s) /\ known_C02 (view s) = Some "parse-ip4-totallen"%string /\
              ~ agrees (parse c s) (ref_decode (view s)).
Proof. exact eq_ref_refuted_ip4_totallen. Qed.
Print Assumptions C02_parse_eq_ref_refuted_ip4_totallen.

Theorem C02_parse_eq_ref_refuted_ip6_trailing :
  exists c s, wf s /\ bytes_ok (arr s) /\ known_C02 (view s) = Some "parse-ip6-trailing"%string /\
              ~ agrees (parse c s) (ref_decode (view s)).
Proof. exact eq_ref_refuted_ip6_trailing. Qed.
Print Assumptions C02_parse_eq_ref_refuted_ip6_trailing.
