(* Properties/C01_glue.v -- C01, the link between Session.Parse (Model/Parse.v, PARSE cluster) and the view
   theorems (VIEWS cluster).  [P] = PV.Model.Parse; [fx_now] = the repaired validators /repo has
   (Model/ParseFixes.current_fixes = mkFixes true true true); [verdict r] = Ok true / Ok false for Ok / Err.
   Only statements, each closed by [exact]; proofs in Proofs/ViewsGlue.v. *)
From PV Require Import Model.ViewsShow Spec.Views Spec.Views2 Proofs.ViewsBase Proofs.ViewsGlue.
From PV Require Model.Parse Model.ParseFixes.
Open Scope N_scope.

(* the validator variant the theorems below are about is the one the Parse dispatch uses *)
Theorem C01_glue_fixes_current : fx_now = PV.Model.ParseFixes.current_fixes.
Proof. reflexivity. Qed.
Print Assumptions C01_glue_fixes_current.

(* (1) Parse's internal validators are the views' IsValid: same verdict on every well-formed slice *)
Theorem C01_glue_ether_validator : forall s, Ether_IsValid s = verdict (P.ether_is_valid s).
Proof. exact ether_valid_agree. Qed.
Print Assumptions C01_glue_ether_validator.
Theorem C01_glue_ip4_validator : forall s, wf s -> IP4_IsValid s = verdict (P.ip4_is_valid fx_now s).
Proof. exact ip4_valid_agree. Qed.
Print Assumptions C01_glue_ip4_validator.
Theorem C01_glue_ip6_validator : forall s, wf s -> IP6_IsValid s = verdict (P.ip6_is_valid fx_now s).
Proof. exact ip6_valid_agree. Qed.
Print Assumptions C01_glue_ip6_validator.
Theorem C01_glue_udp_validator : forall s, UDP_IsValid s = verdict (P.udp_is_valid s).
Proof. exact udp_valid_agree. Qed.
Print Assumptions C01_glue_udp_validator.
Theorem C01_glue_tcp_validator : forall s, wf s -> bytes_ok (arr s) -> TCP_IsValid s = verdict (P.tcp_is_valid fx_now s).
Proof. exact tcp_valid_agree. Qed.
Print Assumptions C01_glue_tcp_validator.
Theorem C01_glue_icmp_validator : forall s, ICMP_IsValid s = verdict (P.icmp_is_valid s).
Proof. exact icmp_valid_agree. Qed.
Print Assumptions C01_glue_icmp_validator.

(* (2) every layer view that an accepted frame exposes through the Frame accessors is a valid view *)
Theorem C01_frame_views_valid : forall c s f, P.c_fx c = fx_now -> wf s -> bytes_ok (arr s) ->
  P.parse c s = Ok f ->
  Ether_IsValid s = Ok true /\
  (forall x, P.frame_ip4 s f = Ok (Some x) -> IP4_IsValid x = Ok true) /\
  (forall x, P.frame_ip6 s f = Ok (Some x) -> IP6_IsValid x = Ok true) /\
  (forall x, P.frame_udp s f = Ok (Some x) -> UDP_IsValid x = Ok true) /\
  (forall x, P.frame_tcp s f = Ok (Some x) -> TCP_IsValid x = Ok true).
Proof. exact frame_views_valid. Qed.
Print Assumptions C01_frame_views_valid.

(* hence the getter theorems (C01 safe/inside, C02 positional values) hold for the views obtained from Parse *)
Theorem C01_frame_getters_safe : forall c s f, P.c_fx c = fx_now -> wf s -> bytes_ok (arr s) -> P.parse c s = Ok f ->
  getters_ok Ether_findings Ether_getters s /\
  (forall x, P.frame_ip4 s f = Ok (Some x) -> getters_ok [] IP4_getters x /\ getters_spec [] IP4_getters IP4_specs x) /\
  (forall x, P.frame_ip6 s f = Ok (Some x) -> getters_ok [] IP6_getters x /\ getters_spec [] IP6_getters IP6_specs x) /\
  (forall x, P.frame_udp s f = Ok (Some x) -> getters_ok [] UDP_getters x /\ getters_spec [] UDP_getters UDP_specs x) /\
  (forall x, P.frame_tcp s f = Ok (Some x) -> getters_ok [] TCP_getters x /\ getters_spec [] TCP_getters TCP_specs x).
Proof. exact frame_getters_safe. Qed.
Print Assumptions C01_frame_getters_safe.

Example C01_frame_views_nonvacuous :
  exists f, P.parse ex_cfg ex_frame = Ok f /\ P.f_off4 f = 14%nat /\ P.f_offU f = 34%nat /\
            (exists x, P.frame_ip4 ex_frame f = Ok (Some x) /\ IP4_IsValid x = Ok true) /\
            (exists x, P.frame_udp ex_frame f = Ok (Some x) /\ UDP_IsValid x = Ok true).
Proof. exact frame_views_valid_ex. Qed.
Print Assumptions C01_frame_views_nonvacuous.
