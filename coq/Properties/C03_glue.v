(* Properties/C03_glue.v — C03/C07 glue.  The send-path model of C07 (coq/Model/Send*.v, owned by
   SEND) writes each layer in place at a fixed offset of a 1522-byte pooled buffer with arbitrary
   previous contents.  Each of its encoding steps produces exactly the bytes of the C03 encoder
   model (Go slices with length / capacity / panic rules) applied to the sub-slice at that offset,
   for all arguments and all junk; an ErrPayloadTooBig of the C03 model is SEND's None.  Hence the
   C03 round-trip theorems apply verbatim to every frame C07 talks about.
   Only statements, each closed by [exact]. *)
From PV Require Import Base.Prelude Base.Slice Model.EncodeBase Model.Encode Proofs.EncodeGlue.
From PV Require Model.SendBase Model.Send Model.SendUdp Model.SendNdp.
Open Scope N_scope.

Theorem C03_glue_ether : forall b et src dst,

  (14 <= length b)%nat ->
  exists r, encode_ether (mkSlice b (length b)) et src dst = Ok r /\ len r = 14%nat /\
            arr r = SendBase.enc_ether b et src dst.
Proof. exact glue_ether. Qed.
Print Assumptions C03_glue_ether.

Theorem C03_glue_ip4 : forall o b ttl src dst,

  (o + 20 <= length b)%nat -> ttl < 256 ->
  exists r, encode_ip4 (at_off o b) ttl src dst = Ok r /\ len r = 20%nat /\
            firstn o b ++ arr r = Send.enc_ip4 o b ttl src dst.
Proof. exact glue_ip4. Qed.
Print Assumptions C03_glue_ip4.

Theorem C03_glue_ip6 : forall o b hop src dst,

  (o + 40 <= length b)%nat -> hop < 256 ->
  exists r, encode_ip6 (at_off o b) hop src dst = Ok (r, false) /\ len r = 40%nat /\
            firstn o b ++ arr r = Send.enc_ip6 o b hop src dst.
Proof. exact glue_ip6. Qed.
Print Assumptions C03_glue_ip6.

Theorem C03_glue_udp : forall o b sp dp,

  (o + 8 <= length b)%nat ->
  exists r, encode_udp (at_off o b) sp dp = Ok r /\ len r = 8%nat /\
            firstn o b ++ arr r = SendUdp.enc_udp o b sp dp.
Proof. exact glue_udp. Qed.
Print Assumptions C03_glue_udp.

Theorem C03_glue_udp_append : forall o b payload,

  length b = SendBase.EthMaxSize -> (o + 8 <= length b)%nat ->
  match SendUdp.udp_append_payload o b payload with
  | None => udp_append (at_off_len o 8 b) payload = Err EPayloadTooBig
  | Some b' => exists r, udp_append (at_off_len o 8 b) payload = Ok r /\ len r = (8 + length payload)%nat /\
                         firstn o b ++ arr r = b'
  end.
Proof. exact glue_udp_append. Qed.
Print Assumptions C03_glue_udp_append.

Theorem C03_glue_udp_set_payload : forall o b n,

  (o + 8 + n <= length b)%nat ->
  exists r, udp_set_payload (at_off_len o 8 b) n = Ok r /\ len r = (8 + n)%nat /\
            firstn o b ++ arr r = SendUdp.udp_set_payload o b n.
Proof. exact glue_udp_set_payload. Qed.
Print Assumptions C03_glue_udp_set_payload.

Theorem C03_glue_ip6_append : forall o b payload nh,

  length b = SendBase.EthMaxSize -> (o + 40 <= length b)%nat -> nh < 256 ->
  match Send.ip6_append_payload o b payload nh with
  | None => ip6_append (at_off_len o 40 b) payload false nh = Err EPayloadTooBig
  | Some b' => exists r, ip6_append (at_off_len o 40 b) payload false nh = Ok r /\
                         len r = (40 + length payload)%nat /\ firstn o b ++ arr r = b'
  end.
Proof. exact glue_ip6_append. Qed.
Print Assumptions C03_glue_ip6_append.

Theorem C03_glue_ip6_set_payload : forall o b n nh,

  (o + 40 + n <= length b)%nat -> nh < 256 ->
  exists r, ip6_set_payload (at_off_len o 40 b) n nh = Ok r /\ len r = (40 + n)%nat /\
            firstn o b ++ arr r = Send.ip6_set_payload o b n nh.
Proof. exact glue_ip6_set_payload. Qed.
Print Assumptions C03_glue_ip6_set_payload.

Theorem C03_glue_ip4_set_payload : forall o b n proto,

  (o + 20 + n <= length b)%nat -> proto < 256 -> 20 + N.of_nat n < 65536 ->
  exists r, ip4_set_payload (at_off_len o 20 b) n proto = Ok r /\ len r = (20 + n)%nat /\
            firstn o b ++ arr r = Send.ip4_set_payload o b n proto.
Proof. exact glue_ip4_set_payload. Qed.
Print Assumptions C03_glue_ip4_set_payload.

Theorem C03_glue_ip4_append : forall o (b : bytes) payload proto,

  length b = SendBase.EthMaxSize -> (o + 20 <= length b)%nat -> proto < 256 ->
  nth o b 0 = 69 ->      (* the version/IHL byte EncodeIP4 wrote *)
  match Send.ip4_append_payload o b payload proto with
  | None => ip4_append (at_off_len o 20 b) payload proto = Err EPayloadTooBig
  | Some b' => exists r, ip4_append (at_off_len o 20 b) payload proto = Ok r /\
                         len r = (20 + length payload)%nat /\ firstn o b ++ arr r = b'
  end.
Proof. exact glue_ip4_append. Qed.
Print Assumptions C03_glue_ip4_append.

Theorem C03_glue_arp : forall b op (sender target : SendBase.addr),

  (14 + 28 <= length b)%nat -> (6 <= length (SendBase.a_mac sender))%nat -> (6 <= length (SendBase.a_mac target))%nat ->
  exists r, encode_arp (at_off 14 b) op (SendBase.a_mac sender) (SendBase.a_ip sender)
                       (SendBase.a_mac target) (SendBase.a_ip target) = Ok r /\ len r = 28%nat /\
            firstn 14 b ++ arr r = SendNdp.enc_arp b op sender target.
Proof. exact glue_arp. Qed.
Print Assumptions C03_glue_arp.

Theorem C03_glue_icmp_echo : forall b t code id sq data,

  (8 + length data <= cap b)%nat -> t < 256 -> code < 256 ->
  exists r, encode_icmp_echo b t code id sq data = Ok r /\ view r = Send.enc_icmp_echo t code id sq data.
Proof. exact glue_icmp_echo. Qed.
Print Assumptions C03_glue_icmp_echo.

Theorem C03_glue_ns : forall target lla,

  exists r, ns_marshal target lla = Ok r /\ len r = 32%nat /\ arr r = Send.ns_marshal target lla.
Proof. exact glue_ns. Qed.
Print Assumptions C03_glue_ns.

Theorem C03_glue_na : forall ro so ov (target : SendBase.addr),

  exists r, na_marshal ro so ov (SendBase.a_ip target) (SendBase.a_mac target) = Ok r /\ len r = 32%nat /\
            arr r = Send.na_marshal ro so ov target.
Proof. exact glue_na. Qed.
Print Assumptions C03_glue_na.
