(* Properties/C03_glue.v — C03/C07 glue.  The send-path model of C07 (coq/Model/Send*.v, owned by
   SEND) writes each layer in place at a fixed offset of a 1522-byte pooled buffer with arbitrary
   previous contents.  Each of its encoding steps produces exactly the bytes of the C03 encoder
   model (Go slices with length / capacity / panic rules) applied to the sub-slice at that offset,
   for all arguments and all junk; an ErrPayloadTooBig of the C03 model is SEND's None.  Hence the
   C03 round-trip theorems apply verbatim to every frame C07 talks about.
   Only statements, each closed by [exact]. *)
From PV Require Import Base.Prelude Base.Slice Model.EncodeBase Model.Encode Model.EncodeCompose Model.EncodeDHCP Spec.EncodeRef Spec.EncodeRefDHCP
     Proofs.EncodeIP4 Proofs.EncodeMisc Proofs.EncodeCompose Proofs.EncodeDHCP Proofs.EncodeGlue Proofs.EncodeGlueDHCP Proofs.EncodeGluePath Proofs.EncodeNdpOpts.
From PV Require Model.DHCP.
From PV Require Model.SendBase Model.Send Model.SendUdp Model.SendNdp.
Open Scope N_scope.

Theorem C03_glue_ether : forall b et src dst,

  (14 <= length b)%nat ->
  exists r, encode_ether (mkSlice b (length b)) et src dst = Ok r /\ len r = 14%nat /\
            arr r = SendBase.enc_ether b et src dst.
Proof. exact glue_ether. Qed.
Print Assumptions C03_glue_ether.

Theorem C03_glue_ip4 : forall o b ttl src dst,

  (o + 20 <= length b)%nat -> ttl < 256 ->
  exists r, encode_ip4 (at_off o b) ttl src dst = Ok r /\ len r = 20%nat /\
            firstn o b ++ arr r = Send.enc_ip4 o b ttl src dst.
Proof. exact glue_ip4. Qed.
Print Assumptions C03_glue_ip4.

Theorem C03_glue_ip6 : forall o b hop src dst,

  (o + 40 <= length b)%nat -> hop < 256 ->
  exists r, encode_ip6 (at_off o b) hop src dst = Ok (r, false) /\ len r = 40%nat /\
            firstn o b ++ arr r = Send.enc_ip6 o b hop src dst.
Proof. exact glue_ip6. Qed.
Print Assumptions C03_glue_ip6.

Theorem C03_glue_udp : forall o b sp dp,

  (o + 8 <= length b)%nat ->
  exists r, encode_udp (at_off o b) sp dp = Ok r /\ len r = 8%nat /\
            firstn o b ++ arr r = SendUdp.enc_udp o b sp dp.
Proof. exact glue_udp. Qed.
Print Assumptions C03_glue_udp.

Theorem C03_glue_udp_append : forall o b payload,

  length b = SendBase.EthMaxSize -> (o + 8 <= length b)%nat ->
  match SendUdp.udp_append_payload o b payload with
  | None => udp_append (at_off_len o 8 b) payload = Err EPayloadTooBig
  | Some b' => exists r, udp_append (at_off_len o 8 b) payload = Ok r /\ len r = (8 + length payload)%nat /\
                         firstn o b ++ arr r = b'
  end.
Proof. exact glue_udp_append. Qed.
Print Assumptions C03_glue_udp_append.

Theorem C03_glue_udp_set_payload : forall o b n,

  (o + 8 + n <= length b)%nat ->
  exists r, udp_set_payload (at_off_len o 8 b) n = Ok r /\ len r = (8 + n)%nat /\
            firstn o b ++ arr r = SendUdp.udp_set_payload o b n.
Proof. exact glue_udp_set_payload. Qed.
Print Assumptions C03_glue_udp_set_payload.

Theorem C03_glue_ip6_append : forall o b payload nh,

  length b = SendBase.EthMaxSize -> (o + 40 <= length b)%nat -> nh < 256 ->
  match Send.ip6_append_payload o b payload nh with
  | None => ip6_append (at_off_len o 40 b) payload false nh = Err EPayloadTooBig
  | Some b' => exists r, ip6_append (at_off_len o 40 b) payload false nh = Ok r /\
                         len r = (40 + length payload)%nat /\ firstn o b ++ arr r = b'
  end.
Proof. exact glue_ip6_append. Qed.
Print Assumptions C03_glue_ip6_append.

Theorem C03_glue_ip6_set_payload : forall o b n nh,

  (o + 40 + n <= length b)%nat -> nh < 256 ->
  exists r, ip6_set_payload (at_off_len o 40 b) n nh = Ok r /\ len r = (40 + n)%nat /\
            firstn o b ++ arr r = Send.ip6_set_payload o b n nh.
Proof. exact glue_ip6_set_payload. Qed.
Print Assumptions C03_glue_ip6_set_payload.

Theorem C03_glue_ip4_set_payload : forall o b n proto,

  (o + 20 + n <= length b)%nat -> proto < 256 -> 20 + N.of_nat n < 65536 ->
  exists r, ip4_set_payload (at_off_len o 20 b) n proto = Ok r /\ len r = (20 + n)%nat /\
            firstn o b ++ arr r = Send.ip4_set_payload o b n proto.
Proof. exact glue_ip4_set_payload. Qed.
Print Assumptions C03_glue_ip4_set_payload.

Theorem C03_glue_ip4_append : forall o (b : bytes) payload proto,

  length b = SendBase.EthMaxSize -> (o + 20 <= length b)%nat -> proto < 256 ->
  nth o b 0 = 69 ->      (* the version/IHL byte EncodeIP4 wrote *)
  match Send.ip4_append_payload o b payload proto with
  | None => ip4_append (at_off_len o 20 b) payload proto = Err EPayloadTooBig
  | Some b' => exists r, ip4_append (at_off_len o 20 b) payload proto = Ok r /\
                         len r = (20 + length payload)%nat /\ firstn o b ++ arr r = b'
  end.
Proof. exact glue_ip4_append. Qed.
Print Assumptions C03_glue_ip4_append.

Theorem C03_glue_arp : forall b op (sender target : SendBase.addr),

  (14 + 28 <= length b)%nat -> (6 <= length (SendBase.a_mac sender))%nat -> (6 <= length (SendBase.a_mac target))%nat ->
  exists r, encode_arp (at_off 14 b) op (SendBase.a_mac sender) (SendBase.a_ip sender)
                       (SendBase.a_mac target) (SendBase.a_ip target) = Ok r /\ len r = 28%nat /\
            firstn 14 b ++ arr r = SendNdp.enc_arp b op sender target.
Proof. exact glue_arp. Qed.
Print Assumptions C03_glue_arp.

Theorem C03_glue_icmp_echo : forall b t code id sq data,

  (8 + length data <= cap b)%nat -> t < 256 -> code < 256 ->
  exists r, encode_icmp_echo b t code id sq data = Ok r /\ view r = Send.enc_icmp_echo t code id sq data.
Proof. exact glue_icmp_echo. Qed.
Print Assumptions C03_glue_icmp_echo.

Theorem C03_glue_ns : forall target lla,

  exists r, ns_marshal target lla = Ok r /\ len r = 32%nat /\ arr r = Send.ns_marshal target lla.
Proof. exact glue_ns. Qed.
Print Assumptions C03_glue_ns.

Theorem C03_glue_na : forall ro so ov (target : SendBase.addr),

  exists r, na_marshal ro so ov (SendBase.a_ip target) (SendBase.a_mac target) = Ok r /\ len r = 32%nat /\
            arr r = Send.na_marshal ro so ov target.
Proof. exact glue_na. Qed.
Print Assumptions C03_glue_na.

(* ---------------------------------------------------------------- *)
(* C03/C12 glue.  The DHCP server model (coq/Model/DHCP.v, owned by DHCP) describes a reply as a
   record with an ordered option list.  (1) that list is the C03 emission list for the same map and
   requested order, the unordered tail iterated in code order; (2) it depends only on the option MAP;
   (3) EncodeDHCP4 (C03 model) applied to the reply's map, order and yiaddr on the request buffer
   yields bytes whose RFC 2131/2132 reference decoding gives back the record: options in this order
   (mask before router), yiaddr, and the xid / chaddr the request buffer held - so C12's clauses
   about options / xid / chaddr hold of the bytes on the wire. *)
Theorem C03_dhcp_append_options_is_emission : forall (o : opts) order, nodup o ->
  DHCP.append_options o order = emission o order (sorted_perm o order).
Proof. exact append_options_is_emission. Qed.
Print Assumptions C03_dhcp_append_options_is_emission.

Theorem C03_dhcp_append_options_ext : forall (l1 l2 : opts) order, nodup l1 -> nodup l2 ->
  (forall k, lookup_opt k l1 = lookup_opt k l2) ->
  DHCP.append_options l1 order = DHCP.append_options l2 order.
Proof. exact append_options_ext. Qed.
Print Assumptions C03_dhcp_append_options_ext.

Theorem C03_dhcp_reply_bytes : forall b (options : opts) order tcode yi,
  (300 <= cap b)%nat ->
  let o' := set_opt 53 [tcode] options in
  nodup options -> opts_ok o' -> (241 + osize o' <= cap b)%nat ->
  let ropts := DHCP.append_options o' order in
  exists p rec,
    encode_dhcp4 b 2 tcode None [] (DHCP.ipb yi) None false options order (sorted_perm o' order) = Ok p /\
    (300 <= len p)%nat /\
    ref_dhcp (view p) = Some rec /\
    rd_options rec = ropts /\ mask_before_router ropts = true /\
    rd_op rec = 2 /\ rd_htype rec = 1 /\ rd_hlen rec = 6 /\ rd_flags rec = 0 /\
    rd_yiaddr rec = DHCP.ipb yi /\
    rd_xid rec = sub (arr b) 4 4 /\
    rd_chaddr rec = sub (arr b) 28 6 ++ repeat 0 10 /\
    rd_ciaddr rec = sub (arr b) 12 4 /\ rd_siaddr rec = [0;0;0;0] /\ rd_giaddr rec = [0;0;0;0] /\
    (forall k, lookup_opt k (dhcp_parse_options p) = lookup_opt k o').
Proof. exact dhcp_reply_bytes. Qed.
Print Assumptions C03_dhcp_reply_bytes.

(* the OFFER / ACK records DHCP.mk_reply builds *)
Theorem C03_dhcp_offer_ack_bytes : forall b c (t : DHCP.rtype) m yi net2,
  t <> DHCP.RNak ->
  let tcode := match t with DHCP.ROffer => 2 | DHCP.RAck => 5 | DHCP.RNak => 6 end in
  let r := DHCP.mk_reply c t m yi net2 in
  let o' := set_opt 53 [tcode] (reply_map c net2) in
  (300 <= cap b)%nat -> (241 + osize o' <= cap b)%nat ->
  exists p rec,
    encode_dhcp4 b 2 tcode None [] (DHCP.ipb (DHCP.r_yi r)) None false (reply_map c net2) (DHCP.m_prl m)
                 (sorted_perm o' (DHCP.m_prl m)) = Ok p /\
    (300 <= len p)%nat /\
    ref_dhcp (view p) = Some rec /\
    rd_options rec = DHCP.r_opts r /\ mask_before_router (DHCP.r_opts r) = true /\
    rd_op rec = 2 /\ rd_yiaddr rec = DHCP.ipb (DHCP.r_yi r) /\
    rd_xid rec = sub (arr b) 4 4 /\ rd_chaddr rec = sub (arr b) 28 6 ++ repeat 0 10.
Proof. exact dhcp_offer_ack_bytes. Qed.
Print Assumptions C03_dhcp_offer_ack_bytes.

(* ---------------------------------------------------------------- *)
(* Round 7: the glue along whole send paths.  The per-layer round trips of Properties/C03.v are composed
   along the path SEND's model takes, for arbitrary previous contents [junk] of the pooled buffer. *)

(* Ether o IP4 o UDP o payload (sendDHCP4Packet, sendNBNS, SendSSDPSearch, mDNS/LLMNR over IPv4): the one
   frame sent is the view of the C03 composition; Session.Parse classifies it by its ports; the library
   views and the reference decoders read back exactly the arguments of the call. *)
Theorem C03_glue_udp4_path : forall smac dmac ttl sip dip sp dp (data junk : bytes),
  length junk = SendBase.EthMaxSize -> length smac = 6%nat -> length dmac = 6%nat ->
  is4 sip = true -> is4 dip = true -> (42 + length data <= SendBase.EthMaxSize)%nat ->
  bytes_ok smac -> bytes_ok dmac -> bytes_ok sip -> bytes_ok dip -> bytes_ok data ->
  ttl < 256 -> sp < 65536 -> dp < 65536 -> N.land (nth 0 smac 0) 1 = 0 ->
  let udpb := udp_hdr sp dp (8 + N.of_nat (length data)) ++ data in
  exists f,
    compose_udp4 (mkSlice junk SendBase.EthMaxSize) smac dmac ttl sip dip sp dp data = Ok f /\
    SendUdp.udp4_send smac dmac ttl sip dip sp dp data junk = Ok [view f] /\
    length (view f) = (42 + length data)%nat /\
    parse_class f = Ok (class_of_ports sp dp, false) /\
    (exists ipb,
       ref_ether (view f) = Some {| re_dst := dmac; re_src := smac; re_type := ETH_P_IP; re_payload := ipb |} /\
       ref_ip4 ipb = Some (ip4_expected_ref ttl 17 sip dip udpb) /\
       ref_udp udpb = Some (udp_expected_ref sp dp data)) /\
    (ipv <- ether_payload f ;; ip4_decode_lib ipv)%res = Ok (ip4_expected_view ttl 17 sip dip udpb) /\
    (ipv <- ether_payload f ;; u <- ip4_payload ipv ;; udp_decode_lib u)%res = Ok (udp_expected_view sp dp data).
Proof. exact glue_udp4_path. Qed.
Print Assumptions C03_glue_udp4_path.

(* Ether o IP4 o UDP o DHCP4: EncodeDHCP4's message sent by sendDHCP4Packet; the option map is read back
   from the frame's UDP payload, the mask before the router *)
Theorem C03_glue_dhcp4_path : forall b opcode mt chaddr ci yi xid bc options order perm
        (src dst : SendBase.addr) sp dp junk,
  (300 <= cap b)%nat ->
  match chaddr with Some m => length m = 6%nat | None => True end ->
  match xid with Some x => length x = 4%nat | None => True end ->
  let o' := set_opt 53 [mt] options in
  nodup options -> opts_ok o' -> (241 + osize o' <= cap b)%nat ->
  let em := emission o' order perm in
  let pad := repeat 0 (300 - (241 + osize em)) in
  let msg := dhcp_hdr (arr b) opcode chaddr ci yi xid bc ++ enc em ++ 255 :: pad in
  bytes_ok msg -> (42 + length msg <= SendBase.EthMaxSize)%nat ->
  length junk = SendBase.EthMaxSize ->
  length (SendBase.a_mac src) = 6%nat -> length (SendBase.a_mac dst) = 6%nat ->
  is4 (SendBase.a_ip src) = true -> is4 (SendBase.a_ip dst) = true ->
  bytes_ok (SendBase.a_mac src) -> bytes_ok (SendBase.a_mac dst) ->
  bytes_ok (SendBase.a_ip src) -> bytes_ok (SendBase.a_ip dst) ->
  sp < 65536 -> dp < 65536 -> N.land (nth 0 (SendBase.a_mac src) 0) 1 = 0 ->
  exists p f,
    encode_dhcp4 b opcode mt chaddr ci yi xid bc options order perm = Ok p /\ view p = msg /\
    SendUdp.send_dhcp4_packet src dst sp dp (view p) junk = Ok [f] /\
    length f = (42 + length msg)%nat /\
    (exists ipb,
       ref_ether f = Some {| re_dst := SendBase.a_mac dst; re_src := SendBase.a_mac src;
                             re_type := ETH_P_IP; re_payload := ipb |} /\
       ref_ip4 ipb = Some (ip4_expected_ref 50 17 (SendBase.a_ip src) (SendBase.a_ip dst)
                             (udp_hdr sp dp (8 + N.of_nat (length msg)) ++ msg)) /\
       ref_udp (udp_hdr sp dp (8 + N.of_nat (length msg)) ++ msg) = Some (udp_expected_ref sp dp msg)) /\
    ref_dhcp_opts (S (length (dhcp_options p))) (dhcp_options p) = Some em /\
    (forall k, lookup_opt k em = lookup_opt k o') /\ mask_before_router em = true.
Proof. exact glue_dhcp4_path. Qed.
Print Assumptions C03_glue_dhcp4_path.

Example C03_glue_dhcp4_path_ex :
  let b := mkSlice (repeat 7 400) 0 in
  let options := [(1, [255;255;255;0]); (3, [192;168;0;1]); (6, [8;8;8;8]); (12, [104;105])] in
  let src := ([2;0;0;0;0;1], [192;168;0;1]) in
  let dst := ([2;0;0;0;0;9], [192;168;0;9]) in
  exists p f, encode_dhcp4 b 2 5 None [] [192;168;0;9] None false options [6; 3; 1] [12; 53] = Ok p /\
    SendUdp.send_dhcp4_packet src dst 67 68 (view p) (repeat 170 1522) = Ok [f] /\ length f = 342%nat.
Proof. exact glue_dhcp4_path_ex. Qed.
Print Assumptions C03_glue_dhcp4_path_ex.

(* Ether o IP6 o ICMPv6 (icmp6SendPacket: echo, NS, NA, RS, RA with options): the frame decodes to the
   addresses of the call and to the ICMPv6 message handed in, up to its two checksum octets *)
Theorem C03_glue_icmp6_path : forall c (src dst : SendBase.addr) (p junk : bytes),
  length junk = SendBase.EthMaxSize -> length (SendBase.host_mac c) = 6%nat -> length (SendBase.a_mac dst) = 6%nat ->
  length (SendBase.a_ip src) = 16%nat -> length (SendBase.a_ip dst) = 16%nat ->
  bytes_ok (SendBase.a_ip src) -> bytes_ok (SendBase.a_ip dst) -> bytes_ok p ->
  (4 <= length p)%nat -> (54 + length p <= SendBase.EthMaxSize)%nat ->
  let p' := icmp6_with_checksum (SendBase.a_ip src) (SendBase.a_ip dst) p in
  exists f ipb,
    Send.icmp6_send_packet c src dst p junk = Ok [f] /\ length f = (54 + length p)%nat /\
    ref_ether f = Some {| re_dst := SendBase.a_mac dst; re_src := SendBase.host_mac c; re_type := 34525; re_payload := ipb |} /\
    ref_ip6 ipb = Some (ip6_expected_ref 58 (icmp6_hop (SendBase.a_ip dst) p) (SendBase.a_ip src) (SendBase.a_ip dst) p') /\
    length p' = length p /\ firstn 2 p' = firstn 2 p /\ skipn 4 p' = skipn 4 p /\ ref_nd p' = ref_nd p.
Proof. exact glue_icmp6_path. Qed.
Print Assumptions C03_glue_icmp6_path.

(* Ether o IP6 o ICMPv6 o NA: the neighbour advertisement, read back by the RFC 4861 reference decoder *)
Theorem C03_glue_na_path : forall c (src dst target : SendBase.addr) ro so ov junk,
  length junk = SendBase.EthMaxSize -> length (SendBase.host_mac c) = 6%nat -> length (SendBase.a_mac dst) = 6%nat ->
  length (SendBase.a_ip src) = 16%nat -> length (SendBase.a_ip dst) = 16%nat ->
  bytes_ok (SendBase.a_ip src) -> bytes_ok (SendBase.a_ip dst) ->
  length (SendBase.a_ip target) = 16%nat -> length (SendBase.a_mac target) = 6%nat ->
  bytes_ok (SendBase.a_ip target) -> bytes_ok (SendBase.a_mac target) ->
  exists f ipb icmpb,
    Send.icmp6_send_packet c src dst (Send.na_marshal ro so ov target) junk = Ok [f] /\ length f = 86%nat /\
    ref_ether f = Some {| re_dst := SendBase.a_mac dst; re_src := SendBase.host_mac c; re_type := 34525; re_payload := ipb |} /\
    ref_ip6 ipb = Some (ip6_expected_ref 58 255 (SendBase.a_ip src) (SendBase.a_ip dst) icmpb) /\
    ref_nd icmpb = Some {| rn_type := 136; rn_code := 0; rn_flags := nd_flags ro so ov;
                           rn_target := SendBase.a_ip target; rn_options := [(2, SendBase.a_mac target)] |}.
Proof. exact glue_na_path. Qed.
Print Assumptions C03_glue_na_path.

Example C03_glue_na_path_ex :
  let c := SendBase.mkCfg [2;0;0;0;0;1] [192;168;0;1] [] [] [] 1500 in
  let lla := [254;128;0;0;0;0;0;0;0;0;0;0;0;0;0;1] in
  exists f, Send.icmp6_send_packet c ([2;0;0;0;0;1], lla)
              ([51;51;0;0;0;1], [255;2;0;0;0;0;0;0;0;0;0;0;0;0;0;1])
              (Send.na_marshal true false true ([2;0;0;0;0;1], lla))
              (repeat 170 1522) = Ok [f] /\ length f = 86%nat.
Proof. exact glue_na_path_ex. Qed.
Print Assumptions C03_glue_na_path_ex.

(* NDP options.  RawOption.marshal — and through it LinkLayerAddress, MTU, PrefixInformation,
   RecursiveDNSServer and DNSSearchList .marshal as modelled by SEND — is inverted by the RFC 4861 4.6
   reference option decoder: (type, value) pairs in order, for every option list that marshals (the uint8
   product Length*8 of RawOption.marshal was repaired by SEND in 5a1aeef; no hypothesis on Length is left). *)
Theorem C03_glue_nd_options_rt : forall (l : list raw3) ob,
  SendNdp.cat_opts (map marshal_raw l) = Some ob ->
  ref_nd_options (S (length ob)) ob = Some (map decoded_raw l).
Proof. exact nd_options_rt. Qed.
Print Assumptions C03_glue_nd_options_rt.

(* Ether o IP6 o ICMPv6 o RA with options: the whole path of ICMP6SendRouterAdvertisement *)
Theorem C03_glue_ra_path : forall c (src dst : SendBase.addr) (l : list raw3) ob junk,
  length junk = SendBase.EthMaxSize -> length (SendBase.host_mac c) = 6%nat -> length (SendBase.a_mac dst) = 6%nat ->
  length (SendBase.a_ip src) = 16%nat -> length (SendBase.a_ip dst) = 16%nat ->
  bytes_ok (SendBase.a_ip src) -> bytes_ok (SendBase.a_ip dst) ->
  SendNdp.cat_opts (map marshal_raw l) = Some ob -> bytes_ok ob ->
  (70 + length ob <= SendBase.EthMaxSize)%nat ->
  exists f ipb icmpb,
    Send.icmp6_send_packet c src dst (SendNdp.ra_body ob) junk = Ok [f] /\ length f = (70 + length ob)%nat /\
    ref_ether f = Some {| re_dst := SendBase.a_mac dst; re_src := SendBase.host_mac c; re_type := 34525; re_payload := ipb |} /\
    ref_ip6 ipb = Some (ip6_expected_ref 58 255 (SendBase.a_ip src) (SendBase.a_ip dst) icmpb) /\
    firstn 2 icmpb = [134; 0] /\ firstn 12 (skipn 4 icmpb) = firstn 12 (skipn 4 (SendNdp.ra_body ob)) /\
    ref_nd_options (S (length ob)) (skipn 16 icmpb) = Some (map decoded_raw l).
Proof. exact glue_ra_path. Qed.
Print Assumptions C03_glue_ra_path.

Example C03_glue_nd_options_rt_ex :
  let pfx := [32;1;13;184;0;0;0;0;0;0;0;0;0;0;0;0] in
  exists ob,
    SendNdp.cat_opts [SendNdp.prefix_option 64 true true 7200 1800 pfx; SendNdp.mtu_option 1500;
                      SendNdp.lla_option 1 [2;0;0;0;0;1]] = Some ob /\
    length ob = 48%nat /\
    option_map (map fst) (ref_nd_options (S (length ob)) ob) = Some [3; 5; 1] /\
    option_map (find_opt 1) (ref_nd_options (S (length ob)) ob) = Some (Some [2;0;0;0;0;1]).
Proof. exact nd_options_rt_ex. Qed.
Print Assumptions C03_glue_nd_options_rt_ex.
