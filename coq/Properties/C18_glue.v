(* Properties/C18_glue.v — C18 integrated with the DHCP cluster's model (Model/DHCP.v, Proofs/DHCPInv.v, imported
   read-only).  Only statements, each closed by [exact] of a lemma of Proofs/LeaseGlue*.v.
   L = the lease-file model (Model/Lease.v), D = the DHCP server model (Model/DHCP.v); [abs_table] maps D's lease
   table to L's (client id N -> bytes, option ip -> netip.Addr, subnet pointer -> 1/2, seconds -> nanoseconds). *)
From PV Require Import Base.Prelude Model.LeaseBase Proofs.LeaseGlueStep Proofs.LeaseGlue Proofs.LeaseGlueServe.
From Coq Require Import Permutation.
Open Scope N_scope.

(* ---------------- restart, for every DHCP history, with NO hypothesis on the table ---------------- *)

(* For every configuration whose subnets in force are those of its own parameters (cfg_consistent: DHCP's sub_changed
   does not fire — a handler built by New, or one that kept the subnets of a lease file that passed configChanged;
   the netfilter prefix is inside the home LAN because the constructor succeeded, /repo 7a8efa9), every history h of
   DHCP ops
   (DISCOVER / REQUEST / DECLINE / RELEASE with arbitrary fields, Capture / Release, MinuteTicker, each with its own
   map-order oracle and clock; well-formed = the client id of every message encodes a byte string), every state s
   the constructor returned for that configuration, every map order in which the table is saved and every capture
   state at restart: constructing from the saved file gives the same subnets and exactly the acknowledged
   (client id, MAC, IP) bindings of the table the history led to.  Hypothesis yaml_roundtrip only. *)
Theorem C18_restart_all_histories :
  forall (text : Type) (print : L.doc -> text) (read : text -> L.input),
  LR.yaml_roundtrip text print read ->
  forall c h cap0 i0 s cap ord,
    hist_wf h -> cfg_consistent c ->
    L.new (abs_cfg c) cap0 i0 = Ok s ->
    let t := abs_table (D.tbl (fst (D.run c (D.init c) h))) in
    Permutation ord t ->
    exists s', L.new (abs_cfg c) cap (read (print (L.save (L.d_n1 s) (L.d_n2 s) ord))) = Ok s'
               /\ L.d_n1 s' = L.d_n1 s /\ L.d_n2 s' = L.d_n2 s
               /\ Permutation (L.bindings (L.d_table s')) (L.acked_bindings t).
Proof. exact restart_all_histories. Qed.
Print Assumptions C18_restart_all_histories.

(* the hypothesis [persistable] of C18_restart holds of every state satisfying DHCP's invariant Inv and the
   client-id/address facts below, hence (reachable_facts) of every reachable state *)
Theorem C18_persistable_reachable : forall c sD cap i s,
  cfg_consistent c -> DI.Inv c sD -> table_J (D.tbl sD) ->
  L.new (abs_cfg c) cap i = Ok s ->
  LK.persistable (L.d_n1 s) (abs_table (D.tbl sD)) = true.
Proof. exact persistable_reachable. Qed.
Print Assumptions C18_persistable_reachable.

Theorem C18_reachable_facts : forall c h,
  hist_wf h ->
  let sD := fst (D.run c (D.init c) h) in
  DI.Inv c sD /\ table_J (D.tbl sD) /\ NoDup (map L.l_cid (abs_table (D.tbl sD))).
Proof. exact reachable_facts. Qed.
Print Assumptions C18_reachable_facts.

(* one step of DHCP's model: every lease after it continues a lease before it (Allocated only if it was, with the
   same client id, MAC, address, subnet AND EXPIRY) or is made by the step's message (Allocated only if the reply is
   an ACK); the verif hook OSetExp (not library code) keeps everything but an expiry *)
Theorem C18_step_shaped : forall c ch s o s' rp,
  D.step c ch s o = (s', rp) ->
  forall l, In l (D.tbl s') ->
    kept (D.tbl s) l \/ (DC.op_msg o <> None /\ made (op_cid o) (is_ack_reply rp) l)
    \/ (hook_op o /\ kept_upto_exp (D.tbl s) l).
Proof. exact step_shaped. Qed.
Print Assumptions C18_step_shaped.

Example C18_glue_nonvacuous :
  hist_wf (DSh.with_ch0 h_live) /\ cfg_consistent gcfg
  /\ (exists s, L.new (abs_cfg gcfg) (fun _ => false) L.ReadErr = Ok s)
  /\ List.length (L.acked_bindings (abs_table (D.tbl (fst (D.run gcfg (D.init gcfg) (DSh.with_ch0 h_live)))))) = 2%nat.
Proof. exact glue_nonvacuous. Qed.
Print Assumptions C18_glue_nonvacuous.

(* ---------------- when is the file saved ---------------- *)

(* The lease file as a ghost component of DHCP's run: [run_file saves] keeps the table as of the last step for
   which the save policy [saves s reply s'] holds.  The code since /repo 9517ed8 saves after every ACK and wherever
   a binding is dropped; extensionally [saves_repaired]: after an ACK, and after every step in which some non-free
   lease does not survive as a non-free lease with the same client id, MAC, address and subnet.  That this is what
   the code does is checked by the harness, which compares the real file with the real table after EVERY step. *)

(* FULL (repaired code; histories of library ops, i.e. without the verif hook that rewrites an expiry in memory):
   after every history, every acknowledged lease of the table is in the file WITH ITS CURRENT EXPIRY (same_binding
   covers client id, MAC, address, subnet and expiry: every ACK — renewals, rebinding, reboot, duplicate SELECT
   included — saves), and every
   Allocated record of the file is a lease the table still holds — Allocated, or in state discover with the same
   binding (a client re-negotiating a lease it still holds; the file rightly keeps it). *)
Theorem C18_file_current : forall c h,
  lib_hist h ->
  let r := run_file saves_repaired c (D.init c) [] h in
  covers (snd r) (D.tbl (fst r)) /\ current_mod (snd r) (D.tbl (fst r)).
Proof. exact file_current_repaired. Qed.
Print Assumptions C18_file_current.

(* the same for ANY save policy that saves at least when a non-free lease is lost *)
Theorem C18_file_current_any_policy : forall saves,
  (forall c ch s o s1 rp, D.step c ch s o = (s1, rp) -> saves s rp s1 = false ->
     forall l, In l (D.tbl s) -> nonfree l -> nonfree_in (D.tbl s1) l) ->
  forall c h s f, current_mod f (D.tbl s) ->
    current_mod (snd (run_file saves c s f h)) (D.tbl (fst (run_file saves c s f h))).
Proof. exact current_mod_run. Qed.
Print Assumptions C18_file_current_any_policy.

(* Before /repo 9517ed8 the policy was "after an ACK only": a DECLINE freed the lease without saving and the file
   kept the declined binding (findings stale-file-after-*, fixed).  The round-3 statements about that policy
   (C18_file_current_ack_only_partial / _refuted) were retired in round 7: the behaviour is repaired and the positive
   statement is C18_file_current above; the former counterexample history is the Example below.  What remains true of
   ANY policy that saves at least after every ACK: nothing acknowledged is ever missing from the file. *)
Theorem C18_file_covers_any_policy : forall saves,
  (forall s rp s1, is_ack_reply rp = true -> saves s rp s1 = true) ->
  forall c h, lib_hist h -> forall s f, covers f (D.tbl s) ->
    covers (snd (run_file saves c s f h)) (D.tbl (fst (run_file saves c s f h))).
Proof. exact covers_run. Qed.
Print Assumptions C18_file_covers_any_policy.

(* the same history under the repaired policy: the DECLINE step saves, the file holds no Allocated record *)
Example C18_file_current_decline_repaired :
  let r := run_file saves_repaired gcfg (D.init gcfg) [] (DSh.with_ch0 h_decline) in
  forall l, In l (snd r) -> D.l_state l <> D.SAllocated.
Proof. exact file_current_decline_repaired. Qed.
Print Assumptions C18_file_current_decline_repaired.

(* ---------------- keeps serving, with DHCP's step ---------------- *)

(* At ANY state (hence at every point of every continuation after a restart at which the premises hold): the
   RENEWING request of a client whose lease is Allocated for x, on the subnet the client is on, unexpired, with the
   address not taken by anybody else, is answered with an ACK for x. *)
Theorem C18_keeps_serving_renew : forall c ch now s m l x,
  renewing_msg m x ->
  let s0 := D.parse_effect c s m in
  D.tget (D.getcid m) (D.tbl s) = Some l ->
  D.l_state l = D.SAllocated -> D.l_ip l = Some x -> D.l_mac l = D.m_chaddr m ->
  D.l_net2 l = D.sess_captured (D.ss s0) (D.m_chaddr m) ->
  (now <= D.l_exp l)%Z ->
  D.taken s0 l x = false ->
  exists r, snd (D.step c ch s (D.ORequest now m)) = Some r /\ D.r_type r = D.RAck /\ D.r_yi r = x.
Proof. exact renew_acked. Qed.
Print Assumptions C18_keeps_serving_renew.

(* At ANY state: a DISCOVER of client id k is never answered (OFFER) with an address that the table holds only in
   Allocated leases of other client ids — whatever the map order, capture state, host table, cursors, clock and
   requested address. *)
Theorem C18_keeps_serving_no_reoffer : forall c ch now s m s' r,
  D.step c ch s (D.ODiscover now m) = (s', Some r) ->
  held_by_others (D.tbl s) (D.getcid m) (D.r_yi r) -> False.
Proof. exact discover_not_held. Qed.
Print Assumptions C18_keeps_serving_no_reoffer.

(* a DHCP table whose abstraction is the table a constructor restored consists of Allocated leases only, so each
   of its addresses is [held_by_others] for every client id that is not one of its holders *)
Theorem C18_restored_all_allocated : forall c cap i s' tD,
  L.new c cap i = Ok s' -> abs_table tD = L.d_table s' ->
  forall l, In l tD -> D.l_state l = D.SAllocated.
Proof. exact restored_all_allocated. Qed.
Print Assumptions C18_restored_all_allocated.
