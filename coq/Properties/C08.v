(* Properties/C08.v — protocol handlers and payload-level decoders terminate without panic.
   Only statements, each closed by [exact] of a lemma proved in Proofs/.
   [r <> Panic /\ r <> Fuel] is [safe r] (Base/Prelude.v).  Slices carry length AND capacity
   ([wf]: len <= cap); none of the statements needs the bytes to be < 256.
   State of the code: after the repairs of DESIGN section 11 #12 (NDP zero-length option),
   #19 (NBNS loop + node-name array), #20 (mDNS SkipAnswer), #21 (SSDP CACHE-CONTROL) and of
   the hop-by-hop length guard, the full-strength statements hold; the two classes left
   (LLDP TLV length < 2: #7, embedded IPv4 header of an ICMPv4 error with TotalLen < IHL: #3)
   belong to the view getters (VIEWS cluster) and are stated as refuted / classified. *)
From PV Require Import Base.Prelude Base.Slice.
From PV Require Import Model.NDPOptions Model.MiscHopByHop Model.HandlersLoop Model.HandlersDnsMsg.
From PV Require Import Model.MiscDecoders Model.HandlersProc.
From PV Require Import Proofs.NDPOptions Proofs.MiscHopByHop Proofs.HandlersDnsMsg Proofs.MiscDecoders Proofs.HandlersProc.
Open Scope N_scope.

(* ---------------------------------------------------------------- *)
(* NDP options: newParseOptions + every option unmarshal (layer_icmp6_options.go).
   [lbl_ok] is the third-party label validation inside DNSSearchList.unmarshal (puny):
   universally quantified. *)
Theorem C08_ndp_options_total : forall lbl_ok b, wf b ->
  forall fuel, (len b < fuel)%nat ->
  new_parse_options lbl_ok fuel b <> Panic /\ new_parse_options lbl_ok fuel b <> Fuel.
Proof. exact new_parse_options_total. Qed.
Print Assumptions C08_ndp_options_total.

(* the exported entry points ICMP6RouterAdvertisement.Options / ICMP6RouterSolicitation.Options *)
Theorem C08_ra_options_total : forall lbl_ok p, wf p ->
  forall fuel, (len p < fuel)%nat ->
  ra_options lbl_ok fuel p <> Panic /\ ra_options lbl_ok fuel p <> Fuel.
Proof. exact ra_options_total. Qed.
Print Assumptions C08_ra_options_total.

Theorem C08_rs_options_total : forall lbl_ok p, wf p ->
  forall fuel, (len p < fuel)%nat ->
  rs_options lbl_ok fuel p <> Panic /\ rs_options lbl_ok fuel p <> Fuel.
Proof. exact rs_options_total. Qed.
Print Assumptions C08_rs_options_total.

Example C08_ndp_options_nonvacuous :
  bytes_ok sample_opts /\ new_parse_options (fun _ => true) 200 (of_bytes sample_opts) = Ok tt.
Proof. exact sample_opts_nonvacuous. Qed.
Print Assumptions C08_ndp_options_nonvacuous.

(* the former #12 witnesses (loop for type 31 / unknown, panic for type 1): now an error *)
Example C08_ndp_zero_length_option_is_error :
  new_parse_options (fun _ => true) 20 (of_bytes [31; 0; 0; 0; 0; 0; 0; 0]) = Err EOther /\
  new_parse_options (fun _ => true) 20 (of_bytes [1; 0; 0; 0; 0; 0; 0; 0]) = Err EOther.
Proof. exact zero_length_option_is_error. Qed.
Print Assumptions C08_ndp_zero_length_option_is_error.

(* ---------------------------------------------------------------- *)
(* ParseHopByHopExtensions (layer_ip6.go:113) *)
Theorem C08_hopbyhop_total : forall p, wf p ->
  forall fuel, (len p <= fuel)%nat -> hbh_parse fuel p <> Panic /\ hbh_parse fuel p <> Fuel.
Proof. exact hbh_parse_total. Qed.
Print Assumptions C08_hopbyhop_total.

Example C08_hopbyhop_short_is_error :
  hbh_parse 10 (of_bytes [58]) = Err EParseFrame /\
  hbh_parse 10 (of_bytes [58; 1; 1; 4; 0; 0; 0; 0]) = Err EParseFrame.
Proof. exact hbh_short_is_error. Qed.
Print Assumptions C08_hopbyhop_short_is_error.

Example C08_hopbyhop_nonvacuous :
  let p := of_bytes [58; 0; 5; 2; 0; 0; 1; 0; 1; 2] in
  wf p /\ hbh_is_valid p = true /\ hbh_parse 10 p = Ok tt.
Proof. exact hbh_nonvacuous. Qed.
Print Assumptions C08_hopbyhop_nonvacuous.

(* ---------------------------------------------------------------- *)
(* ProcessMDNS (handlers/dns_naming/mdns.go:314) over the abstract dnsmessage.Parser state
   machine (Model/HandlersDnsMsg.v): ALL structured messages — any header counts, any record
   stream, any outcome of the third-party header / body / skip operations. *)
Theorem C08_mdns_total : forall m fuel, (2 * length (m_recs m) + 8 <= fuel)%nat ->
  process_mdns fuel m <> Panic /\ process_mdns fuel m <> Fuel.
Proof. exact process_mdns_total. Qed.
Print Assumptions C08_mdns_total.

(* typed and untyped records in every section; the former witnesses of #20 (NSEC in the
   authority section) and of the ignored SkipAnswer error terminate *)
Example C08_mdns_nonvacuous :
  process_mdns 16 mdns_w_good = Ok tt /\ process_mdns 16 mdns_w_authority = Ok tt /\
  process_mdns 16 mdns_w_answer_nofit = Err EOther.
Proof. exact mdns_nonvacuous. Qed.
Print Assumptions C08_mdns_nonvacuous.

(* ---------------------------------------------------------------- *)
(* ProcessNBNS (nbns.go:223) + parseNodeNameArray (nbns.go:172, byte level) *)
Theorem C08_nbns_array_total : forall b, wf b ->
  node_status_response b <> Panic /\ node_status_response b <> Fuel.
Proof. exact node_status_total. Qed.
Print Assumptions C08_nbns_array_total.

Theorem C08_nbns_total : forall m valid fuel, (2 * length (m_recs m) + 4 <= fuel)%nat ->
  process_nbns fuel valid m <> Panic /\ process_nbns fuel valid m <> Fuel.
Proof. exact process_nbns_total. Qed.
Print Assumptions C08_nbns_total.

Example C08_nbns_nonvacuous :
  process_nbns 10 true nbns_w_good = Ok tt /\ process_nbns 10 true nbns_w_name_answer = Ok tt /\
  process_nbns 10 true nbns_w_unknown_answer = Ok tt.
Proof. exact nbns_nonvacuous. Qed.
Print Assumptions C08_nbns_nonvacuous.

(* ---------------------------------------------------------------- *)
(* DHCP4.IsValid / validateOptions / ParseOptions (layer_dhcp4.go): total for every slice *)
Theorem C08_dhcp_parse_options_total : forall p, wf p ->
  forall fuel, (len p < fuel)%nat ->
  dhcp_parse_options fuel p <> Panic /\ dhcp_parse_options fuel p <> Fuel.
Proof. exact dhcp_parse_options_total. Qed.
Print Assumptions C08_dhcp_parse_options_total.

Theorem C08_dhcp_is_valid_total : forall p, wf p ->
  forall fuel, (len p < fuel)%nat -> dhcp_is_valid fuel p <> Panic /\ dhcp_is_valid fuel p <> Fuel.
Proof. exact dhcp_is_valid_total. Qed.
Print Assumptions C08_dhcp_is_valid_total.

Example C08_dhcp_nonvacuous :
  bytes_ok dhcp_sample /\ dhcp_is_valid 300 (of_bytes dhcp_sample) = Ok tt /\
  dhcp_parse_options 300 (of_bytes dhcp_sample) = Ok tt.
Proof. exact dhcp_nonvacuous. Qed.
Print Assumptions C08_dhcp_nonvacuous.

(* Process8023Frame gates (layer_802_3.go:107): total *)
Theorem C08_process_8023_total : forall payload, wf payload ->
  process_8023 payload <> Panic /\ process_8023 payload <> Fuel.
Proof. exact process_8023_total. Qed.
Print Assumptions C08_process_8023_total.

(* LLDP.GetPDU (layer_ethernet.go:277): DESIGN section 11 #7 (getTLV belongs to VIEWS) *)
Theorem C08_lldp_refuted :
  bytes_ok lldp_w /\ known_C08_lldp_short_tlv (of_bytes lldp_w) 3 = true /\
  forall fuel, (8 < fuel)%nat -> lldp_get_pdu fuel (of_bytes lldp_w) 3 0 = Panic.
Proof. exact lldp_refuted. Qed.
Print Assumptions C08_lldp_refuted.

Theorem C08_lldp_partial : forall p pdu, wf p -> known_C08_lldp_short_tlv p pdu = false ->
  forall fuel, (len p < fuel)%nat ->
  lldp_get_pdu fuel p pdu 0 <> Panic /\ lldp_get_pdu fuel p pdu 0 <> Fuel.
Proof. exact lldp_get_pdu_partial. Qed.
Print Assumptions C08_lldp_partial.

Theorem C08_lldp_known_exact : forall p pdu, wf p -> known_C08_lldp_short_tlv p pdu = true ->
  forall fuel, (len p < fuel)%nat -> lldp_get_pdu fuel p pdu 0 = Panic.
Proof. exact lldp_get_pdu_known_panics. Qed.
Print Assumptions C08_lldp_known_exact.

Example C08_lldp_nonvacuous :
  known_C08_lldp_short_tlv (of_bytes lldp_good) 3 = false /\ lldp_get_pdu 30 (of_bytes lldp_good) 3 0 = Ok tt.
Proof. exact lldp_nonvacuous. Qed.
Print Assumptions C08_lldp_nonvacuous.

(* SSDP: CACHE-CONTROL parsing (ssdp.go:66, byte level) and processSSDP* over the structured
   view of the net/http result *)
Theorem C08_ssdp_cache_control_total : forall v,
  cache_control v <> Panic /\ cache_control v <> Fuel.
Proof. exact cache_control_total. Qed.
Print Assumptions C08_ssdp_cache_control_total.

Theorem C08_ssdp_total : forall v, process_ssdp v <> Panic /\ process_ssdp v <> Fuel.
Proof. exact process_ssdp_total. Qed.
Print Assumptions C08_ssdp_total.

(* "x=max-age" (the former #21 witness) and "max-age=1800" *)
Example C08_ssdp_nonvacuous :
  bytes_ok ssdp_cc_w /\ cache_control ssdp_cc_w = Ok tt /\ cache_control ssdp_cc_good = Ok tt.
Proof. exact ssdp_cc_nonvacuous. Qed.
Print Assumptions C08_ssdp_nonvacuous.

(* ---------------------------------------------------------------- *)
(* processors: byte-access skeletons (Model/HandlersProc.v) *)
Theorem C08_arp_total : forall p, wf p -> arp_process p <> Panic /\ arp_process p <> Fuel.
Proof. exact arp_process_total. Qed.
Print Assumptions C08_arp_total.

Theorem C08_dhcp4_total : forall p, wf p -> forall fuel, (len p < fuel)%nat ->
  dhcp4_process fuel p <> Panic /\ dhcp4_process fuel p <> Fuel.
Proof. exact dhcp4_process_total. Qed.
Print Assumptions C08_dhcp4_total.

(* ICMPv4 logger: DESIGN section 11 #3 reached through the embedded header (IP4.IsValid /
   IP4.Payload belong to VIEWS) *)
Theorem C08_icmp4_refuted :
  bytes_ok icmp4_w /\ known_C08_icmp4_inner (of_bytes icmp4_w) = true /\ icmp4_process (of_bytes icmp4_w) = Panic.
Proof. exact icmp4_refuted. Qed.
Print Assumptions C08_icmp4_refuted.

Theorem C08_icmp4_classified : forall p, wf p ->
  if known_C08_icmp4_inner p then icmp4_process p = Panic
  else icmp4_process p <> Panic /\ icmp4_process p <> Fuel.
Proof. exact icmp4_process_classified. Qed.
Print Assumptions C08_icmp4_classified.

Example C08_icmp4_nonvacuous :
  known_C08_icmp4_inner (of_bytes icmp4_good) = false /\ icmp4_process (of_bytes icmp4_good) = Ok tt.
Proof. exact icmp4_nonvacuous. Qed.
Print Assumptions C08_icmp4_nonvacuous.

Theorem C08_icmp6_total : forall lbl_ok p ra_processed, wf p ->
  forall fuel, (len p < fuel)%nat ->
  icmp6_process lbl_ok fuel ra_processed p <> Panic /\ icmp6_process lbl_ok fuel ra_processed p <> Fuel.
Proof. exact icmp6_process_total. Qed.
Print Assumptions C08_icmp6_total.
