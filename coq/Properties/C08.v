(* Properties/C08.v — protocol handlers and payload-level decoders terminate without panic.
   Only statements, each closed by [exact] of a lemma proved in Proofs/.
   [r <> Panic /\ r <> Fuel] is [safe r] (Base/Prelude.v).  Slices carry length AND capacity
   ([wf]: len <= cap); none of the statements needs the bytes to be < 256.
   State of the code: after the repairs of DESIGN section 11 #12 (NDP zero-length option),
   #19 (NBNS loop + node-name array), #20 (mDNS SkipAnswer), #21 (SSDP CACHE-CONTROL) and of
   the hop-by-hop length guard, and of #3 / #7 by the VIEWS cluster (IP4.IsValid, LLDP.getTLV),
   and of the DHCPv4 reply overrun (EncodeDHCP4, 720d31a, ENCODE cluster), every statement
   holds at full strength: no defect class is left. *)
From PV Require Import Base.Prelude Base.Slice.
From PV Require Import Model.NDPOptions Model.MiscHopByHop Model.HandlersLoop Model.HandlersDnsMsg.
From PV Require Import Model.MiscDecoders Model.HandlersProc.
From PV Require Import Proofs.NDPOptions Proofs.MiscHopByHop Proofs.HandlersDnsMsg Proofs.MiscDecoders Proofs.HandlersProc Proofs.HandlersProgress.
Open Scope N_scope.

(* ---------------------------------------------------------------- *)
(* NDP options: newParseOptions + every option unmarshal (layer_icmp6_options.go).
   [lbl_ok] is the third-party label validation inside DNSSearchList.unmarshal (puny):
   universally quantified. *)
Theorem C08_ndp_options_total : forall lbl_ok b, wf b ->
  forall fuel, (len b < fuel)%nat ->
  new_parse_options lbl_ok fuel b <> Panic /\ new_parse_options lbl_ok fuel b <> Fuel.
Proof. exact new_parse_options_total. Qed.
Print Assumptions C08_ndp_options_total.

(* the exported entry points ICMP6RouterAdvertisement.Options / ICMP6RouterSolicitation.Options *)
Theorem C08_ra_options_total : forall lbl_ok p, wf p ->
  forall fuel, (len p < fuel)%nat ->
  ra_options lbl_ok fuel p <> Panic /\ ra_options lbl_ok fuel p <> Fuel.
Proof. exact ra_options_total. Qed.
Print Assumptions C08_ra_options_total.

Theorem C08_rs_options_total : forall lbl_ok p, wf p ->
  forall fuel, (len p < fuel)%nat ->
  rs_options lbl_ok fuel p <> Panic /\ rs_options lbl_ok fuel p <> Fuel.
Proof. exact rs_options_total. Qed.
Print Assumptions C08_rs_options_total.

Example C08_ndp_options_nonvacuous :
  bytes_ok sample_opts /\ new_parse_options (fun _ => true) 200 (of_bytes sample_opts) = Ok tt.
Proof. exact sample_opts_nonvacuous. Qed.
Print Assumptions C08_ndp_options_nonvacuous.

(* the former #12 witnesses (loop for type 31 / unknown, panic for type 1): now an error *)
Example C08_ndp_zero_length_option_is_error :
  new_parse_options (fun _ => true) 20 (of_bytes [31; 0; 0; 0; 0; 0; 0; 0]) = Err EOther /\
  new_parse_options (fun _ => true) 20 (of_bytes [1; 0; 0; 0; 0; 0; 0; 0]) = Err EOther.
Proof. exact zero_length_option_is_error. Qed.
Print Assumptions C08_ndp_zero_length_option_is_error.

(* ---------------------------------------------------------------- *)
(* ParseHopByHopExtensions (layer_ip6.go:113) *)
Theorem C08_hopbyhop_total : forall p, wf p ->
  forall fuel, (len p <= fuel)%nat -> hbh_parse fuel p <> Panic /\ hbh_parse fuel p <> Fuel.
Proof. exact hbh_parse_total. Qed.
Print Assumptions C08_hopbyhop_total.

Example C08_hopbyhop_short_is_error :
  hbh_parse 10 (of_bytes [58]) = Err EParseFrame /\
  hbh_parse 10 (of_bytes [58; 1; 1; 4; 0; 0; 0; 0]) = Err EParseFrame.
Proof. exact hbh_short_is_error. Qed.
Print Assumptions C08_hopbyhop_short_is_error.

Example C08_hopbyhop_nonvacuous :
  let p := of_bytes [58; 0; 5; 2; 0; 0; 1; 0; 1; 2] in
  wf p /\ hbh_is_valid p = true /\ hbh_parse 10 p = Ok tt.
Proof. exact hbh_nonvacuous. Qed.
Print Assumptions C08_hopbyhop_nonvacuous.

(* ---------------------------------------------------------------- *)
(* ProcessMDNS (handlers/dns_naming/mdns.go:314) over the abstract dnsmessage.Parser state
   machine (Model/HandlersDnsMsg.v): ALL structured messages — any header counts, any record
   stream, any outcome of the third-party header / body / skip operations. *)
Theorem C08_mdns_total : forall m fuel, (2 * length (m_recs m) + 8 <= fuel)%nat ->
  process_mdns fuel m <> Panic /\ process_mdns fuel m <> Fuel.
Proof. exact process_mdns_total. Qed.
Print Assumptions C08_mdns_total.

(* typed and untyped records in every section; the former witnesses of #20 (NSEC in the
   authority section) and of the ignored SkipAnswer error terminate *)
Example C08_mdns_nonvacuous :
  process_mdns 16 mdns_w_good = Ok tt /\ process_mdns 16 mdns_w_authority = Ok tt /\
  process_mdns 16 mdns_w_answer_nofit = Err EOther.
Proof. exact mdns_nonvacuous. Qed.
Print Assumptions C08_mdns_nonvacuous.

(* ---------------------------------------------------------------- *)
(* ProcessNBNS (nbns.go:223) + parseNodeNameArray (nbns.go:172, byte level) *)
Theorem C08_nbns_array_total : forall b, wf b ->
  node_status_response b <> Panic /\ node_status_response b <> Fuel.
Proof. exact node_status_total. Qed.
Print Assumptions C08_nbns_array_total.

Theorem C08_nbns_total : forall m valid fuel, (2 * length (m_recs m) + 4 <= fuel)%nat ->
  process_nbns fuel valid m <> Panic /\ process_nbns fuel valid m <> Fuel.
Proof. exact process_nbns_total. Qed.
Print Assumptions C08_nbns_total.

Example C08_nbns_nonvacuous :
  process_nbns 10 true nbns_w_good = Ok tt /\ process_nbns 10 true nbns_w_name_answer = Ok tt /\
  process_nbns 10 true nbns_w_unknown_answer = Ok tt.
Proof. exact nbns_nonvacuous. Qed.
Print Assumptions C08_nbns_nonvacuous.

(* ---------------------------------------------------------------- *)
(* DHCP4.IsValid / validateOptions / ParseOptions (layer_dhcp4.go): total for every slice *)
Theorem C08_dhcp_parse_options_total : forall p, wf p ->
  forall fuel, (len p < fuel)%nat ->
  dhcp_parse_options fuel p <> Panic /\ dhcp_parse_options fuel p <> Fuel.
Proof. exact dhcp_parse_options_total. Qed.
Print Assumptions C08_dhcp_parse_options_total.

Theorem C08_dhcp_is_valid_total : forall p, wf p ->
  forall fuel, (len p < fuel)%nat -> dhcp_is_valid fuel p <> Panic /\ dhcp_is_valid fuel p <> Fuel.
Proof. exact dhcp_is_valid_total. Qed.
Print Assumptions C08_dhcp_is_valid_total.

Example C08_dhcp_nonvacuous :
  bytes_ok dhcp_sample /\ dhcp_is_valid 300 (of_bytes dhcp_sample) = Ok tt /\
  dhcp_parse_options 300 (of_bytes dhcp_sample) = Ok tt.
Proof. exact dhcp_nonvacuous. Qed.
Print Assumptions C08_dhcp_nonvacuous.

(* Process8023Frame gates (layer_802_3.go:107): total *)
Theorem C08_process_8023_total : forall payload, wf payload ->
  process_8023 payload <> Panic /\ process_8023 payload <> Fuel.
Proof. exact process_8023_total. Qed.
Print Assumptions C08_process_8023_total.

(* LLDP.GetPDU (layer_ethernet.go:277; getTLV as repaired by 5551427): total *)
Theorem C08_lldp_total : forall p pdu, wf p ->
  forall fuel, (len p < fuel)%nat ->
  lldp_get_pdu fuel p pdu 0 <> Panic /\ lldp_get_pdu fuel p pdu 0 <> Fuel.
Proof. exact lldp_get_pdu_total. Qed.
Print Assumptions C08_lldp_total.

(* LLDP frames through the dispatcher: IsValid then GetPDU *)
Theorem C08_lldp_process_total : forall p pdu, wf p ->
  forall fuel, (len p < fuel)%nat ->
  lldp_process fuel p pdu <> Panic /\ lldp_process fuel p pdu <> Fuel.
Proof. exact lldp_process_total. Qed.
Print Assumptions C08_lldp_process_total.

(* the former #7 witness (TLV of length 1) and a regular chain *)
Example C08_lldp_nonvacuous :
  bytes_ok lldp_w /\ lldp_get_pdu 30 (of_bytes lldp_w) 3 0 = Ok tt /\ lldp_get_pdu 30 (of_bytes lldp_good) 3 0 = Ok tt.
Proof. exact lldp_nonvacuous. Qed.
Print Assumptions C08_lldp_nonvacuous.

(* UPNPServiceDiscovery (upnp.go:80) over the outcome of the HTTP exchange and of xml.Unmarshal *)
Theorem C08_upnp_total : forall fetch_ok xml_ok,
  upnp_discovery fetch_ok xml_ok <> Panic /\ upnp_discovery fetch_ok xml_ok <> Fuel.
Proof. exact upnp_discovery_total. Qed.
Print Assumptions C08_upnp_total.

(* SSDP: CACHE-CONTROL parsing (ssdp.go:66, byte level) and processSSDP* over the structured
   view of the net/http result *)
Theorem C08_ssdp_cache_control_total : forall v,
  cache_control v <> Panic /\ cache_control v <> Fuel.
Proof. exact cache_control_total. Qed.
Print Assumptions C08_ssdp_cache_control_total.

Theorem C08_ssdp_total : forall v, process_ssdp v <> Panic /\ process_ssdp v <> Fuel.
Proof. exact process_ssdp_total. Qed.
Print Assumptions C08_ssdp_total.

(* "x=max-age" (the former #21 witness) and "max-age=1800" *)
Example C08_ssdp_nonvacuous :
  bytes_ok ssdp_cc_w /\ cache_control ssdp_cc_w = Ok tt /\ cache_control ssdp_cc_good = Ok tt.
Proof. exact ssdp_cc_nonvacuous. Qed.
Print Assumptions C08_ssdp_nonvacuous.

(* ---------------------------------------------------------------- *)
(* processors (Model/HandlersProc.v): the control flow that indexes, slices, loops or calls a
   decoder; every branch on table state is a parameter ([*_env]) quantified here.
   LLMNR frames (PayloadLLMNR) are dispatched to ProcessMDNS: C08_mdns_total. *)

(* ARP ProcessPacket: request / probe / announcement / reply classification, for every state
   (closed, sender hunted, DHCP offer pending, log level), router address and LAN predicate *)
Theorem C08_arp_total : forall e router lan p, wf p ->
  arp_process e router lan p <> Panic /\ arp_process e router lan p <> Fuel.
Proof. exact arp_process_total. Qed.
Print Assumptions C08_arp_total.

(* DHCPv4 ProcessPacket / processClientPacket.  The one place where the processor writes: the
   OFFER/ACK/NAK is encoded INTO the request buffer (EncodeDHCP4(p, ...), layer_dhcp4.go:355; the
   NAK carries the client identifier back); with the capacity check of 720d31a: total for every
   state (port, lease decision, reply size, log level) *)
Theorem C08_dhcp4_total : forall e p, wf p ->
  forall fuel, (len p < fuel)%nat ->
  dhcp4_process fuel e p <> Panic /\ dhcp4_process fuel e p <> Fuel.
Proof. exact dhcp4_process_total. Qed.
Print Assumptions C08_dhcp4_total.

(* the former witness of the reply overrun (60-byte client identifier, buffer of exactly the
   request length) and a DISCOVER answered by an OFFER *)
Example C08_dhcp4_nonvacuous :
  bytes_ok dhcp_nak_w /\
  dhcp4_process 400 (mkDhcpEnv false RNak false) (of_bytes dhcp_nak_w) = Ok tt /\
  dhcp4_process 400 (mkDhcpEnv false (ROther 33) true) (of_bytes (dhcp_sample ++ repeat 0 60)) = Ok tt.
Proof. exact dhcp4_nonvacuous. Qed.
Print Assumptions C08_dhcp4_nonvacuous.

(* ICMPv4 logger incl. the nested IPv4/UDP/TCP decode of destination unreachable
   (IP4.IsValid as repaired by 38ef1da, TCP.IsValid by 3443f46): total *)
Theorem C08_icmp4_total : forall info p, wf p ->
  icmp4_process info p <> Panic /\ icmp4_process info p <> Fuel.
Proof. exact icmp4_process_total. Qed.
Print Assumptions C08_icmp4_total.

(* the former #3 witness (embedded header with TotalLen < IHL) is now an error *)
Example C08_icmp4_nonvacuous :
  bytes_ok icmp4_w /\ icmp4_process true (of_bytes icmp4_w) = Err EParseFrame /\
  icmp4_process true (of_bytes icmp4_good) = Ok tt.
Proof. exact icmp4_nonvacuous. Qed.
Print Assumptions C08_icmp4_nonvacuous.

(* ICMPv6 ProcessPacket: every message type (NA/NS target + options, RA options, RS, echo,
   redirect, MLD, unreachable), for every state (log level, RA processed, hunt list) and every
   IPv6 view pkt.IP6() — nil included: Parse classifies an IPv4 packet with protocol 58 as
   PayloadICMP6 without an IPv6 header (gate of d9f9e28) *)
Theorem C08_icmp6_total : forall lbl_ok p e ip6, wf p -> wf (ip6_view ip6) ->
  forall fuel, (len p < fuel)%nat ->
  icmp6_process lbl_ok fuel e ip6 p <> Panic /\ icmp6_process lbl_ok fuel e ip6 p <> Fuel.
Proof. exact icmp6_process_total. Qed.
Print Assumptions C08_icmp6_total.

Example C08_icmp6_without_ip6_header :
  icmp6_process (fun _ => true) 100 (mkIcmp6Env true true true) None
                (of_bytes [135; 0; 0; 0; 0; 0; 0; 0; 254; 128; 0; 0; 0; 0; 0; 0; 0; 0; 0; 0; 0; 0; 0; 1]) = Err EFrameLen.
Proof. exact icmp6_without_ip6_header. Qed.
Print Assumptions C08_icmp6_without_ip6_header.

(* ---------------------------------------------------------------- *)
(* PROGRESS: one iteration of every option / TLV / record walker either ends the walk (result
   independent of the remaining fuel) or continues strictly further into the input, for EVERY
   input.  [iteration run adv s]: (exists r, forall f, run (S f) s = r) \/
   (exists s', adv s s' /\ forall f, run (S f) s = run f s'). *)
Theorem C08_progress_ndp_options : forall lbl_ok b i, wf b -> (i <= len b)%nat ->
  iteration (fun f i => parse_opts lbl_ok f b i) (fun i i' => (i + 8 <= i')%nat /\ (i' <= len b)%nat) i.
Proof. exact progress_parse_opts. Qed.
Print Assumptions C08_progress_ndp_options.

Theorem C08_progress_dnssl : forall lbl_ok v have i, cap v = len v -> (i <= len v)%nat ->
  (exists r, forall f, dnssl_loop lbl_ok (S f) v i have = r) \/
  (exists i' have', (i + 2 <= i')%nat /\ (i' <= len v)%nat /\
                    forall f, dnssl_loop lbl_ok (S f) v i have = dnssl_loop lbl_ok f v i' have').
Proof. exact progress_dnssl_loop. Qed.
Print Assumptions C08_progress_dnssl.

(* the same with the validation written as it is in the code: a third-party transformation
   [to_unicode] (puny.ToUnicode) of the wire label followed by tests of the DECODED text.  The
   cursor of the model advances by the WIRE length (1 + length octet), so progress and the bounds
   hold for an ARBITRARY decoded string: the cursor must not depend on it (seeded C08-9 advanced by
   the decoded length and overran the option for an A-label that expands) *)
Theorem C08_progress_dnssl_any_decoding : forall (to_unicode : bytes -> bytes) (wire_ok decoded_ok : bytes -> bool) v have i,
  cap v = len v -> (i <= len v)%nat ->
  let lbl_ok := fun l => wire_ok l && decoded_ok (to_unicode l) in
  (exists r, forall f, dnssl_loop lbl_ok (S f) v i have = r) \/
  (exists i' have', (i + 2 <= i')%nat /\ (i' <= len v)%nat /\
                    forall f, dnssl_loop lbl_ok (S f) v i have = dnssl_loop lbl_ok f v i' have').
Proof. intros to_unicode wire_ok decoded_ok. exact (progress_dnssl_loop _). Qed.
Print Assumptions C08_progress_dnssl_any_decoding.

Theorem C08_progress_hopbyhop : forall data pos, wf data -> (pos <= len data)%nat ->
  iteration (fun f pos => hbh_loop f data pos) (fun pos pos' => (pos < pos')%nat /\ (pos' < len data)%nat) pos.
Proof. exact progress_hbh_loop. Qed.
Print Assumptions C08_progress_hopbyhop.

Theorem C08_progress_dhcp_options : forall strict opts, wf opts ->
  iteration (fun f o => dhcp_walk strict f o) (fun o o' => wf o' /\ (len o' < len o)%nat) opts.
Proof. exact progress_dhcp_walk. Qed.
Print Assumptions C08_progress_dhcp_options.

Theorem C08_progress_lldp : forall p pdu pos, wf p ->
  iteration (fun f pos => lldp_get_pdu f p pdu pos) (fun pos pos' => (pos + 2 <= pos')%nat /\ (pos' <= len p)%nat) pos.
Proof. exact progress_lldp_get_pdu. Qed.
Print Assumptions C08_progress_lldp.

(* record loops: a continuing iteration consumes a record or leaves a section (measure decreases) *)
Theorem C08_progress_mdns : forall m x x', mdns_inv x -> mdns_step m x = Cont x' ->
  mdns_inv x' /\ (mdns_mu m x' < mdns_mu m x)%nat.
Proof. exact progress_mdns_step. Qed.
Print Assumptions C08_progress_mdns.

Theorem C08_progress_nbns : forall m st st', nbns_inv st -> nbns_step m st = Cont st' ->
  nbns_inv st' /\ (pmu m st' < pmu m st)%nat.
Proof. exact progress_nbns_step. Qed.
Print Assumptions C08_progress_nbns.

(* parseTXT (mdnsService.go:53): the TXT strings of an mDNS record, split on '=' *)
Theorem C08_parse_txt_total : forall txt, parse_txt txt <> Panic /\ parse_txt txt <> Fuel.
Proof. exact parse_txt_total. Qed.
Print Assumptions C08_parse_txt_total.
