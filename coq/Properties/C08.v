(* Properties/C08.v — protocol handlers and payload-level decoders terminate without panic.
   Only statements, each closed by [exact] of a lemma proved in Proofs/.
   [safe r] is [r <> Panic /\ r <> Fuel] (Base/Prelude.v). *)
From PV Require Import Base.Prelude Base.Slice.
From PV Require Import Model.NDPOptions Model.MiscHopByHop.
From PV Require Import Proofs.NDPOptions Proofs.MiscHopByHop.
Open Scope N_scope.

(* ---------------------------------------------------------------- *)
(* NDP options: newParseOptions + every option unmarshal (layer_icmp6_options.go).
   [lbl_ok] is the third-party label validation inside DNSSearchList.unmarshal (puny):
   universally quantified. Slices carry length and capacity. *)

(* full-strength statement is false on the code as it is (DESIGN section 11 #12): *)
Theorem C08_ndp_options_loop_refuted : forall lbl_ok t rest,
  panics_type t = false ->
  forall fuel, new_parse_options lbl_ok fuel (of_bytes (t :: 0 :: rest)) = Fuel.
Proof. exact new_parse_options_loop_refuted. Qed.
Print Assumptions C08_ndp_options_loop_refuted.

Theorem C08_ndp_options_panic_refuted : forall lbl_ok t rest,
  panics_type t = true ->
  forall fuel, (0 < fuel)%nat -> new_parse_options lbl_ok fuel (of_bytes (t :: 0 :: rest)) = Panic.
Proof. exact new_parse_options_panic_refuted. Qed.
Print Assumptions C08_ndp_options_panic_refuted.

(* outside the class "the option walk reaches an option with length byte 0": total,
   fuel bound linear in the input length *)
Theorem C08_ndp_options_partial : forall lbl_ok b, wf b ->
  known_C08_ndp_zero b = ZNone ->
  forall fuel, (len b < fuel)%nat ->
  new_parse_options lbl_ok fuel b <> Panic /\ new_parse_options lbl_ok fuel b <> Fuel.
Proof. exact new_parse_options_partial. Qed.
Print Assumptions C08_ndp_options_partial.

(* the two keys are exact: a panic only in the panic class, non-termination only in the loop class *)
Theorem C08_ndp_options_keys_exact : forall lbl_ok b, wf b ->
  forall fuel, (len b < fuel)%nat ->
  (new_parse_options lbl_ok fuel b = Panic -> known_C08_ndp_zero_panic b = true) /\
  (new_parse_options lbl_ok fuel b = Fuel -> known_C08_ndp_zero_loop b = true).
Proof. exact new_parse_options_panic_only_known. Qed.
Print Assumptions C08_ndp_options_keys_exact.

(* the exported entry points ICMP6RouterAdvertisement.Options / ICMP6RouterSolicitation.Options *)
Theorem C08_ra_options_partial : forall lbl_ok p, wf p ->
  known_C08_ndp_zero (mkSlice (skipn 16 (arr p)) (len p - 16)) = ZNone ->
  forall fuel, (len p < fuel)%nat ->
  ra_options lbl_ok fuel p <> Panic /\ ra_options lbl_ok fuel p <> Fuel.
Proof. exact ra_options_partial. Qed.
Print Assumptions C08_ra_options_partial.

Theorem C08_rs_options_partial : forall lbl_ok p, wf p ->
  known_C08_ndp_zero (mkSlice (skipn 24 (arr p)) (len p - 24)) = ZNone ->
  forall fuel, (len p < fuel)%nat ->
  rs_options lbl_ok fuel p <> Panic /\ rs_options lbl_ok fuel p <> Fuel.
Proof. exact rs_options_partial. Qed.
Print Assumptions C08_rs_options_partial.

Example C08_ndp_options_nonvacuous :
  bytes_ok sample_opts /\ known_C08_ndp_zero (of_bytes sample_opts) = ZNone /\
  new_parse_options (fun _ => true) 200 (of_bytes sample_opts) = Ok tt.
Proof. exact sample_opts_nonvacuous. Qed.
Print Assumptions C08_ndp_options_nonvacuous.

(* ---------------------------------------------------------------- *)
(* ParseHopByHopExtensions (layer_ip6.go:113) *)

Theorem C08_hopbyhop_refuted :
  exists p, wf p /\ bytes_ok (arr p) /\ forall fuel, hbh_parse fuel p = Panic.
Proof. exact hbh_parse_refuted. Qed.
Print Assumptions C08_hopbyhop_refuted.

Theorem C08_hopbyhop_partial : forall p, wf p -> known_C08_hbh_short p = false ->
  forall fuel, (cap p <= fuel)%nat -> hbh_parse fuel p <> Panic /\ hbh_parse fuel p <> Fuel.
Proof. exact hbh_parse_partial. Qed.
Print Assumptions C08_hopbyhop_partial.

Theorem C08_hopbyhop_known_exact : forall p, wf p -> known_C08_hbh_short p = true ->
  forall fuel, hbh_parse fuel p = Panic.
Proof. exact hbh_parse_short_panics. Qed.
Print Assumptions C08_hopbyhop_known_exact.

(* after the library's own IsValid the decoder is total *)
Theorem C08_hopbyhop_valid_total : forall p, wf p -> hbh_is_valid p = true ->
  forall fuel, (len p <= fuel)%nat -> hbh_parse fuel p <> Panic /\ hbh_parse fuel p <> Fuel.
Proof. exact hbh_parse_valid. Qed.
Print Assumptions C08_hopbyhop_valid_total.

Example C08_hopbyhop_nonvacuous :
  let p := of_bytes [58; 0; 5; 2; 0; 0; 1; 0; 1; 2] in
  wf p /\ hbh_is_valid p = true /\ known_C08_hbh_short p = false /\ hbh_parse 10 p = Ok tt.
Proof. exact hbh_nonvacuous. Qed.
Print Assumptions C08_hopbyhop_nonvacuous.
